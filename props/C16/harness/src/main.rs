//! C16 — reference transactions implement compare-and-swap atomically.
//!
//! Case (fields are hex on the wire, shown decoded):
//!   hist <loose> <packed> <ops>
//!     loose  : `name:target,...`        target = `@fullname` (symbolic) | one hex char c (object number c)
//!     packed : `` (no packed-refs file) | `=name:c,...` (file exists, sorted entries)
//!     ops    : op;op;...   with
//!        T|<mode 0|1|2>|<commit 0|1>|<edits>     a gix transaction (prepare, then commit or rollback)
//!              edits  : `name:deref:K:expected:new:log,...`
//!                       K = U|D, expected = A|E|N|M<target>|X<target>, new = target | `-`, log = R | L
//!        U|<name>|<c>       `git update-ref --no-deref <name> <oid c>`
//!        X|<name>           `git update-ref --no-deref -d <name>`
//!        Y|<name>|<target>  `git symbolic-ref <name> <target>`
//!        K                  `git pack-refs --all`
//!
//! Transcript: one segment per op, joined by ` / `:
//!   <result> S:<loose files>|<packed-refs> K:<lock files> V:<name=value as found by file::Store::try_find>
//! result = ok | rollback | P:err <kind>[ <full_name>] | C:err <kind> | git-ok | git-err
mod generate;

use gix_lock::acquire::Fail;
use gix_ref::{
    file,
    file::transaction::PackedRefs,
    transaction::{Change, LogChange, PreviousValue, RefEdit, RefLog},
    FullName, Target,
};
use gixv_common::{f_str, main_with, Case, Harness, Verdict};
use std::collections::BTreeMap;
use std::path::{Path, PathBuf};
use std::sync::atomic::{AtomicU64, Ordering};
use std::sync::OnceLock;
use std::time::Duration;

// ---------------------------------------------------------------- objects

/// object number (one hex char) -> kind and content. 0..b are commits; c,d,f are tags of commits 1,2,3;
/// e is a tag of tag c.
fn tag_target(c: u8) -> Option<u8> {
    match c {
        b'c' => Some(b'1'),
        b'd' => Some(b'2'),
        b'e' => Some(b'c'),
        b'f' => Some(b'3'),
        _ => None,
    }
}
fn peel(c: u8) -> u8 {
    let mut c = c;
    while let Some(t) = tag_target(c) {
        c = t;
    }
    c
}
const HEXCHARS: &[u8] = b"0123456789abcdef";
const EMPTY_TREE: &str = "4b825dc642cb6eb9a060e54bf8d69288fbee4904";

struct Obj {
    c: u8,
    id: gix_hash::ObjectId,
    kind: gix_object::Kind,
    data: Vec<u8>,
}
fn objects() -> &'static Vec<Obj> {
    static O: OnceLock<Vec<Obj>> = OnceLock::new();
    O.get_or_init(|| {
        let mut v: Vec<Obj> = Vec::new();
        for &c in HEXCHARS {
            let (kind, data) = match tag_target(c) {
                None => (
                    gix_object::Kind::Commit,
                    format!(
                        "tree {EMPTY_TREE}\nauthor A <a@b.c> 1 +0000\ncommitter A <a@b.c> 1 +0000\n\nc{}\n",
                        c as char
                    )
                    .into_bytes(),
                ),
                Some(t) => {
                    let target = v.iter().find(|o| o.c == t).expect("targets come first");
                    (
                        gix_object::Kind::Tag,
                        format!(
                            "object {}\ntype {}\ntag t{}\ntagger A <a@b.c> 1 +0000\n\nm\n",
                            target.id,
                            if target.kind == gix_object::Kind::Tag { "tag" } else { "commit" },
                            c as char
                        )
                        .into_bytes(),
                    )
                }
            };
            let id = gix_object::compute_hash(gix_hash::Kind::Sha1, kind, &data);
            v.push(Obj { c, id, kind, data });
        }
        v
    })
}
fn oid_of(c: u8) -> gix_hash::ObjectId {
    objects().iter().find(|o| o.c == c).expect("hex char").id
}
fn oid_text(hex: &str) -> String {
    match objects().iter().find(|o| o.id.to_hex().to_string() == hex) {
        Some(o) => (o.c as char).to_string(),
        None => format!("?{hex}"),
    }
}
struct Table;
impl gix_object::Find for Table {
    fn try_find<'a>(
        &self,
        id: &gix_hash::oid,
        buffer: &'a mut Vec<u8>,
    ) -> Result<Option<gix_object::Data<'a>>, gix_object::find::Error> {
        match objects().iter().find(|o| o.id == id) {
            Some(o) => {
                buffer.clear();
                buffer.extend_from_slice(&o.data);
                Ok(Some(gix_object::Data { kind: o.kind, data: &buffer[..] }))
            }
            None => Ok(None),
        }
    }
}
/// A real object directory for git (shared by all cases of all processes; content is fixed).
fn objects_dir() -> &'static PathBuf {
    static D: OnceLock<PathBuf> = OnceLock::new();
    D.get_or_init(|| {
        use gix_odb::Write;
        let dir = base_dir().join("gixv-c16-objects");
        std::fs::create_dir_all(&dir).expect("mkdir objects");
        let store = gix_odb::loose::Store::at(dir.clone(), gix_hash::Kind::Sha1);
        let tree = store.write_buf(gix_object::Kind::Tree, b"").expect("write tree");
        assert_eq!(tree.to_hex().to_string(), EMPTY_TREE);
        for o in objects() {
            let id = store.write_buf(o.kind, &o.data).expect("write object");
            assert_eq!(id, o.id);
        }
        dir
    })
}

// ---------------------------------------------------------------- decoding of case text

fn s(b: &[u8]) -> String {
    String::from_utf8_lossy(b).into_owned()
}
fn split(b: &[u8], sep: u8) -> Vec<Vec<u8>> {
    if b.is_empty() {
        return vec![];
    }
    b.split(|c| *c == sep).map(|x| x.to_vec()).collect()
}
fn is_hex_char(c: u8) -> bool {
    c.is_ascii_digit() || (b'a'..=b'f').contains(&c)
}
fn target_of(t: &[u8]) -> Option<Target> {
    if let Some(name) = t.strip_prefix(b"@") {
        Some(Target::Symbolic(FullName::try_from(s(name).as_str()).ok()?))
    } else if t.len() == 1 && is_hex_char(t[0]) {
        Some(Target::Object(oid_of(t[0])))
    } else {
        None
    }
}
fn target_text(t: &Target) -> String {
    match t {
        Target::Symbolic(n) => format!("@{}", s(n.as_bstr())),
        Target::Object(id) => oid_text(&id.to_hex().to_string()),
    }
}
fn expected_of(t: &[u8]) -> Option<PreviousValue> {
    Some(match t.first()? {
        b'A' if t.len() == 1 => PreviousValue::Any,
        b'E' if t.len() == 1 => PreviousValue::MustExist,
        b'N' if t.len() == 1 => PreviousValue::MustNotExist,
        b'M' => PreviousValue::MustExistAndMatch(target_of(&t[1..])?),
        b'X' => PreviousValue::ExistingMustMatch(target_of(&t[1..])?),
        _ => return None,
    })
}
fn edit_of(e: &[u8]) -> Option<RefEdit> {
    let p = split(e, b':');
    if p.len() != 6 {
        return None;
    }
    let name = FullName::try_from(s(&p[0]).as_str()).ok()?;
    let deref = match p[1].as_slice() {
        b"0" => false,
        b"1" => true,
        _ => return None,
    };
    let expected = expected_of(&p[3])?;
    let mode = match p[5].as_slice() {
        b"R" => RefLog::AndReference,
        b"L" => RefLog::Only,
        _ => return None,
    };
    let change = match p[2].as_slice() {
        b"U" => Change::Update {
            log: LogChange { mode, force_create_reflog: false, message: "m".into() },
            expected,
            new: target_of(&p[4])?,
        },
        b"D" if p[4] == b"-" => Change::Delete { expected, log: mode },
        _ => return None,
    };
    Some(RefEdit { change, name, deref })
}
fn list_text(v: &[String]) -> String {
    if v.is_empty() {
        "-".into()
    } else {
        v.join(",")
    }
}

/// one edit of a transaction, in the case's own terms (used by the oracle)
#[derive(Clone, Debug)]
pub struct E {
    pub name: Vec<u8>,
    pub deref: bool,
    pub delete: bool,
    pub expected: Vec<u8>,
    pub new: Vec<u8>,
    pub log_only: bool,
}
#[derive(Clone, Debug)]
pub enum Op {
    Txn { mode: u8, commit: bool, edits: Vec<E>, raw: Vec<Vec<u8>> },
    GitUpdate { name: Vec<u8>, c: u8 },
    GitDelete { name: Vec<u8> },
    GitSymref { name: Vec<u8>, target: Vec<u8> },
    GitPack,
}
pub struct Hist {
    pub loose: Vec<(Vec<u8>, Vec<u8>)>,
    pub packed: Option<Vec<(Vec<u8>, Vec<u8>)>>,
    pub ops: Vec<Op>,
    pub names: Vec<Vec<u8>>,
}
fn pairs(b: &[u8]) -> Option<Vec<(Vec<u8>, Vec<u8>)>> {
    split(b, b',')
        .into_iter()
        .map(|e| {
            let p = split(&e, b':');
            if p.len() == 2 {
                Some((p[0].clone(), p[1].clone()))
            } else {
                None
            }
        })
        .collect()
}
fn is_pseudo(n: &[u8]) -> bool {
    n.iter().all(|b| b.is_ascii_uppercase() || *b == b'_')
}
/// the names the model covers: all-caps pseudo refs, or `refs/heads/…`, `refs/tags/…` over [A-Za-z0-9_/-]
/// without empty components
fn nice_name(n: &[u8]) -> bool {
    if n.is_empty() {
        return false;
    }
    if is_pseudo(n) {
        return true;
    }
    let comps: Vec<&[u8]> = n.split(|b| *b == b'/').collect();
    (n.starts_with(b"refs/heads/") || n.starts_with(b"refs/tags/"))
        && n.iter().all(|b| b.is_ascii_lowercase() || b.is_ascii_digit() || *b == b'_' || *b == b'/' || *b == b'-')
        && comps.len() >= 3
        && comps[2..].iter().all(|c| !c.is_empty() && !c.starts_with(b"-") && *c != b"refs")
}
fn nice_target(t: &[u8]) -> bool {
    match t.strip_prefix(b"@") {
        Some(n) => nice_name(n),
        None => t.len() == 1 && is_hex_char(t[0]),
    }
}
fn parse_e(e: &[u8]) -> Option<E> {
    let p = split(e, b':');
    if p.len() != 6 || !nice_name(&p[0]) {
        return None;
    }
    if !matches!(p[1].as_slice(), b"0" | b"1") || !matches!(p[5].as_slice(), b"R" | b"L") {
        return None;
    }
    let ex = &p[3];
    let ex_ok = matches!(ex.as_slice(), b"A" | b"E" | b"N")
        || ((ex.starts_with(b"M") || ex.starts_with(b"X")) && nice_target(&ex[1..]));
    if !ex_ok {
        return None;
    }
    let delete = match p[2].as_slice() {
        b"U" if nice_target(&p[4]) => false,
        b"D" if p[4] == b"-" => true,
        _ => return None,
    };
    Some(E {
        name: p[0].clone(),
        deref: p[1] == b"1",
        delete,
        expected: ex.clone(),
        new: p[4].clone(),
        log_only: p[5] == b"L",
    })
}
/// operations of git itself inside a history (not covered by the model yet)
const GIT_OPS: bool = false;
fn parse_op(o: &[u8]) -> Option<Op> {
    let p: Vec<Vec<u8>> = o.split(|c| *c == b'|').map(|x| x.to_vec()).collect();
    if p[0] != b"T" && !GIT_OPS {
        return None;
    }
    match (p[0].as_slice(), p.len()) {
        (b"T", 4) => {
            let mode = match p[1].as_slice() {
                b"0" => 0,
                b"1" => 1,
                b"2" => 2,
                _ => return None,
            };
            let commit = match p[2].as_slice() {
                b"0" => false,
                b"1" => true,
                _ => return None,
            };
            let raw = split(&p[3], b',');
            let edits = raw.iter().map(|e| parse_e(e)).collect::<Option<Vec<E>>>()?;
            Some(Op::Txn { mode, commit, edits, raw })
        }
        (b"U", 3) if nice_name(&p[1]) && p[2].len() == 1 && is_hex_char(p[2][0]) => {
            Some(Op::GitUpdate { name: p[1].clone(), c: p[2][0] })
        }
        (b"X", 2) if nice_name(&p[1]) => Some(Op::GitDelete { name: p[1].clone() }),
        (b"Y", 3) if nice_name(&p[1]) && p[2].starts_with(b"@") && nice_target(&p[2]) => {
            Some(Op::GitSymref { name: p[1].clone(), target: p[2].clone() })
        }
        (b"K", 1) => Some(Op::GitPack),
        _ => None,
    }
}
/// `a` is a directory prefix of `b`
fn dir_of(a: &[u8], b: &[u8]) -> bool {
    b.len() > a.len() + 1 && b.starts_with(a) && b[a.len()] == b'/'
}
pub fn parse_hist(c: &Case) -> Option<Hist> {
    let packed_f = f_str(c, 2);
    let loose = pairs(f_str(c, 1))?;
    let packed = if packed_f.is_empty() { None } else { Some(pairs(packed_f.strip_prefix(b"=")?)?) };
    let ops = split(f_str(c, 3), b';').iter().map(|o| parse_op(o)).collect::<Option<Vec<Op>>>()?;
    if ops.len() > 16 {
        return None;
    }
    let mut names: Vec<Vec<u8>> = generate::NAMES.iter().map(|n| n.as_bytes().to_vec()).collect();
    let mut add_t = |t: &[u8], names: &mut Vec<Vec<u8>>| {
        if let Some(n) = t.strip_prefix(b"@") {
            names.push(n.to_vec());
        }
    };
    for (n, v) in &loose {
        if !nice_name(n) || !nice_target(v) {
            return None;
        }
        names.push(n.clone());
        add_t(v, &mut names);
    }
    for (i, (n, _)) in loose.iter().enumerate() {
        if loose[..i].iter().any(|(m, _)| m == n) {
            return None;
        }
        // the initial loose files must be a possible directory tree
        if loose.iter().any(|(m, _)| dir_of(n, m)) {
            return None;
        }
    }
    if let Some(p) = &packed {
        for (n, v) in p {
            if !nice_name(n) || !n.starts_with(b"refs/") || v.len() != 1 || !is_hex_char(v[0]) {
                return None;
            }
            names.push(n.clone());
        }
        if !p.windows(2).all(|w| w[0].0 < w[1].0) {
            return None;
        }
    }
    for op in &ops {
        match op {
            Op::Txn { edits, .. } => {
                for e in edits {
                    names.push(e.name.clone());
                    if e.expected.len() > 1 {
                        add_t(&e.expected[1..], &mut names);
                    }
                    add_t(&e.new, &mut names);
                }
            }
            Op::GitUpdate { name, .. } | Op::GitDelete { name } => names.push(name.clone()),
            Op::GitSymref { name, target } => {
                names.push(name.clone());
                add_t(target, &mut names);
            }
            Op::GitPack => {}
        }
    }
    names.sort();
    names.dedup();
    Some(Hist { loose, packed, ops, names })
}

// ---------------------------------------------------------------- the store on disk

fn base_dir() -> PathBuf {
    let shm = Path::new("/dev/shm");
    if shm.is_dir() {
        shm.to_owned()
    } else {
        std::env::temp_dir()
    }
}
static COUNTER: AtomicU64 = AtomicU64::new(0);
struct TempDir(PathBuf);
impl TempDir {
    fn new() -> Self {
        let n = COUNTER.fetch_add(1, Ordering::Relaxed);
        let p = base_dir().join(format!("gixv-c16-{}-{}", std::process::id(), n));
        let _ = std::fs::remove_dir_all(&p);
        std::fs::create_dir_all(p.join("refs")).expect("mkdir");
        TempDir(p)
    }
}
impl Drop for TempDir {
    fn drop(&mut self) {
        let _ = std::fs::remove_dir_all(&self.0);
    }
}
fn write_file(root: &Path, rel: &str, content: &[u8]) {
    let p = root.join(rel);
    if let Some(d) = p.parent() {
        std::fs::create_dir_all(d).expect("mkdir -p");
    }
    std::fs::write(p, content).expect("write");
}
fn content_of_target(t: &[u8]) -> Vec<u8> {
    if let Some(name) = t.strip_prefix(b"@") {
        [b"ref: ", name, b"\n"].concat()
    } else {
        format!("{}\n", oid_of(t[0])).into_bytes()
    }
}
fn build_store(root: &Path, h: &Hist) {
    for (name, target) in &h.loose {
        write_file(root, &s(name), &content_of_target(target));
    }
    if let Some(p) = &h.packed {
        let mut out = b"# pack-refs with: peeled fully-peeled sorted \n".to_vec();
        for (name, c) in p {
            out.extend_from_slice(format!("{} {}\n", oid_of(c[0]), s(name)).as_bytes());
            if peel(c[0]) != c[0] {
                out.extend_from_slice(format!("^{}\n", oid_of(peel(c[0]))).as_bytes());
            }
        }
        write_file(root, "packed-refs", &out);
    }
}
/// what git needs to accept the directory as a bare repository
fn make_git_repo(root: &Path) {
    // dropping a lock removes empty directories up to the git directory, `refs` included
    let _ = std::fs::create_dir_all(root.join("refs"));
    let objects = root.join("objects");
    if !objects.exists() {
        std::os::unix::fs::symlink(objects_dir(), &objects).expect("symlink objects");
    }
    if !root.join("config").exists() {
        write_file(root, "config", b"[core]\n\trepositoryformatversion = 0\n\tbare = true\n\tlogAllRefUpdates = false\n");
    }
}
fn walk(root: &Path, dir: &Path, out: &mut Vec<PathBuf>) {
    if let Ok(rd) = std::fs::read_dir(dir) {
        for e in rd.flatten() {
            let p = e.path();
            let ft = match e.file_type() {
                Ok(t) => t,
                Err(_) => continue,
            };
            if ft.is_symlink() {
                continue;
            }
            if ft.is_dir() {
                walk(root, &p, out);
            } else {
                out.push(p.strip_prefix(root).expect("prefix").to_owned());
            }
        }
    }
}
/// independent observation of the store: plain file reads, no gix code.
/// (sorted loose `name:target`, packed text, lock files)
fn observe(root: &Path) -> (Vec<String>, String, Vec<String>) {
    let mut files = Vec::new();
    walk(root, root, &mut files);
    let mut loose: Vec<(String, String)> = Vec::new();
    let mut locks = Vec::new();
    let mut packed = "~".to_string();
    for f in files {
        let rel = f.to_string_lossy().replace('\\', "/");
        if let Some(base) = rel.strip_suffix(".lock") {
            locks.push(base.to_string());
            continue;
        }
        if rel == "config" || rel.starts_with("logs/") || rel.starts_with("objects/") {
            continue;
        }
        let content = std::fs::read(root.join(&f)).unwrap_or_default();
        if rel == "packed-refs" {
            let mut entries: Vec<String> = Vec::new();
            let mut last: Option<u8> = None;
            for line in content.split(|c| *c == b'\n') {
                if line.is_empty() || line[0] == b'#' {
                    continue;
                }
                let l = s(line);
                if let Some(peeled) = l.strip_prefix('^') {
                    // a peeled line must follow a tag entry and name the object the tag peels to
                    let ok = last.map_or(false, |c| peel(c) != c && oid_text(peeled) == (peel(c) as char).to_string());
                    if !ok {
                        entries.push("!badpeel".into());
                    }
                    last = None;
                    continue;
                }
                if let Some(c) = last {
                    if peel(c) != c {
                        entries.push("!nopeel".into());
                    }
                }
                let (hex, name) = l.split_once(' ').unwrap_or((&l, "?"));
                let t = oid_text(hex);
                last = if t.len() == 1 { Some(t.as_bytes()[0]) } else { None };
                entries.push(format!("{}:{}", name, t));
            }
            if let Some(c) = last {
                if peel(c) != c {
                    entries.push("!nopeel".into());
                }
            }
            packed = format!("={}", entries.join(","));
            continue;
        }
        let text = s(&content);
        let text = text.trim_end_matches('\n');
        let t = match text.strip_prefix("ref: ") {
            Some(n) => format!("@{n}"),
            None => oid_text(text),
        };
        loose.push((rel, t));
    }
    locks.sort_by(|a, b| a.as_bytes().cmp(b.as_bytes()));
    loose.sort_by(|a, b| a.0.as_bytes().cmp(b.0.as_bytes()));
    (loose.into_iter().map(|(n, t)| format!("{n}:{t}")).collect(), packed, locks)
}

fn open_store(root: &Path) -> file::Store {
    file::Store::at(
        root.to_owned(),
        gix_ref::store::init::Options {
            write_reflog: gix_ref::store::WriteReflog::Disable,
            object_hash: gix_hash::Kind::Sha1,
            precompose_unicode: false,
            prohibit_windows_device_names: false,
        },
    )
}
/// the store as `file::Store::try_find` sees it
fn view(store: &file::Store, names: &[Vec<u8>]) -> Vec<String> {
    let mut out = Vec::new();
    for n in names {
        match store.try_find(s(n).as_str()) {
            Ok(Some(r)) => {
                if r.name.as_bstr() == n.as_slice() {
                    out.push(format!("{}={}", s(n), target_text(&r.target)))
                } else {
                    out.push(format!("{}=>{}", s(n), s(r.name.as_bstr())))
                }
            }
            Ok(None) => {}
            Err(_) => out.push(format!("{}=!err", s(n))),
        }
    }
    out
}

fn prepare_err_text(e: &file::transaction::prepare::Error) -> String {
    use file::transaction::prepare::Error as E;
    match e {
        E::Packed(_) => "Packed".into(),
        E::PackedTransactionAcquire(_) => "PackedTransactionAcquire".into(),
        E::PackedTransactionPrepare(_) => "PackedTransactionPrepare".into(),
        E::PackedFind(_) => "PackedFind".into(),
        E::PreprocessingFailed(_) => "PreprocessingFailed".into(),
        E::LockAcquire { full_name, .. } => format!("LockAcquire {}", s(full_name)),
        E::Io(_) => "Io".into(),
        E::DeleteReferenceMustExist { .. } => "DeleteReferenceMustExist".into(),
        E::MustNotExist { .. } => "MustNotExist".into(),
        E::MustExist { .. } => "MustExist".into(),
        E::ReferenceOutOfDate { .. } => "ReferenceOutOfDate".into(),
        E::ReferenceDecode(_) => "ReferenceDecode".into(),
    }
}
fn commit_err_text(e: &file::transaction::commit::Error) -> String {
    use file::transaction::commit::Error as E;
    match e {
        E::PackedTransactionCommit(_) => "PackedTransactionCommit",
        E::PreprocessingFailed { .. } => "PreprocessingFailed",
        E::LockCommit { .. } => "LockCommit",
        E::DeleteReference { .. } => "DeleteReference",
        E::DeleteReflog { .. } => "DeleteReflog",
        E::CreateOrUpdateRefLog(_) => "CreateOrUpdateRefLog",
    }
    .into()
}

fn git(root: &Path, args: &[&str]) -> (bool, String) {
    let out = std::process::Command::new("git")
        .arg("--git-dir")
        .arg(root)
        .args(args)
        .env("GIT_CONFIG_NOSYSTEM", "1")
        .env("GIT_CONFIG_GLOBAL", "/dev/null")
        .env("HOME", "/nonexistent")
        .stdin(std::process::Stdio::null())
        .output()
        .expect("git runs");
    (out.status.success(), String::from_utf8_lossy(&out.stdout).into_owned())
}

/// What one op left behind.
pub struct Step {
    pub result: String,
    pub loose: Vec<String>,
    pub packed: String,
    pub locks: Vec<String>,
    pub view: Vec<String>,
}

/// Runs the history against the real code in a fresh directory. `f` sees the root after the last op.
pub fn run_hist<R>(h: &Hist, f: impl FnOnce(&Path, &file::Store) -> R) -> Option<(Vec<Step>, R)> {
    let tmp = TempDir::new();
    let root = tmp.0.clone();
    build_store(&root, h);
    // file::Store is !Send: created here, inside the harness worker thread. One store for consecutive gix
    // transactions (its packed-refs snapshot is refreshed by the code under test); reopened after a git op.
    let mut store = open_store(&root);
    let mut steps = Vec::new();
    for op in &h.ops {
        let result = match op {
            Op::Txn { mode, commit, raw, .. } => {
                let edits: Vec<RefEdit> = raw.iter().map(|e| edit_of(e)).collect::<Option<_>>()?;
                let packed_refs = match mode {
                    0 => PackedRefs::DeletionsOnly,
                    1 => PackedRefs::DeletionsAndNonSymbolicUpdates(Box::new(Table)),
                    _ => PackedRefs::DeletionsAndNonSymbolicUpdatesRemoveLooseSourceReference(Box::new(Table)),
                };
                match store
                    .transaction()
                    .packed_refs(packed_refs)
                    .prepare(edits, Fail::Immediately, Fail::Immediately)
                {
                    Err(e) => format!("P:err {}", prepare_err_text(&e)),
                    Ok(txn) => {
                        if *commit {
                            match txn.commit(None) {
                                Ok(_) => "ok".to_string(),
                                Err(e) => format!("C:err {}", commit_err_text(&e)),
                            }
                        } else {
                            txn.rollback();
                            "rollback".to_string()
                        }
                    }
                }
            }
            other => {
                make_git_repo(&root);
                let ok = match other {
                    Op::GitUpdate { name, c } => {
                        git(&root, &["update-ref", "--no-deref", &s(name), &oid_of(*c).to_hex().to_string()]).0
                    }
                    Op::GitDelete { name } => git(&root, &["update-ref", "--no-deref", "-d", &s(name)]).0,
                    Op::GitSymref { name, target } => git(&root, &["symbolic-ref", &s(name), &s(&target[1..])]).0,
                    Op::GitPack => git(&root, &["pack-refs", "--all"]).0,
                    Op::Txn { .. } => unreachable!(),
                };
                store = open_store(&root);
                if ok { "git-ok".to_string() } else { "git-err".to_string() }
            }
        };
        let (loose, packed, locks) = observe(&root);
        let view = view(&store, &h.names);
        steps.push(Step { result, loose, packed, locks, view });
    }
    let r = f(&root, &store);
    drop(store);
    Some((steps, r))
}

fn transcript(steps: &[Step]) -> String {
    let segs: Vec<String> = steps
        .iter()
        .map(|st| {
            format!(
                "{} S:{}|{} K:{} V:{}",
                st.result,
                list_text(&st.loose),
                st.packed,
                list_text(&st.locks),
                list_text(&st.view)
            )
        })
        .collect();
    if segs.is_empty() {
        "empty".into()
    } else {
        segs.join(" / ")
    }
}

fn imp(c: &Case) -> String {
    match f_str(c, 0) {
        b"hist" => match parse_hist(c).and_then(|h| run_hist(&h, |_, _| ())) {
            Some((steps, ())) => transcript(&steps),
            None => "malformed".into(),
        },
        _ => "?".into(),
    }
}

// ---------------------------------------------------------------- the property itself: a name -> value map

type Map = BTreeMap<Vec<u8>, Vec<u8>>;

fn expectation_holds(e: &E, expected: &[u8], cur: Option<&Vec<u8>>) -> bool {
    match (expected.first().copied(), cur) {
        (Some(b'A'), _) => true,
        (Some(b'E'), c) => c.is_some(),
        (Some(b'N'), None) => !e.delete, // a deletion with MustNotExist is invalid input
        (Some(b'N'), Some(v)) => !e.delete && *v == e.new, // "must not exist" tolerates the value being there already
        (Some(b'M'), Some(v)) => v.as_slice() == &expected[1..],
        (Some(b'M'), None) => false,
        (Some(b'X'), Some(v)) => v.as_slice() == &expected[1..],
        (Some(b'X'), None) => true,
        _ => false,
    }
}

/// update-ref semantics on a plain map. `None`: the transaction is refused and nothing changes.
/// With `deref`, the chain of symbolic refs is followed (at most four hops); an update applies to the last
/// name of the chain with its expectation, a deletion applies to the last name and its expectation has to
/// hold for every name on the chain. No name may be touched twice.
fn spec_txn(m: &Map, edits: &[E]) -> Option<Map> {
    let mut touched: Vec<Vec<u8>> = Vec::new();
    let mut out = m.clone();
    for e in edits {
        let mut name = e.name.clone();
        let mut hops = 0;
        if e.deref {
            loop {
                match m.get(&name) {
                    Some(v) if v.starts_with(b"@") => {
                        if touched.contains(&name) {
                            return None;
                        }
                        touched.push(name.clone());
                        if e.delete && !expectation_holds(e, &e.expected, m.get(&name)) {
                            return None;
                        }
                        hops += 1;
                        if hops > 4 {
                            return None;
                        }
                        name = v[1..].to_vec();
                    }
                    _ => break,
                }
            }
        }
        if touched.contains(&name) {
            return None;
        }
        touched.push(name.clone());
        if !expectation_holds(e, &e.expected, m.get(&name)) {
            return None;
        }
        if !e.log_only {
            if e.delete {
                out.remove(&name);
            } else {
                out.insert(name, e.new.clone());
            }
        }
    }
    Some(out)
}

fn map_text(m: &Map) -> Vec<String> {
    m.iter().map(|(k, v)| format!("{}={}", s(k), s(v))).collect()
}

/// names of `m` that cannot be files of one directory tree together
fn df_conflict_in(names: &[Vec<u8>]) -> bool {
    names.iter().any(|a| names.iter().any(|b| dir_of(a, b)))
}

fn git_view(root: &Path, names: &[Vec<u8>]) -> Vec<String> {
    make_git_repo(root);
    let mut out = Vec::new();
    let (_, text) = git(root, &["for-each-ref", "--format=%(refname) %(objectname) %(symref)"]);
    let mut m: BTreeMap<String, String> = BTreeMap::new();
    for l in text.lines() {
        let p: Vec<&str> = l.split(' ').collect();
        if p.len() >= 3 && !p[2].is_empty() {
            // %(symref) is fully resolved; ask for the direct target
            let (ok, t) = git(root, &["symbolic-ref", "--no-recurse", "-q", p[0]]);
            if ok {
                m.insert(p[0].to_string(), format!("@{}", t.trim()));
            }
        } else if p.len() >= 2 {
            m.insert(p[0].to_string(), oid_text(p[1]));
        }
    }
    for n in names {
        let n = s(n);
        if !n.starts_with("refs/") {
            // pseudo refs are not listed by for-each-ref
            let (ok, t) = git(root, &["symbolic-ref", "--no-recurse", "-q", &n]);
            if ok {
                m.insert(n.clone(), format!("@{}", t.trim()));
            } else {
                let (ok, t) = git(root, &["rev-parse", "--verify", "-q", &n]);
                if ok {
                    m.insert(n.clone(), oid_text(t.trim()));
                }
            }
        }
    }
    for (k, v) in m {
        out.push(format!("{k}={v}"));
    }
    out.sort();
    out
}

/// the names an edit touches in the map: the symbolic refs it is led through, then the name it applies to
fn chain(m: &Map, e: &E) -> Vec<Vec<u8>> {
    let mut out = vec![e.name.clone()];
    if e.deref {
        let mut cur = e.name.clone();
        for _ in 0..6 {
            match m.get(&cur) {
                Some(v) if v.starts_with(b"@") => {
                    cur = v[1..].to_vec();
                    out.push(cur.clone());
                }
                _ => break,
            }
        }
    }
    out
}

fn prop(c: &Case) -> Verdict {
    if f_str(c, 0) != b"hist" {
        return Verdict::ok(false, "unknown-op");
    }
    let h = match parse_hist(c) {
        Some(h) => h,
        None => return Verdict::ok(false, "malformed"),
    };
    // `Change::Delete { expected: MustNotExist }` is documented as invalid input and answered with an explicit panic
    let invalid = h.ops.iter().any(|op| match op {
        Op::Txn { edits, .. } => edits.iter().any(|e| e.delete && e.expected == b"N"),
        _ => false,
    });
    if invalid {
        return Verdict::ok(false, "documented-invalid-delete");
    }
    // every 8th history (by content) is also read back with git
    let ask_git = c.iter().flatten().fold(0u32, |a, b| a.wrapping_mul(31).wrapping_add(*b as u32)) % 8 == 0;
    let names = h.names.clone();
    let (steps, git_seen) = match run_hist(&h, |root, _| {
        if !ask_git {
            return None;
        }
        // git needs a HEAD that is an object id or points below refs/ to accept the directory
        let head = std::fs::read(root.join("HEAD")).unwrap_or_default();
        let head_ok = head.starts_with(b"ref: refs/") || (head.len() >= 40 && head[..40].iter().all(|b| b.is_ascii_hexdigit()));
        if !head_ok {
            if root.join("HEAD").exists() {
                return None;
            }
            std::fs::write(root.join("HEAD"), b"ref: refs/heads/gixv-none\n").ok()?;
            let mut v = git_view(root, &names);
            v.retain(|l| !l.starts_with("HEAD="));
            return Some(v);
        }
        Some(git_view(root, &names))
    }) {
        Some(x) => x,
        None => return Verdict::ok(false, "malformed"),
    };
    // the simple model
    let mut m: Map = Map::new();
    if let Some(p) = &h.packed {
        for (n, v) in p {
            m.insert(n.clone(), v.clone());
        }
    }
    for (n, v) in &h.loose {
        m.insert(n.clone(), v.clone());
    }
    let mut class = "plain";
    let mut nontrivial = false;
    let mut df = df_conflict_in(&m.keys().cloned().collect::<Vec<_>>());
    for (i, (op, st)) in h.ops.iter().zip(steps.iter()).enumerate() {
        if !st.locks.is_empty() {
            return Verdict::fail("lock-left-behind", format!("op {i}: {:?}", st.locks));
        }
        match op {
            Op::Txn { commit, edits, .. } => {
                let predicted = spec_txn(&m, edits);
                // Directory/file conflicts: the map has no notion of them; git refuses such transactions.
                // A transaction is in conflict when a name it touches is a directory of, or lies in, another
                // name that exists before, exists afterwards or is touched as well.
                let touched: Vec<Vec<u8>> = edits.iter().flat_map(|e| chain(&m, e)).collect();
                let df_txn = {
                    let mut all: Vec<Vec<u8>> = m.keys().cloned().collect();
                    if let Some(p) = &predicted {
                        all.extend(p.keys().cloned());
                    }
                    all.extend(touched.iter().cloned());
                    touched.iter().any(|t| all.iter().any(|u| dir_of(t, u) || dir_of(u, t)))
                };
                if df_txn {
                    df = true;
                }
                let log_only = edits.iter().any(|e| e.log_only);
                let failed_prepare = st.result.starts_with("P:err");
                if failed_prepare || !*commit {
                    // a failed prepare and a rollback change nothing
                    if st.view != map_text(&m) {
                        return Verdict::fail(
                            "failed-prepare-changed-store",
                            format!("op {i} {}: view {:?}, before {:?}", st.result, st.view, map_text(&m)),
                        );
                    }
                    if i > 0 && (steps[i - 1].loose != st.loose || steps[i - 1].packed != st.packed) {
                        return Verdict::fail(
                            "failed-prepare-changed-files",
                            format!("op {i} {}: {:?}|{} -> {:?}|{}", st.result, steps[i - 1].loose, steps[i - 1].packed, st.loose, st.packed),
                        );
                    }
                }
                if !*commit {
                    continue;
                }
                if df_txn {
                    // git's answer would be a refusal; gix may refuse (lock acquisition fails), which is fine.
                    match (&predicted, st.result.as_str()) {
                        (_, r) if r.starts_with("P:err") => {
                            nontrivial = true;
                        }
                        (_, r) if r.starts_with("C:err") => {
                            if st.view != map_text(&m) {
                                return Verdict::fail(
                                    "df-commit-failed-midway",
                                    format!("op {i}: {r}, view {:?}, before {:?}", st.view, map_text(&m)),
                                );
                            }
                            nontrivial = true;
                        }
                        (Some(p), "ok") if st.view == map_text(p) => {
                            let keys: Vec<Vec<u8>> = p.keys().cloned().collect();
                            if touched.iter().any(|t| keys.iter().any(|u| p.contains_key(t) && (dir_of(t, u) || dir_of(u, t)))) {
                                return Verdict::fail(
                                    "df-conflicting-refs-coexist",
                                    format!("op {i}: accepted, now {:?}", map_text(p)),
                                );
                            }
                            nontrivial = true;
                            m = p.clone();
                        }
                        (_, r) => {
                            return Verdict::fail(
                                if log_only { "log-only-expectation-ignores-packed-refs" } else { "df-state-differs-from-map" },
                                format!("op {i}: {r}, view {:?}, map before {:?}", st.view, map_text(&m)),
                            );
                        }
                    }
                    continue;
                }
                match (&predicted, st.result.as_str()) {
                    (Some(p), "ok") => {
                        if st.view != map_text(p) {
                            return Verdict::fail(
                                "state-differs-from-map",
                                format!("op {i}: view {:?}, map {:?}", st.view, map_text(p)),
                            );
                        }
                        if *p != m {
                            nontrivial = true;
                        }
                        m = p.clone();
                    }
                    (None, r) if r.starts_with("P:err") => {
                        nontrivial = true;
                    }
                    (Some(_), r) => {
                        return Verdict::fail(
                            if log_only { "log-only-expectation-ignores-packed-refs" } else { "refused-but-map-accepts" },
                            format!("op {i}: {r}, map before {:?}", map_text(&m)),
                        );
                    }
                    (None, r) => {
                        return Verdict::fail(
                            if log_only { "log-only-expectation-ignores-packed-refs" } else { "accepted-but-map-refuses" },
                            format!("op {i}: {r}, map before {:?}", map_text(&m)),
                        );
                    }
                }
            }
            // operations of git itself: the map follows what git says it did (they are not under test)
            Op::GitUpdate { name, c } => {
                if st.result == "git-ok" {
                    m.insert(name.clone(), vec![*c]);
                }
                class = "with-git-ops";
            }
            Op::GitDelete { name } => {
                if st.result == "git-ok" {
                    m.remove(name);
                }
                class = "with-git-ops";
            }
            Op::GitSymref { name, target } => {
                if st.result == "git-ok" {
                    m.insert(name.clone(), target.clone());
                }
                class = "with-git-ops";
            }
            Op::GitPack => {
                class = "with-git-ops";
            }
        }
        if !matches!(op, Op::Txn { .. }) && st.view != map_text(&m) {
            return Verdict::fail("gix-misreads-after-git-op", format!("op {i}: view {:?}, map {:?}", st.view, map_text(&m)));
        }
    }
    if let Some(g) = git_seen {
        // git lists what the map holds (git drops refs it considers broken: dangling symbolic refs are listed
        // by symbolic-ref/for-each-ref only when they resolve, so compare on resolvable entries)
        let resolvable = |name: &Vec<u8>| -> bool {
            let mut cur = name.clone();
            for _ in 0..6 {
                match m.get(&cur) {
                    Some(v) if v.starts_with(b"@") => cur = v[1..].to_vec(),
                    Some(_) => return true,
                    None => return false,
                }
            }
            false
        };
        let want: Vec<String> = m
            .iter()
            .filter(|(k, _)| !k.starts_with(b"refs/") || resolvable(k))
            .map(|(k, v)| format!("{}={}", s(k), s(v)))
            .collect();
        let mut want = want;
        want.sort();
        if g != want && !df {
            return Verdict::fail("git-reads-different-state", format!("git {:?}, map {:?}", g, want));
        }
        if class == "plain" {
            class = "plain+git-read";
        }
    }
    if df {
        return Verdict::ok(nontrivial, format!("df-{class}"));
    }
    Verdict::ok(nontrivial, class)
}

// ---------------------------------------------------------------- spec validation: the map against git itself

/// Spec validation: the specification map written in Rust (the oracle of `prop`, itself checked against what
/// git reads) replayed over the history; compared with `run ("spec" :: …)`, i.e. coq/Spec.v, on the first
/// git_cases cases. Prints the final map.
fn git_oracle(c: &Case) -> String {
    let h = match parse_hist(c) {
        Some(h) if f_str(c, 0) == b"hist" => h,
        _ => return if f_str(c, 0) == b"hist" { "malformed".into() } else { "?".into() },
    };
    let mut m: Map = Map::new();
    if let Some(p) = &h.packed {
        for (n, v) in p {
            m.insert(n.clone(), v.clone());
        }
    }
    for (n, v) in &h.loose {
        m.insert(n.clone(), v.clone());
    }
    for op in &h.ops {
        if let Op::Txn { commit: true, edits, .. } = op {
            if let Some(p) = spec_txn(&m, edits) {
                m = p;
            }
        }
    }
    list_text(&map_text(&m))
}

fn main() {
    main_with(Harness {
        gen: generate::gen,
        imp,
        prop,
        git: Some(git_oracle),
        deadline: Duration::from_secs(120),
    });
}

pub(crate) fn run_git_stdin(root: &Path, args: &[&str], input: &str) -> bool {
    use std::io::Write;
    let mut child = std::process::Command::new("git")
        .arg("--git-dir")
        .arg(root)
        .args(args)
        .env("GIT_CONFIG_NOSYSTEM", "1")
        .env("GIT_CONFIG_GLOBAL", "/dev/null")
        .env("HOME", "/nonexistent")
        .stdin(std::process::Stdio::piped())
        .stdout(std::process::Stdio::null())
        .stderr(std::process::Stdio::null())
        .spawn()
        .expect("git runs");
    child.stdin.take().expect("stdin").write_all(input.as_bytes()).ok();
    child.wait().map(|s| s.success()).unwrap_or(false)
}
pub(crate) fn fresh_git_repo(h: &Hist) -> (impl Drop, PathBuf) {
    let tmp = TempDir::new();
    let root = tmp.0.clone();
    build_store(&root, h);
    make_git_repo(&root);
    (tmp, root)
}
pub(crate) fn git_state(root: &Path, names: &[Vec<u8>]) -> Vec<String> {
    git_view(root, names)
}
pub(crate) fn oid_hex(c: u8) -> String {
    oid_of(c).to_hex().to_string()
}
pub(crate) fn text(b: &[u8]) -> String {
    s(b)
}
