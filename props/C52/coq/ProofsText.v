(* C52 — text level: what strftime writes for a number is read back by the strptime directives *)
From Coq Require Import ZArith Lia ZifyBool List.
From GixV.Base Require Import Bytes BytesFacts Outcome.
From GixV.C52 Require Import Tables Model ProofsCal.
Ltac Zify.zify_post_hook ::= Z.div_mod_to_equations.
Local Open Scope Z_scope.

(* ---- bytes ------------------------------------------------------------------------------------- *)
Lemma digit_facts : forall b, is_digit b = true ->
  ch_is b 45 = false /\ ch_is b 43 = false /\ is_ascii_ws b = false /\ ch_is b 37 = false /\ ch_is b 46 = false /\ ch_is b 58 = false.
Proof.
  assert (H : forall b, (negb (is_digit b) || (negb (ch_is b 45) && negb (ch_is b 43) && negb (is_ascii_ws b) && negb (ch_is b 37) && negb (ch_is b 46) && negb (ch_is b 58)))%bool = true)
    by (apply forall_bytes; vm_compute; reflexivity).
  intros b Hb. specialize (H b). rewrite Hb in H. cbn [negb orb] in H.
  rewrite !andb_true_iff, !negb_true_iff in H. tauto.
Qed.

(* ---- shapes of padded numbers (finite sweeps) --------------------------------------------------- *)
Definition val_is (l : bytes) (n : Z) : bool :=
  match dec_to_N l with Some v => Z.of_N v =? n | None => false end.
Lemma val_is_spec l n : val_is l n = true -> dec_to_N l = Some (Z.to_N n) /\ 0 <= n.
Proof. unfold val_is. destruct (dec_to_N l) as [v|]; [|discriminate]. intros H. split; [f_equal|]; lia. Qed.

Definition dig2_ok (n : Z) : bool :=
  match pad_dec 2 n with [a; b] => is_digit a && is_digit b && val_is [a; b] n | _ => false end.
Definition dig4_ok (n : Z) : bool :=
  match pad_dec 4 n with
  | [a; b; c; d] => is_digit a && is_digit b && is_digit c && is_digit d && val_is [a; b; c; d] n
  | _ => false end.
Definition dig0_ok (n : Z) : bool :=          (* no padding: one or two digits *)
  match pad_dec 0 n with
  | [a] => is_digit a && val_is [a] n
  | [a; b] => is_digit a && is_digit b && val_is [a; b] n
  | _ => false end.

Lemma dig2_sweep : range_ok (fun n => if n <? 100 then dig2_ok n else true) 7 0 = true.
Proof. vm_compute. reflexivity. Qed.
Lemma dig0_sweep : range_ok (fun n => if n <? 100 then dig0_ok n else true) 7 0 = true.
Proof. vm_compute. reflexivity. Qed.
Lemma dig4_sweep : range_ok (fun n => if n <? 10000 then dig4_ok n else true) 14 0 = true.
Proof. vm_compute. reflexivity. Qed.

Lemma pad2_shape n : 0 <= n < 100 -> exists a b, pad_dec 2 n = [a; b] /\
  is_digit a = true /\ is_digit b = true /\ dec_to_N [a; b] = Some (Z.to_N n).
Proof.
  intros H. pose proof (range_ok_spec _ 7 0 dig2_sweep n) as G. cbv beta in G.
  destruct (Z.ltb_spec n 100); [|lia].
  specialize (G ltac:(change (2 ^ Z.of_nat 7) with 128; lia)). unfold dig2_ok in G.
  destruct (pad_dec 2 n) as [|a [|b [|? ?]]]; try discriminate.
  apply andb_prop in G. destruct G as [G Hv]. apply andb_prop in G. destruct G as [Ha Hb].
  exists a, b. repeat split; try assumption. apply val_is_spec; assumption.
Qed.

Lemma pad4_shape n : 0 <= n < 10000 -> exists a b c d, pad_dec 4 n = [a; b; c; d] /\
  is_digit a = true /\ is_digit b = true /\ is_digit c = true /\ is_digit d = true /\
  dec_to_N [a; b; c; d] = Some (Z.to_N n).
Proof.
  intros H. pose proof (range_ok_spec _ 14 0 dig4_sweep n) as G. cbv beta in G.
  destruct (Z.ltb_spec n 10000); [|lia].
  specialize (G ltac:(change (2 ^ Z.of_nat 14) with 16384; lia)). unfold dig4_ok in G.
  destruct (pad_dec 4 n) as [|a [|b [|c [|d [|? ?]]]]]; try discriminate.
  apply andb_prop in G. destruct G as [G Hv]. apply andb_prop in G. destruct G as [G Hd].
  apply andb_prop in G. destruct G as [G Hc]. apply andb_prop in G. destruct G as [Ha Hb].
  exists a, b, c, d. repeat split; try assumption. apply val_is_spec; assumption.
Qed.

Lemma pad0_shape n : 0 <= n < 100 ->
  (exists a, pad_dec 0 n = [a] /\ is_digit a = true /\ dec_to_N [a] = Some (Z.to_N n)) \/
  (exists a b, pad_dec 0 n = [a; b] /\ is_digit a = true /\ is_digit b = true /\ dec_to_N [a; b] = Some (Z.to_N n)).
Proof.
  intros H. pose proof (range_ok_spec _ 7 0 dig0_sweep n) as G. cbv beta in G.
  destruct (Z.ltb_spec n 100); [|lia].
  specialize (G ltac:(change (2 ^ Z.of_nat 7) with 128; lia)). unfold dig0_ok in G.
  destruct (pad_dec 0 n) as [|a [|b [|? ?]]]; try discriminate.
  - left. apply andb_prop in G. destruct G as [Ha Hv]. exists a. repeat split; try assumption. apply val_is_spec; assumption.
  - right. apply andb_prop in G. destruct G as [G Hv]. apply andb_prop in G. destruct G as [Ha Hb].
    exists a, b. repeat split; try assumption. apply val_is_spec; assumption.
Qed.

Lemma write_int_nonneg w n : 0 <= n -> write_int w n = pad_dec w n.
Proof. intros H. unfold write_int. destruct (Z.ltb_spec n 0); [lia|reflexivity]. Qed.

(* ---- parse_number ------------------------------------------------------------------------------- *)
Lemma parse_number_pad2 n rest : 0 <= n < 100 -> parse_number 2 (pad_dec 2 n ++ rest) = Some (n, rest).
Proof.
  intros H. destruct (pad2_shape n H) as (a & b & E & Ha & Hb & Hv). rewrite E.
  unfold parse_number. cbn [app span_digits]. rewrite Ha, Hb.
  destruct rest; cbn [span_digits]; rewrite Hv; f_equal; f_equal; lia.
Qed.

Lemma parse_number_pad4 n rest : 0 <= n < 10000 -> parse_number 4 (pad_dec 4 n ++ rest) = Some (n, rest).
Proof.
  intros H. destruct (pad4_shape n H) as (a & b & c & d & E & Ha & Hb & Hc & Hd & Hv). rewrite E.
  unfold parse_number. cbn [app span_digits]. rewrite Ha, Hb, Hc, Hd.
  destruct rest; cbn [span_digits]; rewrite Hv; f_equal; f_equal; lia.
Qed.

(* without padding the number must be followed by a non-digit (or nothing) *)
Definition no_digit_head (rest : bytes) : Prop :=
  match rest with [] => True | r :: _ => is_digit r = false end.
Lemma parse_number_pad0 n rest : 0 <= n < 100 -> no_digit_head rest ->
  parse_number 2 (pad_dec 0 n ++ rest) = Some (n, rest).
Proof.
  intros H Hr. destruct (pad0_shape n H) as [(a & E & Ha & Hv)|(a & b & E & Ha & Hb & Hv)]; rewrite E;
    unfold parse_number; cbn [app span_digits].
  - rewrite Ha. destruct rest as [|r rest]; cbn [span_digits]; [|cbn in Hr; rewrite Hr]; rewrite Hv; f_equal; f_equal; lia.
  - rewrite Ha, Hb. destruct rest; cbn [span_digits]; rewrite Hv; f_equal; f_equal; lia.
Qed.

(* the first byte of a padded number is a digit *)
Lemma pad2_head n rest : 0 <= n < 100 -> exists a r, pad_dec 2 n ++ rest = a :: r /\ is_digit a = true.
Proof. intros H. destruct (pad2_shape n H) as (a & b & E & Ha & _). rewrite E. exists a, (b :: rest). split; [reflexivity|exact Ha]. Qed.
Lemma pad4_head n rest : 0 <= n < 10000 -> exists a r, pad_dec 4 n ++ rest = a :: r /\ is_digit a = true.
Proof. intros H. destruct (pad4_shape n H) as (a & b & c & d & E & Ha & _). rewrite E. exists a, (b :: c :: d :: rest). split; [reflexivity|exact Ha]. Qed.
Lemma pad0_head n rest : 0 <= n < 100 -> exists a r, pad_dec 0 n ++ rest = a :: r /\ is_digit a = true.
Proof.
  intros H. destruct (pad0_shape n H) as [(a & E & Ha & _)|(a & b & E & Ha & _)]; rewrite E.
  - exists a, rest. split; [reflexivity|exact Ha].
  - exists a, (b :: rest). split; [reflexivity|exact Ha].
Qed.

(* ---- directives --------------------------------------------------------------------------------- *)
Ltac eval_ch := repeat match goal with
  | |- context [ch_is ?c ?k] => let v := eval vm_compute in (ch_is c k) in change (ch_is c k) with v
  end; cbv iota.

Lemma in_range_true lo hi v : lo <= v <= hi -> in_range lo hi v = true.
Proof. unfold in_range. lia. Qed.

Lemma pd_Y y rest tm : -9999 <= y <= 9999 ->
  parse_directive "Y" (write_int 4 y ++ rest) tm =
  Some (mkB (Some y) (b_m tm) (b_d tm) (b_H tm) (b_M tm) (b_S tm) (b_off tm) (b_wd tm), rest).
Proof.
  intros H. unfold parse_directive. eval_ch. unfold write_int.
  destruct (Z.ltb_spec y 0) as [Hn|Hn].
  - cbn [app]. change (ch_is (B 45) 45) with true. cbv iota.
    rewrite parse_number_pad4 by lia. rewrite in_range_true by lia.
    replace (-1 * - y) with y by lia. reflexivity.
  - destruct (pad4_head y rest ltac:(lia)) as (a & r & E & Ha). rewrite E.
    destruct (digit_facts a Ha) as (H45 & H43 & _). rewrite H45, H43. rewrite <- E.
    rewrite parse_number_pad4 by lia. rewrite in_range_true by lia.
    replace (1 * y) with y by lia. reflexivity.
Qed.

Lemma pd_m v rest tm : 1 <= v <= 12 ->
  parse_directive "m" (write_int 2 v ++ rest) tm =
  Some (mkB (b_y tm) (Some v) (b_d tm) (b_H tm) (b_M tm) (b_S tm) (b_off tm) (b_wd tm), rest).
Proof.
  intros H. unfold parse_directive. eval_ch. rewrite write_int_nonneg by lia.
  rewrite parse_number_pad2 by lia. unfold ranged. rewrite in_range_true by lia. reflexivity.
Qed.
Lemma pd_d v rest tm : 1 <= v <= 31 ->
  parse_directive "d" (write_int 2 v ++ rest) tm =
  Some (mkB (b_y tm) (b_m tm) (Some v) (b_H tm) (b_M tm) (b_S tm) (b_off tm) (b_wd tm), rest).
Proof.
  intros H. unfold parse_directive. eval_ch. rewrite write_int_nonneg by lia.
  rewrite parse_number_pad2 by lia. unfold ranged. rewrite in_range_true by lia. reflexivity.
Qed.
Lemma pd_d_nopad v rest tm : 1 <= v <= 31 -> no_digit_head rest ->
  parse_directive "d" (write_int 0 v ++ rest) tm =
  Some (mkB (b_y tm) (b_m tm) (Some v) (b_H tm) (b_M tm) (b_S tm) (b_off tm) (b_wd tm), rest).
Proof.
  intros H Hr. unfold parse_directive. eval_ch. rewrite write_int_nonneg by lia.
  rewrite parse_number_pad0 by (lia || assumption). unfold ranged. rewrite in_range_true by lia. reflexivity.
Qed.
Lemma pd_H v rest tm : 0 <= v <= 23 ->
  parse_directive "H" (write_int 2 v ++ rest) tm =
  Some (mkB (b_y tm) (b_m tm) (b_d tm) (Some v) (b_M tm) (b_S tm) (b_off tm) (b_wd tm), rest).
Proof.
  intros H. unfold parse_directive. eval_ch. rewrite write_int_nonneg by lia.
  rewrite parse_number_pad2 by lia. unfold ranged. rewrite in_range_true by lia. reflexivity.
Qed.
Lemma pd_M v rest tm : 0 <= v <= 59 ->
  parse_directive "M" (write_int 2 v ++ rest) tm =
  Some (mkB (b_y tm) (b_m tm) (b_d tm) (b_H tm) (Some v) (b_S tm) (b_off tm) (b_wd tm), rest).
Proof.
  intros H. unfold parse_directive. eval_ch. rewrite write_int_nonneg by lia.
  rewrite parse_number_pad2 by lia. unfold ranged. rewrite in_range_true by lia. reflexivity.
Qed.
Lemma pd_S v rest tm : 0 <= v <= 59 ->
  parse_directive "S" (write_int 2 v ++ rest) tm =
  Some (mkB (b_y tm) (b_m tm) (b_d tm) (b_H tm) (b_M tm) (Some v) (b_off tm) (b_wd tm), rest).
Proof.
  intros H. unfold parse_directive. eval_ch. rewrite write_int_nonneg by lia.
  rewrite parse_number_pad2 by lia.
  destruct (Z.eqb_spec v 60); [lia|]. rewrite in_range_true by lia. reflexivity.
Qed.

(* ---- offsets ------------------------------------------------------------------------------------- *)
Lemma dec_exact_of l n : dec_to_N l = Some (Z.to_N n) -> 0 <= n -> dec_exact l = Some n.
Proof. intros H Hn. unfold dec_exact. rewrite H. cbn [option_map]. f_equal. lia. Qed.

(* %z / %:z at the end of the input *)
Lemma parse_offset_write colon o : - OFF_MAX <= o <= OFF_MAX ->
  parse_offset colon (write_offset colon o) = Some (o, []).
Proof.
  unfold OFF_MAX. intros H. unfold write_offset.
  set (a := Z.abs o).
  assert (Hhh : 0 <= a / 3600 < 100) by lia.
  assert (Hmm : 0 <= a mod 3600 / 60 < 100) by lia.
  assert (Hss : 0 <= a mod 60 < 100) by lia.
  destruct (pad2_shape _ Hhh) as (h1 & h2 & Eh & Hh1 & Hh2 & Hhv).
  destruct (pad2_shape _ Hmm) as (m1 & m2 & Em & Hm1 & Hm2 & Hmv).
  destruct (pad2_shape _ Hss) as (s1 & s2 & Es & Hs1 & Hs2 & Hsv).
  rewrite Eh, Em, Es.
  pose proof (dec_exact_of _ _ Hhv ltac:(lia)) as Dh.
  pose proof (dec_exact_of _ _ Hmv ltac:(lia)) as Dm.
  pose proof (dec_exact_of _ _ Hsv ltac:(lia)) as Ds.
  assert (Hsign : forall b : bool, (if b then bs "-" else bs "+") = [if b then "-"%byte else "+"%byte])
    by (intros []; reflexivity).
  rewrite Hsign.
  assert (Hneg : (if o <? 0 then -1 else 1) * a = o) by (unfold a; destruct (Z.ltb_spec o 0); lia).
  unfold parse_offset.
  destruct colon; try change (bs ":") with [":"%byte]; cbn [app];
  (destruct (o <? 0) eqn:Eo; eval_ch; cbn [negb orb andb];
   rewrite Dh, Dm; rewrite !in_range_true by lia; cbn [negb];
   (destruct (Z.eqb_spec (a mod 60) 0) as [Hz|Hz];
    [ cbn [app]; f_equal; f_equal; lia
    | cbn [app]; eval_ch; rewrite ?Hs1, ?Hs2; cbn [andb]; rewrite Ds; rewrite in_range_true by lia; cbn [negb];
      f_equal; f_equal; lia ])).
Qed.

(* ---- stepping the strptime interpreter ------------------------------------------------------------ *)
Lemma step_dir c fr inp tm tm' inp' :
  is_flag c = false -> ch_is c 58 = false -> inp <> [] ->
  parse_directive c inp tm = Some (tm', inp') ->
  strptime ("%"%byte :: c :: fr) inp tm = strptime fr inp' tm'.
Proof.
  intros Hf Hc Hne Hp. destruct inp as [|i0 ir]; [congruence|].
  cbn [strptime]. change (ch_is "%" 37) with true. cbv iota. rewrite Hf, Hc, Hp. reflexivity.
Qed.
Lemma step_flag_dir f c fr inp tm tm' inp' :
  is_flag f = true -> inp <> [] ->
  parse_directive c inp tm = Some (tm', inp') ->
  strptime ("%"%byte :: f :: c :: fr) inp tm = strptime fr inp' tm'.
Proof.
  intros Hf Hne Hp. destruct inp as [|i0 ir]; [congruence|].
  cbn [strptime]. change (ch_is "%" 37) with true. cbv iota. rewrite Hf, Hp. reflexivity.
Qed.
Lemma step_lit f fr inp tm :
  ch_is f 37 = false -> is_ascii_ws f = false ->
  strptime (f :: fr) (f :: inp) tm = strptime fr inp tm.
Proof.
  intros H1 H2. cbn [strptime]. rewrite H1, H2.
  assert (beqb f f = true) by (apply beqb_eq; reflexivity). rewrite H. reflexivity.
Qed.
Lemma step_ws f fr inp tm :
  ch_is f 37 = false -> is_ascii_ws f = true ->
  strptime (f :: fr) inp tm = strptime fr (skip_ws inp) tm.
Proof. intros H1 H2. cbn [strptime]. rewrite H1, H2. reflexivity. Qed.
Lemma step_colon_z fr inp tm o inp' :
  inp <> [] -> parse_offset true inp = Some (o, inp') ->
  strptime ("%"%byte :: ":"%byte :: "z"%byte :: fr) inp tm =
  strptime fr inp' (mkB (b_y tm) (b_m tm) (b_d tm) (b_H tm) (b_M tm) (b_S tm) (Some o) (b_wd tm)).
Proof.
  intros Hne Hp. destruct inp as [|i0 ir]; [congruence|].
  cbn [strptime]. change (ch_is "%" 37) with true. cbv iota.
  change (is_flag ":") with false. change (ch_is ":" 58) with true. change (ch_is "z" 122) with true. cbv iota.
  rewrite Hp. reflexivity.
Qed.

(* skip_ws of one space in front of a digit/sign *)
Lemma skip_ws_sp_nonws a r : is_ascii_ws a = false -> skip_ws (" "%byte :: a :: r) = a :: r.
Proof. intros H. cbn [skip_ws]. change (is_ascii_ws " ") with true. cbv iota. rewrite H. reflexivity. Qed.

Lemma write_offset_head colon o : exists s r, write_offset colon o = s :: r /\ is_ascii_ws s = false.
Proof.
  unfold write_offset. destruct (o <? 0); eexists; eexists; (split; [reflexivity|]); reflexivity.
Qed.

Lemma pd_z o tm : - OFF_MAX <= o <= OFF_MAX ->
  parse_directive "z" (write_offset false o) tm =
  Some (mkB (b_y tm) (b_m tm) (b_d tm) (b_H tm) (b_M tm) (b_S tm) (Some o) (b_wd tm), []).
Proof. intros H. unfold parse_directive. eval_ch. rewrite parse_offset_write by assumption. reflexivity. Qed.
