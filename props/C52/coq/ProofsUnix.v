(* C52 — Format::Unix: the decimal text of every i64 is read back by i64::from_str *)
From Coq Require Import ZArith NArith Lia ZifyBool ZifyN List.
From GixV.Base Require Import Bytes BytesFacts Outcome.
From GixV.C52 Require Import Tables Model ProofsDec ProofsText.
Local Open Scope Z_scope.

Lemma N_to_dec_head n : exists a r, N_to_dec n = a :: r /\ is_digit a = true.
Proof.
  pose proof (N_to_dec_all_digits n) as H. destruct (N_to_dec_value n) as [Hne _].
  destruct (N_to_dec n) as [|a r]; [congruence|]. cbn [forallb] in H. apply andb_prop in H.
  exists a, r. split; [reflexivity|apply H].
Qed.

Lemma unix_own s : I64_MIN <= s <= I64_MAX -> i64_from_str (Z_to_dec s) = Some s.
Proof.
  unfold I64_MIN, I64_MAX. intros H. unfold i64_from_str, int_from_str. destruct s as [|p|p]; cbn [Z_to_dec].
  - vm_compute. reflexivity.
  - destruct (N_to_dec_head (Npos p)) as (a & r & E & Ha). pose proof (dec_to_N_N_to_dec (Npos p)) as Hv.
    rewrite E in *. destruct (digit_facts a Ha) as (H45 & H43 & _). rewrite H45, H43, Hv.
    unfold I64_MAX. destruct (Z.leb_spec (Z.of_N (N.pos p)) 9223372036854775807); [reflexivity|lia].
  - change (ch_is "-" 45) with true. cbv iota. rewrite dec_to_N_N_to_dec.
    unfold I64_MIN. destruct (Z.leb_spec (-9223372036854775808) (- Z.of_N (N.pos p))); [reflexivity|lia].
Qed.
