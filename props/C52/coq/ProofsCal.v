(* C52 — the calendar contract: civil_from_days produces a valid date whose day number is the input *)
From Coq Require Import ZArith Lia ZifyBool List.
From GixV.Base Require Import Bytes.
From GixV.C52 Require Import Model.
Ltac Zify.zify_post_hook ::= Z.div_mod_to_equations.
Local Open Scope Z_scope.

(* March-based year y' = yoe + 400*era; the civil year of (mp, .) *)
Definition month_of_mp (mp : Z) : Z := if mp <? 10 then mp + 3 else mp - 9.

(* per day-of-era check: everything the lifting lemma needs, era-independent *)
Definition doe_ok (doe : Z) : bool :=
  let '(yoe, mp, d) := ymd_of_doe doe in
  let m := month_of_mp mp in
  let ycivil := yoe + (if m <=? 2 then 1 else 0) in       (* modulo 400 *)
  (0 <=? yoe) && (yoe <=? 399) && (0 <=? mp) && (mp <=? 11) && (1 <=? d) &&
  (d <=? days_in_month ycivil m) &&
  (doe_of yoe mp d =? doe) && ((m + 9) mod 12 =? mp).

(* all [n] values from [lo] upwards, by halving (no large nat) *)
Fixpoint range_ok (f : Z -> bool) (depth : nat) (lo : Z) : bool :=
  match depth with
  | O => f lo
  | S k => range_ok f k lo && range_ok f k (lo + 2 ^ Z.of_nat k)
  end.

Lemma range_ok_spec f depth : forall lo, range_ok f depth lo = true ->
  forall x, lo <= x < lo + 2 ^ Z.of_nat depth -> f x = true.
Proof.
  induction depth as [|k IH]; intros lo H x Hx.
  - cbn [range_ok] in H. change (2 ^ Z.of_nat 0) with 1 in Hx. replace x with lo by lia. exact H.
  - cbn [range_ok] in H. apply andb_prop in H. destruct H as [H1 H2].
    replace (Z.of_nat (S k)) with (Z.succ (Z.of_nat k)) in Hx by lia.
    rewrite Z.pow_succ_r in Hx by lia.
    destruct (Z.lt_ge_cases x (lo + 2 ^ Z.of_nat k)).
    + apply (IH lo H1). lia.
    + apply (IH _ H2). lia.
Qed.

(* 2^18 = 262144 > 146097: check a superset guarded by the bound *)
Lemma doe_sweep : range_ok (fun doe => if doe <? 146097 then doe_ok doe else true) 18 0 = true.
Proof. vm_compute. reflexivity. Qed.

Lemma doe_ok_all doe : 0 <= doe < 146097 -> doe_ok doe = true.
Proof.
  intros H. pose proof (range_ok_spec _ 18 0 doe_sweep doe) as G.
  cbv beta in G. destruct (Z.ltb_spec doe 146097); [|lia].
  apply G. change (2 ^ Z.of_nat 18) with 262144. lia.
Qed.

Lemma is_leap_shift y e : is_leap (y + e * 400) = is_leap y.
Proof.
  unfold is_leap.
  replace ((y + e * 400) mod 4) with (y mod 4) by (rewrite <- (Z.mod_add y (e * 100) 4) by lia; f_equal; lia).
  replace ((y + e * 400) mod 100) with (y mod 100) by (rewrite <- (Z.mod_add y (e * 4) 100) by lia; f_equal; lia).
  replace ((y + e * 400) mod 400) with (y mod 400) by (rewrite <- (Z.mod_add y e 400) by lia; reflexivity).
  reflexivity.
Qed.

Lemma days_in_month_shift y e m : days_in_month (y + e * 400) m = days_in_month y m.
Proof. unfold days_in_month. rewrite is_leap_shift. reflexivity. Qed.

(* the contract used by the round-trip theorems *)
Lemma civil_from_days_spec z : forall y m d, civil_from_days z = (y, m, d) ->
  1 <= m <= 12 /\ 1 <= d <= days_in_month y m /\ days_from_civil y m d = z.
Proof.
  intros y m d E. unfold civil_from_days in E.
  set (z' := z + 719468) in *.
  assert (Hdoe : 0 <= z' mod 146097 < 146097) by (apply Z.mod_pos_bound; lia).
  pose proof (doe_ok_all _ Hdoe) as Hok. unfold doe_ok in Hok.
  destruct (ymd_of_doe (z' mod 146097)) as [[yoe mp] d0] eqn:Ey.
  fold (month_of_mp mp) in E.
  injection E as Ey' Em Ed. subst d0.
  set (mm := month_of_mp mp) in *.
  repeat (apply andb_prop in Hok; destruct Hok as [Hok ?]).
  assert (Hm : 1 <= mm <= 12) by (unfold mm, month_of_mp; destruct (mp <? 10) eqn:?; lia).
  subst m.
  assert (Hyc : y = (yoe + (if mm <=? 2 then 1 else 0)) + (z' / 146097) * 400) by lia.
  split; [exact Hm|]. split.
  - rewrite Hyc, days_in_month_shift. lia.
  - unfold days_from_civil.
    assert (Hy' : (if mm <=? 2 then y - 1 else y) = yoe + (z' / 146097) * 400)
      by (destruct (mm <=? 2); lia).
    rewrite Hy'.
    replace ((yoe + z' / 146097 * 400) / 400) with (z' / 146097) by lia.
    replace ((yoe + z' / 146097 * 400) mod 400) with yoe by lia.
    assert (Hmp : (mm + 9) mod 12 = mp) by lia. rewrite Hmp.
    assert (Hd : doe_of yoe mp d = z' mod 146097) by lia. rewrite Hd.
    pose proof (Z.div_mod z' 146097). unfold z' in *. lia.
Qed.

(* ---- the year of a day number inside jiff's civil range --------------------------------------- *)
Definition doe_year_ok (doe : Z) : bool :=
  let '(yoe, mp, d) := ymd_of_doe doe in
  let m := month_of_mp mp in
  let yc := yoe + (if m <=? 2 then 1 else 0) in
  (0 <=? yc) && (yc <=? 400) && ((146036 <? doe) || (yc <=? 399)) && ((doe <? 306) || (1 <=? yc)).

Lemma doe_year_sweep : range_ok (fun doe => if doe <? 146097 then doe_year_ok doe else true) 18 0 = true.
Proof. vm_compute. reflexivity. Qed.

(* -4371587 = -9999-01-01, 2932896 = 9999-12-31 *)
Lemma civil_from_days_year z y m d : civil_from_days z = (y, m, d) ->
  -4371587 <= z <= 2932896 -> -9999 <= y <= 9999.
Proof.
  intros E Hz. unfold civil_from_days in E.
  set (z' := z + 719468) in *.
  assert (Hdoe : 0 <= z' mod 146097 < 146097) by (apply Z.mod_pos_bound; lia).
  pose proof (range_ok_spec _ 18 0 doe_year_sweep (z' mod 146097)) as G. cbv beta in G.
  destruct (Z.ltb_spec (z' mod 146097) 146097); [|lia].
  specialize (G ltac:(change (2 ^ Z.of_nat 18) with 262144; lia)).
  unfold doe_year_ok in G.
  destruct (ymd_of_doe (z' mod 146097)) as [[yoe mp] d0] eqn:Ey.
  fold (month_of_mp mp) in E. injection E as Ey' Em Ed.
  set (mm := month_of_mp mp) in *.
  repeat (apply andb_prop in G; destruct G as [G ?]).
  pose proof (Z.div_mod z' 146097).
  assert (-25 <= z' / 146097 <= 24) by (unfold z' in *; lia).
  destruct (mm <=? 2); unfold z' in *; lia.
Qed.
