(* C52 — round trips: the text Time::format writes is read back by the parser of that format *)
From Coq Require Import ZArith Lia ZifyBool List.
From GixV.Base Require Import Bytes BytesFacts Outcome.
From GixV.C52 Require Import Tables Model ProofsDec ProofsCal ProofsNum ProofsText.
Ltac Zify.zify_post_hook ::= Z.div_mod_to_equations.
Local Open Scope Z_scope.

Lemma pad_dec_ne w n r : pad_dec w n ++ r <> [].
Proof.
  unfold pad_dec. destruct (N_to_dec_value (Z.to_N n)) as [Hne _].
  destruct (N_to_dec (Z.to_N n)) as [|b0 l0]; [congruence|].
  destruct (repeat (B 48) (w - length (b0 :: l0))); discriminate.
Qed.
Lemma write_int_ne w n r : write_int w n ++ r <> [].
Proof. unfold write_int. destruct (n <? 0); [discriminate|apply pad_dec_ne]. Qed.

Lemma skip_ws_digit_head a r : is_digit a = true -> skip_ws (a :: r) = a :: r.
Proof. intros H. cbn [skip_ws]. destruct (digit_facts a H) as (_ & _ & Hw & _). rewrite Hw. reflexivity. Qed.
Lemma skip_ws_sp_pad2 n rest : 0 <= n < 100 ->
  skip_ws (" "%byte :: write_int 2 n ++ rest) = write_int 2 n ++ rest.
Proof.
  intros H. cbn [skip_ws]. change (is_ascii_ws " ") with true. cbv iota.
  rewrite write_int_nonneg by lia. destruct (pad2_head n rest H) as (a & r & E & Ha). rewrite E.
  apply skip_ws_digit_head; assumption.
Qed.
Lemma skip_ws_sp_offset colon o rest :
  skip_ws (" "%byte :: write_offset colon o ++ rest) = write_offset colon o ++ rest.
Proof.
  cbn [skip_ws]. change (is_ascii_ws " ") with true. cbv iota.
  destruct (write_offset_head colon o) as (s & r & E & Hs). rewrite E. cbn [app skip_ws]. rewrite Hs. reflexivity.
Qed.
Lemma skip_ws_sp_year y rest : -9999 <= y <= 9999 ->
  skip_ws (" "%byte :: write_int 4 y ++ rest) = write_int 4 y ++ rest.
Proof.
  intros H. cbn [skip_ws]. change (is_ascii_ws " ") with true. cbv iota.
  unfold write_int. destruct (Z.ltb_spec y 0).
  - cbn [app skip_ws]. change (is_ascii_ws (B 45)) with false. reflexivity.
  - destruct (pad4_head y rest ltac:(lia)) as (a & r & E & Ha). rewrite E. apply skip_ws_digit_head; assumption.
Qed.

(* facts about the civil view of an in-range time, in the form the directive lemmas need *)
Lemma civil_facts s o : TS_MIN <= s <= TS_MAX -> - OFF_MAX <= o <= OFF_MAX ->
  let c := to_civil s o in
  -9999 <= c_y c <= 9999 /\ 1 <= c_m c <= 12 /\ 1 <= c_d c <= 31 /\
  c_d c <= days_in_month (c_y c) (c_m c) /\
  0 <= c_H c <= 23 /\ 0 <= c_M c <= 59 /\ 0 <= c_S c <= 59 /\ c_off c = o /\
  civil_secs (c_y c) (c_m c) (c_d c) (c_H c) (c_M c) (c_S c) - o = s.
Proof.
  intros Hs Ho c. pose proof (to_civil_spec s o) as H. cbv zeta in H. fold c in H.
  destruct H as (Hm & Hd & HH & HM & HS & _ & Hoff & Hsec & _).
  pose proof (to_civil_year s o Hs Ho) as Hy. fold c in Hy.
  assert (days_in_month (c_y c) (c_m c) <= 31).
  { unfold days_in_month. destruct (c_m c =? 2); [destruct (is_leap (c_y c))|destruct ((c_m c =? 4) || (c_m c =? 6) || (c_m c =? 9) || (c_m c =? 11))%bool]; lia. }
  repeat split; try lia.
Qed.

Lemma to_time_ok s o sg : TS_MIN <= s <= TS_MAX -> - OFF_MAX <= o <= OFF_MAX ->
  to_time (mkT s o sg) = Ok (to_civil s o).
Proof.
  intros Hs Ho. unfold to_time. cbn [secs off]. rewrite !in_range_true by lia. reflexivity.
Qed.

(* the end of every own-parser proof: pieces -> (timestamp, offset) *)
Lemma finish_zoned y m d H M Sc o s :
  1 <= m <= 12 -> 1 <= d -> d <= days_in_month y m ->
  civil_secs y m d H M Sc - o = s -> TS_MIN <= s <= TS_MAX ->
  let tm := mkB (Some y) (Some m) (Some d) (Some H) (Some M) (Some Sc) (Some o) None in
  match to_date tm, to_clock tm with
  | Some (y, m, d), Some (H, M, Sc) =>
      match b_off tm with
      | Some o => match to_timestamp y m d H M Sc o with Some ts => Some (ts, o) | None => None end
      | None => None
      end
  | _, _ => None
  end = Some (s, o).
Proof.
  intros Hm Hd1 Hd Hsec Hs. cbv zeta. unfold to_date, to_clock. cbn [b_y b_m b_d b_H b_M b_S b_off b_wd].
  destruct (Z.leb_spec d (days_in_month y m)); [|lia].
  unfold to_timestamp. rewrite Hsec.
  destruct (Z.leb_spec TS_MIN s); [|lia]. destruct (Z.leb_spec s TS_MAX); [|lia]. reflexivity.
Qed.

Ltac expand_fmt f := let v := eval vm_compute in f in change f with v.
Ltac dir L := erewrite step_dir; [ | reflexivity | reflexivity | try apply write_int_ne | apply L; lia ].
Ltac lit := rewrite step_lit by reflexivity.

(* ---- ISO8601 ------------------------------------------------------------------------------------ *)
Lemma strftime_iso tm : strftime fmt_ISO8601 tm =
  Some (write_int 4 (c_y tm) ++ "-"%byte :: write_int 2 (c_m tm) ++ "-"%byte :: write_int 2 (c_d tm) ++
        " "%byte :: write_int 2 (c_H tm) ++ ":"%byte :: write_int 2 (c_M tm) ++ ":"%byte :: write_int 2 (c_S tm) ++
        " "%byte :: write_offset false (c_off tm) ++ []).
Proof. reflexivity. Qed.

Lemma iso8601_own s o sg text : TS_MIN <= s <= TS_MAX -> - OFF_MAX <= o <= OFF_MAX ->
  format (KCustom fmt_ISO8601) (mkT s o sg) = Ok text ->
  strptime_relaxed fmt_ISO8601 text = Some (s, o).
Proof.
  intros Hs Ho E. unfold format in E. rewrite to_time_ok in E by assumption.
  rewrite strftime_iso in E. apply Ok_inj in E. subst text.
  destruct (civil_facts s o Hs Ho) as (Hy & Hm & Hd & Hdim & HH & HM & HS & Hoff & Hsec).
  set (c := to_civil s o) in *. clearbody c.
  unfold strptime_relaxed, strptime_all. expand_fmt fmt_ISO8601.
  dir pd_Y. lit. dir pd_m. lit. dir pd_d.
  rewrite step_ws by reflexivity. rewrite skip_ws_sp_pad2 by lia.
  dir pd_H. lit. dir pd_M. lit. dir pd_S.
  rewrite step_ws by reflexivity. rewrite skip_ws_sp_offset. rewrite app_nil_r.
  erewrite step_dir; [ | reflexivity | reflexivity | | apply pd_z; rewrite Hoff; lia ].
  2:{ destruct (write_offset_head false (c_off c)) as (x & r & Ex & _). rewrite Ex. discriminate. }
  cbn [strptime b_y b_m b_d b_H b_M b_S b_off b_wd bdt0].
  rewrite Hoff. apply finish_zoned; lia.
Qed.

(* ---- totality of format on the representable range, and the panic outside it -------------------- *)
Definition custom_formats : list bytes :=
  [fmt_SHORT; fmt_RFC2822; fmt_GIT_RFC2822; fmt_ISO8601; fmt_ISO8601_STRICT; fmt_GITOXIDE; fmt_DEFAULT].

Lemma strftime_total fmt tm : In fmt custom_formats -> exists text, strftime fmt tm = Some text.
Proof.
  intros H. unfold custom_formats in H. cbn [In] in H.
  repeat (destruct H as [H|H]; [subst fmt; eexists; reflexivity|]). contradiction.
Qed.

Lemma format_custom_total fmt s o sg : In fmt custom_formats ->
  TS_MIN <= s <= TS_MAX -> - OFF_MAX <= o <= OFF_MAX ->
  exists text, format (KCustom fmt) (mkT s o sg) = Ok text.
Proof.
  intros Hf Hs Ho. unfold format. rewrite to_time_ok by assumption.
  destruct (strftime_total fmt (to_civil s o) Hf) as (text & E). rewrite E. eexists. reflexivity.
Qed.

Lemma format_custom_panics fmt s o sg :
  ~ (TS_MIN <= s <= TS_MAX /\ - OFF_MAX <= o <= OFF_MAX) -> format (KCustom fmt) (mkT s o sg) = Panic.
Proof.
  intros H. unfold format, to_time, in_range. cbn [secs off].
  destruct (Z.leb_spec (- OFF_MAX) o), (Z.leb_spec o OFF_MAX); cbn [andb negb]; try reflexivity.
  destruct (Z.leb_spec TS_MIN s), (Z.leb_spec s TS_MAX); cbn [andb negb]; try reflexivity. lia.
Qed.

Lemma format_unix_total t : format KUnix t = Ok (Z_to_dec (secs t)).
Proof. reflexivity. Qed.

Lemma format_raw_total t : Z.abs (off t) < 360000 -> exists text, format KRaw t = Ok text.
Proof.
  intros H. unfold format, write_raw. destruct (Z.gtb_spec (Z.abs (off t) / 3600) 99); [lia|]. eexists. reflexivity.
Qed.
Lemma format_raw_panics t : 360000 <= Z.abs (off t) -> format KRaw t = Panic.
Proof.
  intros H. unfold format, write_raw. destruct (Z.gtb_spec (Z.abs (off t) / 3600) 99); [reflexivity|lia].
Qed.
