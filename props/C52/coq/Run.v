(* C52 — transcript printer.  Cases:
     fmt   <kind> <secs> <off> <sign>       Time::format
     rt    <kind> <secs> <off> <sign>       Time::format, then gix_date::parse(text, None)
     parse <text> <now | ->                 gix_date::parse(text, now)
   kind: short rfc2822 gitrfc2822 iso8601 iso8601strict gitoxide default unix raw; sign: "-" = Minus *)
From GixV.Base Require Import Bytes Outcome.
From GixV.C52 Require Import Tables Model.
Local Open Scope Z_scope.

Definition kind_of (k : bytes) : option fkind :=
  if bytes_eqb k (bs "short") then Some (KCustom fmt_SHORT)
  else if bytes_eqb k (bs "rfc2822") then Some (KCustom fmt_RFC2822)
  else if bytes_eqb k (bs "gitrfc2822") then Some (KCustom fmt_GIT_RFC2822)
  else if bytes_eqb k (bs "iso8601") then Some (KCustom fmt_ISO8601)
  else if bytes_eqb k (bs "iso8601strict") then Some (KCustom fmt_ISO8601_STRICT)
  else if bytes_eqb k (bs "gitoxide") then Some (KCustom fmt_GITOXIDE)
  else if bytes_eqb k (bs "default") then Some (KCustom fmt_DEFAULT)
  else if bytes_eqb k (bs "unix") then Some KUnix
  else if bytes_eqb k (bs "raw") then Some KRaw
  else None.

Definition err_name (e : err) : bytes :=
  match e with EInvalid => bs "Invalid" | ERelative => bs "Relative" | EMissingNow => bs "MissingNow" end.

Definition show_time (t : time) : bytes :=
  Z_to_dec (secs t) ++ bs " " ++ Z_to_dec (off t) ++ bs " " ++ (if minus t then bs "-" else bs "+").

Definition show {A} (f : A -> bytes) (o : outcome A err) : bytes :=
  match o with
  | Ok a => bs "ok " ++ f a
  | Err e => bs "err " ++ err_name e
  | Panic => bs "PANIC"
  | OutOfFuel => bs "HANG"
  end.

Definition time_of_fields (fs : list bytes) : time :=
  mkT (field_Z 2 fs) (field_Z 3 fs) (bytes_eqb (nth_field 4 fs) (bs "-")).

Definition run_model (fs : list bytes) : bytes :=
  let op := nth_field 0 fs in
  if bytes_eqb op (bs "fmt") then
    match kind_of (nth_field 1 fs) with
    | Some k => show hex_encode (format k (time_of_fields fs))
    | None => bs "?"
    end
  else if bytes_eqb op (bs "rt") then
    match kind_of (nth_field 1 fs) with
    | Some k =>
        match format k (time_of_fields fs) with
        | Ok text => bs "ok " ++ hex_encode text ++ bs " -> " ++ show show_time (parse text None)
        | o => show hex_encode o
        end
    | None => bs "?"
    end
  else if bytes_eqb op (bs "parse") then
    let now := match nth_field 2 fs with [] => None | _ => Some (field_Z 2 fs) end in
    show show_time (parse (nth_field 1 fs) now)
  else bs "?".

Definition run (fs : list bytes) : bytes :=
  match fs with
  | _mode :: rest => run_model rest
  | [] => bs "?"
  end.
