(* C52 — Dates format and parse consistently with git.
   Only statements here; every proof is [exact <lemma>].
   Model: Model.v (gix-date Time::format / parse; jiff given as a Gallina contract).
   [mkT s o sg] is gix_date::Time { seconds: s, offset: o, sign: sg }; [TS_MIN, TS_MAX] is jiff's
   Timestamp range (-9999-01-02T01:59:59Z .. 9999-12-30T22:00:00Z), [OFF_MAX] = 25:59:59 in seconds.
   The [*_own] theorems are about the attempt `parse` makes with the format's own parser
   ([strptime_relaxed fmt], [date_strptime], [i64_from_str], [parse_raw]); that no EARLIER attempt of
   `parse` accepts the text is proved only where a theorem below says so ([parse …]), and is
   otherwise tested by the correspondence run (rt cases). *)
From GixV.Base Require Import Bytes BytesFacts Outcome.
From GixV.C52 Require Import Tables Model ProofsCal ProofsNum ProofsText ProofsRT.
Local Open Scope Z_scope.

(* the calendar contract: every day number has a valid civil date, and that date's day number is the input *)
Theorem calendar_days_civil_days : forall z y m d, civil_from_days z = (y, m, d) ->
  1 <= m <= 12 /\ 1 <= d <= days_in_month y m /\ days_from_civil y m d = z.
Proof. exact civil_from_days_spec. Qed.

(* the civil fields shown for an instant at an offset are valid and read back as that instant *)
Theorem civil_view_reads_back : forall s o, let c := to_civil s o in
  1 <= c_m c <= 12 /\ 1 <= c_d c <= days_in_month (c_y c) (c_m c) /\
  0 <= c_H c <= 23 /\ 0 <= c_M c <= 59 /\ 0 <= c_S c <= 59 /\ 0 <= c_wd c <= 6 /\ c_off c = o /\
  civil_secs (c_y c) (c_m c) (c_d c) (c_H c) (c_M c) (c_S c) - o = s /\
  days_from_civil (c_y c) (c_m c) (c_d c) = (s + o) / 86400.
Proof. exact to_civil_spec. Qed.

(* instants in jiff's range have four-digit years *)
Theorem in_range_years : forall s o, TS_MIN <= s <= TS_MAX -> - OFF_MAX <= o <= OFF_MAX ->
  -9999 <= c_y (to_civil s o) <= 9999.
Proof. exact to_civil_year. Qed.

(* format is total on jiff's range for every custom format … *)
Theorem format_total_custom : forall fmt s o sg, In fmt custom_formats ->
  TS_MIN <= s <= TS_MAX -> - OFF_MAX <= o <= OFF_MAX ->
  exists text, format (KCustom fmt) (mkT s o sg) = Ok text.
Proof. exact format_custom_total. Qed.
(* … for every i64 with Format::Unix, and for every offset below 100 hours with Format::Raw *)
Theorem format_total_unix : forall t, format KUnix t = Ok (Z_to_dec (secs t)).
Proof. exact format_unix_total. Qed.
Theorem format_total_raw : forall t, Z.abs (off t) < 360000 -> exists text, format KRaw t = Ok text.
Proof. exact format_raw_total. Qed.

(* "format is total on every representable time" is FALSE of the code: outside jiff's range every
   custom format panics (known finding format-panics-outside-jiff-range) *)
Definition format_total_full_statement : Prop :=
  forall fmt s o sg, In fmt custom_formats -> I64_MIN <= s <= I64_MAX -> -359999 <= o <= 359999 ->
  exists text, format (KCustom fmt) (mkT s o sg) = Ok text.
Theorem format_total_refuted : ~ format_total_full_statement.
Proof.
  intros H. destruct (H fmt_ISO8601 253402207201 0 false) as (text & E).
  - unfold custom_formats. cbn [In]. tauto.
  - unfold I64_MIN, I64_MAX. split; discriminate.
  - split; discriminate.
  - rewrite format_custom_panics in E; [discriminate|]. unfold TS_MAX. intros [[_ C] _]. apply C. reflexivity.
Qed.
Theorem format_panics_exactly_outside_range : forall fmt s o sg,
  ~ (TS_MIN <= s <= TS_MAX /\ - OFF_MAX <= o <= OFF_MAX) -> format (KCustom fmt) (mkT s o sg) = Panic.
Proof. exact format_custom_panics. Qed.
Theorem format_raw_panics_from_100_hours : forall t, 360000 <= Z.abs (off t) -> format KRaw t = Panic.
Proof. exact format_raw_panics. Qed.

(* ISO8601: the text carries instant and offset; its own parser reads both back, for every
   instant in jiff's range and every offset up to 25:59:59 (seconds included) *)
Theorem iso8601_roundtrip_own : forall s o sg text,
  TS_MIN <= s <= TS_MAX -> - OFF_MAX <= o <= OFF_MAX ->
  format (KCustom fmt_ISO8601) (mkT s o sg) = Ok text ->
  strptime_relaxed fmt_ISO8601 text = Some (s, o).
Proof. exact iso8601_own. Qed.

(* non-vacuity: the instant of gix-date's own tests *)
Example iso8601_example :
  format (KCustom fmt_ISO8601) (mkT 123456789 9000 false) = Ok (bs "1973-11-30 00:03:09 +0230") /\
  parse (bs "1973-11-30 00:03:09 +0230") None = Ok (mkT 123456789 9000 false) /\
  TS_MIN <= 123456789 <= TS_MAX /\ - OFF_MAX <= 9000 <= OFF_MAX.
Proof. vm_compute. repeat split; discriminate. Qed.
