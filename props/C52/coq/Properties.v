(* C52 — Dates format and parse consistently with git.
   Only statements here; every proof is [exact <lemma>].
   Model: Model.v (gix-date Time::format / parse; jiff given as a Gallina contract).
   [mkT s o sg] is gix_date::Time { seconds: s, offset: o, sign: sg }; [TS_MIN, TS_MAX] is jiff's
   Timestamp range (-9999-01-02T01:59:59Z .. 9999-12-30T22:00:00Z), [OFF_MAX] = 25:59:59 in seconds.
   The [*_own] theorems are about the attempt `parse` makes with the format's own parser
   ([strptime_relaxed fmt], [date_strptime], [i64_from_str], [parse_raw]); that no EARLIER attempt of
   `parse` accepts the text is proved only where a theorem below says so ([parse …]), and is
   otherwise tested by the correspondence run (rt cases). *)
From GixV.Base Require Import Bytes BytesFacts Outcome.
From GixV.C52 Require Import Tables Model ProofsCal ProofsNum ProofsText ProofsRT ProofsParse ProofsStrict ProofsShort ProofsUnix.
Local Open Scope Z_scope.

(* the calendar contract: every day number has a valid civil date, and that date's day number is the input *)
Theorem calendar_days_civil_days : forall z y m d, civil_from_days z = (y, m, d) ->
  1 <= m <= 12 /\ 1 <= d <= days_in_month y m /\ days_from_civil y m d = z.
Proof. exact civil_from_days_spec. Qed.

(* the civil fields shown for an instant at an offset are valid and read back as that instant *)
Theorem civil_view_reads_back : forall s o, let c := to_civil s o in
  1 <= c_m c <= 12 /\ 1 <= c_d c <= days_in_month (c_y c) (c_m c) /\
  0 <= c_H c <= 23 /\ 0 <= c_M c <= 59 /\ 0 <= c_S c <= 59 /\ 0 <= c_wd c <= 6 /\ c_off c = o /\
  civil_secs (c_y c) (c_m c) (c_d c) (c_H c) (c_M c) (c_S c) - o = s /\
  days_from_civil (c_y c) (c_m c) (c_d c) = (s + o) / 86400.
Proof. exact to_civil_spec. Qed.

(* instants in jiff's range have four-digit years *)
Theorem in_range_years : forall s o, TS_MIN <= s <= TS_MAX -> - OFF_MAX <= o <= OFF_MAX ->
  -9999 <= c_y (to_civil s o) <= 9999.
Proof. exact to_civil_year. Qed.

(* format is total on jiff's range for every custom format … *)
Theorem format_total_custom : forall fmt s o sg, In fmt custom_formats ->
  TS_MIN <= s <= TS_MAX -> - OFF_MAX <= o <= OFF_MAX ->
  exists text, format (KCustom fmt) (mkT s o sg) = Ok text.
Proof. exact format_custom_total. Qed.
(* … for every i64 with Format::Unix, and for every offset below 100 hours with Format::Raw *)
Theorem format_total_unix : forall t, format KUnix t = Ok (Z_to_dec (secs t)).
Proof. exact format_unix_total. Qed.
Theorem format_total_raw : forall t, Z.abs (off t) < 360000 -> exists text, format KRaw t = Ok text.
Proof. exact format_raw_total. Qed.

(* "format is total on every representable time" is FALSE of the code: outside jiff's range every
   custom format panics (known finding format-panics-outside-jiff-range) *)
Definition format_total_full_statement : Prop :=
  forall fmt s o sg, In fmt custom_formats -> I64_MIN <= s <= I64_MAX -> -359999 <= o <= 359999 ->
  exists text, format (KCustom fmt) (mkT s o sg) = Ok text.
Theorem format_total_refuted : ~ format_total_full_statement.
Proof.
  intros H. destruct (H fmt_ISO8601 253402207201 0 false) as (text & E).
  - unfold custom_formats. cbn [In]. tauto.
  - unfold I64_MIN, I64_MAX. split; discriminate.
  - split; discriminate.
  - rewrite format_custom_panics in E; [discriminate|]. unfold TS_MAX. intros [[_ C] _]. apply C. reflexivity.
Qed.
Theorem format_panics_exactly_outside_range : forall fmt s o sg,
  ~ (TS_MIN <= s <= TS_MAX /\ - OFF_MAX <= o <= OFF_MAX) -> format (KCustom fmt) (mkT s o sg) = Panic.
Proof. exact format_custom_panics. Qed.
Theorem format_raw_panics_from_100_hours : forall t, 360000 <= Z.abs (off t) -> format KRaw t = Panic.
Proof. exact format_raw_panics. Qed.

(* ISO8601: the text carries instant and offset; its own parser reads both back, for every
   instant in jiff's range and every offset up to 25:59:59 (seconds included) *)
Theorem iso8601_roundtrip_own : forall s o sg text,
  TS_MIN <= s <= TS_MAX -> - OFF_MAX <= o <= OFF_MAX ->
  format (KCustom fmt_ISO8601) (mkT s o sg) = Ok text ->
  strptime_relaxed fmt_ISO8601 text = Some (s, o).
Proof. exact iso8601_own. Qed.

(* … and so does the whole of gix_date::parse: the special-cased string cannot occur, the SHORT and
   RFC 2822 attempts reject the text, the ISO8601 attempt returns Time::new(instant, offset).
   This is the property statement for ISO8601 in full (sign = sign of the offset, as Time::new sets it). *)
Theorem iso8601_roundtrip : forall s o sg text,
  TS_MIN <= s <= TS_MAX -> - OFF_MAX <= o <= OFF_MAX ->
  format (KCustom fmt_ISO8601) (mkT s o sg) = Ok text ->
  parse text None = Ok (time_new s o).
Proof. exact iso8601_parse. Qed.

(* ISO8601_STRICT: same, through the SHORT, RFC 2822 and ISO8601 attempts (which all reject) *)
Theorem iso8601_strict_roundtrip : forall s o sg text,
  TS_MIN <= s <= TS_MAX -> - OFF_MAX <= o <= OFF_MAX ->
  format (KCustom fmt_ISO8601_STRICT) (mkT s o sg) = Ok text ->
  parse text None = Ok (time_new s o).
Proof. exact strict_parse. Qed.

(* SHORT: the text carries the civil date at the offset and nothing else; parse returns midnight UTC
   of that date (when that midnight is itself inside jiff's range) *)
Theorem short_roundtrip_civil_date : forall s o sg text,
  TS_MIN <= s <= TS_MAX -> - OFF_MAX <= o <= OFF_MAX ->
  let midnight := (s + o) / 86400 * 86400 in
  TS_MIN <= midnight <= TS_MAX ->
  format (KCustom fmt_SHORT) (mkT s o sg) = Ok text ->
  parse text None = Ok (time_new midnight 0).
Proof. exact short_parse. Qed.

(* UNIX: the text carries the instant; i64::from_str (the UNIX attempt of parse) reads it back for
   every i64 — own attempt only: that the six earlier attempts reject a bare number is tested *)
Theorem unix_roundtrip_own : forall s, I64_MIN <= s <= I64_MAX ->
  forall t text, secs t = s -> format KUnix t = Ok text -> i64_from_str text = Some s.
Proof.
  intros s H t text <- E. rewrite format_unix_total in E. apply Ok_inj in E. subst text. exact (unix_own _ H).
Qed.

(* non-vacuity: the instant of gix-date's own tests *)
Example iso8601_example :
  format (KCustom fmt_ISO8601) (mkT 123456789 9000 false) = Ok (bs "1973-11-30 00:03:09 +0230") /\
  parse (bs "1973-11-30 00:03:09 +0230") None = Ok (mkT 123456789 9000 false) /\
  TS_MIN <= 123456789 <= TS_MAX /\ - OFF_MAX <= 9000 <= OFF_MAX.
Proof. vm_compute. repeat split; discriminate. Qed.

Example strict_short_example :
  parse (bs "1973-11-30T00:03:09+02:30") None = Ok (mkT 123456789 9000 false) /\
  format (KCustom fmt_SHORT) (mkT 123456789 9000 false) = Ok (bs "1973-11-30") /\
  parse (bs "1973-11-30") None = Ok (mkT ((123456789 + 9000) / 86400 * 86400) 0 false) /\
  parse (bs "-62167219200") None = Ok (mkT (-62167219200) 0 false).
Proof. vm_compute. repeat split. Qed.
