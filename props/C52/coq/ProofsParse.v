(* C52 — the whole of gix_date::parse on ISO8601 text: the special case does not fire, the two
   earlier attempts (SHORT, RFC 2822) reject, the ISO8601 attempt reads instant and offset back *)
From Coq Require Import ZArith Lia ZifyBool List.
From GixV.Base Require Import Bytes BytesFacts Outcome.
From GixV.C52 Require Import Tables Model ProofsDec ProofsCal ProofsNum ProofsText ProofsRT.
Ltac Zify.zify_post_hook ::= Z.div_mod_to_equations.
Local Open Scope Z_scope.

Lemma bytes_eqb_len a : forall b, length a <> length b -> bytes_eqb a b = false.
Proof.
  induction a as [|x a IH]; intros [|y b] H; cbn [bytes_eqb length] in *; try reflexivity; try congruence.
  rewrite IH by (intros C; apply H; congruence). apply andb_false_r.
Qed.

Lemma pad2_length n : 0 <= n < 100 -> length (pad_dec 2 n) = 2%nat.
Proof. intros H. destruct (pad2_shape n H) as (a & b & E & _). rewrite E. reflexivity. Qed.
Lemma write_int4_length y : -9999 <= y <= 9999 -> (4 <= length (write_int 4 y))%nat.
Proof.
  intros H. unfold write_int. destruct (Z.ltb_spec y 0).
  - destruct (pad4_shape (- y) ltac:(lia)) as (a & b & c & d & E & _). rewrite E. cbn [length]. lia.
  - destruct (pad4_shape y ltac:(lia)) as (a & b & c & d & E & _). rewrite E. cbn [length]. lia.
Qed.

(* RFC 2822 rejects text that starts with a (possibly negative) four-digit year and a dash *)
Lemma rfc2822_rejects_year_dash y rest : -9999 <= y <= 9999 ->
  rfc2822_relaxed (write_int 4 y ++ "-"%byte :: rest) = None.
Proof.
  intros H. unfold write_int. destruct (Z.ltb_spec y 0).
  - destruct (pad4_shape (- y) ltac:(lia)) as (a & b & c & d & E & _). rewrite E.
    unfold rfc2822_relaxed. cbn [app skip_ws]. change (is_ascii_ws (B 45)) with false. cbv iota.
    change (is_digit (B 45)) with false. cbv iota.
    replace (find_name [to_lower (B 45); to_lower a; to_lower b] wd_names 0) with (@None Z); [reflexivity|].
    unfold wd_names. cbn [find_name]. 
    repeat match goal with |- context [bytes_eqb ?x ?n] =>
      replace (bytes_eqb x n) with false by (cbn [bytes_eqb]; reflexivity) end.
    reflexivity.
  - destruct (pad4_shape y ltac:(lia)) as (a & b & c & d & E & Ha & Hb & Hc & _). rewrite E.
    unfold rfc2822_relaxed. cbn [app skip_ws].
    destruct (digit_facts a Ha) as (_ & _ & Hwa & _). rewrite Hwa, Ha, Hb.
    destruct (dec_exact [a; b]) as [v'|]; cbn [option_map ranged]; [|reflexivity].
    destruct (in_range 1 31 v'); [|reflexivity].
    cbn [need_ws]. destruct (digit_facts c Hc) as (_ & _ & Hwc & _). rewrite Hwc. reflexivity.
Qed.

Lemma iso8601_parse s o sg text : TS_MIN <= s <= TS_MAX -> - OFF_MAX <= o <= OFF_MAX ->
  format (KCustom fmt_ISO8601) (mkT s o sg) = Ok text ->
  parse text None = Ok (time_new s o).
Proof.
  intros Hs Ho E. pose proof (iso8601_own s o sg text Hs Ho E) as Hown.
  unfold format in E. rewrite to_time_ok in E by assumption.
  rewrite strftime_iso in E. apply Ok_inj in E.
  destruct (civil_facts s o Hs Ho) as (Hy & Hm & Hd & Hdim & HH & HM & HS & Hoff & Hsec).
  set (c := to_civil s o) in *. clearbody c.
  unfold parse.
  (* the special-cased string is shorter than any ISO8601 text *)
  replace (bytes_eqb text special_input) with false.
  2:{ symmetry. apply bytes_eqb_len. subst text. rewrite !app_length. cbn [length].
      rewrite !app_length. cbn [length]. rewrite !app_length. cbn [length]. rewrite !app_length. cbn [length].
      rewrite !app_length. cbn [length]. rewrite !app_length. cbn [length].
      pose proof (write_int4_length (c_y c) Hy).
      rewrite (write_int_nonneg 2 (c_m c)), (write_int_nonneg 2 (c_d c)), (write_int_nonneg 2 (c_H c)),
        (write_int_nonneg 2 (c_M c)), (write_int_nonneg 2 (c_S c)) by lia.
      rewrite !pad2_length by lia.
      change (length special_input) with 19%nat. lia. }
  unfold parse_order. cbn [first_attempt attempt].
  (* SHORT: the date parses, the rest of the text remains *)
  replace (date_strptime fmt_SHORT text) with (@None (Z * Z * Z)).
  2:{ symmetry. subst text. unfold date_strptime, strptime_all. expand_fmt fmt_SHORT.
      dir pd_Y. lit. dir pd_m. lit. dir pd_d. cbn [strptime]. reflexivity. }
  (* RFC 2822 *)
  replace (rfc2822_relaxed text) with (@None (Z * Z)) by (subst text; symmetry; apply rfc2822_rejects_year_dash; exact Hy).
  cbn [option_map]. rewrite Hown. reflexivity.
Qed.

