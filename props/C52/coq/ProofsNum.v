(* C52 — numeric level: the civil view of an instant reads back as the instant; shapes of padded numbers *)
From Coq Require Import ZArith Lia ZifyBool List.
From GixV.Base Require Import Bytes BytesFacts Outcome.
From GixV.C52 Require Import Model ProofsCal.
Ltac Zify.zify_post_hook ::= Z.div_mod_to_equations.
Local Open Scope Z_scope.

(* the civil fields of [to_civil s o] are a valid date/time whose reading at [o] is [s] *)
Lemma to_civil_spec s o : let c := to_civil s o in
  1 <= c_m c <= 12 /\ 1 <= c_d c <= days_in_month (c_y c) (c_m c) /\
  0 <= c_H c <= 23 /\ 0 <= c_M c <= 59 /\ 0 <= c_S c <= 59 /\ 0 <= c_wd c <= 6 /\ c_off c = o /\
  civil_secs (c_y c) (c_m c) (c_d c) (c_H c) (c_M c) (c_S c) - o = s /\
  days_from_civil (c_y c) (c_m c) (c_d c) = (s + o) / 86400.
Proof.
  unfold to_civil.
  destruct (civil_from_days ((s + o) / 86400)) as [[y m] d] eqn:E.
  destruct (civil_from_days_spec _ _ _ _ E) as (Hm & Hd & Hz).
  cbn [c_y c_m c_d c_H c_M c_S c_wd c_off]. unfold civil_secs, weekday_of_days. rewrite Hz.
  repeat split; try lia.
Qed.

(* instants in jiff's range have years in -9999..9999 *)
Lemma to_civil_year s o : TS_MIN <= s <= TS_MAX -> - OFF_MAX <= o <= OFF_MAX ->
  -9999 <= c_y (to_civil s o) <= 9999.
Proof.
  intros Hs Ho. unfold to_civil.
  destruct (civil_from_days ((s + o) / 86400)) as [[y m] d] eqn:E.
  cbn [c_y]. apply (civil_from_days_year _ _ _ _ E).
  unfold TS_MIN, TS_MAX, OFF_MAX in *. lia.
Qed.
