(* C52 — gix_date::parse on ISO8601_STRICT text *)
From Coq Require Import ZArith Lia ZifyBool List.
From GixV.Base Require Import Bytes BytesFacts Outcome.
From GixV.C52 Require Import Tables Model ProofsDec ProofsCal ProofsNum ProofsText ProofsRT ProofsParse.
Ltac Zify.zify_post_hook ::= Z.div_mod_to_equations.
Local Open Scope Z_scope.

(* ---- ISO8601_STRICT ------------------------------------------------------------------------------ *)
Lemma strftime_strict tm : strftime fmt_ISO8601_STRICT tm =
  Some (write_int 4 (c_y tm) ++ "-"%byte :: write_int 2 (c_m tm) ++ "-"%byte :: write_int 2 (c_d tm) ++
        "T"%byte :: write_int 2 (c_H tm) ++ ":"%byte :: write_int 2 (c_M tm) ++ ":"%byte :: write_int 2 (c_S tm) ++
        write_offset true (c_off tm) ++ []).
Proof. reflexivity. Qed.

Lemma strict_own s o sg text : TS_MIN <= s <= TS_MAX -> - OFF_MAX <= o <= OFF_MAX ->
  format (KCustom fmt_ISO8601_STRICT) (mkT s o sg) = Ok text ->
  strptime_relaxed fmt_ISO8601_STRICT text = Some (s, o).
Proof.
  intros Hs Ho E. unfold format in E. rewrite to_time_ok in E by assumption.
  rewrite strftime_strict in E. apply Ok_inj in E. subst text.
  destruct (civil_facts s o Hs Ho) as (Hy & Hm & Hd & Hdim & HH & HM & HS & Hoff & Hsec).
  set (c := to_civil s o) in *. clearbody c.
  unfold strptime_relaxed, strptime_all. expand_fmt fmt_ISO8601_STRICT.
  dir pd_Y. lit. dir pd_m. lit. dir pd_d. lit.
  dir pd_H. lit. dir pd_M. lit. dir pd_S.
  rewrite app_nil_r.
  erewrite step_colon_z; [ | | apply parse_offset_write; rewrite Hoff; lia ].
  2:{ destruct (write_offset_head true (c_off c)) as (x & r & Ex & _). rewrite Ex. discriminate. }
  cbn [strptime b_y b_m b_d b_H b_M b_S b_off b_wd bdt0].
  rewrite Hoff. apply finish_zoned; lia.
Qed.

Lemma strict_parse s o sg text : TS_MIN <= s <= TS_MAX -> - OFF_MAX <= o <= OFF_MAX ->
  format (KCustom fmt_ISO8601_STRICT) (mkT s o sg) = Ok text ->
  parse text None = Ok (time_new s o).
Proof.
  intros Hs Ho E. pose proof (strict_own s o sg text Hs Ho E) as Hown.
  unfold format in E. rewrite to_time_ok in E by assumption.
  rewrite strftime_strict in E. apply Ok_inj in E.
  destruct (civil_facts s o Hs Ho) as (Hy & Hm & Hd & Hdim & HH & HM & HS & Hoff & Hsec).
  set (c := to_civil s o) in *. clearbody c.
  unfold parse.
  replace (bytes_eqb text special_input) with false.
  2:{ symmetry. apply bytes_eqb_len. subst text. rewrite !app_length. cbn [length].
      rewrite !app_length. cbn [length]. rewrite !app_length. cbn [length]. rewrite !app_length. cbn [length].
      rewrite !app_length. cbn [length]. rewrite !app_length. cbn [length].
      pose proof (write_int4_length (c_y c) Hy).
      rewrite (write_int_nonneg 2 (c_m c)), (write_int_nonneg 2 (c_d c)), (write_int_nonneg 2 (c_H c)),
        (write_int_nonneg 2 (c_M c)), (write_int_nonneg 2 (c_S c)) by lia.
      rewrite !pad2_length by lia.
      destruct (write_offset_head true (c_off c)) as (x & r & Ex & _). rewrite Ex. cbn [length].
      change (length special_input) with 19%nat. lia. }
  unfold parse_order. cbn [first_attempt attempt].
  replace (date_strptime fmt_SHORT text) with (@None (Z * Z * Z)).
  2:{ symmetry. subst text. unfold date_strptime, strptime_all. expand_fmt fmt_SHORT.
      dir pd_Y. lit. dir pd_m. lit. dir pd_d. cbn [strptime]. reflexivity. }
  replace (rfc2822_relaxed text) with (@None (Z * Z)) by (subst text; symmetry; apply rfc2822_rejects_year_dash; exact Hy).
  cbn [option_map].
  (* the ISO8601 attempt stops at the 'T' *)
  replace (strptime_relaxed fmt_ISO8601 text) with (@None (Z * Z)).
  2:{ symmetry. subst text. unfold strptime_relaxed, strptime_all. expand_fmt fmt_ISO8601.
      dir pd_Y. lit. dir pd_m. lit. dir pd_d.
      rewrite step_ws by reflexivity. cbn [skip_ws]. change (is_ascii_ws "T") with false. cbv iota.
      cbn [strptime]. change (ch_is "%" 37) with true. cbv iota. change (is_flag "H") with false.
      change (ch_is "H" 58) with false. cbv iota.
      unfold parse_directive. eval_ch. unfold parse_number. cbn [span_digits]. change (is_digit "T") with false. cbv iota.
      cbn [dec_to_N ranged]. reflexivity. }
  cbn [option_map]. rewrite Hown. reflexivity.
Qed.

