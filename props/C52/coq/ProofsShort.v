(* C52 — gix_date::parse on SHORT text *)
From Coq Require Import ZArith Lia ZifyBool List.
From GixV.Base Require Import Bytes BytesFacts Outcome.
From GixV.C52 Require Import Tables Model ProofsDec ProofsCal ProofsNum ProofsText ProofsRT ProofsParse.
Ltac Zify.zify_post_hook ::= Z.div_mod_to_equations.
Local Open Scope Z_scope.

(* ---- SHORT: the text carries the civil date only ------------------------------------------------- *)
Lemma strftime_short tm : strftime fmt_SHORT tm =
  Some (write_int 4 (c_y tm) ++ "-"%byte :: write_int 2 (c_m tm) ++ "-"%byte :: write_int 2 (c_d tm) ++ []).
Proof. reflexivity. Qed.

Lemma short_parse s o sg text : TS_MIN <= s <= TS_MAX -> - OFF_MAX <= o <= OFF_MAX ->
  let midnight := (s + o) / 86400 * 86400 in
  TS_MIN <= midnight <= TS_MAX ->
  format (KCustom fmt_SHORT) (mkT s o sg) = Ok text ->
  parse text None = Ok (time_new midnight 0).
Proof.
  intros Hs Ho midnight Hmid E. unfold format in E. rewrite to_time_ok in E by assumption.
  rewrite strftime_short in E. apply Ok_inj in E.
  destruct (civil_facts s o Hs Ho) as (Hy & Hm & Hd & Hdim & HH & HM & HS & Hoff & Hsec).
  pose proof (to_civil_spec s o) as Hspec. cbv zeta in Hspec.
  destruct Hspec as (_ & _ & _ & _ & _ & _ & _ & _ & Hdays).
  set (c := to_civil s o) in *. clearbody c.
  unfold parse.
  replace (bytes_eqb text special_input) with false.
  2:{ symmetry. apply bytes_eqb_len. subst text. rewrite app_nil_r. rewrite !app_length. cbn [length].
      rewrite !app_length. cbn [length].
      rewrite (write_int_nonneg 2 (c_m c)) by lia. rewrite (write_int_nonneg 2 (c_d c)) by lia.
      rewrite !pad2_length by lia.
      assert (length (write_int 4 (c_y c)) <= 5)%nat.
      { unfold write_int. destruct (Z.ltb_spec (c_y c) 0).
        - destruct (pad4_shape (- c_y c) ltac:(lia)) as (a0 & b0 & c0 & d0 & E0 & _). rewrite E0. cbn [length]. lia.
        - destruct (pad4_shape (c_y c) ltac:(lia)) as (a0 & b0 & c0 & d0 & E0 & _). rewrite E0. cbn [length]. lia. }
      change (length special_input) with 19%nat. lia. }
  unfold parse_order. cbn [first_attempt attempt].
  replace (date_strptime fmt_SHORT text) with (Some (c_y c, c_m c, c_d c)).
  2:{ symmetry. subst text. unfold date_strptime, strptime_all. expand_fmt fmt_SHORT.
      dir pd_Y. lit. dir pd_m. lit. rewrite app_nil_r.
      erewrite step_dir; [ | reflexivity | reflexivity | | rewrite <- (app_nil_r (write_int 2 (c_d c))); apply pd_d; lia ].
      2:{ rewrite <- (app_nil_r (write_int 2 (c_d c))). apply write_int_ne. }
      cbn [strptime b_y b_m b_d b_H b_M b_S b_off b_wd bdt0].
      unfold to_date. cbn [b_y b_m b_d b_wd].
      destruct (Z.leb_spec (c_d c) (days_in_month (c_y c) (c_m c))); [reflexivity|lia]. }
  unfold to_timestamp, civil_secs. rewrite Hdays.
  replace ((s + o) / 86400 * 86400 + 0 * 3600 + 0 * 60 + 0 - 0) with midnight by (unfold midnight; lia).
  destruct (Z.leb_spec TS_MIN midnight); [|lia]. destruct (Z.leb_spec midnight TS_MAX); [|lia]. reflexivity.
Qed.
