(* C52 — executable model of gix-date's formatting and parsing.  NO proofs here.

   Sources (pinned tree in /repo):
     gix-date/src/time/format.rs   Time::format / format_inner / to_time, the CustomFormat constants (Tables.v)
     gix-date/src/time/write.rs    Time::to_bstring / write_to                       (Format::Raw)
     gix-date/src/time/init.rs     Time::new  (sign from the offset)
     gix-date/src/parse.rs         parse (order of attempts: Tables.parse_order), parse_raw,
                                   strptime_relaxed, rfc2822_relaxed, relative::{parse, parse_inner, span}
   jiff 0.1.8 is NOT gitoxide's code.  What gix-date uses of it is given here as Gallina definitions
   that serve as its contract (validated only by the correspondence run):
     * the proleptic Gregorian calendar: [days_from_civil], [civil_from_days], [days_in_month], weekday
     * Timestamp range [TS_MIN, TS_MAX], Offset range +-25:59:59, Span unit limits
     * fmt::strtime: the strftime/strptime interpreters for the directive subset the constants use
       (%Y %m %d %-d %H %M %S %a %b %z %:z, literals, whitespace rule)
     * fmt::rfc2822::DateTimeParser with relaxed_weekday(true)
   Rust std pieces: i64/i32 FromStr = [int_from_str]; str::split_whitespace = [split_ws] (Unicode
   White_Space on UTF-8 bytes); itoa = Z_to_dec/N_to_dec.
   Errors collapse to [err]; a panic (expect on a jiff range error, a Display error in to_string) is
   [Panic]. *)
From GixV.Base Require Import Bytes Outcome.
From GixV.C52 Require Import Tables.
Local Open Scope Z_scope.

Inductive err := EInvalid | ERelative | EMissingNow.

(* gix_date::Time; [minus] = (sign == Sign::Minus) *)
Record time := mkT { secs : Z; off : Z; minus : bool }.
(* Time::new: sign from offset (v < 0 → Minus) *)
Definition time_new (s o : Z) : time := mkT s o (o <? 0).

(* jiff's ranges *)
Definition TS_MIN : Z := -377705023201.
Definition TS_MAX : Z := 253402207200.
Definition OFF_MAX : Z := 93599.              (* 25:59:59 *)
Definition I64_MIN : Z := -9223372036854775808.
Definition I64_MAX : Z := 9223372036854775807.
Definition I32_MIN : Z := -2147483648.
Definition I32_MAX : Z := 2147483647.

(* ---- proleptic Gregorian calendar (the contract for jiff's civil types) ---------------------- *)

Definition is_leap (y : Z) : bool :=
  ((y mod 4 =? 0) && negb (y mod 100 =? 0)) || (y mod 400 =? 0).

Definition days_in_month (y m : Z) : Z :=
  if m =? 2 then (if is_leap y then 29 else 28)
  else if (m =? 4) || (m =? 6) || (m =? 9) || (m =? 11) then 30
  else 31.

(* day of the 400-year era (starting 1 March of a year divisible by 400) from year-of-era,
   March-based month index mp (0 = March … 11 = February) and day of month *)
Definition doe_of (yoe mp d : Z) : Z :=
  yoe * 365 + yoe / 4 - yoe / 100 + ((153 * mp + 2) / 5 + d - 1).

(* days since 1970-01-01 of the civil date y-m-d *)
Definition days_from_civil (y m d : Z) : Z :=
  let y' := if m <=? 2 then y - 1 else y in
  let era := y' / 400 in
  let yoe := y' mod 400 in
  let mp := (m + 9) mod 12 in
  era * 146097 + doe_of yoe mp d - 719468.

(* (year-of-era, mp, day) of a day of era *)
Definition ymd_of_doe (doe : Z) : Z * Z * Z :=
  let yoe := (doe - doe / 1460 + doe / 36524 - doe / 146096) / 365 in
  let doy := doe - (365 * yoe + yoe / 4 - yoe / 100) in
  let mp := (5 * doy + 2) / 153 in
  let d := doy - (153 * mp + 2) / 5 + 1 in
  (yoe, mp, d).

Definition civil_from_days (z : Z) : Z * Z * Z :=
  let z' := z + 719468 in
  let era := z' / 146097 in
  let doe := z' mod 146097 in
  let '(yoe, mp, d) := ymd_of_doe doe in
  let m := if mp <? 10 then mp + 3 else mp - 9 in
  let y := yoe + era * 400 + (if m <=? 2 then 1 else 0) in
  (y, m, d).

(* 0 = Sunday … 6 = Saturday; 1970-01-01 was a Thursday *)
Definition weekday_of_days (z : Z) : Z := (z + 4) mod 7.

(* civil date + time of day, as seconds since the epoch when read as UTC *)
Definition civil_secs (y m d H M S : Z) : Z :=
  days_from_civil y m d * 86400 + H * 3600 + M * 60 + S.

(* Offset::to_timestamp(dt): the civil datetime read at [o], or None when outside Timestamp's range *)
Definition to_timestamp (y m d H M S o : Z) : option Z :=
  let ts := civil_secs y m d H M S - o in
  if (TS_MIN <=? ts) && (ts <=? TS_MAX) then Some ts else None.

(* the broken-down civil view of an instant at an offset (Timestamp::to_zoned(offset)) *)
Record civil := mkC { c_y : Z; c_m : Z; c_d : Z; c_H : Z; c_M : Z; c_S : Z; c_wd : Z; c_off : Z }.
Definition to_civil (s o : Z) : civil :=
  let l := s + o in
  let days := l / 86400 in
  let sod := l mod 86400 in
  let '(y, m, d) := civil_from_days days in
  mkC y m d (sod / 3600) (sod mod 3600 / 60) (sod mod 60) (weekday_of_days days) o.

(* ---- small text helpers ------------------------------------------------------------------------ *)

Definition B (n : Z) : byte := N2b (Z.to_N n).
Definition bz (b : byte) : Z := Z.of_N (b2N b).
Definition ch_is (b : byte) (n : Z) : bool := bz b =? n.

(* u8::is_ascii_whitespace: SP, HT, LF, FF, CR (not VT) *)
Definition is_ascii_ws (b : byte) : bool :=
  let n := bz b in (n =? 32) || (n =? 9) || (n =? 10) || (n =? 12) || (n =? 13).

Definition to_lower (b : byte) : byte :=
  let n := bz b in if (65 <=? n) && (n <=? 90) then B (n + 32) else b.
Definition lower (s : bytes) : bytes := map to_lower s.

Fixpoint skip_ws (inp : bytes) : bytes :=
  match inp with
  | b :: r => if is_ascii_ws b then skip_ws r else inp
  | [] => []
  end.

(* DecimalFormatter with padding: at least [w] digits of a non-negative number *)
Definition pad_dec (w : nat) (n : Z) : bytes :=
  let d := N_to_dec (Z.to_N n) in
  repeat (B 48) (w - length d) ++ d.
(* … of any i64: pad |n|, then the sign *)
Definition write_int (w : nat) (n : Z) : bytes :=
  if n <? 0 then B 45 :: pad_dec w (- n) else pad_dec w n.

Definition wd_names : list bytes :=
  [bs "Sun"; bs "Mon"; bs "Tue"; bs "Wed"; bs "Thu"; bs "Fri"; bs "Sat"].
Definition mon_names : list bytes :=
  [bs "Jan"; bs "Feb"; bs "Mar"; bs "Apr"; bs "May"; bs "Jun";
   bs "Jul"; bs "Aug"; bs "Sep"; bs "Oct"; bs "Nov"; bs "Dec"].
Definition wd_name (wd : Z) : bytes := nth (Z.to_nat wd) wd_names [].
Definition mon_name (m : Z) : bytes := nth (Z.to_nat (m - 1)) mon_names [].

(* index of the name that equals the lower-cased 3-byte candidate *)
Fixpoint find_name (cand : bytes) (names : list bytes) (i : Z) : option Z :=
  match names with
  | [] => None
  | n :: r => if bytes_eqb cand (lower n) then Some i else find_name cand r (i + 1)
  end.
(* parse_weekday_abbrev / parse_month_name_abbrev: exactly three bytes, ASCII case-insensitive *)
Definition take_name (names : list bytes) (inp : bytes) : option (Z * bytes) :=
  match inp with
  | a :: b :: c :: r =>
      match find_name [to_lower a; to_lower b; to_lower c] names 0 with
      | Some i => Some (i, r)
      | None => None
      end
  | _ => None
  end.

(* longest prefix of at most [max] ASCII digits *)
Fixpoint span_digits (max : nat) (inp : bytes) : bytes * bytes :=
  match max, inp with
  | S k, b :: r => if is_digit b then (let '(d, r') := span_digits k r in (b :: d, r')) else ([], inp)
  | _, _ => ([], inp)
  end.
(* Extension::parse_number: up to [max] digits, at least one *)
Definition parse_number (max : nat) (inp : bytes) : option (Z * bytes) :=
  let '(d, r) := span_digits max inp in
  match dec_to_N d with Some n => Some (Z.of_N n, r) | None => None end.
(* jiff util::parse::i64 on an exact slice: digits only, non-empty *)
Definition dec_exact (s : bytes) : option Z := option_map Z.of_N (dec_to_N s).

Definition in_range (lo hi v : Z) : bool := (lo <=? v) && (v <=? hi).

(* ---- strftime ---------------------------------------------------------------------------------- *)

(* write_offset *)
Definition write_offset (colon : bool) (o : Z) : bytes :=
  let a := Z.abs o in
  let hh := a / 3600 in let mm := a mod 3600 / 60 in let ss := a mod 60 in
  (if o <? 0 then bs "-" else bs "+") ++ pad_dec 2 hh ++ (if colon then bs ":" else []) ++ pad_dec 2 mm ++
  (if ss =? 0 then [] else (if colon then bs ":" else []) ++ pad_dec 2 ss).

(* one directive; [nopad] = the '-' flag.  None = a directive the model does not cover *)
Definition fmt_directive (nopad : bool) (c : byte) (tm : civil) : option bytes :=
  let w2 := if nopad then 0%nat else 2%nat in
  let w4 := if nopad then 0%nat else 4%nat in
  if ch_is c 89 (* Y *) then Some (write_int w4 (c_y tm))
  else if ch_is c 109 (* m *) then Some (write_int w2 (c_m tm))
  else if ch_is c 100 (* d *) then Some (write_int w2 (c_d tm))
  else if ch_is c 72 (* H *) then Some (write_int w2 (c_H tm))
  else if ch_is c 77 (* M *) then Some (write_int w2 (c_M tm))
  else if ch_is c 83 (* S *) then Some (write_int w2 (c_S tm))
  else if ch_is c 97 (* a *) then Some (wd_name (c_wd tm))
  else if ch_is c 98 (* b *) then Some (mon_name (c_m tm))
  else if ch_is c 122 (* z *) then Some (write_offset false (c_off tm))
  else None.

(* Formatter::format; None = error (→ the Display impl fails → to_string panics) *)
Fixpoint strftime (fmt : bytes) (tm : civil) : option bytes :=
  match fmt with
  | [] => Some []
  | f :: fr =>
      if ch_is f 37 (* % *) then
        match fr with
        | [] => None
        | c :: fr1 =>
            if ch_is c 45 (* - flag *) then
              match fr1 with
              | [] => None
              | c2 :: fr2 =>
                  match fmt_directive true c2 tm, strftime fr2 tm with
                  | Some a, Some b => Some (a ++ b)
                  | _, _ => None
                  end
              end
            else if ch_is c 58 (* %: *) then
              match fr1 with
              | [] => None
              | c2 :: fr2 =>
                  if ch_is c2 122 then
                    match strftime fr2 tm with
                    | Some b => Some (write_offset true (c_off tm) ++ b)
                    | None => None
                    end
                  else None
              end
            else
              match fmt_directive false c tm, strftime fr1 tm with
              | Some a, Some b => Some (a ++ b)
              | _, _ => None
              end
        end
      else if bz f <? 128 then
        match strftime fr tm with Some b => Some (f :: b) | None => None end
      else None
  end.

(* ---- Time::format ------------------------------------------------------------------------------- *)

Inductive fkind := KCustom (fmt : bytes) | KUnix | KRaw.

(* Time::to_time: both `expect`s *)
Definition to_time (t : time) : outcome civil err :=
  if negb (in_range (- OFF_MAX) OFF_MAX (off t)) then Panic            (* expect("valid offset") *)
  else if negb (in_range TS_MIN TS_MAX (secs t)) then Panic            (* expect("always valid unix time") *)
  else Ok (to_civil (secs t) (off t)).

(* Time::write_to into a Vec; None = Err("Cannot represent offsets larger than +-9900") *)
Definition write_raw (t : time) : option bytes :=
  let a := Z.abs (off t) in
  let hours := a / 3600 in
  let minutes := (a - hours * 3600) / 60 in
  if hours >? 99 then None
  else Some (Z_to_dec (secs t) ++ bs " " ++ (if minus t then bs "-" else bs "+") ++
             (if hours <? 10 then bs "0" else []) ++ Z_to_dec hours ++
             (if minutes <? 10 then bs "0" else []) ++ Z_to_dec minutes).

Definition format (k : fkind) (t : time) : outcome bytes err :=
  match k with
  | KCustom fmt =>
      match to_time t with
      | Ok tm => match strftime fmt tm with Some s => Ok s | None => Panic end
      | Err e => Err e | Panic => Panic | OutOfFuel => OutOfFuel
      end
  | KUnix => Ok (Z_to_dec (secs t))
  | KRaw => match write_raw t with Some s => Ok s | None => Panic end   (* expect("write to memory cannot fail") *)
  end.

(* ---- strptime ----------------------------------------------------------------------------------- *)

(* BrokenDownTime: the fields the formats can set *)
Record bdt := mkB { b_y : option Z; b_m : option Z; b_d : option Z;
                    b_H : option Z; b_M : option Z; b_S : option Z;
                    b_off : option Z; b_wd : option Z }.
Definition bdt0 : bdt := mkB None None None None None None None None.

Definition ranged (lo hi : Z) (r : option (Z * bytes)) : option (Z * bytes) :=
  match r with
  | Some (v, rest) => if in_range lo hi v then Some (v, rest) else None
  | None => None
  end.

(* parse_offset_nocolon / parse_offset_colon *)
Definition parse_offset (colon : bool) (inp : bytes) : option (Z * bytes) :=
  match inp with
  | [] => None
  | s :: r0 =>
      if negb (ch_is s 45 || ch_is s 43) then None else
      let sign := if ch_is s 45 then -1 else 1 in
      let hhmm :=
        if colon then
          match r0 with
          | h1 :: h2 :: c :: m1 :: m2 :: r1 => if ch_is c 58 then Some ([h1; h2], [m1; m2], r1) else None
          | _ => None
          end
        else
          match r0 with
          | h1 :: h2 :: m1 :: m2 :: r1 => Some ([h1; h2], [m1; m2], r1)
          | _ => None
          end in
      match hhmm with
      | None => None
      | Some (hs, ms, r1) =>
          match dec_exact hs, dec_exact ms with
          | Some hh, Some mm =>
              if negb (in_range 0 25 hh) then None
              else if negb (in_range 0 59 mm) then None
              else
                let secs_part :=
                  if colon then
                    match r1 with
                    | c :: s1 :: s2 :: r2 =>
                        if ch_is c 58 && is_digit s1 && is_digit s2 then Some ([s1; s2], r2) else None
                    | _ => None
                    end
                  else
                    match r1 with
                    | s1 :: s2 :: r2 => if is_digit s1 && is_digit s2 then Some ([s1; s2], r2) else None
                    | _ => None
                    end in
                match secs_part with
                | None => Some (sign * (hh * 3600 + mm * 60), r1)
                | Some (sd, r2) =>
                    match dec_exact sd with
                    | Some ss =>
                        if negb (in_range 0 59 ss) then None
                        else match r2 with
                             | dot :: _ => if ch_is dot 46 then None else Some (sign * (hh * 3600 + mm * 60 + ss), r2)
                             | [] => Some (sign * (hh * 3600 + mm * 60 + ss), r2)
                             end
                    | None => None
                    end
                end
          | _, _ => None
          end
      end
  end.

(* one parsing directive (flags do not influence parsing of the directives covered) *)
Definition parse_directive (c : byte) (inp : bytes) (tm : bdt) : option (bdt * bytes) :=
  let num lo hi set :=
    match ranged lo hi (parse_number 2 inp) with
    | Some (v, r) => Some (set v, r)
    | None => None
    end in
  if ch_is c 89 (* Y: optional sign, up to 4 digits *) then
    let '(sign, inp1) :=
      match inp with
      | s :: r => if ch_is s 45 then (-1, r) else if ch_is s 43 then (1, r) else (1, inp)
      | [] => (1, inp)
      end in
    match parse_number 4 inp1 with
    | Some (v, r) =>
        if in_range (-9999) 9999 (sign * v)
        then Some (mkB (Some (sign * v)) (b_m tm) (b_d tm) (b_H tm) (b_M tm) (b_S tm) (b_off tm) (b_wd tm), r)
        else None
    | None => None
    end
  else if ch_is c 109 then num 1 12 (fun v => mkB (b_y tm) (Some v) (b_d tm) (b_H tm) (b_M tm) (b_S tm) (b_off tm) (b_wd tm))
  else if ch_is c 100 then num 1 31 (fun v => mkB (b_y tm) (b_m tm) (Some v) (b_H tm) (b_M tm) (b_S tm) (b_off tm) (b_wd tm))
  else if ch_is c 72 then num 0 23 (fun v => mkB (b_y tm) (b_m tm) (b_d tm) (Some v) (b_M tm) (b_S tm) (b_off tm) (b_wd tm))
  else if ch_is c 77 then num 0 59 (fun v => mkB (b_y tm) (b_m tm) (b_d tm) (b_H tm) (Some v) (b_S tm) (b_off tm) (b_wd tm))
  else if ch_is c 83 then
    (* 60 is clamped to 59 before the range check *)
    match parse_number 2 inp with
    | Some (v, r) =>
        let v := if v =? 60 then 59 else v in
        if in_range 0 59 v
        then Some (mkB (b_y tm) (b_m tm) (b_d tm) (b_H tm) (b_M tm) (Some v) (b_off tm) (b_wd tm), r)
        else None
    | None => None
    end
  else if ch_is c 97 then
    match take_name wd_names inp with
    | Some (i, r) => Some (mkB (b_y tm) (b_m tm) (b_d tm) (b_H tm) (b_M tm) (b_S tm) (b_off tm) (Some i), r)
    | None => None
    end
  else if ch_is c 98 then
    match take_name mon_names inp with
    | Some (i, r) => Some (mkB (b_y tm) (Some (i + 1)) (b_d tm) (b_H tm) (b_M tm) (b_S tm) (b_off tm) (b_wd tm), r)
    | None => None
    end
  else if ch_is c 122 then
    match parse_offset false inp with
    | Some (o, r) => Some (mkB (b_y tm) (b_m tm) (b_d tm) (b_H tm) (b_M tm) (b_S tm) (Some o) (b_wd tm), r)
    | None => None
    end
  else None.

Definition is_flag (c : byte) : bool :=
  ch_is c 95 || ch_is c 48 || ch_is c 45 || ch_is c 94 || ch_is c 35.

(* Parser::parse: returns the pieces and the unconsumed input *)
Fixpoint strptime (fmt inp : bytes) (tm : bdt) : option (bdt * bytes) :=
  match fmt with
  | [] => Some (tm, inp)
  | f :: fr =>
      if ch_is f 37 (* % *) then
        match fr with
        | [] => None
        | c :: fr1 =>
            match inp with
            | [] => None                 (* "expected non-empty input for directive" *)
            | _ :: _ =>
                if is_flag c then
                  match fr1 with
                  | [] => None
                  | c2 :: fr2 =>
                      match parse_directive c2 inp tm with
                      | Some (tm', inp') => strptime fr2 inp' tm'
                      | None => None
                      end
                  end
                else if ch_is c 58 (* %: *) then
                  match fr1 with
                  | [] => None
                  | c2 :: fr2 =>
                      if ch_is c2 122 then
                        match parse_offset true inp with
                        | Some (o, inp') =>
                            strptime fr2 inp' (mkB (b_y tm) (b_m tm) (b_d tm) (b_H tm) (b_M tm) (b_S tm) (Some o) (b_wd tm))
                        | None => None
                        end
                      else None
                  end
                else
                  match parse_directive c inp tm with
                  | Some (tm', inp') => strptime fr1 inp' tm'
                  | None => None
                  end
            end
        end
      else if is_ascii_ws f then strptime fr (skip_ws inp) tm       (* zero or more whitespace *)
      else
        match inp with
        | [] => None
        | i :: ir => if beqb f i then strptime fr ir tm else None
        end
  end.

(* BrokenDownTime::parse: the whole input must be consumed *)
Definition strptime_all (fmt inp : bytes) : option bdt :=
  match strptime fmt inp bdt0 with
  | Some (tm, []) => Some tm
  | _ => None
  end.

(* to_date: year, month, day present and a valid date; a present weekday must match *)
Definition to_date (tm : bdt) : option (Z * Z * Z) :=
  match b_y tm, b_m tm, b_d tm with
  | Some y, Some m, Some d =>
      if d <=? days_in_month y m then
        match b_wd tm with
        | Some wd => if wd =? weekday_of_days (days_from_civil y m d) then Some (y, m, d) else None
        | None => Some (y, m, d)
        end
      else None
  | _, _, _ => None
  end.

(* to_time: smaller units need the bigger ones *)
Definition to_clock (tm : bdt) : option (Z * Z * Z) :=
  match b_H tm with
  | None => match b_M tm, b_S tm with None, None => Some (0, 0, 0) | _, _ => None end
  | Some H =>
      match b_M tm with
      | None => match b_S tm with None => Some (H, 0, 0) | _ => None end
      | Some M => match b_S tm with None => Some (H, M, 0) | Some Sc => Some (H, M, Sc) end
      end
  end.

(* strptime_relaxed: parse, forget the weekday, to_zoned: (timestamp, offset) *)
Definition strptime_relaxed (fmt inp : bytes) : option (Z * Z) :=
  match strptime_all fmt inp with
  | None => None
  | Some tm0 =>
      let tm := mkB (b_y tm0) (b_m tm0) (b_d tm0) (b_H tm0) (b_M tm0) (b_S tm0) (b_off tm0) None in
      match to_date tm, to_clock tm with
      | Some (y, m, d), Some (H, M, Sc) =>
          match b_off tm with
          | Some o => match to_timestamp y m d H M Sc o with Some ts => Some (ts, o) | None => None end
          | None => None
          end
      | _, _ => None
      end
  end.

(* Date::strptime *)
Definition date_strptime (fmt inp : bytes) : option (Z * Z * Z) :=
  match strptime_all fmt inp with
  | Some tm => to_date tm
  | None => None
  end.

(* ---- RFC 2822 (jiff::fmt::rfc2822::DateTimeParser, relaxed weekday) -------------------------------- *)

(* parse_whitespace: at least one *)
Definition need_ws (inp : bytes) : option bytes :=
  match inp with
  | b :: r => if is_ascii_ws b then Some (skip_ws r) else None
  | [] => None
  end.

(* skip_comment: the input starts with '('.  [depth] is a u8 (255 nested is an error) *)
Fixpoint comment_loop (inp : bytes) (depth : Z) (escape : bool) : option bytes :=
  match inp with
  | [] => None                                   (* depth > 0 at the end *)
  | b :: r =>
      if escape then comment_loop r depth false
      else if ch_is b 92 then comment_loop r depth true
      else if ch_is b 41 then (if depth =? 1 then Some (skip_ws r) else comment_loop r (depth - 1) false)
      else if ch_is b 40 then (if depth =? 255 then None else comment_loop r (depth + 1) false)
      else comment_loop r depth false
  end.
Definition skip_comment (inp : bytes) : option bytes :=
  match inp with
  | b :: r => if ch_is b 40 then comment_loop r 1 false else Some inp
  | [] => Some inp
  end.

Definition obsolete_zone (name : bytes) : option Z :=
  if bytes_eqb name (bs "ut") || bytes_eqb name (bs "gmt") || bytes_eqb name (bs "z") then Some 0
  else if bytes_eqb name (bs "est") then Some (-5 * 3600)
  else if bytes_eqb name (bs "edt") then Some (-4 * 3600)
  else if bytes_eqb name (bs "cst") then Some (-6 * 3600)
  else if bytes_eqb name (bs "cdt") then Some (-5 * 3600)
  else if bytes_eqb name (bs "mst") then Some (-7 * 3600)
  else if bytes_eqb name (bs "mdt") then Some (-6 * 3600)
  else if bytes_eqb name (bs "pst") then Some (-8 * 3600)
  else if bytes_eqb name (bs "pdt") then Some (-7 * 3600)
  else
    let is_az b := (97 <=? bz b) && (bz b <=? 122) in
    match name with
    | [b] => if is_az b && negb (ch_is b 106) then Some 0 else None
    | _ => if (3 <=? length name)%nat && forallb is_az name then Some 0 else None
    end.

(* up to five non-whitespace bytes, lower-cased *)
Fixpoint zone_letters (max : nat) (inp : bytes) : bytes * bytes :=
  match max, inp with
  | S k, b :: r => if is_ascii_ws b then ([], inp) else (let '(l, r') := zone_letters k r in (to_lower b :: l, r'))
  | _, _ => ([], inp)
  end.

Definition rfc_offset (inp : bytes) : option (Z * bytes) :=
  match inp with
  | [] => None
  | s :: r0 =>
      if ch_is s 43 || ch_is s 45 then
        let sign := if ch_is s 45 then -1 else 1 in
        match r0 with
        | h1 :: h2 :: m1 :: m2 :: r1 =>
            match dec_exact [h1; h2], dec_exact [m1; m2] with
            | Some hh, Some mm =>
                if in_range 0 25 hh && in_range 0 59 mm then Some (sign * (hh * 3600 + mm * 60), r1) else None
            | _, _ => None
            end
        | _ => None
        end
      else
        let '(letters, r) := zone_letters 5 inp in
        match letters with
        | [] => None
        | _ => match obsolete_zone letters with Some o => Some (o, r) | None => None end
        end
  end.

Definition two_digits (inp : bytes) : option (Z * bytes) :=
  match inp with
  | a :: b :: r => match dec_exact [a; b] with Some v => Some (v, r) | None => None end
  | _ => None
  end.

(* rfc2822_relaxed: (timestamp, offset) *)
Definition rfc2822_relaxed (input : bytes) : option (Z * Z) :=
  match skip_ws input with
  | [] => None
  | (c0 :: _) as inp0 =>
      (* parse_weekday *)
      let after_wd :=
        if is_digit c0 then Some inp0
        else match inp0 with
             | a :: b :: c :: comma :: r =>
                 match find_name [to_lower a; to_lower b; to_lower c] wd_names 0 with
                 | Some _ => if ch_is comma 44 then need_ws r else None
                 | None => None
                 end
             | _ => None
             end in
      match after_wd with
      | None => None
      | Some inp1 =>
      (* parse_day: one or two digits *)
      let day :=
        match inp1 with
        | [] => None
        | a :: r =>
            match r with
            | b :: r' => if is_digit b then option_map (fun v => (v, r')) (dec_exact [a; b])
                         else option_map (fun v => (v, r)) (dec_exact [a])
            | [] => option_map (fun v => (v, r)) (dec_exact [a])
            end
        end in
      match ranged 1 31 day with
      | None => None
      | Some (d, inp2) =>
      match need_ws inp2 with
      | None => None
      | Some inp3 =>
      match take_name mon_names inp3 with
      | None => None
      | Some (mi, inp4) =>
      match need_ws inp4 with
      | None => None
      | Some inp5 =>
      (* parse_year: 2, 3 or 4 digits *)
      let '(yd, inp6) := span_digits 4 inp5 in
      match dec_exact yd with
      | None => None
      | Some yv =>
      if (length yd <=? 1)%nat then None else
      let y := if (length yd =? 2)%nat then (if yv <=? 49 then yv + 2000 else yv + 1900)
               else if (length yd =? 3)%nat then yv + 1900 else yv in
      match need_ws inp6 with
      | None => None
      | Some inp7 =>
      match ranged 0 23 (two_digits inp7) with
      | None => None
      | Some (H, inp8) =>
      match inp8 with
      | [] => None
      | colon :: inp9 =>
      if negb (ch_is colon 58) then None else
      match ranged 0 59 (two_digits inp9) with
      | None => None
      | Some (M, inp10) =>
      let sec :=
        match inp10 with
        | colon2 :: inp11 =>
            if ch_is colon2 58 then
              match two_digits inp11 with
              | Some (v, r) => let v := if v =? 60 then 59 else v in
                               if in_range 0 59 v then Some (v, r) else None
              | None => None
              end
            else Some (0, inp10)
        | [] => Some (0, inp10)
        end in
      match sec with
      | None => None
      | Some (Sc, inp12) =>
      match need_ws inp12 with
      | None => None
      | Some inp13 =>
      if negb (d <=? days_in_month y (mi + 1)) then None else
      match rfc_offset inp13 with
      | None => None
      | Some (o, inp14) =>
      let inp15 := skip_ws inp14 in
      let rest := match inp15 with [] => Some [] | _ => skip_comment inp15 end in
      match rest with
      | Some [] => option_map (fun ts => (ts, o)) (to_timestamp y (mi + 1) d H M Sc o)
      | _ => None
      end end end end end end end end end end end end end end
  end.

(* ---- Rust std: integer FromStr, split_whitespace -------------------------------------------------- *)

Definition int_from_str (lo hi : Z) (s : bytes) : option Z :=
  match s with
  | [] => None
  | c :: r =>
      if ch_is c 45 then
        match dec_to_N r with
        | Some n => if lo <=? - Z.of_N n then Some (- Z.of_N n) else None
        | None => None
        end
      else
        match dec_to_N (if ch_is c 43 then r else s) with
        | Some n => if Z.of_N n <=? hi then Some (Z.of_N n) else None
        | None => None
        end
  end.
Definition i64_from_str := int_from_str I64_MIN I64_MAX.
Definition i32_from_str := int_from_str I32_MIN I32_MAX.

(* length in bytes of the Unicode White_Space character at the head of (valid UTF-8) input; 0 = none *)
Definition ws_len (inp : bytes) : nat :=
  match inp with
  | [] => 0
  | a :: r =>
      let n := bz a in
      if (n =? 32) || ((9 <=? n) && (n <=? 13)) then 1%nat
      else match r with
           | [] => 0%nat
           | b :: r2 =>
               let m := bz b in
               if (n =? 194) && ((m =? 133) || (m =? 160)) then 2%nat
               else match r2 with
                    | [] => 0%nat
                    | c :: _ =>
                        let k := bz c in
                        if (n =? 225) && (m =? 154) && (k =? 128) then 3%nat
                        else if (n =? 226) && (m =? 128) && (((128 <=? k) && (k <=? 138)) || (k =? 168) || (k =? 169) || (k =? 175)) then 3%nat
                        else if (n =? 226) && (m =? 129) && (k =? 159) then 3%nat
                        else if (n =? 227) && (m =? 128) && (k =? 128) then 3%nat
                        else 0%nat
                    end
           end
  end.

(* str::split_whitespace; [cur] = current token reversed, [drop] = bytes of a whitespace char still to skip *)
Fixpoint split_ws (inp : bytes) (cur : bytes) (drop : nat) : list bytes :=
  match inp with
  | [] => match cur with [] => [] | _ => [rev cur] end
  | b :: r =>
      match drop with
      | S k => split_ws r cur k
      | O =>
          match ws_len inp with
          | O => split_ws r (b :: cur) 0
          | S k => match cur with [] => split_ws r [] k | _ => rev cur :: split_ws r [] k end
          end
      end
  end.

(* ---- parse_raw ------------------------------------------------------------------------------------- *)

Definition parse_raw (input : bytes) : option time :=
  match split_ws input [] 0 with
  | [t1; t2] =>
      match i64_from_str t1 with
      | None => None
      | Some seconds =>
          match t2 with
          | [s; h1; h2; m1; m2] =>
              if negb (ch_is s 45 || ch_is s 43) then None else
              match i32_from_str [h1; h2], i32_from_str [m1; m2] with
              | Some hours, Some minutes =>
                  let o := hours * 3600 + minutes * 60 in
                  let is_minus := ch_is s 45 in
                  Some (mkT seconds (if is_minus then - o else o) is_minus)
              | _, _ => None
              end
          | _ => None
          end
      end
  | _ => None
  end.

(* ---- relative -------------------------------------------------------------------------------------- *)

(* span(): Some (inr seconds-per-unit * units) / out of range *)
Definition strip_s (p : bytes) : bytes :=
  match rev p with
  | c :: r => if ch_is c 115 then rev r else p
  | [] => p
  end.
Definition unit_of (period : bytes) : option (Z * Z) :=      (* (seconds per unit, limit) *)
  let p := strip_s period in
  if bytes_eqb p (bs "second") then Some (1, 631107417600)
  else if bytes_eqb p (bs "minute") then Some (60, 10518456960)
  else if bytes_eqb p (bs "hour") then Some (3600, 175307616)
  else if bytes_eqb p (bs "day") then Some (86400, 7304484)
  else if bytes_eqb p (bs "week") then Some (604800, 1043497)
  else None.

(* relative::parse: None = not a relative date; Some (Ok ts) / Some (Err e) *)
Definition relative_parse (input : bytes) (now : option Z) : option (outcome Z err) :=
  match split_ws input [] 0 with
  | t1 :: t2 :: t3 :: _ =>
      match i64_from_str t1 with
      | None => None
      | Some units =>
          if negb (bytes_eqb t3 (bs "ago")) then None else
          match unit_of t2 with
          | None => None
          | Some (per, limit) =>
              if negb (in_range (- limit) limit units) then Some (Err ERelative)
              else if units <? 0 then Some (Err ERelative)
              else match now with
                   | None => Some (Err EMissingNow)
                   | Some n =>
                       if negb (in_range TS_MIN TS_MAX n) then Some (Err ERelative)
                       else let ts := n - units * per in
                            if TS_MIN <=? ts then Some (Ok ts) else Some (Err ERelative)
                   end
          end
      end
  | _ => None
  end.

(* ---- gix_date::parse -------------------------------------------------------------------------------- *)

(* one attempt: None = this format does not apply, try the next *)
Definition attempt (p : ptag) (input : bytes) (now : option Z) : option (outcome time err) :=
  match p with
  | PShort =>
      match date_strptime fmt_SHORT input with
      | Some (y, m, d) =>
          match to_timestamp y m d 0 0 0 0 with
          | Some ts => Some (Ok (time_new ts 0))
          | None => Some (Err EInvalid)              (* `?` leaves parse *)
          end
      | None => None
      end
  | PRfc2822 => option_map (fun '(ts, o) => Ok (time_new ts o)) (rfc2822_relaxed input)
  | PStrp fmt => option_map (fun '(ts, o) => Ok (time_new ts o)) (strptime_relaxed fmt input)
  | PUnix => option_map (fun v => Ok (time_new v 0)) (i64_from_str input)
  | PRaw => option_map (fun t => Ok t) (parse_raw input)
  | PRelative =>
      match relative_parse input now with
      | Some (Ok ts) => Some (Ok (time_new ts 0))
      | Some (Err e) => Some (Err e)
      | Some Panic => Some Panic
      | Some OutOfFuel => Some OutOfFuel
      | None => None
      end
  end.

Fixpoint first_attempt (ps : list ptag) (input : bytes) (now : option Z) : outcome time err :=
  match ps with
  | [] => Err EInvalid
  | p :: r => match attempt p input now with Some res => res | None => first_attempt r input now end
  end.

Definition parse (input : bytes) (now : option Z) : outcome time err :=
  if bytes_eqb input special_input then Ok (time_new special_secs special_off)
  else first_attempt parse_order input now.
