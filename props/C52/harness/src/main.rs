//! C52 harness: gix_date::Time::format in every format, gix_date::parse on the formatted text and on
//! date strings in (and near) the accepted grammars; oracle = integer arithmetic + a naive calendar
//! written here, and real git (`git config --type=expiry-date`) on a sample of the absolute dates.
use gix_date::{
    time::{format, Format, Sign},
    Time,
};
use gixv_common::*;
use std::time::{Duration, SystemTime, UNIX_EPOCH};

const TS_MIN: i64 = -377705023201;
const TS_MAX: i64 = 253402207200;
const OFF_MAX: i64 = 93599;

const KINDS: &[&str] = &[
    "short", "rfc2822", "gitrfc2822", "iso8601", "iso8601strict", "gitoxide", "default", "unix", "raw",
];

fn kind(k: &[u8]) -> Option<Format> {
    Some(match k {
        b"short" => format::SHORT.into(),
        b"rfc2822" => format::RFC2822.into(),
        b"gitrfc2822" => format::GIT_RFC2822.into(),
        b"iso8601" => format::ISO8601.into(),
        b"iso8601strict" => format::ISO8601_STRICT.into(),
        b"gitoxide" => format::GITOXIDE.into(),
        b"default" => format::DEFAULT.into(),
        b"unix" => format::UNIX,
        b"raw" => format::RAW,
        _ => return None,
    })
}

fn time_of(c: &Case) -> Time {
    Time {
        seconds: f_i64(c, 2),
        offset: f_i64(c, 3) as i32,
        sign: if f_str(c, 4) == b"-" { Sign::Minus } else { Sign::Plus },
    }
}

fn show_time(t: &Time) -> String {
    format!("{} {} {}", t.seconds, t.offset, if t.sign == Sign::Minus { "-" } else { "+" })
}

fn now_of(f: &[u8]) -> Option<SystemTime> {
    if f.is_empty() {
        return None;
    }
    let s: i64 = std::str::from_utf8(f).ok()?.parse().ok()?;
    Some(if s >= 0 {
        UNIX_EPOCH + Duration::from_secs(s as u64)
    } else {
        UNIX_EPOCH - Duration::from_secs(s.unsigned_abs())
    })
}

fn show_parse(r: Result<Time, gix_date::parse::Error>) -> String {
    use gix_date::parse::Error as E;
    match r {
        Ok(t) => format!("ok {}", show_time(&t)),
        Err(E::InvalidDateString { .. }) => "err Invalid".into(),
        Err(E::RelativeTimeConversion) => "err Relative".into(),
        Err(E::MissingCurrentTime) => "err MissingNow".into(),
        Err(E::InvalidDate(_)) => "err InvalidDate".into(),
    }
}

fn imp(c: &Case) -> String {
    match f_str(c, 0) {
        b"fmt" => match kind(f_str(c, 1)) {
            Some(k) => format!("ok {}", hexs(time_of(c).format(k).as_bytes())),
            None => "?".into(),
        },
        b"rt" => match kind(f_str(c, 1)) {
            Some(k) => {
                let text = time_of(c).format(k);
                format!("ok {} -> {}", hexs(text.as_bytes()), show_parse(gix_date::parse(&text, None)))
            }
            None => "?".into(),
        },
        b"parse" => match std::str::from_utf8(f_str(c, 1)) {
            Ok(text) => show_parse(gix_date::parse(text, now_of(f_str(c, 2)))),
            Err(_) => "notutf8".into(),
        },
        _ => "?".into(),
    }
}

// ------------------------------------------------------------------------------------ naive oracle

fn leap(y: i64) -> bool {
    (y % 4 == 0 && y % 100 != 0) || y % 400 == 0
}
fn dim(y: i64, m: i64) -> i64 {
    match m {
        2 => {
            if leap(y) {
                29
            } else {
                28
            }
        }
        4 | 6 | 9 | 11 => 30,
        _ => 31,
    }
}
/// civil date of a day number by walking whole years, then months (deliberately not the model's formula)
fn naive_civil(mut days: i64) -> (i64, i64, i64) {
    let mut y = 1970;
    // jump whole 400-year cycles first to keep the walk short
    let cyc = days.div_euclid(146097);
    days -= cyc * 146097;
    y += cyc * 400;
    loop {
        let len = if leap(y) { 366 } else { 365 };
        if days >= len {
            days -= len;
            y += 1;
        } else {
            break;
        }
    }
    let mut m = 1;
    while days >= dim(y, m) {
        days -= dim(y, m);
        m += 1;
    }
    (y, m, days + 1)
}
fn naive_days(y: i64, m: i64, d: i64) -> i64 {
    // count days from 1970-01-01 by walking years/months
    let mut days: i64 = 0;
    let cyc = (y - 1970).div_euclid(400);
    days += cyc * 146097;
    let mut yy = 1970 + cyc * 400;
    while yy < y {
        days += if leap(yy) { 366 } else { 365 };
        yy += 1;
    }
    for mm in 1..m {
        days += dim(y, mm);
    }
    days + d - 1
}
const WD: [&str; 7] = ["Sun", "Mon", "Tue", "Wed", "Thu", "Fri", "Sat"];
const MON: [&str; 12] = ["Jan", "Feb", "Mar", "Apr", "May", "Jun", "Jul", "Aug", "Sep", "Oct", "Nov", "Dec"];

fn year4(y: i64) -> String {
    if y < 0 {
        format!("-{:04}", -y)
    } else {
        format!("{:04}", y)
    }
}
fn off_text(off: i64, colon: bool) -> String {
    let a = off.abs();
    let (h, m, s) = (a / 3600, a % 3600 / 60, a % 60);
    let sep = if colon { ":" } else { "" };
    let mut t = format!("{}{:02}{}{:02}", if off < 0 { "-" } else { "+" }, h, sep, m);
    if s != 0 {
        t += &format!("{}{:02}", sep, s);
    }
    t
}
/// what the text must be, computed with the naive calendar (None: outside what is formattable)
fn naive_format(k: &[u8], t: &Time) -> Option<String> {
    let (secs, off) = (t.seconds, t.offset as i64);
    if k == b"unix" {
        return Some(secs.to_string());
    }
    if k == b"raw" {
        let a = off.abs();
        if a / 3600 > 99 {
            return None;
        }
        return Some(format!(
            "{} {}{:02}{:02}",
            secs,
            if t.sign == Sign::Minus { "-" } else { "+" },
            a / 3600,
            a % 3600 / 60
        ));
    }
    if !(TS_MIN..=TS_MAX).contains(&secs) || off.abs() > OFF_MAX {
        return None;
    }
    let l = secs + off;
    let days = l.div_euclid(86400);
    let sod = l.rem_euclid(86400);
    let (y, m, d) = naive_civil(days);
    let wd = WD[(days + 4).rem_euclid(7) as usize];
    let mon = MON[(m - 1) as usize];
    let hms = format!("{:02}:{:02}:{:02}", sod / 3600, sod % 3600 / 60, sod % 60);
    Some(match k {
        b"short" => format!("{}-{:02}-{:02}", year4(y), m, d),
        b"rfc2822" => format!("{}, {:02} {} {} {} {}", wd, d, mon, year4(y), hms, off_text(off, false)),
        b"gitrfc2822" => format!("{}, {} {} {} {} {}", wd, d, mon, year4(y), hms, off_text(off, false)),
        b"iso8601" => format!("{}-{:02}-{:02} {} {}", year4(y), m, d, hms, off_text(off, false)),
        b"iso8601strict" => format!("{}-{:02}-{:02}T{}{}", year4(y), m, d, hms, off_text(off, true)),
        b"gitoxide" => format!("{} {} {:02} {} {} {}", wd, mon, d, year4(y), hms, off_text(off, false)),
        b"default" => format!("{} {} {} {} {} {}", wd, mon, d, hms, year4(y), off_text(off, false)),
        _ => return None,
    })
}

/// git's reading of an absolute date text (seconds since the epoch), TZ=UTC
fn git_date(text: &str) -> Option<i64> {
    let out = std::process::Command::new("git")
        .env("TZ", "UTC")
        .env("GIT_CONFIG_NOSYSTEM", "1")
        .env("GIT_CONFIG_GLOBAL", "/dev/null")
        .current_dir(std::env::temp_dir())
        .arg("-c")
        .arg(format!("section.key={text}"))
        .args(["config", "--type=expiry-date", "section.key"])
        .output()
        .ok()?;
    if !out.status.success() {
        return None;
    }
    String::from_utf8_lossy(&out.stdout).trim().parse().ok()
}

fn fnv(c: &Case) -> u64 {
    let mut h: u64 = 0xcbf29ce484222325;
    for f in c {
        for b in f {
            h = (h ^ *b as u64).wrapping_mul(0x100000001b3);
        }
        h = (h ^ 0xff).wrapping_mul(0x100000001b3);
    }
    h
}

/// is git's approxidate well-defined and comparable for a text gix read as (secs, off)?
fn git_comparable(text: &str, secs: i64, off: i64) -> bool {
    // git: 1970..2099 only; offsets: whole quarter hours below 24 h (git drops e.g. `-0001`)
    if !(0..=4102444799).contains(&secs) || off.abs() >= 24 * 3600 || off % 900 != 0 {
        return false;
    }
    let (y, _, _) = naive_civil((secs + off).div_euclid(86400));
    if !(1970..=2099).contains(&y) {
        return false;
    }
    // a value given with `git -c` cannot carry control characters reliably; comments confuse approxidate
    if text.contains(":60") || text.contains('(') || !text.bytes().all(|b| (32..127).contains(&b) || b == 9) {
        return false;
    }
    true
}

/// Time::new, written out (the sign follows the offset)
fn mk(seconds: i64, offset: i32) -> Time {
    Time { seconds, offset, sign: if offset < 0 { Sign::Minus } else { Sign::Plus } }
}

fn catch<T>(f: impl FnOnce() -> T) -> Option<T> {
    std::panic::catch_unwind(std::panic::AssertUnwindSafe(f)).ok()
}

fn prop(c: &Case) -> Verdict {
    match f_str(c, 0) {
        b"fmt" | b"rt" => {
            let kname = f_str(c, 1);
            let Some(k) = kind(kname) else { return Verdict::ok(false, "?") };
            let t = time_of(c);
            let (secs, off) = (t.seconds, t.offset as i64);
            let custom = kname != b"unix" && kname != b"raw";
            let want_text = naive_format(kname, &t);
            let text = match catch(|| t.format(k)) {
                Some(s) => s,
                None => {
                    // the property says: every representable time can be formatted
                    if kname == b"raw" {
                        // documented: offsets beyond +-99:59 cannot be written
                        return Verdict::ok(false, "raw-offset-not-representable");
                    }
                    return Verdict::fail(
                        "format-panics-outside-jiff-range",
                        format!("{} panics for {}", String::from_utf8_lossy(kname), show_time(&t)),
                    );
                }
            };
            match &want_text {
                Some(w) if *w == text => {}
                Some(w) => return Verdict::fail("format-text", format!("got {text:?} want {w:?}")),
                None => return Verdict::fail("format-text", format!("formatted the unformattable: {text:?}")),
            }
            if f_str(c, 0) == b"fmt" {
                return Verdict::ok(true, "fmt-ok");
            }
            // domain of the round trip: git's offsets are +-HHMM and the sign agrees with the offset
            let wf = (off < 0) == (t.sign == Sign::Minus) || off == 0;
            if !wf {
                return Verdict::ok(false, "rt-sign-disagrees-with-offset");
            }
            let whole_minutes = off % 60 == 0;
            let parsed = gix_date::parse(&text, None);
            let want: Time = match kname {
                b"unix" => mk(secs, 0),
                b"raw" => {
                    if !whole_minutes {
                        return Verdict::ok(false, "rt-offset-with-seconds");
                    }
                    t
                }
                b"short" => {
                    let midnight = (secs + off).div_euclid(86400) * 86400;
                    if !(TS_MIN..=TS_MAX).contains(&midnight) {
                        return Verdict::ok(false, "rt-short-midnight-outside-instant-range");
                    }
                    mk(midnight, 0)
                }
                b"rfc2822" | b"gitrfc2822" => {
                    if !whole_minutes {
                        return Verdict::ok(false, "rt-offset-with-seconds");
                    }
                    mk(secs, off as i32)
                }
                _ => mk(secs, off as i32),
            };
            match parsed {
                Ok(p) if p == want => {}
                other => {
                    let neg_year = text.contains(" -") && (kname == b"rfc2822" || kname == b"gitrfc2822") && {
                        let (y, _, _) = naive_civil((secs + off).div_euclid(86400));
                        y < 0
                    };
                    if neg_year {
                        return Verdict::fail(
                            "rfc2822-negative-year",
                            format!("{text:?} parses as {}", show_parse(other)),
                        );
                    }
                    return Verdict::fail(
                        format!("roundtrip-{}", String::from_utf8_lossy(kname)),
                        format!("{text:?} parses as {} want {}", show_parse(other), show_time(&want)),
                    );
                }
            }
            // git on a sample of the absolute dates
            let git_reads_it = if custom { kname != b"short" } else { secs >= 100000000 };
            if git_reads_it {
                if git_comparable(&text, secs, off) && fnv(c) % 12 == 0 {
                    match git_date(&text) {
                        Some(g) if g == secs => return Verdict::ok(true, format!("rt-{}-git", String::from_utf8_lossy(kname))),
                        g => return Verdict::fail("git-instant", format!("{text:?}: git {g:?} gix {secs}")),
                    }
                }
            }
            Verdict::ok(true, format!("rt-{}", String::from_utf8_lossy(kname)))
        }
        b"parse" => {
            let Ok(text) = std::str::from_utf8(f_str(c, 1)) else { return Verdict::ok(false, "notutf8") };
            let now = now_of(f_str(c, 2));
            let Some(res) = catch(|| gix_date::parse(text, now)) else {
                return Verdict::fail("parse-panics", format!("{text:?}"));
            };
            let t = match res {
                Ok(t) => t,
                Err(_) => return Verdict::ok(false, "parse-err"),
            };
            let (secs, off) = (t.seconds, t.offset as i64);
            if text == "1979-02-26 18:30:00" {
                return Verdict::ok(false, "parse-special");
            }
            let toks: Vec<&str> = text.split_whitespace().collect();
            // relative dates: now - n * unit
            if toks.len() >= 3 && toks[2] == "ago" && toks[0].parse::<i64>().is_ok() && !toks[1].starts_with(['+', '-']) && toks[1].chars().all(|c| c.is_ascii_lowercase()) {
                let n: i64 = toks[0].parse().unwrap();
                let per = match toks[1].strip_suffix('s').unwrap_or(toks[1]) {
                    "second" => 1,
                    "minute" => 60,
                    "hour" => 3600,
                    "day" => 86400,
                    "week" => 604800,
                    _ => return Verdict::fail("relative-unit", format!("{text:?} accepted")),
                };
                let nowv: i64 = std::str::from_utf8(f_str(c, 2)).ok().and_then(|s| s.parse().ok()).unwrap_or(0);
                return if n >= 0 && secs == nowv - n * per && off == 0 {
                    Verdict::ok(true, "parse-relative")
                } else {
                    Verdict::fail("relative-value", format!("{text:?} now {nowv} -> {}", show_time(&t)))
                };
            }
            // plain integers
            if toks.len() == 1 && text.parse::<i64>().is_ok() {
                if secs != text.parse::<i64>().unwrap() || off != 0 {
                    return Verdict::fail("unix-value", format!("{text:?} -> {}", show_time(&t)));
                }
                let digits = text.trim_start_matches('+');
                if text.trim().starts_with('+') {
                    return Verdict::fail("epoch-seconds-with-plus-sign", format!("{text:?}: git's approxidate does not read a number with an explicit plus sign as a timestamp"));
                }
                if digits.len() < 9 || secs < 100000000 {
                    return Verdict::fail("epoch-seconds-under-9-digits", format!("{text:?}: git's approxidate does not read this as a timestamp"));
                }
                if secs <= 4102444799 && fnv(c) % 8 == 0 {
                    return match git_date(digits) {
                        Some(g) if g == secs => Verdict::ok(true, "parse-unix-git"),
                        g => Verdict::fail("git-instant", format!("{text:?}: git {g:?} gix {secs}")),
                    };
                }
                return Verdict::ok(true, "parse-unix");
            }
            // raw: <int> <+-hhmm>
            if toks.len() == 2 && toks[0].parse::<i64>().is_ok() && toks[1].len() == 5 && !toks[1].contains(':') {
                let b = toks[1].as_bytes();
                let plain = (b[0] == b'+' || b[0] == b'-') && b[1..].iter().all(|x| x.is_ascii_digit());
                if secs != toks[0].parse::<i64>().unwrap() {
                    return Verdict::fail("raw-value", format!("{text:?} -> {}", show_time(&t)));
                }
                if !plain {
                    return Verdict::ok(true, "parse-raw-odd-offset");
                }
                let hh = (b[1] - b'0') as i64 * 10 + (b[2] - b'0') as i64;
                let mm = (b[3] - b'0') as i64 * 10 + (b[4] - b'0') as i64;
                let o = (hh * 3600 + mm * 60) * if b[0] == b'-' { -1 } else { 1 };
                if off != o || (t.sign == Sign::Minus) != (b[0] == b'-') {
                    return Verdict::fail("raw-value", format!("{text:?} -> {}", show_time(&t)));
                }
                if toks[0].starts_with('+') {
                    return Verdict::fail("epoch-seconds-with-plus-sign", format!("{text:?}: git's approxidate does not read a number with an explicit plus sign as a timestamp"));
                }
                if toks[0].len() < 9 || secs < 100000000 {
                    return Verdict::fail("epoch-seconds-under-9-digits", format!("{text:?}: git's approxidate does not read this as a timestamp"));
                }
                if secs <= 4102444799 && hh < 24 && mm % 15 == 0 && mm < 60 && text.is_ascii() && fnv(c) % 8 == 0 {
                    return match git_date(text) {
                        Some(g) if g == secs => Verdict::ok(true, "parse-raw-git"),
                        g => Verdict::fail("git-instant", format!("{text:?}: git {g:?} gix {secs}")),
                    };
                }
                return Verdict::ok(true, "parse-raw");
            }
            // a date alone: git fills in the current time of day, gix says midnight UTC
            if toks.len() == 1 && text.matches('-').count() >= 2 && !text.contains(':') && !text.contains('T') {
                let days = secs.div_euclid(86400);
                let (y, m, d) = naive_civil(days);
                if secs.rem_euclid(86400) != 0 || off != 0 || naive_days(y, m, d) != days {
                    return Verdict::fail("short-value", format!("{text:?} -> {}", show_time(&t)));
                }
                return Verdict::fail("short-date-is-midnight-utc", format!("{text:?}: git's approxidate uses the current time of day, gix midnight UTC"));
            }
            if (t.sign == Sign::Minus) != (off < 0) {
                return Verdict::fail("sign-follows-offset", format!("{text:?} -> {}", show_time(&t)));
            }
            // the civil reading must be a valid instant: re-derive the text's fields through the naive calendar
            let l = secs + off;
            let (y, m, d) = naive_civil(l.div_euclid(86400));
            if naive_days(y, m, d) != l.div_euclid(86400) {
                return Verdict::fail("calendar", "naive calendar disagrees with itself");
            }
            // the numbers of the civil reading must occur in the text
            let sod = l.rem_euclid(86400);
            let hm = format!(":{:02}", sod % 3600 / 60);
            let monname = MON[(m - 1) as usize].to_ascii_lowercase();
            let lower = text.to_ascii_lowercase();
            let has_mon = lower.contains(&monname) || lower.contains(&format!("-{:02}-", m)) || lower.contains(&format!("-{}-", m));
            let _ = &hm;
            if !has_mon {
                return Verdict::fail("civil-fields", format!("{text:?} -> {} = {y}-{m}-{d} {hm}", show_time(&t)));
            }
            // obsolete RFC 2822 years: the token after the month name has two or three digits
            if let Some(i) = toks.iter().position(|t| t.to_ascii_lowercase() == monname) {
                if let Some(y) = toks.get(i + 1) {
                    if (y.len() == 2 || y.len() == 3) && y.bytes().all(|b| b.is_ascii_digit()) && toks[0].ends_with(',') | toks[0].bytes().all(|b| b.is_ascii_digit()) {
                        return Verdict::fail("rfc2822-short-year", format!("{text:?}: jiff reads 2/3-digit years as RFC 2822 says (00-49 -> 20xx, else 19xx); git's approxidate guesses differently (drops the zone, or takes the current year)"));
                    }
                }
            }
            // a blank in a strptime format matches ZERO or more blanks: run-together fields are accepted
            let expected_tokens = if toks[0].bytes().next().map_or(false, |b| b.is_ascii_alphabetic()) && !toks[0].contains(',') {
                6
            } else if toks[0].contains('-') && !toks[0].contains('T') && !toks[0].contains('t') {
                3
            } else {
                0
            };
            if toks.len() < expected_tokens {
                return Verdict::fail("missing-whitespace-accepted", format!("{text:?}: fields run together are accepted (a blank in jiff's strptime format matches zero blanks); git reads something else"));
            }
            if text.contains(":60") {
                return Verdict::fail("second-60-clamped", format!("{text:?}: git adds the 60th second, gix (jiff) clamps to 59"));
            }
            if git_comparable(text, secs, off) && fnv(c) % 6 == 0 {
                // zone names: git has its own table; only the ones both know are compared
                let has_alpha_zone = toks.last().map_or(false, |z| z.chars().all(|c| c.is_ascii_alphabetic()));
                if has_alpha_zone {
                    let z = toks.last().unwrap().to_ascii_uppercase();
                    if !["UT", "GMT", "Z", "EST", "EDT", "CST", "CDT", "MST", "MDT", "PST", "PDT"].contains(&z.as_str()) {
                        return Verdict::ok(true, "parse-zone-name-unknown-to-both");
                    }
                }
                return match git_date(text) {
                    Some(g) if g == secs => Verdict::ok(true, "parse-abs-git"),
                    g => Verdict::fail("git-instant", format!("{text:?}: git {g:?} gix {secs}")),
                };
            }
            Verdict::ok(true, "parse-abs")
        }
        _ => Verdict::ok(false, "?"),
    }
}

// ------------------------------------------------------------------------------------ generator

const SPECIAL_SECS: &[i64] = &[
    0, 1, -1, 59, 60, 86399, 86400, -86400, 951782400, 951868800, 4107456000, 4107542400, 4102444799, 4102444800,
    2147483647, 2147483648, -62167219200, -62167219201, -62135596800, -62135596801, TS_MIN, TS_MIN - 1, TS_MIN + 1,
    TS_MAX, TS_MAX + 1, TS_MAX - 1, i64::MIN, i64::MAX, 253402300799, 32503680000, -30610224000, -30610224001,
    99999999, 100000000, 999999999, 1000000000, 123456789, 1660874655, -377705116800, 1078012800, 68169600,
];
const SPECIAL_OFFS: &[i64] = &[
    0, 60, -60, 3600, -3600, 9000, 50400, -43200, 86340, -86340, 86400, -86400, 93540, -93540, 93599, -93599, 93600,
    -93600, 359940, -359940, 360000, -360000, 1, -1, 30, 3601, -3601, i32::MIN as i64, i32::MAX as i64,
];

fn gen_secs(rng: &mut Rng) -> i64 {
    match rng.below(20) {
        0..=9 => rng.range(0, 4102444799),
        10..=13 => rng.range(TS_MIN, TS_MAX),
        14 | 15 => rng.pick(SPECIAL_SECS).saturating_add(rng.range(-100000, 100000)),
        16 => *rng.pick(SPECIAL_SECS),
        17 | 18 => {
            let bits = rng.below(63);
            let v = (rng.next() >> (63 - bits)) as i64;
            if rng.chance(1, 2) {
                -v
            } else {
                v
            }
        }
        _ => rng.next() as i64,
    }
}
fn gen_off(rng: &mut Rng) -> i64 {
    match rng.below(20) {
        0..=13 => rng.range(-56, 56) * 900,
        14..=16 => rng.range(-1560, 1560) * 60,
        17 => rng.range(-93599, 93599),
        18 => *rng.pick(SPECIAL_OFFS),
        _ => rng.range(-400000, 400000),
    }
}
fn time_fields(rng: &mut Rng, secs: i64, off: i64) -> Vec<Vec<u8>> {
    let natural = if off < 0 {
        "-"
    } else if off > 0 {
        "+"
    } else if rng.chance(1, 3) {
        "-"
    } else {
        "+"
    };
    let sign = if rng.chance(1, 20) {
        if natural == "-" {
            "+"
        } else {
            "-"
        }
    } else {
        natural
    };
    vec![num(secs), num(off), tag(sign)]
}

fn wsp(rng: &mut Rng) -> String {
    match rng.below(12) {
        0 => "  ".into(),
        1 => "\t".into(),
        2 => "".into(),
        3 => " \t ".into(),
        4 => "\n".into(),
        _ => " ".into(),
    }
}
fn mixcase(rng: &mut Rng, s: &str) -> String {
    match rng.below(6) {
        0 => s.to_ascii_uppercase(),
        1 => s.to_ascii_lowercase(),
        2 => s.chars().map(|c| if rng.chance(1, 2) { c.to_ascii_uppercase() } else { c.to_ascii_lowercase() }).collect(),
        _ => s.to_string(),
    }
}
fn gen_zone(rng: &mut Rng) -> String {
    match rng.below(16) {
        0..=7 => {
            let h = if rng.chance(1, 8) { rng.range(0, 27) } else { rng.range(0, 14) };
            let m = if rng.chance(1, 8) { rng.range(0, 61) } else { *rng.pick(&[0, 0, 0, 30, 45, 15]) };
            format!("{}{:02}{:02}", if rng.chance(1, 2) { "+" } else { "-" }, h, m)
        }
        8 => format!("{}{:02}{:02}{:02}", if rng.chance(1, 2) { "+" } else { "-" }, rng.range(0, 14), rng.range(0, 59), rng.range(0, 61)),
        9 => format!("{}{:02}:{:02}", if rng.chance(1, 2) { "+" } else { "-" }, rng.range(0, 14), rng.range(0, 59)),
        10 | 11 => mixcase(rng, *rng.clone().pick(&["UT", "GMT", "Z", "EST", "EDT", "CST", "CDT", "MST", "MDT", "PST", "PDT"])),
        12 => mixcase(rng, *rng.clone().pick(&["A", "J", "K", "CET", "CEST", "UTC", "AB", "ABCDE", "ABCDEF", "J1", "E.T"])),
        13 => "-0000".into(),
        14 => format!("{}{}", if rng.chance(1, 2) { "+" } else { "-" }, rng.range(0, 99999)),
        _ => "+0000".into(),
    }
}
fn gen_comment(rng: &mut Rng) -> String {
    match rng.below(8) {
        0 => "(UTC)".into(),
        1 => "(a (nested) one)".into(),
        2 => "(unclosed".into(),
        3 => "(esc \\) still) ".into(),
        4 => "(x) y".into(),
        5 => ")".into(),
        6 => "(\\".into(),
        _ => "()".into(),
    }
}

/// a date text assembled from fields, in one of the absolute grammars, with deliberate sloppiness
fn gen_grammar(rng: &mut Rng) -> String {
    let y = match rng.below(10) {
        0 => rng.range(-9999, 9999),
        1 => rng.range(0, 99),
        2 => rng.range(100, 999),
        3 => *rng.pick(&[1969, 1970, 2038, 2099, 2100, 9999, 0, 1900, 2000]),
        _ => rng.range(1970, 2099),
    };
    let m = if rng.chance(1, 30) { rng.range(0, 13) } else { rng.range(1, 12) };
    let d = match rng.below(12) {
        0 => rng.range(0, 32),
        1 => dim(y, m.clamp(1, 12)),
        2 => dim(y, m.clamp(1, 12)) + 1,
        _ => rng.range(1, 28),
    };
    let hh = if rng.chance(1, 30) { rng.range(0, 25) } else { rng.range(0, 23) };
    let mi = if rng.chance(1, 30) { rng.range(0, 61) } else { rng.range(0, 59) };
    let ss = if rng.chance(1, 15) { rng.range(58, 61) } else { rng.range(0, 59) };
    let wdi = rng.below(7) as usize;
    let wd = mixcase(rng, WD[wdi]);
    let true_wd = {
        let days = naive_days(y, m.clamp(1, 12), d.clamp(1, 28));
        WD[(days + 4).rem_euclid(7) as usize].to_string()
    };
    let wd = if rng.chance(2, 3) { true_wd } else { wd };
    let mon = mixcase(rng, MON[(m.clamp(1, 12) - 1) as usize]);
    let ys = if y < 0 { format!("-{:04}", -y) } else { format!("{:04}", y) };
    let z = gen_zone(rng);
    let day = |rng: &mut Rng| if rng.chance(1, 2) { format!("{:02}", d) } else { format!("{}", d) };
    let sp = |rng: &mut Rng| if rng.chance(1, 6) { wsp(rng) } else { " ".to_string() };
    let mut t = match rng.below(8) {
        0 | 1 => {
            // RFC 2822
            let mut t = String::new();
            if rng.chance(1, 10) {
                t += &wsp(rng);
            }
            if rng.chance(4, 5) {
                t += &format!("{wd},{}", sp(rng));
            }
            let yy = match rng.below(6) {
                0 => format!("{:02}", y.rem_euclid(100)),
                1 => format!("{:03}", y.rem_euclid(1000)),
                _ => ys.clone(),
            };
            t += &format!("{}{}{mon}{}{yy}{}{:02}:{:02}", day(rng), sp(rng), sp(rng), sp(rng), hh, mi);
            if rng.chance(5, 6) {
                t += &format!(":{:02}", ss);
            }
            t += &format!("{}{z}", sp(rng));
            if rng.chance(1, 8) {
                t += &format!("{}{}", sp(rng), gen_comment(rng));
            }
            t
        }
        2 => format!("{ys}-{:02}-{:02}{}{:02}:{:02}:{:02}{}{z}", m, d, sp(rng), hh, mi, ss, sp(rng)),
        3 => format!("{ys}-{:02}-{:02}T{:02}:{:02}:{:02}{}", m, d, hh, mi, ss, if rng.chance(3, 4) && z.len() == 5 { format!("{}:{}", &z[..3], &z[3..]) } else { z.clone() }),
        4 => format!("{wd}{}{mon}{}{}{}{ys}{}{:02}:{:02}:{:02}{}{z}", sp(rng), sp(rng), day(rng), sp(rng), sp(rng), hh, mi, ss, sp(rng)),
        5 => format!("{wd}{}{mon}{}{}{}{:02}:{:02}:{:02}{}{ys}{}{z}", sp(rng), sp(rng), day(rng), sp(rng), hh, mi, ss, sp(rng), sp(rng)),
        6 => {
            // date only, various widths
            match rng.below(4) {
                0 => format!("{ys}-{}-{}", m, d),
                1 => format!("{}-{:02}-{:02}", y, m, d),
                2 => format!("+{ys}-{:02}-{:02}", m, d),
                _ => format!("{ys}-{:02}-{:02}", m, d),
            }
        }
        _ => format!("{ys}-{:02}-{:02} {:02}:{:02}:{:02}", m, d, hh, mi, ss),
    };
    if rng.chance(1, 20) {
        t += &wsp(rng);
    }
    t
}

fn mutate(rng: &mut Rng, s: &str) -> String {
    let mut b: Vec<u8> = s.as_bytes().to_vec();
    const ALPHA: &[u8] = b" \t-+:,.T0123456789aeZ()";
    for _ in 0..rng.range(1, 2) {
        if b.is_empty() {
            break;
        }
        let i = rng.below(b.len() as u64) as usize;
        match rng.below(7) {
            0 => b[i] = *rng.pick(ALPHA),
            1 => {
                b.remove(i);
            }
            2 => b.insert(i, *rng.pick(ALPHA)),
            3 => b.truncate(i),
            4 => {
                if b[i] == b' ' {
                    b.splice(i..i + 1, wsp(rng).into_bytes());
                } else {
                    b[i] = b[i].to_ascii_uppercase();
                }
            }
            5 => {
                if b[i].is_ascii_digit() {
                    b[i] = b'0' + rng.below(10) as u8;
                } else {
                    b[i] = b[i].to_ascii_lowercase();
                }
            }
            _ => b.push(*rng.pick(ALPHA)),
        }
    }
    String::from_utf8_lossy(&b).into_owned()
}

fn gen_int_text(rng: &mut Rng) -> String {
    match rng.below(12) {
        0 => "9223372036854775807".into(),
        1 => "9223372036854775808".into(),
        2 => "-9223372036854775808".into(),
        3 => "-9223372036854775809".into(),
        4 => format!("+{}", rng.range(0, 4102444799)),
        5 => format!("{:012}", rng.range(0, 4102444799)),
        6 => format!("{}", -rng.range(0, 4102444799)),
        7 => format!("{}", rng.range(0, 99999999)),
        8 => (*rng.pick(&["-", "+", "-0", "+0", "0", "00", "1e9", "0x10", "١٢٣"])).to_string(),
        _ => format!("{}", rng.range(100000000, 4102444799)),
    }
}

fn gen_parse_text(rng: &mut Rng) -> (String, Option<i64>) {
    let nowv = |rng: &mut Rng| match rng.below(8) {
        0 => None,
        1 => Some(0),
        2 => Some(*rng.pick(&[TS_MIN, TS_MIN - 1, TS_MAX, TS_MAX + 1, -1, 1])),
        _ => Some(rng.range(0, 4102444799)),
    };
    match rng.below(20) {
        0..=6 => {
            // text produced by the implementation for an in-range time, maybe damaged
            let secs = if rng.chance(4, 5) { rng.range(0, 4102444799) } else { rng.range(TS_MIN, TS_MAX) };
            let off = if rng.chance(9, 10) { rng.range(-56, 56) * 900 } else { rng.range(-93599, 93599) };
            let t = Time::new(secs, off as i32);
            let k = *rng.pick(KINDS);
            let text = t.format(kind(k.as_bytes()).unwrap());
            let text = if rng.chance(1, 2) { mutate(rng, &text) } else { text };
            (text, if rng.chance(1, 10) { nowv(rng) } else { None })
        }
        7..=13 => {
            let t = gen_grammar(rng);
            let t = if rng.chance(1, 5) { mutate(rng, &t) } else { t };
            (t, None)
        }
        14 | 15 => {
            // unix / raw shapes
            let n = gen_int_text(rng);
            let text = match rng.below(10) {
                0..=2 => n,
                3..=6 => format!("{n}{}{}", wsp(rng), {
                    let z = gen_zone(rng);
                    z
                }),
                7 => format!("{n} {}", rng.pick(&["--700", "+-700", "-+700", "+0a00", "+07 0", "++++0", "+١٢٣", "-0000", "+9999", "-9999", "+1 1 ", "0700", "+070", "+07000"])),
                8 => format!("{}{n}{}+0100{}", rng.pick(&["", " ", "\u{a0}", "\u{2003}", "\u{b}", "\u{3000}", "\u{85}"]), rng.pick(&[" ", "\u{a0}", "\u{2003}", "\u{b}", "\u{3000}", "\u{1680}", "\u{202f}", "\u{205f}", "\u{2028}", "\u{200b}", "\u{e2}"]), rng.pick(&["", " ", "\u{2029}", " x"])),
                _ => format!("{n} +0100 {}", rng.pick(&["extra", "ago", "+0100"])),
            };
            (text, if rng.chance(1, 4) { nowv(rng) } else { None })
        }
        16 | 17 => {
            // relative
            let unit = *rng.pick(&["second", "minute", "hour", "day", "week", "seconds", "minutes", "hours", "days", "weeks", "month", "year", "s", "weekss", "Day", "fortnight"]);
            let lim: i64 = match unit.trim_end_matches('s') {
                "second" => 631107417600,
                "minute" => 10518456960,
                "hour" => 175307616,
                "day" => 7304484,
                "week" => 1043497,
                _ => 1000,
            };
            let n = match rng.below(10) {
                0 => lim,
                1 => lim + 1,
                2 => -rng.range(0, 10),
                3 => rng.range(0, lim),
                4 => 0,
                5 => i64::MAX,
                _ => rng.range(0, 5000),
            };
            let text = match rng.below(8) {
                0 => format!("{n} {unit}"),
                1 => format!("{n} {unit} ago extra words"),
                2 => format!("{n}  {unit}\tago "),
                3 => format!("{n} {unit} Ago"),
                4 => format!("+{n} {unit} ago"),
                5 => format!("{n}\u{a0}{unit}\u{2003}ago"),
                _ => format!("{n} {unit} ago"),
            };
            (text, nowv(rng))
        }
        18 => {
            let t = (*rng.pick(&[
                "1979-02-26 18:30:00", "1979-02-26 18:30:00 ", "1979-02-26 18:30:01", "-9999-01-01", "-9999-01-02", "9999-12-31",
                "-9999-1-1", "2022-02-30", "2024-02-29", "2023-02-29", "1900-02-29", "2000-02-29", "0000-01-01", "-0001-12-31",
                "2022-08-22", "+2022-08-22", "20220822", "2022-08-22T", "", " ", "foobar", "7\t-𬞋", "5 ڜ-09", "-4 week ago Z",
                "Thu, 18 Aug 2022 12:45:06 +0800", "Thu,  1 Aug 2022 12:45:06 +0800", "Thu Sep 04 2022 10:45:06 -0400",
                "9999-12-31 23:59:59 -2559", "-9999-01-01 00:00:00 +2559", "9999-12-31 23:59:59 +0000", "9999-12-31T23:59:59-00:00",
                "Fri, 31 Dec 9999 23:59:59 -0200", "Sat, 1 Jan 00 00:00:00 GMT", "1 Jan 49 00:00 Z", "1 Jan 50 00:00 Z", "1 Jan 100 00:00 Z",
            ]))
            .to_string();
            (t, Some(0))
        }
        _ => {
            let w = rng.word(b" -+:,T019aeguSZ()\t", 0, 24);
            (String::from_utf8_lossy(&w).into_owned(), None)
        }
    }
}

fn gen(rng: &mut Rng, n: usize) -> Vec<Case> {
    let mut out: Vec<Case> = Vec::new();
    // boundary block: every format at every special instant, with a few offsets
    'outer: for (i, secs) in SPECIAL_SECS.iter().enumerate() {
        for (j, k) in KINDS.iter().enumerate() {
            for off in [0, SPECIAL_OFFS[(i + j) % SPECIAL_OFFS.len()], if j % 2 == 0 { 19800 } else { -34200 }] {
                let mut c = vec![tag("rt"), tag(k)];
                let sign = if off < 0 { "-" } else { "+" };
                c.extend([num(*secs), num(off), tag(sign)]);
                out.push(c);
                if out.len() >= n * 2 / 5 {
                    break 'outer;
                }
            }
        }
    }
    for (j, off) in SPECIAL_OFFS.iter().enumerate() {
        for k in KINDS {
            let sign = if *off < 0 { "-" } else { "+" };
            out.push(vec![tag("rt"), tag(k), num(1660874655 + j as i64), num(*off), tag(sign)]);
        }
    }
    out.push(vec![tag("rt"), tag("raw"), num(5), num(0), tag("-")]);
    out.push(vec![tag("rt"), tag("iso8601"), num(5), num(0), tag("-")]);
    while out.len() < n {
        match rng.below(20) {
            0..=8 => {
                let (secs, off) = (gen_secs(rng), gen_off(rng));
                let mut c = vec![tag("rt"), tag(*rng.pick(KINDS))];
                c.extend(time_fields(rng, secs, off));
                out.push(c);
            }
            9 => {
                let (secs, off) = (gen_secs(rng), gen_off(rng));
                let mut c = vec![tag("fmt"), tag(*rng.pick(KINDS))];
                c.extend(time_fields(rng, secs, off));
                out.push(c);
            }
            _ => {
                let (text, now) = gen_parse_text(rng);
                out.push(vec![tag("parse"), text.into_bytes(), now.map(num).unwrap_or_default()]);
            }
        }
    }
    out.truncate(n.max(1));
    out
}

fn main() {
    main_with(Harness { gen, imp, prop, git: None, deadline: std::time::Duration::from_secs(120) });
}
