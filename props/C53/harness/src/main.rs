//! C53 — mailmap resolution agrees with git.
//! cases:  res <mailmap> (<name> <email>)*   |   ent <mailmap>
use bstr::ByteSlice;
use gixv_common::*;

// ------------------------------------------------------------------------------------------- impl

fn hxo(o: Option<&[u8]>) -> String {
    match o {
        Some(s) => format!("+{}", hexs(s)),
        None => "~".into(),
    }
}

fn identities(c: &Case) -> Vec<(&[u8], &[u8])> {
    let mut v = Vec::new();
    let mut i = 2;
    while i + 1 < c.len() {
        v.push((c[i].as_slice(), c[i + 1].as_slice()));
        i += 2;
    }
    v
}

fn gix_resolve(snap: &gix_mailmap::Snapshot, name: &[u8], email: &[u8]) -> (bool, Vec<u8>, Vec<u8>) {
    let sig = gix_actor::SignatureRef { name: name.as_bstr(), email: email.as_bstr(), time: gix_date::Time::new(42, 0) };
    let some = snap.try_resolve(sig).is_some();
    let r = snap.resolve(sig);
    (some, r.name.to_vec(), r.email.to_vec())
}

fn imp(c: &Case) -> String {
    let op = f_str(c, 0);
    let mm = f_str(c, 1);
    if op == b"res" {
        let snap = gix_mailmap::Snapshot::from_bytes(mm);
        identities(c)
            .iter()
            .map(|(n, e)| {
                let (some, rn, re) = gix_resolve(&snap, n, e);
                format!("{} n={} e={}", if some { "some" } else { "none" }, hexs(&rn), hexs(&re))
            })
            .collect::<Vec<_>>()
            .join(" ; ")
    } else if op == b"ent" {
        let parsed = gix_mailmap::parse(mm)
            .map(|r| match r {
                Ok(_) => "ok",
                Err(gix_mailmap::parse::Error::UnconsumedInput { .. }) => "errU",
                Err(gix_mailmap::parse::Error::Malformed { .. }) => "errM",
            })
            .collect::<Vec<_>>()
            .join(",");
        let snap = gix_mailmap::Snapshot::from_bytes(mm);
        let ents = snap
            .entries()
            .iter()
            .map(|e| {
                format!(
                    "nn={} ne={} on={} oe={}",
                    hxo(e.new_name().map(|b| b.as_bytes())),
                    hxo(e.new_email().map(|b| b.as_bytes())),
                    hxo(e.old_name().map(|b| b.as_bytes())),
                    hexs(e.old_email())
                )
            })
            .collect::<Vec<_>>()
            .join(" ; ");
        format!("{parsed} | {ents}")
    } else {
        "?".into()
    }
}

// ------------------------------------------------------------------------------------------- reference: mailmap.c
// A plain port of git 2.39 mailmap.c on byte vectors (linear scans instead of string_list).

mod gitref {
    pub fn isspace(b: u8) -> bool {
        b == b' ' || b == b'\t' || b == b'\n' || b == b'\r'
    }
    pub fn caseeq(a: &[u8], b: &[u8]) -> bool {
        a.len() == b.len() && a.iter().zip(b).all(|(x, y)| x.to_ascii_lowercase() == y.to_ascii_lowercase())
    }
    /// fgets(buffer, 1024, f)
    pub fn chunks(text: &[u8]) -> Vec<&[u8]> {
        let mut out = Vec::new();
        let mut start = 0;
        let mut i = 0;
        while i < text.len() {
            let b = text[i];
            i += 1;
            if b == b'\n' || i - start == 1023 {
                out.push(&text[start..i]);
                start = i;
            }
        }
        if start < text.len() {
            out.push(&text[start..]);
        }
        out
    }
    pub fn cstr(s: &[u8]) -> &[u8] {
        match s.iter().position(|b| *b == 0) {
            Some(p) => &s[..p],
            None => s,
        }
    }
    fn trim(mut s: &[u8]) -> &[u8] {
        while let Some((f, r)) = s.split_first() {
            if isspace(*f) { s = r } else { break }
        }
        while let Some((l, r)) = s.split_last() {
            if isspace(*l) { s = r } else { break }
        }
        s
    }
    /// (name, email, rest)
    pub fn parse_ne(buf: &[u8], allow_empty: bool) -> (Option<&[u8]>, Option<&[u8]>, Option<&[u8]>) {
        let Some(left) = buf.iter().position(|b| *b == b'<') else { return (None, None, None) };
        let after = &buf[left + 1..];
        let Some(rlen) = after.iter().position(|b| *b == b'>') else { return (None, None, None) };
        if !allow_empty && rlen == 0 {
            return (None, None, None);
        }
        let nm = trim(&buf[..left]);
        let rest = &after[rlen + 1..];
        (
            if nm.is_empty() { None } else { Some(nm) },
            Some(&after[..rlen]),
            if rest.is_empty() { None } else { Some(rest) },
        )
    }
    pub struct Line<'a> {
        pub name1: Option<&'a [u8]>,
        pub email1: &'a [u8],
        pub name2: Option<&'a [u8]>,
        pub email2: Option<&'a [u8]>,
        /// what follows the last pair that was parsed
        pub tail: &'a [u8],
    }
    pub fn read_line(buffer: &[u8]) -> Option<Line<'_>> {
        if buffer.first() == Some(&b'#') || buffer.is_empty() {
            return None;
        }
        let (name1, email1, rest) = parse_ne(buffer, false);
        let email1 = email1?;
        match rest {
            None => Some(Line { name1, email1, name2: None, email2: None, tail: b"" }),
            Some(rest) => {
                let (name2, email2, rest2) = parse_ne(rest, true);
                let tail = if email2.is_some() { rest2.unwrap_or(b"") } else { rest };
                Some(Line { name1, email1, name2, email2, tail })
            }
        }
    }
    #[derive(Default, Clone)]
    pub struct Info {
        pub name: Option<Vec<u8>>,
        pub email: Option<Vec<u8>>,
    }
    pub struct Ment {
        pub key: Vec<u8>,
        pub info: Info,
        pub names: Vec<(Vec<u8>, Info)>,
    }
    pub fn add_mapping(map: &mut Vec<Ment>, l: &Line<'_>) {
        let (new_email, old_email) = match l.email2 {
            Some(e2) => (Some(l.email1), e2),
            None => (None, l.email1),
        };
        let pos = match map.iter().position(|m| caseeq(&m.key, old_email)) {
            Some(p) => p,
            None => {
                map.push(Ment { key: old_email.to_vec(), info: Info::default(), names: Vec::new() });
                map.len() - 1
            }
        };
        let me = &mut map[pos];
        match l.name2 {
            None => {
                if let Some(n) = l.name1 {
                    me.info.name = Some(n.to_vec());
                }
                if let Some(e) = new_email {
                    me.info.email = Some(e.to_vec());
                }
            }
            Some(on) => {
                let mi = Info { name: l.name1.map(|v| v.to_vec()), email: new_email.map(|v| v.to_vec()) };
                match me.names.iter().position(|(k, _)| caseeq(k, on)) {
                    Some(p) => me.names[p].1 = mi,
                    None => me.names.push((on.to_vec(), mi)),
                }
            }
        }
    }
    pub fn read_mailmap(text: &[u8]) -> Vec<Ment> {
        let mut map = Vec::new();
        for ch in chunks(text) {
            if let Some(l) = read_line(cstr(ch)) {
                add_mapping(&mut map, &l);
            }
        }
        map
    }
    pub fn map_user(map: &[Ment], name: &[u8], email: &[u8]) -> (Vec<u8>, Vec<u8>) {
        let Some(me) = map.iter().find(|m| caseeq(&m.key, email)) else { return (name.to_vec(), email.to_vec()) };
        let mi = me.names.iter().find(|(k, _)| caseeq(k, name)).map(|(_, i)| i).unwrap_or(&me.info);
        (mi.name.clone().unwrap_or_else(|| name.to_vec()), mi.email.clone().unwrap_or_else(|| email.to_vec()))
    }
    /// what check-mailmap prints
    pub fn show(name: &[u8], email: &[u8]) -> Vec<u8> {
        let mut v = Vec::new();
        if !name.is_empty() {
            v.extend_from_slice(name);
            v.push(b' ');
        }
        v.push(b'<');
        v.extend_from_slice(email);
        v.push(b'>');
        v
    }
}

// ------------------------------------------------------------------------------------------- real git

/// can `git check-mailmap --stdin` be given this identity so that it reads back exactly (name, email)?
fn representable(name: &[u8], email: &[u8]) -> bool {
    let bad = |b: &u8| *b == b'\n' || *b == 0;
    if name.iter().any(bad) || email.iter().any(bad) {
        return false;
    }
    if name.contains(&b'<') || email.contains(&b'>') {
        return false;
    }
    if name.last().map_or(false, |b| gitref::isspace(*b)) {
        return false;
    }
    true
}

fn git_dir() -> std::path::PathBuf {
    use std::sync::atomic::{AtomicU64, Ordering};
    static N: AtomicU64 = AtomicU64::new(0);
    let d = std::env::temp_dir().join(format!("gixv-c53-{}-{}", std::process::id(), N.fetch_add(1, Ordering::SeqCst)));
    let _ = std::fs::remove_dir_all(&d);
    std::fs::create_dir_all(d.join("r.git/objects")).unwrap();
    std::fs::create_dir_all(d.join("r.git/refs")).unwrap();
    std::fs::write(d.join("r.git/HEAD"), b"ref: refs/heads/main\n").unwrap();
    std::fs::write(d.join("r.git/config"), b"[core]\n\trepositoryformatversion = 0\n\tbare = true\n").unwrap();
    d
}

/// one output line of `git check-mailmap --stdin` per identity; None when git has no say
fn real_git(mm: &[u8], ids: &[(&[u8], &[u8])]) -> Option<Vec<Vec<u8>>> {
    use std::io::Write;
    use std::process::{Command, Stdio};
    if ids.is_empty() || ids.iter().any(|(n, e)| !representable(n, e)) {
        return None;
    }
    let dir = git_dir();
    let res = (|| {
        let mmf = dir.join("mm");
        std::fs::write(&mmf, mm).ok()?;
        let mut input = Vec::new();
        for (n, e) in ids {
            input.extend_from_slice(&gitref::show(n, e));
            input.push(b'\n');
        }
        let mut cmd = Command::new("/usr/bin/git");
        cmd.current_dir(dir.join("r.git"))
            .env_clear()
            .env("HOME", &dir)
            .env("GIT_CONFIG_NOSYSTEM", "1")
            .env("GIT_CONFIG_GLOBAL", "/dev/null")
            .env("GIT_DIR", dir.join("r.git"))
            .env("LC_ALL", "C")
            .env("PATH", "/usr/bin:/bin")
            .arg("-c")
            .arg(format!("mailmap.file={}", mmf.display()))
            .args(["check-mailmap", "--stdin"])
            .stdin(Stdio::piped())
            .stdout(Stdio::piped())
            .stderr(Stdio::piped());
        let mut child = cmd.spawn().ok()?;
        {
            let mut si = child.stdin.take()?;
            let _ = si.write_all(&input);
        }
        let out = child.wait_with_output().ok()?;
        if !out.status.success() {
            return None;
        }
        let mut lines: Vec<Vec<u8>> = out.stdout.split(|b| *b == b'\n').map(|l| l.to_vec()).collect();
        if lines.last().map_or(false, |l| l.is_empty()) {
            lines.pop();
        }
        if lines.len() != ids.len() {
            return None;
        }
        Some(lines)
    })();
    let _ = std::fs::remove_dir_all(&dir);
    res
}

fn git(c: &Case) -> String {
    if f_str(c, 0) != b"res" {
        return "-".into();
    }
    let ids = identities(c);
    match real_git(f_str(c, 1), &ids) {
        Some(lines) => lines.iter().map(|l| hexs(l)).collect::<Vec<_>>().join(" ; "),
        None => "-".into(),
    }
}

// ------------------------------------------------------------------------------------------- classes
// Syntactic features of the INPUT (never of the implementation's answer) under which gix-mailmap is
// known to differ from git.  See NOTES.md.

fn has_unicode_ws(s: &[u8]) -> bool {
    // VT, FF and the multi-byte White_Space code points bstr's trim() strips but isspace() does not
    if s.iter().any(|b| *b == 0x0b || *b == 0x0c) {
        return true;
    }
    for w in s.windows(2) {
        if w[0] == 0xc2 && (w[1] == 0x85 || w[1] == 0xa0) {
            return true;
        }
    }
    for w in s.windows(3) {
        let m = (w[0] == 0xe1 && w[1] == 0x9a && w[2] == 0x80)
            || (w[0] == 0xe2 && w[1] == 0x80 && ((0x80..=0x8a).contains(&w[2]) || w[2] == 0xa8 || w[2] == 0xa9 || w[2] == 0xaf))
            || (w[0] == 0xe2 && w[1] == 0x81 && w[2] == 0x9f)
            || (w[0] == 0xe3 && w[1] == 0x80 && w[2] == 0x80);
        if m {
            return true;
        }
    }
    false
}

fn edge_space(s: &[u8]) -> bool {
    s.first().map_or(false, |b| gitref::isspace(*b)) || s.last().map_or(false, |b| gitref::isspace(*b))
}

fn is_utf8(s: &[u8]) -> bool {
    std::str::from_utf8(s).is_ok()
}

fn input_class(mm: &[u8], name: &[u8], email: &[u8]) -> &'static str {
    if mm.contains(&0) {
        return "nul-byte";
    }
    let chunks = gitref::chunks(mm);
    if chunks.iter().any(|c| c.len() >= 1023) {
        return "line-over-1022-bytes";
    }
    let mut non_utf8_key = false;
    let mut case_variant = false;
    for ch in &chunks {
        if ch.first() == Some(&b'#') {
            continue;
        }
        if has_unicode_ws(ch) {
            return "unicode-whitespace";
        }
        let Some(l) = gitref::read_line(ch) else { continue };
        if edge_space(l.email1) || l.email2.map_or(false, edge_space) {
            return "email-edge-whitespace";
        }
        if l.email2 == Some(b"") {
            return "empty-second-email";
        }
        if l.tail.iter().any(|b| !gitref::isspace(*b)) {
            return "trailing-text";
        }
        let old_email = l.email2.unwrap_or(l.email1);
        if !is_utf8(old_email) || l.name2.map_or(false, |n| !is_utf8(n)) {
            non_utf8_key = true;
        }
        if gitref::caseeq(old_email, email) && old_email != email {
            case_variant = true;
        }
    }
    if !is_utf8(name) || !is_utf8(email) {
        return "non-utf8-identity";
    }
    if non_utf8_key {
        return "non-utf8-key-in-mailmap";
    }
    if case_variant {
        return "email-case-normalized";
    }
    "plain"
}

// ------------------------------------------------------------------------------------------- prop

fn case_hash(c: &Case) -> u64 {
    let mut h = 0xcbf29ce484222325u64;
    for f in c {
        for b in f {
            h = (h ^ *b as u64).wrapping_mul(0x100000001b3);
        }
        h = (h ^ 0xff).wrapping_mul(0x100000001b3);
    }
    h
}

fn prop(c: &Case) -> Verdict {
    let op = f_str(c, 0);
    if op != b"res" {
        return Verdict::ok(false, "ent");
    }
    let mm = f_str(c, 1);
    let ids = identities(c);
    if ids.is_empty() {
        return Verdict::ok(false, "no-identity");
    }
    let snap = gix_mailmap::Snapshot::from_bytes(mm);
    let map = gitref::read_mailmap(mm);
    // the reference port itself is checked against the real git on a quarter of the cases
    let real = if case_hash(c) % 8 == 0 { real_git(mm, &ids) } else { None };
    let mut mapped = false;
    let mut first_fail: Option<(String, String)> = None;
    let mut worst = "plain";
    for (i, (n, e)) in ids.iter().enumerate() {
        let (gn, ge) = gitref::map_user(&map, n, e);
        let want = gitref::show(&gn, &ge);
        if let Some(lines) = &real {
            if lines[i] != want {
                return Verdict::fail(
                    "oracle-port-differs-from-git",
                    format!("identity {} git {} port {}", i, hexs(&lines[i]), hexs(&want)),
                );
            }
        }
        let (_some, rn, re) = gix_resolve(&snap, n, e);
        let got = gitref::show(&rn, &re);
        if gn != *n || ge != *e {
            mapped = true;
        }
        let cls = input_class(mm, n, e);
        if cls != "plain" {
            worst = cls;
        }
        if got != want && first_fail.is_none() {
            first_fail = Some((
                cls.to_string(),
                format!("identity {} gix {} git {}", i, String::from_utf8_lossy(&got).escape_default(), String::from_utf8_lossy(&want).escape_default()),
            ));
        }
    }
    match first_fail {
        Some((cls, detail)) => Verdict::fail(if cls == "plain" { "resolve-differs-from-git".to_string() } else { cls }, detail),
        None => Verdict::ok(mapped, if worst == "plain" { "agree".to_string() } else { format!("agree-{worst}") }),
    }
}

// ------------------------------------------------------------------------------------------- gen

const NAMES: &[&[u8]] = &[b"A", b"a", b"B", b"Joe", b"joe", b"JOE", b"Joe R", b"J", b"Jane Doe", b"jane doe", b"x y", b"#h", b"\xc3\x84b", b"\xc3\xa4b"];
const EMAILS: &[&[u8]] = &[b"a@x", b"A@x", b"A@X", b"b@x", b"B@x", b"c@y", b"C@y", b"a", b"Z", b"z", b"ab@x", b"a@xy", b"\xc3\xa9@x"];
const WS: &[&[u8]] = &[b" ", b" ", b" ", b"\t", b"  ", b" \t "];

fn pick_name(r: &mut Rng) -> Vec<u8> {
    if r.chance(1, 8) {
        r.word(b"aAbB .-", 1, 5).trim_with(|c| c == ' ').to_vec()
    } else {
        r.pick(NAMES).to_vec()
    }
}
fn pick_email(r: &mut Rng) -> Vec<u8> {
    if r.chance(1, 8) {
        let mut v = r.word(b"aAbB@.", 1, 5);
        if v.is_empty() {
            v.push(b'a');
        }
        v
    } else {
        r.pick(EMAILS).to_vec()
    }
}
fn flip_case(r: &mut Rng, s: &[u8]) -> Vec<u8> {
    s.iter()
        .map(|b| if r.chance(1, 2) { if b.is_ascii_lowercase() { b.to_ascii_uppercase() } else { b.to_ascii_lowercase() } } else { *b })
        .collect()
}

/// one well-formed line (one of the four documented forms + name-and-email by name-and-email without
/// proper name), using the given pools of old emails / names so that entries collide
fn plain_line(r: &mut Rng, olds: &[Vec<u8>], onames: &[Vec<u8>], casey: bool) -> Vec<u8> {
    let mut l = Vec::new();
    let sp = |r: &mut Rng, l: &mut Vec<u8>, must: bool| {
        if must || r.chance(2, 3) {
            l.extend_from_slice(*r.pick(WS));
        }
    };
    let br = |l: &mut Vec<u8>, e: &[u8]| {
        l.push(b'<');
        l.extend_from_slice(e);
        l.push(b'>');
    };
    let old = r.pick(olds).clone();
    let old = if casey && r.chance(1, 3) { flip_case(r, &old) } else { old };
    if r.chance(1, 6) {
        sp(r, &mut l, true);
    }
    match r.below(5) {
        0 => {
            l.extend_from_slice(&pick_name(r));
            sp(r, &mut l, false);
            br(&mut l, &old);
        }
        1 => {
            br(&mut l, &pick_email(r));
            sp(r, &mut l, false);
            br(&mut l, &old);
        }
        2 => {
            l.extend_from_slice(&pick_name(r));
            sp(r, &mut l, false);
            br(&mut l, &pick_email(r));
            sp(r, &mut l, false);
            br(&mut l, &old);
        }
        3 => {
            l.extend_from_slice(&pick_name(r));
            sp(r, &mut l, false);
            br(&mut l, &pick_email(r));
            sp(r, &mut l, false);
            let on = r.pick(onames).clone();
            l.extend_from_slice(&if r.chance(1, 4) { flip_case(r, &on) } else { on });
            sp(r, &mut l, false);
            br(&mut l, &old);
        }
        _ => {
            br(&mut l, &pick_email(r));
            sp(r, &mut l, false);
            let on = r.pick(onames).clone();
            l.extend_from_slice(&if r.chance(1, 4) { flip_case(r, &on) } else { on });
            sp(r, &mut l, false);
            br(&mut l, &old);
        }
    }
    if r.chance(1, 5) {
        sp(r, &mut l, true);
    }
    l
}

fn noise_line(r: &mut Rng) -> Vec<u8> {
    match r.below(8) {
        0 => b"# comment <a@x>".to_vec(),
        1 => Vec::new(),
        2 => b"   \t".to_vec(),
        3 => b"just a name".to_vec(),
        4 => b"<a@x>".to_vec(),
        5 => b"Name <a@x".to_vec(),
        6 => b"#Joe <b@x>".to_vec(),
        _ => b" # Hash <a@x>".to_vec(),
    }
}

/// lines of the known-deviation stream
fn odd_line(r: &mut Rng, olds: &[Vec<u8>]) -> Vec<u8> {
    let old = r.pick(olds).clone();
    let mut l = Vec::new();
    match r.below(14) {
        0 => { l.extend_from_slice(b"Joe < "); l.extend_from_slice(&old); l.extend_from_slice(b" >"); }
        1 => { l.extend_from_slice(b"Joe <"); l.extend_from_slice(&old); l.extend_from_slice(b"> trailing"); }
        2 => { l.extend_from_slice(b"Joe <n@x> <"); l.extend_from_slice(&old); l.extend_from_slice(b"> more <z@z>"); }
        3 => { l.extend_from_slice(b"Joe <"); l.extend_from_slice(&old); l.extend_from_slice(b"> <>"); }
        4 => { l.extend_from_slice(b"\x0bJoe\x0c <"); l.extend_from_slice(&old); l.extend_from_slice(b">"); }
        5 => { l.extend_from_slice(b"Joe\xc2\xa0<"); l.extend_from_slice(&old); l.extend_from_slice(b">"); }
        6 => { l.extend_from_slice(b"\xe2\x80\x83Joe <"); l.extend_from_slice(&old); l.extend_from_slice(b">\xe3\x80\x80"); }
        7 => { l.extend_from_slice(b"Joe <"); l.extend_from_slice(&old); l.extend_from_slice(b"\xff>"); }
        8 => { l.extend_from_slice(b"Joe <n@x> N\xfe <"); l.extend_from_slice(&old); l.extend_from_slice(b">"); }
        9 => { l.extend_from_slice(b"Jo\x00e <"); l.extend_from_slice(&old); l.extend_from_slice(b">"); }
        10 => { l.extend_from_slice(b"Joe <"); l.extend_from_slice(&old); l.extend_from_slice(b"> Foo <c"); }
        11 => { l.extend_from_slice(b"Joe <"); l.extend_from_slice(&old); l.extend_from_slice(b"\r>"); }
        12 => { l.extend_from_slice(b"<"); l.extend_from_slice(&r.bytes(3)); l.extend_from_slice(b"> <"); l.extend_from_slice(&old); l.extend_from_slice(b">"); }
        _ => {
            let n = *r.pick(&[1015usize, 1021, 1022, 1023, 1024, 1030, 2050]);
            l.extend_from_slice(b"Joe <"); l.extend_from_slice(&old); l.extend_from_slice(b">");
            while l.len() < n { l.push(b' '); }
            if r.chance(1, 2) { let k = l.len(); l[k - 12..].copy_from_slice(b" K <k@k> <Z>"); }
        }
    }
    l
}

fn join_lines(r: &mut Rng, lines: Vec<Vec<u8>>) -> Vec<u8> {
    let crlf = r.chance(1, 5);
    let mut out = Vec::new();
    let n = lines.len();
    for (i, l) in lines.into_iter().enumerate() {
        out.extend_from_slice(&l);
        if i + 1 < n || r.chance(4, 5) {
            if crlf || r.chance(1, 12) {
                out.push(b'\r');
            }
            out.push(b'\n');
        }
    }
    out
}

fn gen_case(r: &mut Rng, odd: bool, casey: bool) -> Case {
    // pools: few old emails / names so that entries collide and override each other
    let ne = r.range(1, 4) as usize;
    let mut olds: Vec<Vec<u8>> = Vec::new();
    for _ in 0..ne {
        let e = pick_email(r);
        // without `casey` no two old emails differ in case only
        if casey || !olds.iter().any(|o| gitref::caseeq(o, &e)) {
            olds.push(e);
        }
    }
    let nn = r.range(1, 3) as usize;
    let onames: Vec<Vec<u8>> = (0..nn).map(|_| pick_name(r)).collect();
    if odd && r.chance(1, 3) {
        // keys of mixed encodings in one sorted vector
        olds.push(b"Z\xff".to_vec());
        olds.push(b"B".to_vec());
        olds.push(b"a".to_vec());
    }
    let nl = if r.chance(1, 10) { r.range(8, 30) } else { r.range(1, 8) } as usize;
    let mut lines = Vec::new();
    for _ in 0..nl {
        let k = r.below(100);
        if odd && k < 25 {
            lines.push(odd_line(r, &olds));
        } else if k < 35 {
            lines.push(noise_line(r));
        } else {
            lines.push(plain_line(r, &olds, &onames, casey));
        }
    }
    let mm = join_lines(r, lines);
    if r.chance(1, 8) {
        return vec![tag("ent"), mm];
    }
    let mut c = vec![tag("res"), mm];
    let nid = r.range(1, 4);
    for _ in 0..nid {
        let mut e = if r.chance(5, 6) { r.pick(&olds).clone() } else { pick_email(r) };
        if casey && r.chance(1, 2) {
            e = flip_case(r, &e);
        }
        let mut n = if r.chance(2, 3) { r.pick(&onames).clone() } else { pick_name(r) };
        if r.chance(1, 3) {
            n = flip_case(r, &n);
        }
        if odd && r.chance(1, 20) {
            n = b"N\xfe".to_vec();
        }
        if r.chance(1, 40) {
            n = Vec::new();
        }
        c.push(n);
        c.push(e);
    }
    c
}

fn gen(r: &mut Rng, n: usize) -> Vec<Case> {
    let mut out: Vec<Case> = Vec::new();
    // boundary block
    let b = |mm: &[u8], n: &[u8], e: &[u8]| vec![tag("res"), mm.to_vec(), n.to_vec(), e.to_vec()];
    out.push(b(b"", b"A", b"a@x"));
    out.push(b(b"Joe <a@x>", b"A", b"a@x"));
    out.push(b(b"Joe <a@x>\n", b"", b"a@x"));
    out.push(b(b"<n@x> <a@x>\n", b"A", b"a@x"));
    out.push(b(b"Joe <n@x> <a@x>\n", b"A", b"a@x"));
    out.push(b(b"Joe <n@x> A <a@x>\n", b"a", b"a@x"));
    out.push(b(b"<n@x> A <a@x>\r\n", b"A", b"a@x"));
    out.push(b(b"<n@x> A <a@x>\n", b"B", b"a@x"));
    out.push(b(b"Joe <a@x>\nJim <a@x>\n", b"A", b"a@x"));
    out.push(b(b"Joe <n@x> A <a@x>\nJim <m@x> a <A@X>\n", b"A", b"a@x"));
    // vectors of 1..9 emails: every binary-search position
    for k in 1..10usize {
        let mut mm = Vec::new();
        for i in 0..k {
            mm.extend_from_slice(format!("N{i} <e{}@x>\n", (i * 7) % 10).as_bytes());
        }
        for i in 0..10 {
            if out.len() < n {
                out.push(b(&mm, b"Q", format!("e{i}@x").as_bytes()));
            }
        }
    }
    while out.len() < n {
        let k = r.below(100);
        out.push(gen_case(r, k < 22, (30..45).contains(&k) || k < 6));
    }
    out.truncate(n);
    out
}

fn main() {
    main_with(Harness { gen, imp, prop, git: Some(git), deadline: std::time::Duration::from_secs(180) });
}
