(* C53 — the snapshot (two levels of sorted vectors) refines git's mailmap (two levels of
   case-insensitive association lists), entry by entry, and lookups agree. *)
From Coq Require Import Arith Lia List.
From GixV.Base Require Import Bytes BytesFacts Outcome.
From GixV.C53 Require Import Model Spec ProofsSearch ProofsVec.
Import ListNotations.

Lemma g_caseeq_keqb a b : g_caseeq a b = keqb a b.
Proof. reflexivity. Qed.

(* ---- git side: get after put *)
Lemma g_names_get_put k v l t :
  g_names_get t (g_names_put k v l) = if keqb k t then Some v else g_names_get t l.
Proof.
  induction l as [|[k' v'] r IH]; cbn [g_names_put g_names_get].
  - change g_caseeq with keqb. reflexivity.
  - change g_caseeq with keqb. destruct (keqb k' k) eqn:E; cbn [g_names_get]; change g_caseeq with keqb.
    + apply keqb_true in E. rewrite (keqb_congr _ _ t E). destruct (keqb k t); reflexivity.
    + rewrite IH. destruct (keqb k t) eqn:E2; [|reflexivity].
      destruct (keqb k' t) eqn:E3; [|reflexivity].
      apply keqb_true in E2. apply keqb_true in E3.
      assert (keqb k' k = true) by (apply keqb_true; congruence). congruence.
Qed.

Definition g_fresh (k : bytes) : g_ment := mkMent k (mkInfo None None) [].

Lemma gm_key_apply me a b c : gm_key (g_apply me a b c) = gm_key me.
Proof. destruct c; reflexivity. Qed.

Lemma g_map_get_put k nn ne on m t :
  g_map_get t (g_map_put k nn ne on m) =
  if keqb k t
  then Some (g_apply (match g_map_get k m with Some me => me | None => g_fresh k end) nn ne on)
  else g_map_get t m.
Proof.
  induction m as [|me r IH]; cbn [g_map_put g_map_get].
  - rewrite gm_key_apply; change g_caseeq with keqb. reflexivity.
  - change g_caseeq with keqb. destruct (keqb (gm_key me) k) eqn:E; cbn [g_map_get];
      rewrite ?gm_key_apply; change g_caseeq with keqb.
    + apply keqb_true in E. rewrite (keqb_congr _ _ t E). destruct (keqb k t); reflexivity.
    + rewrite IH. destruct (keqb k t) eqn:E2; [|reflexivity].
      destruct (keqb (gm_key me) t) eqn:E3; [|reflexivity].
      apply keqb_true in E2. apply keqb_true in E3.
      assert (keqb (gm_key me) k = true) by (apply keqb_true; congruence). congruence.
Qed.

(* ---- the refinement relation *)
Definition orel {A B} (R : A -> B -> Prop) (a : option A) (b : option B) : Prop :=
  match a, b with
  | Some x, Some y => R x y
  | None, None => True
  | _, _ => False
  end.

Definition ne_rel (n : name_entry) (i : g_info) : Prop :=
  ne_new_name n = gi_name i /\ ne_new_email n = gi_email i.
Definition names_rel (ns : list name_entry) (gl : list (bytes * g_info)) : Prop :=
  sorted ne_old_name ns /\ all_utf8 ne_old_name ns
  /\ forall t, orel ne_rel (vfind ne_old_name ns t) (g_names_get t gl).
Definition ee_rel (e : email_entry) (me : g_ment) : Prop :=
  ee_new_name e = gi_name (gm_info me) /\ ee_new_email e = gi_email (gm_info me)
  /\ names_rel (ee_names e) (gm_names me).
Definition snap_rel (s : snapshot) (m : g_map) : Prop :=
  sorted ee_old_email s /\ all_utf8 ee_old_email s
  /\ forall t, orel ee_rel (vfind ee_old_email s t) (g_map_get t m).

Definition en_ok (en : entry) : Prop :=
  well_formed en = true /\ is_utf8 (old_email en) = true
  /\ match old_name en with Some n => is_utf8 n = true | None => True end.

(* what git does with the entry: add_mapping(new_name, new_email, old_name, old_email) *)
Definition g_put_entry (m : g_map) (en : entry) : g_map :=
  g_map_put (old_email en) (new_name en) (new_email en) (old_name en) m.

Lemma opt_id {A} (o : option A) (d : option A) :
  match o with Some n => Some n | None => None end = o.
Proof. destruct o; reflexivity. Qed.

Lemma ee_merge_key e en : ee_old_email (ee_merge e en) = ee_old_email e.
Proof. unfold ee_merge. destruct (old_name en); reflexivity. Qed.
Lemma ee_from_key en : ee_old_email (ee_from en) = old_email en.
Proof. unfold ee_from. destruct (old_name en); reflexivity. Qed.

Lemma ee_merge_rel e me en :
  ee_rel e me -> match old_name en with Some n => is_utf8 n = true | None => True end ->
  ee_rel (ee_merge e en) (g_apply me (new_name en) (new_email en) (old_name en)).
Proof.
  intros (H1 & H2 & H3 & H4 & H5) Hu. unfold ee_merge, g_apply.
  destruct (old_name en) as [on|].
  - split; [exact H1|]. split; [exact H2|]. cbn [ee_names gm_names].
    pose proof (upsert_spec ne_old_name (ee_names e) on
                  (fun x => mkNE (new_name en) (new_email en) (ne_old_name x))
                  (mkNE (new_name en) (new_email en) on) H3 H4 Hu
                  (fun x => eq_refl) eq_refl) as (S1 & S2 & S3 & _).
    unfold upsert in S1, S2, S3. split; [exact S1|]. split; [exact S2|].
    intros t. rewrite S3, g_names_get_put. destruct (keqb on t).
    + destruct (vfind ne_old_name (ee_names e) on); split; reflexivity.
    + apply H5.
  - cbn [ee_new_name ee_new_email ee_names gm_info gm_names gi_name gi_email].
    split; [rewrite H1; reflexivity|]. split; [rewrite H2; reflexivity|]. split; [exact H3|]. split; [exact H4|exact H5].
Qed.

Lemma ee_from_rel en :
  match old_name en with Some n => is_utf8 n = true | None => True end ->
  ee_rel (ee_from en) (g_apply (g_fresh (old_email en)) (new_name en) (new_email en) (old_name en)).
Proof.
  intros Hu. unfold ee_from, g_apply, g_fresh. destruct (old_name en) as [on|].
  - cbn [gm_info gm_names gm_key g_names_put]. split; [reflexivity|]. split; [reflexivity|].
    cbn [ee_names]. split; [|split].
    + unfold sorted. cbn [map ksorted]. split; constructor.
    + unfold all_utf8. cbn [map]. constructor; [exact Hu|constructor].
    + intros t. unfold vfind. cbn [find g_names_get gm_names ne_old_name]. change g_caseeq with keqb.
      destruct (keqb on t); hnf; [split; reflexivity|exact I].
  - cbn [gm_info gm_names gm_key ee_new_name ee_new_email ee_names gi_name gi_email].
    split; [destruct (new_name en); reflexivity|]. split; [destruct (new_email en); reflexivity|].
    split; [exact I|]. split; [constructor|]. intros t. exact I.
Qed.

Lemma merge1_upsert s en : well_formed en = true ->
  merge1 s en = Ok (upsert ee_old_email s (old_email en) (fun e => ee_merge e en) (ee_from en)).
Proof.
  intros H. unfold merge1, upsert. rewrite H. cbn [negb].
  destruct (vsearch ee_old_email s (old_email en)); reflexivity.
Qed.

Lemma merge1_rel s m en : snap_rel s m -> en_ok en ->
  exists s', merge1 s en = Ok s' /\ snap_rel s' (g_put_entry m en)
    /\ forall e, In e s' -> In (ee_old_email e) (map ee_old_email s) \/ ee_old_email e = old_email en.
Proof.
  intros (H1 & H2 & H3) (W & U1 & U2).
  eexists. split; [apply merge1_upsert; exact W|].
  pose proof (upsert_spec ee_old_email s (old_email en) (fun e => ee_merge e en) (ee_from en)
                H1 H2 U1 (fun x => ee_merge_key x en) (ee_from_key en)) as (S1 & S2 & S3 & S4).
  split; [|exact S4]. split; [exact S1|]. split; [exact S2|].
  intros t. rewrite S3. unfold g_put_entry. rewrite g_map_get_put.
  destruct (keqb (old_email en) t); [|apply H3].
  specialize (H3 (old_email en)).
  destruct (vfind ee_old_email s (old_email en)) as [x|], (g_map_get (old_email en) m) as [me|];
    cbn [orel] in *; try contradiction.
  - apply ee_merge_rel; assumption.
  - apply ee_from_rel; assumption.
Qed.

Lemma merge_rel : forall ens s m, snap_rel s m -> Forall en_ok ens ->
  exists s', merge s ens = Ok s' /\ snap_rel s' (fold_left g_put_entry ens m)
    /\ forall e, In e s' -> In (ee_old_email e) (map ee_old_email s ++ map old_email ens).
Proof.
  induction ens as [|en r IH]; intros s m Hr Hok.
  - exists s. split; [reflexivity|]. split; [exact Hr|]. intros e He. rewrite app_nil_r. apply in_map. exact He.
  - inversion Hok; subst. destruct (merge1_rel s m en Hr H1) as (s1 & E1 & R1 & P1).
    destruct (IH s1 (g_put_entry m en) R1 H2) as (s' & E2 & R2 & P2).
    exists s'. cbn [merge fold_left]. rewrite E1. split; [exact E2|]. split; [exact R2|].
    intros e He. specialize (P2 e He). apply in_app_or in P2. apply in_or_app.
    destruct P2 as [P2|P2].
    + apply in_map_iff in P2. destruct P2 as (e1 & K & I1). destruct (P1 e1 I1) as [P|P].
      * left. rewrite <- K. exact P.
      * right. left. congruence.
    + right. right. exact P2.
Qed.

Lemma snap_rel_nil : snap_rel [] [].
Proof. split; [exact I|]. split; [constructor|]. intros t. exact I. Qed.

(* ---- lookups *)
Definition finish (name email : bytes) (r : option (option bytes * option bytes)) : bytes * bytes :=
  match option_map (enrich name email) r with Some x => x | None => (name, email) end.

Lemma resolve_finish s name email :
  resolve s name email = finish name email (try_resolve_ref s name email).
Proof. reflexivity. Qed.

Lemma finish_try_new name email matched (ne nn : option bytes) (gi : g_info) :
  ne = gi_email gi -> nn = gi_name gi -> keqb matched email = true ->
  let r := finish name email (try_new ne matched email nn) in
  let g := (match gi_name gi with Some n => n | None => name end,
            match gi_email gi with Some e => e | None => email end) in
  fst r = fst g /\ (snd r = snd g \/ (snd g = email /\ fk (snd r) = fk email /\ snd r = matched)).
Proof.
  intros -> -> Hk. unfold finish, try_new. apply keqb_true in Hk.
  destruct (gi_email gi) as [e'|], (gi_name gi) as [n'|]; cbn [option_map enrich fst snd];
    try (split; [reflexivity|left; reflexivity]).
  - destruct (bytes_eqb matched email) eqn:E; cbn [option_map enrich fst snd].
    + split; [reflexivity|left; reflexivity].
    + split; [reflexivity|right; repeat split; assumption].
  - destruct (bytes_eqb matched email) eqn:E; cbn [option_map enrich fst snd].
    + split; [reflexivity|left; reflexivity].
    + split; [reflexivity|right; repeat split; assumption].
Qed.

Lemma resolve_rel s m name email :
  snap_rel s m -> is_utf8 name = true -> is_utf8 email = true ->
  let r := resolve s name email in
  let g := g_map_user m name email in
  fst r = fst g
  /\ (snd r = snd g
      \/ (snd g = email /\ fk (snd r) = fk email /\ exists e, In e s /\ snd r = ee_old_email e)).
Proof.
  intros (H1 & H2 & H3) Un Ue. rewrite resolve_finish. unfold try_resolve_ref, g_map_user.
  pose proof (vsearch_find ee_old_email s email H1 H2 Ue) as Hv. specialize (H3 email).
  destruct (vsearch ee_old_email s email) as [pos|pos].
  - destruct Hv as (e & Hn & Hf). rewrite Hn. rewrite Hf in H3.
    destruct (g_map_get email m) as [me|]; cbn [orel] in H3; [|contradiction].
    destruct H3 as (R1 & R2 & R3 & R4 & R5).
    assert (Hk : keqb (ee_old_email e) email = true).
    { unfold vfind in Hf. apply find_some in Hf. apply Hf. }
    assert (He : In e s) by (eapply nth_error_In; exact Hn).
    pose proof (vsearch_find ne_old_name (ee_names e) name R3 R4 Un) as Hv2. specialize (R5 name).
    destruct (vsearch ne_old_name (ee_names e) name) as [p2|p2].
    + destruct Hv2 as (n & Hn2 & Hf2). rewrite Hn2. rewrite Hf2 in R5.
      destruct (g_names_get name (gm_names me)) as [i|]; cbn [orel] in R5; [|contradiction].
      destruct R5 as (Q1 & Q2).
      destruct (finish_try_new name email (ee_old_email e) _ _ i Q2 Q1 Hk) as (F1 & F2).
      split; [exact F1|]. destruct F2 as [F2|(F2 & F3 & F4)]; [left; exact F2|].
      right. split; [exact F2|]. split; [exact F3|]. exists e. split; assumption.
    + rewrite Hv2 in R5. destruct (g_names_get name (gm_names me)) as [i|]; cbn [orel] in R5; [contradiction|].
      destruct (finish_try_new name email (ee_old_email e) _ _ (gm_info me) R2 R1 Hk) as (F1 & F2).
      split; [exact F1|]. destruct F2 as [F2|(F2 & F3 & F4)]; [left; exact F2|].
      right. split; [exact F2|]. split; [exact F3|]. exists e. split; assumption.
  - rewrite Hv in H3. destruct (g_map_get email m); cbn [orel] in H3; [contradiction|].
    cbn [finish option_map fst snd]. split; [reflexivity|left; reflexivity].
Qed.
