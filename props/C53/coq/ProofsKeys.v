(* C53 — entries parsed from plain lines have plain (hence valid UTF-8) lookup keys. *)
From Coq Require Import Arith Lia List.
From GixV.Base Require Import Bytes BytesFacts Outcome.
From GixV.C53 Require Import Model Spec ProofsVec ProofsMap ProofsTop ProofsParse ProofsFile ProofsFgets.
Import ListNotations.

(* the lookup keys of the parsed entries are valid UTF-8 (classes non-utf8-key-in-mailmap) *)
Definition key_utf8 (en : entry) : bool :=
  is_utf8 (old_email en) && match old_name en with Some n => is_utf8 n | None => true end.
Definition keys_utf8 (text : bytes) : bool := forallb key_utf8 (parse_ignore_errors text).

Lemma keys_utf8_en_ok text : keys_utf8 text = true -> Forall en_ok (parse_ignore_errors text).
Proof.
  unfold keys_utf8. rewrite forallb_forall. intros H.
  pose proof (parse_ignore_errors_wf text) as W. rewrite Forall_forall in *.
  intros en Hen. specialize (H en Hen). specialize (W en Hen).
  unfold key_utf8 in H. apply andb_prop in H. destruct H as [H1 H2].
  split; [exact W|]. split; [exact H1|]. destruct (old_name en); [exact H2|exact I].
Qed.

(* the parser-level known classes as one boolean on the text: every LF-terminated piece is at most
   1022 bytes (line-over-1022-bytes), plain (nul-byte, unicode-whitespace: no NUL, VT, FF, C2, E1, E2, E3) and its trimmed line has
   none of trailing-text / email-edge-whitespace / empty-second-email *)
Definition text_clean (text : bytes) : bool :=
  forallb (fun c => Nat.leb (length c) 1022 && all_plain c
                    && negb (line_known (g_trim (trim_last_terminator c))))
          (lines_wt text).

Lemma text_clean_spec text : text_clean text = true ->
  forall c, In c (lines_wt text) -> (length c <= 1022)%nat /\ line_ok c.
Proof.
  unfold text_clean. rewrite forallb_forall. intros H c Hc. specialize (H c Hc).
  apply andb_prop in H. destruct H as [H H3]. apply andb_prop in H. destruct H as [H1 H2].
  split; [apply Nat.leb_le, H1|]. split; [exact H2|]. apply negb_true_iff, H3.
Qed.

Lemma resolve_text_clean text name email :
  text_clean text = true -> keys_utf8 text = true ->
  is_utf8 name = true -> is_utf8 email = true ->
  email_case_exact (parse_ignore_errors text) email ->
  exists s, from_bytes text = Ok s /\ resolve s name email = g_check_mailmap text name email.
Proof.
  intros Hc Hku Un Ue Hx. pose proof (text_clean_spec text Hc) as H.
  apply resolve_text; try assumption; [| |apply keys_utf8_en_ok, Hku].
  - apply fgets_chunks_lines, Forall_forall. intros c Hi. apply (H c Hi).
  - intros c Hi. apply (H c Hi).
Qed.
