(* C53 — entries parsed from plain lines have plain (hence valid UTF-8) lookup keys. *)
From Coq Require Import Arith Lia List.
From GixV.Base Require Import Bytes BytesFacts Outcome.
From GixV.C53 Require Import Model Spec ProofsVec ProofsMap ProofsTop ProofsParse ProofsFile ProofsFgets.
Import ListNotations.

Lemma all_plain_utf8 : forall s, all_plain s = true -> is_utf8 s = true.
Proof.
  induction s as [|a r IH]; [reflexivity|]. cbn [all_plain forallb]. intros H.
  apply andb_prop in H. destruct H as [Ha Hr]. cbn [is_utf8].
  assert (N.ltb (b2N a) 128 = true) as ->.
  { unfold plain in Ha. destruct (N.ltb (b2N a) 128); [reflexivity|discriminate]. }
  apply IH, Hr.
Qed.

Lemma nonempty_opt_some y x : nonempty_opt y = Some x -> x = y.
Proof. destruct y; cbn [nonempty_opt is_empty]; [discriminate|]. intros H. injection H as <-. reflexivity. Qed.

Lemma pne_plain s n e rest : all_plain s = true -> pne_shape s = Ok (n, e, rest) ->
  (forall x, n = Some x -> all_plain x = true) /\ (forall x, e = Some x -> all_plain x = true)
  /\ all_plain rest = true.
Proof.
  intros Hp. unfold pne_shape. destruct (g_find 60 s) as [sb|].
  - cbv zeta. destruct (g_find 62 (skipn (S sb) s)) as [cb|]; [|discriminate].
    destruct (is_empty (g_trim (firstn cb (skipn (S sb) s)))); [discriminate|].
    intros H. injection H as <- <- <-. split; [|split].
    + intros x Hx. apply nonempty_opt_some in Hx. subst x. exact (all_plain_g_trim _ (all_plain_firstn sb s Hp)).
    + intros x Hx. injection Hx as <-. exact (all_plain_g_trim _ (all_plain_firstn cb _ (all_plain_skipn (S sb) s Hp))).
    + exact (all_plain_skipn (S cb) _ (all_plain_skipn (S sb) s Hp)).
  - intros H. injection H as <- <- <-. split; [|split]; [discriminate|discriminate|exact Hp].
Qed.

Lemma parse_line_keys t en : all_plain t = true -> parse_line t = Ok en ->
  all_plain (old_email en) = true /\ (forall n, old_name en = Some n -> all_plain n = true).
Proof.
  intros Hp. unfold parse_line. rewrite (pne_eq t Hp).
  destruct (pne_shape t) as [[[n1 e1] rest]|e| |] eqn:E1; try discriminate.
  destruct (pne_plain t n1 e1 rest Hp E1) as (A1 & A2 & A3).
  rewrite (pne_eq rest A3).
  destruct (pne_shape rest) as [[[n2 e2] rest2]|e| |] eqn:E2; try discriminate.
  destruct (pne_plain rest n2 e2 rest2 A3 E2) as (B1 & B2 & _).
  destruct (negb (is_empty (trim rest2))); try discriminate.
  destruct n1, e1, n2, e2; intros H; try discriminate; inversion H; subst; cbn [old_email old_name];
    (split; [auto|intros n Hn; try discriminate; injection Hn as <-; auto]).
Qed.

Lemma parsed_keys_ok : forall cs, (forall c, In c cs -> all_plain c = true) ->
  Forall en_ok (oks (filter_some (map parse_raw_line (map trim_last_terminator cs)))).
Proof.
  induction cs as [|c cs IH]; intros H; [constructor|].
  assert (IH' := IH (fun c0 Hc => H c0 (or_intror Hc))).
  cbn [map filter_some]. destruct (parse_raw_line (trim_last_terminator c)) as [[en|e| |]|] eqn:E;
    cbn [filter_some oks]; try exact IH'.
  constructor; [|exact IH'].
  destruct (tlt_split c) as (w & _ & Ec).
  assert (Hpl : all_plain (trim_last_terminator c) = true).
  { pose proof (H c (or_introl eq_refl)) as Hp. rewrite Ec, all_plain_app in Hp. apply andb_prop in Hp. apply Hp. }
  unfold parse_raw_line in E. destruct (trim_last_terminator c) as [|b r]; [discriminate|].
  destruct (isb b 35); [discriminate|].
  destruct (is_empty (trim (b :: r))); [discriminate|]. injection E as E.
  rewrite (trim_plain _ Hpl) in E.
  destruct (parse_line_keys _ en (all_plain_g_trim _ Hpl) E) as [K1 K2].
  split; [eapply parse_line_wf; exact E|]. split; [apply all_plain_utf8, K1|].
  destruct (old_name en) as [n|]; [apply all_plain_utf8, K2; reflexivity|exact I].
Qed.

Lemma parse_ignore_errors_en_ok text :
  (forall c, In c (lines_wt text) -> all_plain c = true) -> Forall en_ok (parse_ignore_errors text).
Proof. intros H. exact (parsed_keys_ok (lines_wt text) H). Qed.

(* the text-level theorem with the UTF-8 premise on the entries discharged *)
Lemma resolve_text' text name email :
  fgets_chunks text = lines_wt text ->
  (forall c, In c (lines_wt text) -> line_ok c) ->
  is_utf8 name = true -> is_utf8 email = true ->
  email_case_exact (parse_ignore_errors text) email ->
  exists s, from_bytes text = Ok s /\ resolve s name email = g_check_mailmap text name email.
Proof.
  intros Hf Hl Un Ue Hx. apply resolve_text; try assumption.
  apply parse_ignore_errors_en_ok. intros c Hc. apply (proj1 (Hl c Hc)).
Qed.

(* the parser-level known classes as one boolean on the text: every LF-terminated piece is at most
   1022 bytes (line-over-1022-bytes), plain (nul-byte, unicode-whitespace) and its trimmed line has
   none of trailing-text / email-edge-whitespace / empty-second-email *)
Definition text_clean (text : bytes) : bool :=
  forallb (fun c => Nat.leb (length c) 1022 && all_plain c
                    && negb (line_known (g_trim (trim_last_terminator c))))
          (lines_wt text).

Lemma text_clean_spec text : text_clean text = true ->
  forall c, In c (lines_wt text) -> (length c <= 1022)%nat /\ line_ok c.
Proof.
  unfold text_clean. rewrite forallb_forall. intros H c Hc. specialize (H c Hc).
  apply andb_prop in H. destruct H as [H H3]. apply andb_prop in H. destruct H as [H1 H2].
  split; [apply Nat.leb_le, H1|]. split; [exact H2|]. apply negb_true_iff, H3.
Qed.

Lemma resolve_text_clean text name email :
  text_clean text = true ->
  is_utf8 name = true -> is_utf8 email = true ->
  email_case_exact (parse_ignore_errors text) email ->
  exists s, from_bytes text = Ok s /\ resolve s name email = g_check_mailmap text name email.
Proof.
  intros Hc Un Ue Hx. pose proof (text_clean_spec text Hc) as H.
  apply resolve_text'; try assumption.
  - apply fgets_chunks_lines, Forall_forall. intros c Hi. apply (H c Hi).
  - intros c Hi. apply (H c Hi).
Qed.
