(* C53 — sorted vectors searched with binary_search_by and EncodedString::cmp_ref:
   when every key is valid UTF-8 the order is the byte order of the ASCII-case-folded keys, the
   vector stays strictly sorted under insert-or-update, and the binary search is a lookup by
   case-insensitive equality. *)
From Coq Require Import Arith Lia List.
From GixV.Base Require Import Bytes BytesFacts Outcome.
From GixV.C53 Require Import Model ProofsSearch.
Import ListNotations.

Lemma bytes_cmp_lt_trans a : forall b c,
  bytes_cmp a b = Lt -> bytes_cmp b c = Lt -> bytes_cmp a c = Lt.
Proof.
  induction a as [|x a IH]; intros [|y b] [|z c]; cbn [bytes_cmp]; try congruence.
  destruct (N.compare (b2N x) (b2N y)) eqn:E1; destruct (N.compare (b2N y) (b2N z)) eqn:E2;
    try congruence; intros H1 H2.
  - apply N.compare_eq_iff in E1. apply N.compare_eq_iff in E2. rewrite E1, E2, N.compare_refl.
    eapply IH; eassumption.
  - apply N.compare_eq_iff in E1. rewrite E1, E2. reflexivity.
  - apply N.compare_eq_iff in E2. rewrite <- E2, E1. reflexivity.
  - assert (N.compare (b2N x) (b2N z) = Lt) as ->; [|reflexivity].
    apply N.compare_lt_iff. apply N.compare_lt_iff in E1. apply N.compare_lt_iff in E2. eapply N.lt_trans; eassumption.
Qed.

Notation fk := fold_case.
Definition klt (a b : bytes) : Prop := bytes_cmp (fk a) (fk b) = Lt.
Definition keqb (a b : bytes) : bool := bytes_eqb (fk a) (fk b).

Lemma keqb_true a b : keqb a b = true <-> fk a = fk b.
Proof. unfold keqb. apply bytes_eqb_eq. Qed.
Lemma keqb_refl a : keqb a a = true.
Proof. apply keqb_true. reflexivity. Qed.
Lemma keqb_sym a b : keqb a b = keqb b a.
Proof.
  destruct (keqb a b) eqn:E1, (keqb b a) eqn:E2; try reflexivity.
  - apply keqb_true in E1. symmetry in E1. apply keqb_true in E1. congruence.
  - apply keqb_true in E2. symmetry in E2. apply keqb_true in E2. congruence.
Qed.
Lemma keqb_congr a b c : fk a = fk b -> keqb a c = keqb b c.
Proof. unfold keqb. intros ->. reflexivity. Qed.

Lemma klt_not_eq a b : klt a b -> keqb a b = false.
Proof.
  unfold klt. intros H. destruct (keqb a b) eqn:E; [|reflexivity].
  apply keqb_true in E. rewrite E, bytes_cmp_refl in H. discriminate.
Qed.
Lemma klt_not_eq' a b : klt a b -> keqb b a = false.
Proof. intros H. rewrite keqb_sym. apply klt_not_eq. exact H. Qed.
Lemma klt_trans a b c : klt a b -> klt b c -> klt a c.
Proof. unfold klt. apply bytes_cmp_lt_trans. Qed.

Lemma enc_cmp_utf8 a b : is_utf8 a = true -> is_utf8 b = true ->
  enc_cmp a b = bytes_cmp (fk a) (fk b).
Proof. intros Ha Hb. unfold enc_cmp. rewrite Ha, Hb. reflexivity. Qed.

Lemma find_app {A} (P : A -> bool) (a b : list A) :
  find P (a ++ b) = match find P a with Some x => Some x | None => find P b end.
Proof. induction a as [|x a IH]; cbn [app find]; [reflexivity|]. destruct (P x); [reflexivity|exact IH]. Qed.

(* strictly ascending key lists *)
Fixpoint ksorted (ks : list bytes) : Prop :=
  match ks with
  | [] => True
  | x :: r => Forall (klt x) r /\ ksorted r
  end.

Lemma ksorted_app a : forall b,
  ksorted (a ++ b) <-> ksorted a /\ ksorted b /\ Forall (fun x => Forall (klt x) b) a.
Proof.
  induction a as [|x a IH]; intros b; cbn [app ksorted].
  - split; [intros H; repeat split; [exact H|constructor] | intros (_ & H & _); exact H].
  - rewrite Forall_app, IH. split.
    + intros ((H1 & H2) & H3 & H4 & H5). repeat split; try assumption. constructor; assumption.
    + intros ((H1 & H2) & H3 & H4). inversion H4; subst. repeat split; assumption.
Qed.

Section Vec.
  Context {V : Type} (key : V -> bytes).

  Definition sorted (l : list V) : Prop := ksorted (map key l).
  Definition all_utf8 (l : list V) : Prop := Forall (fun k => is_utf8 k = true) (map key l).
  Definition vfind (l : list V) (t : bytes) : option V := find (fun e => keqb (key e) t) l.

  Lemma find_none_lt L t : Forall (fun k => klt k t) (map key L) -> vfind L t = None.
  Proof.
    unfold vfind. induction L as [|x L IH]; cbn [map find]; intros H; [reflexivity|].
    inversion H; subst. rewrite (klt_not_eq _ _ H2). apply IH. assumption.
  Qed.
  Lemma find_none_gt G t : Forall (klt t) (map key G) -> vfind G t = None.
  Proof.
    unfold vfind. induction G as [|x G IH]; cbn [map find]; intros H; [reflexivity|].
    inversion H; subst. rewrite (klt_not_eq' _ _ H2). apply IH. assumption.
  Qed.

  (* a sorted vector splits around any target *)
  Lemma split3 t : forall l, sorted l ->
    exists L M G, l = L ++ M ++ G
      /\ Forall (fun k => klt k t) (map key L) /\ Forall (klt t) (map key G)
      /\ (M = [] \/ exists e, M = [e] /\ fk (key e) = fk t).
  Proof.
    induction l as [|x r IH]; intros Hs.
    - exists [], [], []. split; [reflexivity|]. split; [constructor|]. split; [constructor|]. left; reflexivity.
    - unfold sorted in Hs. cbn [map ksorted] in Hs. destruct Hs as [Hx Hr].
      destruct (bytes_cmp (fk (key x)) (fk t)) eqn:E.
      + apply bytes_cmp_eq_iff in E. exists [], [x], r.
        split; [reflexivity|]. split; [|split].
        * constructor.
        * eapply Forall_impl; [|exact Hx]. intros k Hk. unfold klt in *. rewrite <- E. exact Hk.
        * right. exists x. split; [reflexivity|exact E].
      + destruct (IH Hr) as (L & M & G & -> & HL & HG & HM).
        exists (x :: L), M, G. split; [reflexivity|]. split; [|split; assumption].
        cbn [map]. constructor; [exact E|exact HL].
      + assert (Ht : klt t (key x)).
        { unfold klt. rewrite bytes_cmp_antisym, E. reflexivity. }
        exists [], [], (x :: r). split; [reflexivity|]. split; [|split].
        * constructor.
        * cbn [map]. constructor; [exact Ht|].
          eapply Forall_impl; [|exact Hx]. intros k Hk. eapply klt_trans; eassumption.
        * left; reflexivity.
  Qed.

  Lemma probe_split L M G t :
    all_utf8 (L ++ M ++ G) -> is_utf8 t = true ->
    Forall (fun k => klt k t) (map key L) -> Forall (klt t) (map key G) ->
    Forall (fun e => fk (key e) = fk t) M ->
    let g := probe key (L ++ M ++ G) t in
    (forall i, i < length L -> g i = Lt)
    /\ (forall i, length L <= i < length L + length M -> g i = Eq)
    /\ (forall i, length L + length M <= i < length (L ++ M ++ G) -> g i = Gt).
  Proof.
    intros Hu Ht HL HG HM g. unfold all_utf8 in Hu. rewrite Forall_map in Hu, HL, HG.
    rewrite !Forall_forall in *.
    assert (Hp : forall i e, nth_error (L ++ M ++ G) i = Some e ->
                 g i = bytes_cmp (fk (key e)) (fk t)).
    { intros i e He. subst g. unfold probe. rewrite He. apply enc_cmp_utf8; [|exact Ht].
      apply Hu. eapply nth_error_In; exact He. }
    repeat split; intros i Hi.
    - destruct (nth_error L i) as [e|] eqn:E; [|apply nth_error_None in E; lia].
      rewrite (Hp i e) by (rewrite nth_error_app1 by lia; exact E).
      apply HL. eapply nth_error_In; exact E.
    - destruct (nth_error M (i - length L)) as [e|] eqn:E; [|apply nth_error_None in E; lia].
      rewrite (Hp i e).
      + rewrite (HM e) by (eapply nth_error_In; exact E). apply bytes_cmp_refl.
      + rewrite nth_error_app2 by lia. rewrite nth_error_app1 by lia. exact E.
    - rewrite !app_length in Hi.
      destruct (nth_error G (i - length L - length M)) as [e|] eqn:E; [|apply nth_error_None in E; lia].
      rewrite (Hp i e).
      + assert (Hk : klt t (key e)) by (apply HG; eapply nth_error_In; exact E).
        unfold klt in Hk. rewrite bytes_cmp_antisym, Hk. reflexivity.
      + rewrite nth_error_app2 by lia. rewrite nth_error_app2 by lia. exact E.
  Qed.

  Lemma vsearch_split L M G t :
    all_utf8 (L ++ M ++ G) -> is_utf8 t = true ->
    Forall (fun k => klt k t) (map key L) -> Forall (klt t) (map key G) ->
    (M = [] \/ exists e, M = [e] /\ fk (key e) = fk t) ->
    vsearch key (L ++ M ++ G) t = match M with [] => inr (length L) | _ => inl (length L) end.
  Proof.
    intros Hu Ht HL HG HM.
    assert (HM' : Forall (fun e => fk (key e) = fk t) M).
    { destruct HM as [->|(e & -> & He)]; repeat constructor. exact He. }
    destruct (probe_split L M G t Hu Ht HL HG HM') as (H1 & H2 & H3).
    unfold vsearch.
    rewrite (bsearch_spec _ (length L) (length L + length M) (length (L ++ M ++ G))); try assumption.
    - destruct HM as [->|(e & -> & He)]; cbn [length].
      + rewrite Nat.add_0_r, Nat.ltb_irrefl. reflexivity.
      + assert (Nat.ltb (length L) (length L + 1) = true) as -> by (apply Nat.ltb_lt; lia).
        f_equal. lia.
    - rewrite !app_length. lia.
  Qed.

  (* binary search = lookup by case-insensitive equality *)
  Lemma vsearch_find l t : sorted l -> all_utf8 l -> is_utf8 t = true ->
    match vsearch key l t with
    | inl pos => exists e, nth_error l pos = Some e /\ vfind l t = Some e
    | inr _ => vfind l t = None
    end.
  Proof.
    intros Hs Hu Ht. destruct (split3 t l Hs) as (L & M & G & -> & HL & HG & HM).
    rewrite (vsearch_split L M G t Hu Ht HL HG HM).
    unfold vfind. rewrite find_app. fold (vfind L t). rewrite (find_none_lt L t HL).
    destruct HM as [->|(e & -> & He)].
    - cbn [app]. apply find_none_gt. exact HG.
    - exists e. split.
      + rewrite nth_error_app2 by lia. rewrite Nat.sub_diag. reflexivity.
      + cbn [app find]. apply keqb_true in He. rewrite He. reflexivity.
  Qed.

  Lemma update_at_app L (e : V) G f : update_at (length L) f (L ++ e :: G) = L ++ f e :: G.
  Proof. induction L as [|x L IH]; cbn [length app update_at]; [reflexivity|]. rewrite IH. reflexivity. Qed.
  Lemma insert_at_app L (v : V) G : insert_at (length L) v (L ++ G) = L ++ v :: G.
  Proof.
    unfold insert_at. rewrite firstn_app, Nat.sub_diag, firstn_all, firstn_O, app_nil_r.
    rewrite skipn_app, Nat.sub_diag, skipn_all. reflexivity.
  Qed.

  Definition upsert (l : list V) (k : bytes) (f : V -> V) (v : V) : list V :=
    match vsearch key l k with
    | inl pos => update_at pos f l
    | inr pos => insert_at pos v l
    end.

  Lemma upsert_spec l k f v :
    sorted l -> all_utf8 l -> is_utf8 k = true ->
    (forall x, key (f x) = key x) -> key v = k ->
    let l' := upsert l k f v in
    sorted l' /\ all_utf8 l'
    /\ (forall t, vfind l' t =
          if keqb k t then Some (match vfind l k with Some x => f x | None => v end) else vfind l t)
    /\ (forall x, In x l' -> In (key x) (map key l) \/ key x = k).
  Proof.
    intros Hs Hu Hk Hf Hv l'. subst l'. unfold upsert.
    destruct (split3 k l Hs) as (L & M & G & -> & HL & HG & HM).
    rewrite (vsearch_split L M G k Hu Hk HL HG HM).
    assert (HfL : vfind L k = None) by (apply find_none_lt; exact HL).
    assert (HfG : vfind G k = None) by (apply find_none_gt; exact HG).
    destruct HM as [->|(e & -> & He)].
    - (* insert *)
      cbn [app] in *. rewrite insert_at_app.
      assert (Hl : vfind (L ++ G) k = None).
      { unfold vfind in *. rewrite find_app, HfL. exact HfG. }
      rewrite Hl. unfold sorted, all_utf8 in *. rewrite !map_app in *. cbn [map]. rewrite Hv.
      repeat split.
      + apply ksorted_app in Hs. destruct Hs as (H1 & H2 & H3).
        apply ksorted_app. repeat split; try assumption.
        rewrite Forall_forall in *. intros x Hx. constructor; [apply HL; exact Hx|].
        apply H3. exact Hx.
      + apply Forall_app in Hu. destruct Hu as [H1 H2]. apply Forall_app. split; [exact H1|].
        constructor; assumption.
      + intros t. unfold vfind. rewrite !find_app. cbn [find]. rewrite Hv.
        destruct (keqb k t) eqn:E.
        * apply keqb_true in E.
          assert (vfind L t = None) as Hn.
          { apply find_none_lt. eapply Forall_impl; [|exact HL]. intros a Ha. unfold klt in *. rewrite <- E. exact Ha. }
          unfold vfind in Hn. rewrite Hn. reflexivity.
        * reflexivity.
      + intros x Hx. apply in_app_or in Hx. destruct Hx as [Hx|[<-|Hx]].
        * left. apply in_or_app. left. apply in_map. exact Hx.
        * right. exact Hv.
        * left. apply in_or_app. right. apply in_map. exact Hx.
    - (* update *)
      cbn [app] in *. rewrite update_at_app.
      assert (Hl : vfind (L ++ e :: G) k = Some e).
      { unfold vfind in *. rewrite find_app, HfL. cbn [find]. apply keqb_true in He. rewrite He. reflexivity. }
      rewrite Hl. unfold sorted, all_utf8 in *. rewrite !map_app in *. cbn [map] in *. rewrite Hf.
      repeat split; try assumption.
      + intros t. unfold vfind. rewrite !find_app. cbn [find]. rewrite Hf.
        rewrite (keqb_congr _ _ t He).
        destruct (keqb k t) eqn:E; [|reflexivity].
        apply keqb_true in E.
        assert (vfind L t = None) as Hn.
        { apply find_none_lt. eapply Forall_impl; [|exact HL]. intros a Ha. unfold klt in *. rewrite <- E. exact Ha. }
        unfold vfind in Hn. rewrite Hn. reflexivity.
      + intros x Hx. left. apply in_app_or in Hx. destruct Hx as [Hx|[<-|Hx]].
        * apply in_or_app. left. apply in_map. exact Hx.
        * rewrite Hf. apply in_or_app. right. left. reflexivity.
        * apply in_or_app. right. right. apply in_map. exact Hx.
  Qed.
End Vec.
