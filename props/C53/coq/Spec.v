(* C53 — specification: git 2.39 mailmap.c (read_mailmap_file, read_mailmap_line,
   parse_name_and_email, add_mapping, map_user) and builtin/check-mailmap.c, transcribed
   independently of the gix code.  C strings: every buffer ends at its first NUL.  The two sorted
   string_lists (cmp = strcasecmp) are specified as association lists looked up by
   case-insensitive equality; git never prints a key, only the values. *)
From GixV.Base Require Import Bytes Outcome.
Local Open Scope N_scope.

Definition g_isb (b : byte) (n : N) : bool := N.eqb (b2N b) n.
(* git-compat-util.h sane_ctype: isspace = SP HT LF CR *)
Definition g_isspace (b : byte) : bool := g_isb b 32 || g_isb b 9 || g_isb b 10 || g_isb b 13.
(* tolower of the C locale *)
Definition g_tolower (b : byte) : byte :=
  if N.leb 65 (b2N b) && N.leb (b2N b) 90 then N2b (b2N b + 32) else b.
(* strcasecmp(a,b) == 0 *)
Definition g_caseeq (a b : bytes) : bool := bytes_eqb (map g_tolower a) (map g_tolower b).

(* ---- read_mailmap_file: fgets(buffer, 1024, f) — at most 1023 bytes, stops after LF *)
Fixpoint fgets_go (s cur : bytes) (room : nat) (acc : list bytes) : list bytes :=
  match s with
  | [] => rev (match cur with [] => acc | _ => rev cur :: acc end)
  | b :: s' =>
      if g_isb b 10 then fgets_go s' [] 1023 (rev (b :: cur) :: acc)
      else match room with
           | S O => fgets_go s' [] 1023 (rev (b :: cur) :: acc)
           | _ => fgets_go s' (b :: cur) (Nat.pred room) acc
           end
  end.
Definition fgets_chunks (s : bytes) : list bytes := fgets_go s [] 1023 [].

Fixpoint cstr (s : bytes) : bytes :=
  match s with
  | [] => []
  | b :: r => if g_isb b 0 then [] else b :: cstr r
  end.

Fixpoint g_find (c : N) (s : bytes) : option nat :=
  match s with
  | [] => None
  | b :: r => if g_isb b c then Some O else option_map S (g_find c r)
  end.

Fixpoint g_ltrim (s : bytes) : bytes :=
  match s with
  | b :: r => if g_isspace b then g_ltrim r else s
  | [] => []
  end.
Definition g_trim (s : bytes) : bytes := rev (g_ltrim (rev (g_ltrim s))).

(* parse_name_and_email(buffer, &name, &email, allow_empty_email): (name, email, return value) *)
Definition g_parse_ne (buf : bytes) (allow_empty : bool)
  : option bytes * option bytes * option bytes :=
  match g_find 60 buf with
  | None => (None, None, None)
  | Some lft =>
      let after := skipn (S lft) buf in
      match g_find 62 after with
      | None => (None, None, None)
      | Some rlen =>
          if negb allow_empty && Nat.eqb rlen 0 then (None, None, None)
          else
            let nm := g_trim (firstn lft buf) in
            let rest := skipn (S rlen) after in
            (match nm with [] => None | _ => Some nm end,
             Some (firstn rlen after),
             match rest with [] => None | _ => Some rest end)
      end
  end.

(* arguments of add_mapping: new_name new_email old_name old_email *)
Definition g_args := (option bytes * option bytes * option bytes * option bytes)%type.

Definition g_read_line (buffer : bytes) : option g_args :=
  match buffer with
  | b :: _ => if g_isb b 35 then None else
      match g_parse_ne buffer false with
      | (name1, Some email1, Some rest) =>
          let '(name2, email2, _) := g_parse_ne rest true in
          Some (name1, Some email1, name2, email2)
      | (name1, Some email1, None) => Some (name1, Some email1, None, None)
      | _ => None
      end
  | [] => None
  end.

Record g_info := mkInfo { gi_name : option bytes; gi_email : option bytes }.
Record g_ment := mkMent { gm_key : bytes; gm_info : g_info; gm_names : list (bytes * g_info) }.
Definition g_map := list g_ment.

Fixpoint g_names_put (k : bytes) (v : g_info) (l : list (bytes * g_info)) : list (bytes * g_info) :=
  match l with
  | [] => [(k, v)]
  | (k', v') :: r => if g_caseeq k' k then (k', v) :: r else (k', v') :: g_names_put k v r
  end.

Definition g_apply (me : g_ment) (new_name new_email old_name : option bytes) : g_ment :=
  match old_name with
  | None =>
      mkMent (gm_key me)
             (mkInfo (match new_name with Some n => Some n | None => gi_name (gm_info me) end)
                     (match new_email with Some e => Some e | None => gi_email (gm_info me) end))
             (gm_names me)
  | Some on => mkMent (gm_key me) (gm_info me) (g_names_put on (mkInfo new_name new_email) (gm_names me))
  end.

Fixpoint g_map_put (old_email : bytes) (new_name new_email old_name : option bytes) (m : g_map) : g_map :=
  match m with
  | [] => [g_apply (mkMent old_email (mkInfo None None) []) new_name new_email old_name]
  | me :: r =>
      if g_caseeq (gm_key me) old_email then g_apply me new_name new_email old_name :: r
      else me :: g_map_put old_email new_name new_email old_name r
  end.

Definition g_add_mapping (m : g_map) (a : g_args) : g_map :=
  match a with
  | (new_name, new_email, old_name, Some old_email) => g_map_put old_email new_name new_email old_name m
  | (new_name, Some new_email, old_name, None) => g_map_put new_email new_name None old_name m
  | (_, None, _, None) => m
  end.

Definition g_read_mailmap (text : bytes) : g_map :=
  fold_left (fun m chunk => match g_read_line (cstr chunk) with Some a => g_add_mapping m a | None => m end)
            (fgets_chunks text) [].

Fixpoint g_names_get (k : bytes) (l : list (bytes * g_info)) : option g_info :=
  match l with
  | [] => None
  | (k', v) :: r => if g_caseeq k' k then Some v else g_names_get k r
  end.
Fixpoint g_map_get (k : bytes) (m : g_map) : option g_ment :=
  match m with
  | [] => None
  | me :: r => if g_caseeq (gm_key me) k then Some me else g_map_get k r
  end.

(* map_user: the (name, email) afterwards *)
Definition g_map_user (m : g_map) (name email : bytes) : bytes * bytes :=
  match g_map_get email m with
  | None => (name, email)
  | Some me =>
      let mi := match g_names_get name (gm_names me) with Some i => i | None => gm_info me end in
      (match gi_name mi with Some n => n | None => name end,
       match gi_email mi with Some e => e | None => email end)
  end.

(* `git check-mailmap "name <email>"` *)
Definition g_check_mailmap (text name email : bytes) : bytes * bytes :=
  g_map_user (g_read_mailmap text) name email.

(* what check-mailmap prints for the result *)
Definition g_show (r : bytes * bytes) : bytes :=
  match fst r with
  | [] => x3c :: snd r ++ [x3e]
  | n => n ++ x20 :: x3c :: snd r ++ [x3e]
  end.
