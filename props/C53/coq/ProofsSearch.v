(* C53 — core::slice::binary_search_by (the loop of Rust 1.95) is correct on a probe function that
   is Lt on [0,p), Eq on [p,q), Gt on [q,len). *)
From Coq Require Import Arith Lia.
From GixV.Base Require Import Bytes Outcome.
From GixV.C53 Require Import Model.

Lemma div2_bounds n : (2 * Nat.div2 n <= n <= 2 * Nat.div2 n + 1)%nat.
Proof.
  pose proof (Nat.div2_odd n) as H. destruct (Nat.odd n); cbn [Nat.b2n] in H; lia.
Qed.

Section BS.
  Variable g : nat -> comparison.
  Variables p q len : nat.
  Hypothesis Hpq : (p <= q <= len)%nat.
  Hypothesis Hlt : forall i, (i < p)%nat -> g i = Lt.
  Hypothesis Heq : forall i, (p <= i < q)%nat -> g i = Eq.
  Hypothesis Hgt : forall i, (q <= i < len)%nat -> g i = Gt.

  Lemma g_not_gt i : (i < q)%nat -> g i <> Gt.
  Proof.
    intros Hi. destruct (Nat.lt_ge_cases i p) as [H|H].
    - rewrite Hlt by exact H. discriminate.
    - rewrite Heq by lia. discriminate.
  Qed.

  Lemma bs_loop_inv : forall fuel base size,
    (1 <= size)%nat -> (size <= fuel)%nat -> (base = 0 \/ base < q)%nat ->
    (q <= base + size)%nat -> (base + size <= len)%nat ->
    let b := bs_loop fuel g base size in
    (b = 0 \/ b < q)%nat /\ (q <= b + 1)%nat /\ (b < len)%nat.
  Proof.
    induction fuel as [|k IH]; intros base size H1 Hf Hb Hq Hl; [lia|].
    cbn [bs_loop]. destruct (Nat.leb size 1) eqn:E.
    - apply Nat.leb_le in E. cbv zeta. lia.
    - apply Nat.leb_gt in E. pose proof (div2_bounds size) as Hd.
      set (half := Nat.div2 size) in *. cbv zeta.
      destruct (Nat.lt_ge_cases (base + half) q) as [Hm|Hm].
      + pose proof (g_not_gt _ Hm) as Hng.
        assert (Hsel : match g (base + half)%nat with Gt => base | _ => (base + half)%nat end = (base + half)%nat)
          by (destruct (g (base + half)%nat); congruence).
        rewrite Hsel. apply IH; lia.
      + rewrite Hgt by lia. apply IH; lia.
  Qed.

  Lemma bsearch_spec :
    bsearch g len = if Nat.ltb p q then inl (q - 1)%nat else inr p.
  Proof.
    unfold bsearch. destruct len as [|n] eqn:El.
    - assert (p = 0 /\ q = 0)%nat as [-> ->] by lia. reflexivity.
    - rewrite <- El in *.
      pose proof (bs_loop_inv len 0 len ltac:(lia) ltac:(lia) ltac:(lia) ltac:(lia) ltac:(lia)) as H.
      cbv zeta in H. set (b := bs_loop len g 0 len) in *. destruct H as (Hb & Hq & Hlen).
      destruct (Nat.ltb p q) eqn:E.
      + apply Nat.ltb_lt in E. assert (b = q - 1)%nat by lia. subst b.
        rewrite H. rewrite Heq by lia. reflexivity.
      + apply Nat.ltb_ge in E. assert (p = q) by lia. subst q.
        destruct (Nat.eq_dec p 0) as [->|Hp].
        * assert (b = 0)%nat by lia. rewrite H. rewrite Hgt by lia. reflexivity.
        * assert (b = p - 1)%nat by lia. rewrite H. rewrite Hlt by lia. f_equal. lia.
  Qed.
End BS.
