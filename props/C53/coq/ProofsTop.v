(* C53 — top-level lemmas: totality of merge on parsed entries, the resolve theorems. *)
From Coq Require Import Arith Lia List.
From GixV.Base Require Import Bytes BytesFacts Outcome.
From GixV.C53 Require Import Model Spec ProofsSearch ProofsVec ProofsMap.
Import ListNotations.

Lemma parse_line_wf line en : parse_line line = Ok en -> well_formed en = true.
Proof.
  unfold parse_line.
  destruct (parse_name_and_email line) as [[[n1 e1] rest]|e| |]; try discriminate.
  destruct (parse_name_and_email rest) as [[[n2 e2] rest2]|e| |]; try discriminate.
  destruct (negb (is_empty (trim rest2))); try discriminate.
  destruct n1, e1, n2, e2; intros H; try discriminate; inversion H; reflexivity.
Qed.

Lemma oks_parse_wf : forall l : list (option (outcome entry perr)),
  Forall (fun o => forall en, o = Some (Ok en) -> well_formed en = true) l ->
  Forall (fun en => well_formed en = true) (oks (filter_some l)).
Proof.
  induction l as [|o r IH]; intros H; [constructor|].
  inversion H; subst. destruct o as [[en|e| |]|]; cbn [filter_some oks]; try (apply IH; assumption).
  constructor; [apply H2; reflexivity|apply IH; assumption].
Qed.

Lemma parse_ignore_errors_wf buf :
  Forall (fun en => well_formed en = true) (parse_ignore_errors buf).
Proof.
  unfold parse_ignore_errors, parse. apply oks_parse_wf. rewrite Forall_map.
  apply Forall_forall. intros line _ en. unfold parse_raw_line.
  destruct line as [|b r]; [discriminate|]. destruct (isb b 35); [discriminate|].
  destruct (is_empty (trim (b :: r))); [discriminate|].
  intros H. injection H as H. eapply parse_line_wf; exact H.
Qed.

Lemma merge_total : forall ens s, Forall (fun en => well_formed en = true) ens ->
  exists s', merge s ens = Ok s'.
Proof.
  induction ens as [|en r IH]; intros s H; [exists s; reflexivity|].
  inversion H; subst. cbn [merge]. rewrite (merge1_upsert s en H2). apply IH. assumption.
Qed.

Lemma from_bytes_total buf : exists s, from_bytes buf = Ok s.
Proof. unfold from_bytes, snapshot_new. apply merge_total. apply parse_ignore_errors_wf. Qed.

(* git's add_mapping arguments for an entry *)
Definition entry_args (en : entry) : g_args :=
  match new_email en, old_name en with
  | None, None => (new_name en, Some (old_email en), None, None)
  | _, _ => (new_name en, new_email en, old_name en, Some (old_email en))
  end.
Lemma add_mapping_entry m en : g_add_mapping m (entry_args en) = g_put_entry m en.
Proof.
  unfold entry_args, g_put_entry, g_add_mapping.
  destruct (new_email en), (old_name en); reflexivity.
Qed.

Definition git_map_of (ens : list entry) : g_map := fold_left g_put_entry ens [].

Lemma resolve_vs_git ens name email :
  Forall en_ok ens -> is_utf8 name = true -> is_utf8 email = true ->
  exists s, snapshot_new ens = Ok s /\
    let r := resolve s name email in
    let g := g_map_user (git_map_of ens) name email in
    fst r = fst g
    /\ (snd r = snd g
        \/ (snd g = email /\ fold_case (snd r) = fold_case email /\ In (snd r) (map old_email ens))).
Proof.
  intros Hok Un Ue.
  destruct (merge_rel ens [] [] snap_rel_nil Hok) as (s & E & R & P).
  exists s. split; [exact E|].
  destruct (resolve_rel s (git_map_of ens) name email R Un Ue) as (F1 & F2).
  split; [exact F1|]. destruct F2 as [F2|(F2 & F3 & e & He & F4)]; [left; exact F2|].
  right. split; [exact F2|]. split; [exact F3|]. rewrite F4. apply (P e He).
Qed.

(* the documented normalisation of the email's case is the only difference *)
Definition email_case_exact (ens : list entry) (email : bytes) : Prop :=
  forall en, In en ens -> fold_case (old_email en) = fold_case email -> old_email en = email.

Lemma resolve_is_git ens name email :
  Forall en_ok ens -> is_utf8 name = true -> is_utf8 email = true ->
  email_case_exact ens email ->
  exists s, snapshot_new ens = Ok s /\ resolve s name email = g_map_user (git_map_of ens) name email.
Proof.
  intros Hok Un Ue Hx. destruct (resolve_vs_git ens name email Hok Un Ue) as (s & E & F1 & F2).
  exists s. split; [exact E|].
  destruct (resolve s name email) as [rn re], (g_map_user (git_map_of ens) name email) as [gn ge].
  cbn [fst snd] in *. subst gn. f_equal.
  destruct F2 as [F2|(F2 & F3 & F4)]; [exact F2|].
  apply in_map_iff in F4. destruct F4 as (en & K & I1). subst re ge.
  apply Hx; assumption.
Qed.
