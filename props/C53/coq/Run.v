(* C53 — transcript printer.
   cases:  res <mailmap> (<name> <email>)*     resolve every identity against the mailmap
           ent <mailmap>                         per-line parse results and Snapshot::entries()
   modes:  model = gix-mailmap model;  spec = git (Spec.v): what `git check-mailmap` prints. *)
From GixV.Base Require Import Bytes Outcome.
From GixV.C53 Require Import Model Spec.

Definition hx (s : bytes) : bytes := hex_encode s.
Definition hxo (o : option bytes) : bytes := match o with Some s => bs "+" ++ hx s | None => bs "~" end.

Fixpoint pairs (fs : list bytes) : list (bytes * bytes) :=
  match fs with
  | n :: e :: r => (n, e) :: pairs r
  | _ => []
  end.

Fixpoint join_with (sep : bytes) (ls : list bytes) : bytes :=
  match ls with
  | [] => []
  | [x] => x
  | x :: r => x ++ sep ++ join_with sep r
  end.

Definition show_res (s : snapshot) (ne : bytes * bytes) : bytes :=
  let '(n, e) := ne in
  let r := resolve s n e in
  (match try_resolve s n e with Some _ => bs "some" | None => bs "none" end)
  ++ bs " n=" ++ hx (fst r) ++ bs " e=" ++ hx (snd r).

Definition show_entry (en : entry) : bytes :=
  bs "nn=" ++ hxo (new_name en) ++ bs " ne=" ++ hxo (new_email en)
  ++ bs " on=" ++ hxo (old_name en) ++ bs " oe=" ++ hx (old_email en).

Definition show_parsed (o : outcome entry perr) : bytes :=
  match o with
  | Ok _ => bs "ok" | Err Unconsumed => bs "errU" | Err Malformed => bs "errM"
  | Panic => bs "PANIC" | OutOfFuel => bs "HANG"
  end.

Definition run_model (fs : list bytes) : bytes :=
  let op := nth_field 0 fs in
  let mm := nth_field 1 fs in
  if bytes_eqb op (bs "res") then
    match from_bytes mm with
    | Ok s => join_with (bs " ; ") (map (show_res s) (pairs (skipn 2 fs)))
    | Err _ => bs "err"
    | Panic => bs "PANIC"
    | OutOfFuel => bs "HANG"
    end
  else if bytes_eqb op (bs "ent") then
    match from_bytes mm with
    | Ok s => join_with (bs ",") (map show_parsed (parse mm)) ++ bs " | "
              ++ join_with (bs " ; ") (map show_entry (entries s))
    | Err _ => bs "err"
    | Panic => bs "PANIC"
    | OutOfFuel => bs "HANG"
    end
  else bs "?".

Definition run_spec (fs : list bytes) : bytes :=
  let op := nth_field 0 fs in
  let mm := nth_field 1 fs in
  if bytes_eqb op (bs "res") then
    let m := g_read_mailmap mm in
    join_with (bs " ; ") (map (fun ne => hx (g_show (g_map_user m (fst ne) (snd ne)))) (pairs (skipn 2 fs)))
  else bs "-".

Definition run (fs : list bytes) : bytes :=
  match fs with
  | mode :: rest => if bytes_eqb mode (bs "spec") then run_spec rest else run_model rest
  | [] => bs "?"
  end.
