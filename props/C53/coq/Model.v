(* C53 — executable model of gix-mailmap: parse.rs (Lines, parse_line, parse_name_and_email),
   snapshot/util.rs (EncodedString::cmp_ref), snapshot/entry.rs (EmailEntry::{merge, from}),
   snapshot/mod.rs (Snapshot::{merge, entries, try_resolve_ref, resolve}),
   snapshot/signature.rs (ResolvedSignature::try_new), plus the bstr 1.10 primitives they use
   (lines, trim = Unicode White_Space, to_str = UTF-8 validation) and core's binary_search_by
   (the loop of the pinned toolchain, Rust 1.95).  NO proofs here. *)
From GixV.Base Require Import Bytes Outcome.
Local Open Scope N_scope.

(* ------------------------------------------------------------------ byte helpers *)
Definition isb (b : byte) (n : N) : bool := N.eqb (b2N b) n.
Definition inr_ (b : byte) (lo hi : N) : bool := N.leb lo (b2N b) && N.leb (b2N b) hi.
Definition is_empty (s : bytes) : bool := match s with [] => true | _ => false end.

Fixpoint find_byte (c : byte) (s : bytes) : option nat :=
  match s with
  | [] => None
  | b :: r => if beqb b c then Some O else option_map S (find_byte c r)
  end.

(* ------------------------------------------------------------------ bstr: lines() *)
(* LinesWithTerminator: split after every LF; the last piece is dropped when empty *)
Fixpoint lines_wt (s : bytes) : list bytes :=
  match s with
  | [] => []
  | b :: s' =>
      if isb b 10 then [b] :: lines_wt s'
      else match lines_wt s' with
           | [] => [[b]]
           | l :: r => (b :: l) :: r
           end
  end.
(* trim_last_terminator: a final LF goes, and then one CR before it *)
Definition trim_last_terminator (l : bytes) : bytes :=
  match rev l with
  | b :: r =>
      if isb b 10 then
        match r with
        | c :: r' => if isb c 13 then rev r' else rev r
        | [] => []
        end
      else l
  | [] => l
  end.
Definition lines (s : bytes) : list bytes := map trim_last_terminator (lines_wt s).

(* ------------------------------------------------------------------ bstr: trim() — regex \s+ over UTF-8,
   i.e. the code points with the White_Space property:
   U+0009..000D 0020 | 0085 00A0 | 1680 | 2000..200A 2028 2029 202F | 205F | 3000 *)
Definition ws1 (b : byte) : bool := inr_ b 9 13 || isb b 32.
Definition ws2 (a b : byte) : bool := isb a 194 && (isb b 133 || isb b 160).
Definition ws3 (a b c : byte) : bool :=
  (isb a 225 && isb b 154 && isb c 128)
  || (isb a 226 && isb b 128 && (inr_ c 128 138 || isb c 168 || isb c 169 || isb c 175))
  || (isb a 226 && isb b 129 && isb c 159)
  || (isb a 227 && isb b 128 && isb c 128).

Fixpoint trim_start (s : bytes) : bytes :=
  match s with
  | a :: r =>
      if ws1 a then trim_start r
      else match r with
           | b :: r2 =>
               if ws2 a b then trim_start r2
               else match r2 with
                    | c :: r3 => if ws3 a b c then trim_start r3 else s
                    | [] => s
                    end
           | [] => s
           end
  | [] => []
  end.
(* the same on the reversed string: the reverse DFA eats whole code points from the end *)
Fixpoint trim_start_rev (s : bytes) : bytes :=
  match s with
  | a :: r =>
      if ws1 a then trim_start_rev r
      else match r with
           | b :: r2 =>
               if ws2 b a then trim_start_rev r2
               else match r2 with
                    | c :: r3 => if ws3 c b a then trim_start_rev r3 else s
                    | [] => s
                    end
           | [] => s
           end
  | [] => []
  end.
Definition trim_end (s : bytes) : bytes := rev (trim_start_rev (rev s)).
Definition trim (s : bytes) : bytes := trim_end (trim_start s).

(* ------------------------------------------------------------------ bstr: to_str() (UTF-8 well-formedness,
   Unicode table 3-7; same language as core::str::from_utf8) *)
Definition cont (b : byte) : bool := inr_ b 128 191.
Fixpoint is_utf8 (s : bytes) : bool :=
  match s with
  | [] => true
  | a :: r =>
      if N.ltb (b2N a) 128 then is_utf8 r
      else if inr_ a 194 223 then
        match r with b :: r2 => cont b && is_utf8 r2 | _ => false end
      else if inr_ a 224 239 then
        match r with
        | b :: c :: r3 =>
            (if isb a 224 then inr_ b 160 191 else if isb a 237 then inr_ b 128 159 else cont b)
            && cont c && is_utf8 r3
        | _ => false
        end
      else if inr_ a 240 244 then
        match r with
        | b :: c :: d :: r4 =>
            (if isb a 240 then inr_ b 144 191 else if isb a 244 then inr_ b 128 143 else cont b)
            && cont c && cont d && is_utf8 r4
        | _ => false
        end
      else false
  end.

(* ------------------------------------------------------------------ parse.rs *)
Inductive perr := Unconsumed | Malformed.

Record entry := mkEntry {
  new_name : option bytes; new_email : option bytes; old_name : option bytes; old_email : bytes }.

Definition nonempty_opt (s : bytes) : option bytes := if is_empty s then None else Some s.

(* parse_name_and_email: Ok (name, email, rest) | Err Malformed.  The three slices
   line[sb+1..], email[..cb], line[sb+cb+2..] are always in range (sb < len, sb+1+cb < len). *)
Definition parse_name_and_email (line : bytes)
  : outcome (option bytes * option bytes * bytes) perr :=
  match find_byte x3c line with
  | Some sb =>
      let email := skipn (S sb) line in
      match find_byte x3e email with
      | None => Err Malformed
      | Some cb =>
          let em := trim (firstn cb email) in
          if is_empty em then Err Malformed
          else
            let name := trim (firstn sb line) in
            let rest := skipn (sb + cb + 2) line in
            Ok (nonempty_opt name, Some em, rest)
      end
  | None => Ok (None, None, line)
  end.

Definition parse_line (line : bytes) : outcome entry perr :=
  match parse_name_and_email line with
  | Ok (name1, email1, rest) =>
      match parse_name_and_email rest with
      | Ok (name2, email2, rest2) =>
          if negb (is_empty (trim rest2)) then Err Unconsumed
          else
            match name1, email1, name2, email2 with
            | Some pn, Some ce, None, None => Ok (mkEntry (Some pn) None None ce)
            | None, Some pe, None, Some ce => Ok (mkEntry None (Some pe) None ce)
            | Some pn, Some pe, None, Some ce => Ok (mkEntry (Some pn) (Some pe) None ce)
            | Some pn, Some pe, Some cn, Some ce => Ok (mkEntry (Some pn) (Some pe) (Some cn) ce)
            | None, Some pe, Some cn, Some ce => Ok (mkEntry None (Some pe) (Some cn) ce)
            | _, _, _, _ => Err Malformed
            end
      | Err e => Err e
      | Panic => Panic
      | OutOfFuel => OutOfFuel
      end
  | Err e => Err e
  | Panic => Panic
  | OutOfFuel => OutOfFuel
  end.

(* Lines::next for one raw line: None = skipped (empty, comment, blank) *)
Definition parse_raw_line (line : bytes) : option (outcome entry perr) :=
  match line with
  | [] => None
  | b :: _ =>
      if isb b 35 then None
      else
        let t := trim line in
        if is_empty t then None else Some (parse_line t)
  end.

Fixpoint filter_some {A} (l : list (option A)) : list A :=
  match l with
  | [] => []
  | Some a :: r => a :: filter_some r
  | None :: r => filter_some r
  end.

(* crate::parse(buf).collect() *)
Definition parse (buf : bytes) : list (outcome entry perr) :=
  filter_some (map parse_raw_line (lines buf)).

Fixpoint oks {A E} (l : list (outcome A E)) : list A :=
  match l with
  | [] => []
  | Ok a :: r => a :: oks r
  | _ :: r => oks r
  end.
(* crate::parse_ignore_errors *)
Definition parse_ignore_errors (buf : bytes) : list entry := oks (parse buf).

(* ------------------------------------------------------------------ snapshot/util.rs *)
Definition lower (b : byte) : byte := if inr_ b 65 90 then N2b (b2N b + 32) else b.
Definition fold_case (s : bytes) : bytes := map lower s.

(* EncodedString::cmp_ref.  The variant (Utf8 / Unknown) of both sides is a function of the bytes
   (From<&BStr>).  Utf8/Utf8: chars().map(to_ascii_lowercase) compared lexicographically — the
   same as comparing the ASCII-lowered bytes, UTF-8 being order preserving; every other pairing:
   raw bytes. *)
Definition enc_cmp (a b : bytes) : comparison :=
  if is_utf8 a && is_utf8 b then bytes_cmp (fold_case a) (fold_case b) else bytes_cmp a b.

(* ------------------------------------------------------------------ core::slice::binary_search_by
   (Rust 1.95):
     let mut size = len; if size == 0 { return Err(0) } let mut base = 0;
     while size > 1 { let half = size/2; let mid = base+half;
                      base = if f(mid) == Greater { base } else { mid }; size -= half; }
     let cmp = f(base); if cmp == Equal { Ok(base) } else { Err(base + (cmp == Less) as usize) }
   [g i] is the closure's answer for element i. *)
Fixpoint bs_loop (fuel : nat) (g : nat -> comparison) (base size : nat) : nat :=
  match fuel with
  | O => base
  | S k =>
      if Nat.leb size 1 then base
      else
        let half := Nat.div2 size in
        let mid := (base + half)%nat in
        bs_loop k g (match g mid with Gt => base | _ => mid end) (size - half)%nat
  end.
Definition bsearch (g : nat -> comparison) (len : nat) : nat + nat :=
  match len with
  | O => inr O
  | _ =>
      let base := bs_loop len g O len in
      match g base with
      | Eq => inl base
      | Lt => inr (S base)
      | Gt => inr base
      end
  end.

(* probe of a vector of things with a key: |e| e.key.cmp_ref(target) *)
Definition probe {V} (key : V -> bytes) (l : list V) (target : bytes) (i : nat) : comparison :=
  match nth_error l i with
  | Some e => enc_cmp (key e) target
  | None => Gt (* never asked: mid < len *)
  end.
Definition vsearch {V} (key : V -> bytes) (l : list V) (target : bytes) : nat + nat :=
  bsearch (probe key l target) (length l).

Definition insert_at {V} (pos : nat) (v : V) (l : list V) : list V :=
  firstn pos l ++ v :: skipn pos l.
Fixpoint update_at {V} (pos : nat) (f : V -> V) (l : list V) : list V :=
  match l, pos with
  | [], _ => []
  | x :: r, O => f x :: r
  | x :: r, S p => x :: update_at p f r
  end.

(* ------------------------------------------------------------------ snapshot/entry.rs *)
Record name_entry := mkNE { ne_new_name : option bytes; ne_new_email : option bytes; ne_old_name : bytes }.
Record email_entry := mkEE {
  ee_new_name : option bytes; ee_new_email : option bytes; ee_old_email : bytes;
  ee_names : list name_entry }.

(* EmailEntry::merge (after fix 44459dddd: a simple entry replaces only what it provides) *)
Definition ee_merge (e : email_entry) (en : entry) : email_entry :=
  match old_name en with
  | None =>
      mkEE (match new_name en with Some n => Some n | None => ee_new_name e end)
           (match new_email en with Some m => Some m | None => ee_new_email e end)
           (ee_old_email e) (ee_names e)
  | Some on =>
      let names :=
        match vsearch ne_old_name (ee_names e) on with
        | inl pos => update_at pos (fun x => mkNE (new_name en) (new_email en) (ne_old_name x)) (ee_names e)
        | inr pos => insert_at pos (mkNE (new_name en) (new_email en) on) (ee_names e)
        end in
      mkEE (ee_new_name e) (ee_new_email e) (ee_old_email e) names
  end.

(* From<Entry> for EmailEntry *)
Definition ee_from (en : entry) : email_entry :=
  match old_name en with
  | Some on => mkEE None None (old_email en) [mkNE (new_name en) (new_email en) on]
  | None => mkEE (new_name en) (new_email en) (old_email en) []
  end.

(* ------------------------------------------------------------------ snapshot/mod.rs *)
Definition snapshot := list email_entry.

Definition well_formed (en : entry) : bool :=
  match new_name en, new_email en with None, None => false | _, _ => true end.

(* one iteration of Snapshot::merge; the assert! is the Panic *)
Definition merge1 (s : snapshot) (en : entry) : outcome snapshot perr :=
  if negb (well_formed en) then Panic
  else
    match vsearch ee_old_email s (old_email en) with
    | inl pos => Ok (update_at pos (fun e => ee_merge e en) s)
    | inr pos => Ok (insert_at pos (ee_from en) s)
    end.
Fixpoint merge (s : snapshot) (ens : list entry) : outcome snapshot perr :=
  match ens with
  | [] => Ok s
  | en :: r => match merge1 s en with Ok s' => merge s' r | o => o end
  end.
Definition snapshot_new (ens : list entry) : outcome snapshot perr := merge [] ens.
Definition from_bytes (buf : bytes) : outcome snapshot perr := snapshot_new (parse_ignore_errors buf).

(* Snapshot::entries *)
Definition ee_entries (e : email_entry) : list entry :=
  (match ee_new_email e, ee_new_name e with
   | None, None => []
   | _, _ => [mkEntry (ee_new_name e) (ee_new_email e) None (ee_old_email e)]
   end)
  ++ map (fun n => mkEntry (ne_new_name n) (ne_new_email n) (Some (ne_old_name n)) (ee_old_email e))
         (ee_names e).
Definition entries (s : snapshot) : list entry := flat_map ee_entries s.

(* ResolvedSignature::try_new -> (email, name) *)
Definition try_new (new_email : option bytes) (matched_email current_email : bytes)
           (new_name : option bytes) : option (option bytes * option bytes) :=
  let ne := match new_email with
            | Some e => Some e
            | None => if bytes_eqb matched_email current_email then None else Some matched_email
            end in
  match ne, new_name with
  | None, None => None
  | _, _ => Some (ne, new_name)
  end.

(* Snapshot::try_resolve_ref *)
Definition try_resolve_ref (s : snapshot) (name email : bytes) : option (option bytes * option bytes) :=
  match vsearch ee_old_email s email with
  | inr _ => None
  | inl pos =>
      match nth_error s pos with
      | None => None (* unreachable: pos < len *)
      | Some e =>
          match vsearch ne_old_name (ee_names e) name with
          | inl p2 =>
              match nth_error (ee_names e) p2 with
              | Some n => try_new (ne_new_email n) (ee_old_email e) email (ne_new_name n)
              | None => None
              end
          | inr _ => try_new (ee_new_email e) (ee_old_email e) email (ee_new_name e)
          end
      end
  end.

(* Snapshot::try_resolve / resolve: (name, email) of the returned signature *)
Definition enrich (name email : bytes) (r : option bytes * option bytes) : bytes * bytes :=
  match r with
  | (Some e, Some n) => (n, e)
  | (Some e, None) => (name, e)
  | (None, Some n) => (n, email)
  | (None, None) => (name, email) (* unreachable!() in the source; try_new never returns it *)
  end.
Definition try_resolve (s : snapshot) (name email : bytes) : option (bytes * bytes) :=
  option_map (enrich name email) (try_resolve_ref s name email).
Definition resolve (s : snapshot) (name email : bytes) : bytes * bytes :=
  match try_resolve s name email with Some r => r | None => (name, email) end.
