From GixV.Base Require Import Bytes Outcome.
From GixV.C53 Require Import Model Spec.
Example placeholder : resolve [] [] [] = ([], []).
Proof. reflexivity. Qed.
