(* C53 — Mailmap resolution agrees with git.  Statements only; proofs are in Proofs*.v.
   Model.v = gix-mailmap (after fix 44459dddd), Spec.v = git 2.39 mailmap.c. *)
From Coq Require Import Arith List.
From GixV.Base Require Import Bytes BytesFacts Outcome.
From GixV.C53 Require Import Model Spec ProofsSearch ProofsVec ProofsMap ProofsTop ProofsParse ProofsFile ProofsFgets ProofsKeys.
Import ListNotations.

(* 1. core's binary_search_by (the Rust 1.95 loop) on any probe that is Less on [0,p), Equal on
      [p,q), Greater on [q,len): Ok(q-1) if an Equal element exists, else Err(p). *)
Theorem binary_search_correct :
  forall (g : nat -> comparison) (p q len : nat),
    p <= q <= len ->
    (forall i, i < p -> g i = Lt) -> (forall i, p <= i < q -> g i = Eq) ->
    (forall i, q <= i < len -> g i = Gt) ->
    bsearch g len = if Nat.ltb p q then inl (q - 1) else inr p.
Proof. exact bsearch_spec. Qed.

(* 2. On a vector strictly sorted by ASCII-case-folded key whose keys are valid UTF-8, the binary
      search with EncodedString::cmp_ref is exactly the lookup by case-insensitive equality. *)
Theorem sorted_vector_search_is_case_insensitive_lookup :
  forall (V : Type) (key : V -> bytes) (l : list V) (t : bytes),
    sorted key l -> all_utf8 key l -> is_utf8 t = true ->
    match vsearch key l t with
    | inl pos => exists e, nth_error l pos = Some e /\ vfind key l t = Some e
    | inr _ => vfind key l t = None
    end.
Proof. exact @vsearch_find. Qed.

(* 3. insert-or-update through the binary search keeps the vector strictly sorted and acts on the
      lookup like an update of a finite map keyed by the folded key. *)
Theorem sorted_vector_upsert :
  forall (V : Type) (key : V -> bytes) (l : list V) (k : bytes) (f : V -> V) (v : V),
    sorted key l -> all_utf8 key l -> is_utf8 k = true ->
    (forall x, key (f x) = key x) -> key v = k ->
    let l' := upsert key l k f v in
    sorted key l' /\ all_utf8 key l'
    /\ (forall t, vfind key l' t =
          if keqb k t then Some (match vfind key l k with Some x => f x | None => v end)
          else vfind key l t)
    /\ (forall x, In x l' -> In (key x) (map key l) \/ key x = k).
Proof. exact @upsert_spec. Qed.

(* 4. Every entry the parser produces maps a name or an email, so the assert! in Snapshot::merge
      cannot fire and Snapshot::from_bytes is total (no panic) on every byte string. *)
Theorem parsed_entries_are_well_formed :
  forall line en, parse_line line = Ok en -> well_formed en = true.
Proof. exact parse_line_wf. Qed.
Theorem from_bytes_never_panics : forall buf, exists s, from_bytes buf = Ok s.
Proof. exact from_bytes_total. Qed.

(* 5. Snapshot::merge refines git's add_mapping: after any list of entries with UTF-8 keys the two
      levels of sorted vectors answer every (case-insensitive) lookup like git's two string_lists. *)
Theorem snapshot_refines_git_map :
  forall ens, Forall en_ok ens ->
    exists s, snapshot_new ens = Ok s /\ snap_rel s (git_map_of ens).
Proof.
  intros ens H. destruct (merge_rel ens [] [] snap_rel_nil H) as (s & E & R & _).
  exists s. split; assumption.
Qed.
Theorem git_add_mapping_of_entry :
  forall m en, g_add_mapping m (entry_args en) = g_put_entry m en.
Proof. exact add_mapping_entry. Qed.

(* 6. resolve vs. git's map_user, for EVERY list of entries and identity with UTF-8 keys:
      the names are equal; the emails are equal, or git left the email alone and gix returns the
      mailmap's spelling of the same email (equal up to ASCII case). *)
Theorem resolve_is_git_up_to_email_case :
  forall ens name email,
    Forall en_ok ens -> is_utf8 name = true -> is_utf8 email = true ->
    exists s, snapshot_new ens = Ok s /\
      let r := resolve s name email in
      let g := g_map_user (git_map_of ens) name email in
      fst r = fst g
      /\ (snd r = snd g
          \/ (snd g = email /\ fold_case (snd r) = fold_case email /\ In (snd r) (map old_email ens))).
Proof. exact resolve_vs_git. Qed.

(* 7. ... hence exact agreement unless the mailmap spells the looked-up email in another case *)
Theorem resolve_is_git_except_known :
  forall ens name email,
    Forall en_ok ens -> is_utf8 name = true -> is_utf8 email = true ->
    email_case_exact ens email ->
    exists s, snapshot_new ens = Ok s /\ resolve s name email = g_map_user (git_map_of ens) name email.
Proof. exact resolve_is_git. Qed.

(* 8. the full statement is false of the code: the three known classes at this level *)
Definition e_simple (n e : bytes) : entry := mkEntry (Some n) None None e.

(* class email-case-normalized *)
Theorem resolve_is_git_refuted_email_case :
  exists ens name email s, Forall en_ok ens /\ is_utf8 name = true /\ is_utf8 email = true
    /\ snapshot_new ens = Ok s
    /\ resolve s name email <> g_map_user (git_map_of ens) name email.
Proof.
  exists [e_simple (bs "Joe") (bs "a@x")], (bs "A"), (bs "A@X"), [mkEE (Some (bs "Joe")) None (bs "a@x") []].
  split; [repeat constructor|]. split; [reflexivity|]. split; [reflexivity|]. split; [reflexivity|].
  vm_compute. discriminate.
Qed.

(* class non-utf8-identity: keys that are not UTF-8 are compared case-sensitively *)
Theorem resolve_is_git_refuted_non_utf8 :
  exists ens name email s, snapshot_new ens = Ok s
    /\ resolve s name email <> g_map_user (git_map_of ens) name email.
Proof.
  exists [e_simple (bs "Joe") (bs "A" ++ [xff])], (bs "A"), (bs "a" ++ [xff]),
         [mkEE (Some (bs "Joe")) None (bs "A" ++ [xff]) []].
  split; [reflexivity|]. vm_compute. discriminate.
Qed.

(* class non-utf8-key-in-mailmap: one non-UTF-8 key makes the vector order inconsistent
   (B < Z\xff < a by raw bytes, a < B case-folded) and the binary search for the valid key `b`
   misses the entry `B`: even the NAME differs from git's, which theorem 6 excludes for UTF-8 keys *)
Theorem resolve_is_git_refuted_mixed_order :
  exists ens name email s, is_utf8 name = true /\ is_utf8 email = true
    /\ snapshot_new ens = Ok s
    /\ fst (resolve s name email) <> fst (g_map_user (git_map_of ens) name email).
Proof.
  exists [e_simple (bs "X") (bs "B"); e_simple (bs "Y") (bs "Z" ++ [xff]); e_simple (bs "W") (bs "a")],
         (bs "n"), (bs "b"),
         [mkEE (Some (bs "X")) None (bs "B") []; mkEE (Some (bs "Y")) None (bs "Z" ++ [xff]) [];
          mkEE (Some (bs "W")) None (bs "a") []].
  split; [reflexivity|]. split; [reflexivity|].
  split; [vm_compute; reflexivity|]. vm_compute. discriminate.
Qed.

(* 9. The line parsers agree outside the parser-level known classes.  gix sees the line [l] without
      its terminator, git sees [l ++ w] where [w] is the terminator (nothing, LF, CR LF: any blanks).
      For every line of plain bytes (any byte but NUL, VT, FF and C2, E1, E2, E3, the lead bytes of
      the multi-byte Unicode white space: this excludes the classes nul-byte and
      unicode-whitespace, and also the other characters encoded with those four lead bytes) whose
      trimmed form carries none of trailing-text,
      email-edge-whitespace, empty-second-email ([line_known], judged on git's view of the line
      like prop() does): a skipped line is skipped by git; an accepted line gives git exactly the
      add_mapping arguments of the gix entry; a line gix rejects is without effect in git (nothing,
      or an entry with neither name nor email).  Lines longer than fgets' buffer are out of scope
      of a per-line statement (class line-over-1022-bytes). *)
Theorem parse_is_git_except_known :
  forall l w, all_plain l = true -> all_space w = true -> line_known (g_trim l) = false ->
    match parse_raw_line l with
    | None => g_read_line (l ++ w) = None
    | Some (Ok en) => g_read_line (l ++ w) = Some (entry_args en)
    | Some (Err _) => git_noop (g_read_line (l ++ w))
    | _ => False
    end.
Proof. exact parse_line_is_git. Qed.
Example parse_is_git_example :
  let l := bs " Joe R <n@x>  J <a@x> " in
  all_plain l = true /\ line_known (g_trim l) = false
  /\ parse_raw_line l = Some (Ok (mkEntry (Some (bs "Joe R")) (Some (bs "n@x")) (Some (bs "J")) (bs "a@x"))).
Proof. vm_compute. repeat split. Qed.
(* class trailing-text at the parser level *)
Theorem parse_is_git_refuted_trailing_text :
  exists l, all_plain l = true /\ parse_raw_line l = Some (Err Unconsumed)
    /\ g_read_line l = Some (Some (bs "Joe"), Some (bs "a@x"), None, None).
Proof. exists (bs "Joe <a@x> trailing"). vm_compute. repeat split. Qed.

(* 10. Whole files, read line by line: if every LF-terminated piece of the text is plain and outside
       the parser-level classes ([line_ok]), git's map after reading all lines and git's map built
       from the entries gix parsed answer every lookup alike (equal up to the spelling of keys and
       up to entries that map nothing, which is all map_user can see: user_equiv). *)
Theorem parse_file_is_git_except_known :
  forall text, (forall c, In c (lines_wt text) -> line_ok c) ->
    map_equiv (g_read_lines text) (git_map_of (parse_ignore_errors text)).
Proof.
  intros text H. exact (lines_equiv (lines_wt text) [] [] (map_equiv_refl []) H).
Qed.
Theorem map_user_respects_equiv :
  forall m m' n e, map_equiv m m' -> g_map_user m n e = g_map_user m' n e.
Proof. exact user_equiv. Qed.

(* 11. git's fgets(buffer,1024) pieces are the LF-terminated lines when none is over 1022 bytes *)
Theorem fgets_pieces_are_lines :
  forall text, Forall (fun c => length c <= 1022) (lines_wt text) -> fgets_chunks text = lines_wt text.
Proof. exact fgets_chunks_lines. Qed.

(* 12. The text-level statement except known: for EVERY mailmap text and identity,
       Snapshot::from_bytes(text).resolve(name, email) is what `git check-mailmap` computes
       (Spec.g_check_mailmap), provided
       - [text_clean text]: no line over 1022 bytes (class line-over-1022-bytes), every line plain
         (no NUL, VT, FF, no byte C2, E1, E2, E3: classes nul-byte, unicode-whitespace) and with
         none of trailing-text, email-edge-whitespace, empty-second-email,
       - [keys_utf8 text]: the old emails / old names gix parsed are valid UTF-8 (class
         non-utf8-key-in-mailmap); the identity is valid UTF-8 (class non-utf8-identity), and
       - no old email differs from the looked-up one in case only (class email-case-normalized). *)
Theorem resolve_text_is_git_except_known :
  forall text name email,
    text_clean text = true -> keys_utf8 text = true ->
    is_utf8 name = true -> is_utf8 email = true ->
    email_case_exact (parse_ignore_errors text) email ->
    exists s, from_bytes text = Ok s /\ resolve s name email = g_check_mailmap text name email.
Proof. exact resolve_text_clean. Qed.
Example resolve_text_example :
  let text := bs "Joe <a@x>" ++ [x0a] ++ bs " <n@x>  J <a@x> " ++ [x0d; x0a] ++ bs "# c" ++ [x0a] ++ bs "just a name" in
  text_clean text = true /\ keys_utf8 text = true
  /\ email_case_exact (parse_ignore_errors text) (bs "a@x")
  /\ g_check_mailmap text (bs "j") (bs "a@x") = (bs "j", bs "n@x").
Proof.
  cbv zeta. split; [vm_compute; reflexivity|]. split; [vm_compute; reflexivity|].
  split; [|vm_compute; reflexivity].
  intros en Hen. vm_compute in Hen. destruct Hen as [<-|[<-|[]]]; intros _; reflexivity.
Qed.
(* non-ASCII text is covered: `Ä <é@x>` followed by CR LF *)
Example resolve_text_example_utf8 :
  let text := [xc3; x84] ++ bs " <" ++ [xc3; xa9] ++ bs "@x>" ++ [x0d; x0a] in
  text_clean text = true /\ keys_utf8 text = true
  /\ g_check_mailmap text (bs "j") ([xc3; xa9] ++ bs "@x") = ([xc3; x84], [xc3; xa9] ++ bs "@x").
Proof. vm_compute. repeat split. Qed.

(* The full statement of the property, at the level of the mailmap TEXT.  It is false (theorems 8
   and six further parser-level classes, see NOTES.md); what is proved is theorems 5-7 from the
   parsed entries onwards, theorem 9 per line, and theorem 12: this statement
   under the explicit exclusion of the known classes. *)
Definition resolve_full_statement : Prop :=
  forall text name email,
    exists s, from_bytes text = Ok s /\ resolve s name email = g_check_mailmap text name email.

(* non-vacuity of the hypotheses *)
Example en_ok_example :
  Forall en_ok [mkEntry (Some (bs "Joe")) (Some (bs "n@x")) (Some (bs "J")) (bs "a@x"); e_simple (bs "A") (bs "b@x")]
  /\ email_case_exact [e_simple (bs "A") (bs "b@x")] (bs "b@x").
Proof.
  split; [repeat constructor|]. intros en [<-|[]] _. reflexivity.
Qed.
Example resolve_example :
  (let s := [mkEE (Some (bs "A")) None (bs "b@x") []] in resolve s (bs "x") (bs "b@x")) = (bs "A", bs "b@x").
Proof. vm_compute. reflexivity. Qed.
