(* C53 — whole files: the per-line agreement of the parsers composed with the refinement of the
   snapshot, giving the text-level statement outside the known classes. *)
From Coq Require Import Arith Lia List.
From GixV.Base Require Import Bytes BytesFacts Outcome.
From GixV.C53 Require Import Model Spec ProofsVec ProofsMap ProofsTop ProofsParse.
Import ListNotations.

(* git maps up to the spelling of keys and up to entries that map nothing *)
Definition ment_eq (a b : g_ment) : Prop := gm_info a = gm_info b /\ gm_names a = gm_names b.
Definition ment_empty (a : g_ment) : Prop := gm_info a = mkInfo None None /\ gm_names a = [].
Definition oment_eq (a b : option g_ment) : Prop :=
  match a, b with
  | Some x, Some y => ment_eq x y
  | None, None => True
  | Some x, None => ment_empty x
  | None, Some y => ment_empty y
  end.
Definition map_equiv (m m' : g_map) : Prop := forall t, oment_eq (g_map_get t m) (g_map_get t m').

Lemma oment_refl a : oment_eq a a.
Proof. destruct a; cbn; [split; reflexivity|exact I]. Qed.
Lemma oment_trans a b c : oment_eq a b -> oment_eq b c -> oment_eq a c.
Proof.
  unfold oment_eq, ment_eq, ment_empty. destruct a, b, c; intros H1 H2; try exact I;
    destruct H1; destruct H2; split; congruence.
Qed.
Lemma map_equiv_refl m : map_equiv m m.
Proof. intros t. apply oment_refl. Qed.
Lemma map_equiv_trans a b c : map_equiv a b -> map_equiv b c -> map_equiv a c.
Proof. intros H1 H2 t. eapply oment_trans; [apply H1|apply H2]. Qed.

Lemma g_map_get_congr a b m : keqb a b = true -> g_map_get a m = g_map_get b m.
Proof.
  intros H. apply keqb_true in H. induction m as [|me r IH]; [reflexivity|].
  cbn [g_map_get]. change g_caseeq with keqb.
  rewrite (keqb_sym (gm_key me) a), (keqb_sym (gm_key me) b), (keqb_congr a b _ H), IH. reflexivity.
Qed.

Lemma apply_eq x y a b c : ment_eq x y -> ment_eq (g_apply x a b c) (g_apply y a b c).
Proof.
  intros [H1 H2]. unfold g_apply, ment_eq. destruct c; cbn [gm_info gm_names]; rewrite H1, H2; split; reflexivity.
Qed.

Lemma put_equiv m m' k a b c :
  map_equiv m m' -> map_equiv (g_map_put k a b c m) (g_map_put k a b c m').
Proof.
  intros H t. rewrite !g_map_get_put. destruct (keqb k t); [|apply H].
  cbn [oment_eq]. apply apply_eq. specialize (H k).
  destruct (g_map_get k m) as [x|], (g_map_get k m') as [y|]; cbn [oment_eq] in H.
  - exact H.
  - destruct H as [H1 H2]. split; [rewrite H1|rewrite H2]; reflexivity.
  - destruct H as [H1 H2]. split; [rewrite H1|rewrite H2]; reflexivity.
  - split; reflexivity.
Qed.

Lemma noop_equiv m e : map_equiv (g_map_put e None None None m) m.
Proof.
  intros t. rewrite g_map_get_put. destruct (keqb e t) eqn:E; [|apply oment_refl].
  rewrite <- (g_map_get_congr e t m E).
  destruct (g_map_get e m) as [x|]; cbn [oment_eq].
  - unfold g_apply, ment_eq. cbn [gm_info gm_names]. split; [destruct (gm_info x); reflexivity|reflexivity].
  - split; reflexivity.
Qed.

Lemma user_equiv m m' n e : map_equiv m m' -> g_map_user m n e = g_map_user m' n e.
Proof.
  intros H. specialize (H e). unfold g_map_user.
  destruct (g_map_get e m) as [x|], (g_map_get e m') as [y|]; cbn [oment_eq] in H.
  - destruct H as [H1 H2]. rewrite H1, H2. reflexivity.
  - destruct H as [H1 H2]. rewrite H1, H2. reflexivity.
  - destruct H as [H1 H2]. rewrite H1, H2. reflexivity.
  - reflexivity.
Qed.

(* git reading the file line by line (LF-terminated pieces) *)
Definition g_step (m : g_map) (c : bytes) : g_map :=
  match g_read_line c with Some a => g_add_mapping m a | None => m end.
Definition g_read_lines (text : bytes) : g_map := fold_left g_step (lines_wt text) [].

Lemma lf_space b : isb b 10 = true -> g_isspace b = true.
Proof. unfold g_isspace. change (g_isb b 10) with (isb b 10). intros ->. apply orb_true_iff. left. apply orb_true_r. Qed.
Lemma cr_space b : isb b 13 = true -> g_isspace b = true.
Proof. unfold g_isspace. change (g_isb b 13) with (isb b 13). intros ->. apply orb_true_r. Qed.

Lemma tlt_split c : exists w, all_space w = true /\ c = trim_last_terminator c ++ w.
Proof.
  unfold trim_last_terminator. destruct (rev c) as [|b r] eqn:E.
  - exists []. rewrite app_nil_r. split; reflexivity.
  - apply (f_equal (@rev byte)) in E. rewrite rev_involutive in E. cbn [rev] in E.
    destruct (isb b 10) eqn:Eb.
    + destruct r as [|c2 r'].
      * exists [b]. split; [cbn [all_space forallb]; rewrite (lf_space b Eb); reflexivity|exact E].
      * destruct (isb c2 13) eqn:Ec.
        -- exists [c2; b]. split.
           ++ cbn [all_space forallb]. rewrite (lf_space b Eb), (cr_space c2 Ec). reflexivity.
           ++ rewrite E. cbn [rev]. rewrite <- app_assoc. reflexivity.
        -- exists [b]. split; [cbn [all_space forallb]; rewrite (lf_space b Eb); reflexivity|exact E].
    + exists []. rewrite app_nil_r. split; reflexivity.
Qed.

Definition line_ok (c : bytes) : Prop :=
  all_plain c = true /\ line_known (g_trim (trim_last_terminator c)) = false.

Lemma lines_equiv : forall cs m m', map_equiv m m' -> (forall c, In c cs -> line_ok c) ->
  map_equiv (fold_left g_step cs m)
            (fold_left g_put_entry (oks (filter_some (map parse_raw_line (map trim_last_terminator cs)))) m').
Proof.
  induction cs as [|c cs IH]; intros m m' H Hok; [exact H|].
  destruct (Hok c (or_introl eq_refl)) as [Hp Hk].
  assert (Hok' : forall c0, In c0 cs -> line_ok c0) by (intros c0 Hc; apply Hok; right; exact Hc).
  destruct (tlt_split c) as (w & Hw & Ec).
  assert (Hpl : all_plain (trim_last_terminator c) = true).
  { rewrite Ec, all_plain_app in Hp. apply andb_prop in Hp. apply Hp. }
  pose proof (parse_line_is_git (trim_last_terminator c) w Hpl Hw Hk) as P. rewrite <- Ec in P.
  cbn [map filter_some fold_left]. unfold g_step at 2.
  destruct (parse_raw_line (trim_last_terminator c)) as [[en|e| |]|]; cbn [filter_some oks fold_left].
  - rewrite P, add_mapping_entry. apply IH; [|exact Hok']. unfold g_put_entry. apply put_equiv, H.
  - destruct P as [P|(e0 & P)]; rewrite P.
    + apply IH; assumption.
    + apply IH; [|exact Hok']. cbn [g_add_mapping].
      eapply map_equiv_trans; [apply noop_equiv|exact H].
  - contradiction.
  - contradiction.
  - rewrite P. apply IH; assumption.
Qed.

Lemma resolve_text_lines text name email :
  (forall c, In c (lines_wt text) -> line_ok c) ->
  Forall en_ok (parse_ignore_errors text) ->
  is_utf8 name = true -> is_utf8 email = true ->
  email_case_exact (parse_ignore_errors text) email ->
  exists s, from_bytes text = Ok s /\ resolve s name email = g_map_user (g_read_lines text) name email.
Proof.
  intros Hl Hok Un Ue Hx.
  destruct (resolve_is_git _ name email Hok Un Ue Hx) as (s & E & R).
  exists s. split; [exact E|]. rewrite R. symmetry. apply user_equiv.
  apply (lines_equiv (lines_wt text) [] [] (map_equiv_refl []) Hl).
Qed.

(* ... and in terms of Spec.g_read_mailmap, when fgets' pieces are the lines *)
Lemma cstr_plain : forall s, all_plain s = true -> cstr s = s.
Proof.
  induction s as [|b r IH]; [reflexivity|]. cbn [all_plain forallb cstr]. intros H.
  apply andb_prop in H. destruct H as [Hb Hr]. rewrite (IH Hr).
  pose proof (forall_bytes (fun b => implb (plain b) (negb (g_isb b 0))) ltac:(vm_compute; reflexivity) b) as F.
  cbv beta in F. rewrite Hb in F. cbn [implb] in F. destruct (g_isb b 0); [discriminate|reflexivity].
Qed.
Lemma fold_left_ext_in {A B} (f g : A -> B -> A) : forall l a,
  (forall a b, In b l -> f a b = g a b) -> fold_left f l a = fold_left g l a.
Proof.
  induction l as [|b l IH]; intros a H; [reflexivity|]. cbn [fold_left].
  rewrite (H a b (or_introl eq_refl)). apply IH. intros a' b' Hb. apply H. right. exact Hb.
Qed.

Lemma resolve_text text name email :
  fgets_chunks text = lines_wt text ->
  (forall c, In c (lines_wt text) -> line_ok c) ->
  Forall en_ok (parse_ignore_errors text) ->
  is_utf8 name = true -> is_utf8 email = true ->
  email_case_exact (parse_ignore_errors text) email ->
  exists s, from_bytes text = Ok s /\ resolve s name email = g_check_mailmap text name email.
Proof.
  intros Hf Hl Hok Un Ue Hx.
  destruct (resolve_text_lines text name email Hl Hok Un Ue Hx) as (s & E & R).
  exists s. split; [exact E|]. rewrite R. unfold g_check_mailmap, g_read_mailmap, g_read_lines.
  rewrite Hf. f_equal. apply fold_left_ext_in. intros m c Hc. unfold g_step.
  rewrite (cstr_plain c (proj1 (Hl c Hc))). reflexivity.
Qed.
