(* C53 — the line parsers: gix parse_line vs git read_mailmap_line on one already-trimmed line of
   "plain" bytes (any byte but NUL, VT, FF and the lead bytes C2, E1, E2, E3 of the multi-byte
   Unicode white space), outside the parser-level known classes. *)
From Coq Require Import Arith Lia List.
From GixV.Base Require Import Bytes BytesFacts Outcome.
From GixV.C53 Require Import Model Spec ProofsTop.
Import ListNotations.
Local Open Scope N_scope.

Definition plain (b : byte) : bool :=
  negb (isb b 0) && negb (isb b 11) && negb (isb b 12)
  && negb (isb b 194) && negb (isb b 225) && negb (isb b 226) && negb (isb b 227).
Definition all_plain (s : bytes) : bool := forallb plain s.

(* ---- byte-level facts, exhaustively *)
Lemma plain_ws1 : forall b, plain b = true -> ws1 b = g_isspace b.
Proof.
  intros b H. pose proof (forall_bytes (fun b => implb (plain b) (Bool.eqb (ws1 b) (g_isspace b)))
                            ltac:(vm_compute; reflexivity) b) as F.
  cbv beta in F. rewrite H in F. cbn [implb] in F. apply Bool.eqb_prop in F. exact F.
Qed.
Lemma plain_not_lead : forall b, plain b = true ->
  isb b 194 = false /\ isb b 225 = false /\ isb b 226 = false /\ isb b 227 = false.
Proof.
  intros b H.
  pose proof (forall_bytes (fun b => implb (plain b)
                 (negb (isb b 194) && negb (isb b 225) && negb (isb b 226) && negb (isb b 227)))
                 ltac:(vm_compute; reflexivity) b) as F.
  cbv beta in F. rewrite H in F. cbn [implb] in F.
  destruct (isb b 194), (isb b 225), (isb b 226), (isb b 227); try discriminate. repeat split.
Qed.
Lemma ws2_plain a b : plain a = true -> ws2 a b = false.
Proof. intros H. destruct (plain_not_lead a H) as (H1 & _). unfold ws2. rewrite H1. reflexivity. Qed.
Lemma ws3_plain a b c : plain a = true -> ws3 a b c = false.
Proof.
  intros H. destruct (plain_not_lead a H) as (_ & H1 & H2 & H3). unfold ws3. rewrite H1, H2, H3. reflexivity.
Qed.
Lemma find_lt_eq : forall s, find_byte x3c s = g_find 60 s.
Proof.
  induction s as [|b r IH]; [reflexivity|]. cbn [find_byte g_find]. rewrite IH.
  replace (beqb b x3c) with (g_isb b 60); [reflexivity|].
  pose proof (forall_bytes (fun b => Bool.eqb (g_isb b 60) (beqb b x3c)) ltac:(vm_compute; reflexivity) b) as F.
  apply Bool.eqb_prop in F. exact F.
Qed.
Lemma find_gt_eq : forall s, find_byte x3e s = g_find 62 s.
Proof.
  induction s as [|b r IH]; [reflexivity|]. cbn [find_byte g_find]. rewrite IH.
  replace (beqb b x3e) with (g_isb b 62); [reflexivity|].
  pose proof (forall_bytes (fun b => Bool.eqb (g_isb b 62) (beqb b x3e)) ltac:(vm_compute; reflexivity) b) as F.
  apply Bool.eqb_prop in F. exact F.
Qed.

(* ---- on plain bytes bstr's trim is git's isspace trim *)
Lemma trim_start_plain : forall s, all_plain s = true -> trim_start s = g_ltrim s.
Proof.
  induction s as [|a r IH]; [reflexivity|]. cbn [all_plain forallb]. intros H.
  apply andb_prop in H. destruct H as [Ha Hr]. cbn [trim_start g_ltrim].
  rewrite (plain_ws1 a Ha). destruct (g_isspace a); [apply IH; exact Hr|].
  destruct r as [|b r2]; [reflexivity|]. rewrite (ws2_plain a b Ha).
  destruct r2 as [|c r3]; [reflexivity|]. rewrite (ws3_plain a b c Ha). reflexivity.
Qed.
Lemma trim_start_rev_plain : forall s, all_plain s = true -> trim_start_rev s = g_ltrim s.
Proof.
  induction s as [|a r IH]; [reflexivity|]. cbn [all_plain forallb]. intros H.
  apply andb_prop in H. destruct H as [Ha Hr]. cbn [trim_start_rev g_ltrim].
  rewrite (plain_ws1 a Ha). destruct (g_isspace a); [apply IH; exact Hr|].
  destruct r as [|b r2]; [reflexivity|].
  cbn [all_plain forallb] in Hr. apply andb_prop in Hr. destruct Hr as [Hb Hr2].
  rewrite (ws2_plain b a Hb).
  destruct r2 as [|c r3]; [reflexivity|].
  cbn [forallb] in Hr2. apply andb_prop in Hr2. destruct Hr2 as [Hc _].
  rewrite (ws3_plain c b a Hc). reflexivity.
Qed.

Lemma all_plain_app a b : all_plain (a ++ b) = all_plain a && all_plain b.
Proof. apply forallb_app. Qed.
Lemma all_plain_rev s : all_plain (rev s) = all_plain s.
Proof.
  induction s as [|a r IH]; [reflexivity|]. cbn [rev]. rewrite all_plain_app, IH.
  cbn [all_plain forallb]. rewrite andb_true_r. apply andb_comm.
Qed.
Lemma g_ltrim_plain : forall s, all_plain s = true -> all_plain (g_ltrim s) = true.
Proof.
  induction s as [|a r IH]; [reflexivity|]. intros H. cbn [g_ltrim].
  destruct (g_isspace a); [|exact H]. cbn [all_plain forallb] in H. apply andb_prop in H. apply IH, H.
Qed.
Lemma trim_plain s : all_plain s = true -> trim s = g_trim s.
Proof.
  intros H. unfold trim, trim_end, g_trim. rewrite (trim_start_plain s H).
  rewrite trim_start_rev_plain; [reflexivity|]. rewrite all_plain_rev. apply g_ltrim_plain, H.
Qed.
Lemma all_plain_firstn n s : all_plain s = true -> all_plain (firstn n s) = true.
Proof.
  intros H. rewrite <- (firstn_skipn n s), all_plain_app in H. apply andb_prop in H. apply H.
Qed.
Lemma all_plain_skipn n s : all_plain s = true -> all_plain (skipn n s) = true.
Proof.
  intros H. rewrite <- (firstn_skipn n s), all_plain_app in H. apply andb_prop in H. apply H.
Qed.

(* ---- both parse_name_and_email's in one shape *)
Lemma skipn_skipn' {A} : forall b a (l : list A), skipn a (skipn b l) = skipn (b + a) l.
Proof.
  induction b as [|b IH]; intros a l; [reflexivity|].
  destruct l as [|x l]; [rewrite !skipn_nil; reflexivity|]. cbn [skipn Nat.add]. apply IH.
Qed.

Definition pne_shape (s : bytes) : outcome (option bytes * option bytes * bytes) perr :=
  match g_find 60 s with
  | None => Ok (None, None, s)
  | Some sb =>
      let after := skipn (S sb) s in
      match g_find 62 after with
      | None => Err Malformed
      | Some cb =>
          let em := g_trim (firstn cb after) in
          if is_empty em then Err Malformed
          else Ok (nonempty_opt (g_trim (firstn sb s)), Some em, skipn (S cb) after)
      end
  end.

Lemma pne_eq s : all_plain s = true -> parse_name_and_email s = pne_shape s.
Proof.
  intros H. unfold parse_name_and_email, pne_shape. rewrite find_lt_eq.
  destruct (g_find 60 s) as [sb|]; [|reflexivity].
  rewrite find_gt_eq. destruct (g_find 62 (skipn (S sb) s)) as [cb|]; [|reflexivity].
  rewrite (trim_plain (firstn cb (skipn (S sb) s)))
    by (apply all_plain_firstn, all_plain_skipn, H).
  rewrite (trim_plain (firstn sb s)) by (apply all_plain_firstn, H).
  rewrite skipn_skipn'. replace (S sb + S cb)%nat with (sb + cb + 2)%nat by lia. reflexivity.
Qed.

(* ---- helper predicates of the known classes (as in the harness) *)
Definition head_space (s : bytes) : bool := match s with [] => false | b :: _ => g_isspace b end.
Definition edge_space (s : bytes) : bool := head_space s || head_space (rev s).
Definition all_space (s : bytes) : bool := forallb g_isspace s.

Lemma g_ltrim_head s : head_space s = false -> g_ltrim s = s.
Proof. destruct s as [|b r]; [reflexivity|]. cbn [head_space g_ltrim]. intros ->. reflexivity. Qed.
Lemma g_trim_noedge s : edge_space s = false -> g_trim s = s.
Proof.
  unfold edge_space. intros H. apply orb_false_elim in H. destruct H as [H1 H2].
  unfold g_trim. rewrite (g_ltrim_head s H1), (g_ltrim_head (rev s) H2). apply rev_involutive.
Qed.
Lemma g_ltrim_all_space : forall s, all_space s = true -> g_ltrim s = [].
Proof.
  induction s as [|b r IH]; [reflexivity|]. cbn [all_space forallb g_ltrim]. intros H.
  apply andb_prop in H. destruct H as [Hb Hr]. rewrite Hb. apply IH, Hr.
Qed.
Lemma g_trim_all_space s : all_space s = true -> g_trim s = [].
Proof. intros H. unfold g_trim. rewrite (g_ltrim_all_space s H). reflexivity. Qed.
Lemma all_space_no_lt : forall s, all_space s = true -> g_find 60 s = None.
Proof.
  induction s as [|b r IH]; [reflexivity|]. cbn [all_space forallb g_find]. intros H.
  apply andb_prop in H. destruct H as [Hb Hr]. rewrite (IH Hr).
  pose proof (forall_bytes (fun b => implb (g_isspace b) (negb (g_isb b 60))) ltac:(vm_compute; reflexivity) b) as F.
  cbv beta in F. rewrite Hb in F. cbn [implb] in F. destruct (g_isb b 60); [discriminate|reflexivity].
Qed.

(* the line carries one of the parser-level known classes trailing-text, email-edge-whitespace,
   empty-second-email (judged on git's view of the line, like prop() does) *)
Definition tail_known (r : bytes) : bool :=
  match g_parse_ne r true with
  | (_, Some e2, rest2) =>
      edge_space e2 || is_empty e2
      || match rest2 with Some t => negb (all_space t) | None => false end
  | (_, None, _) => negb (all_space r)
  end.
Definition line_known (l : bytes) : bool :=
  match g_parse_ne l false with
  | (_, Some e1, rest) =>
      edge_space e1 || match rest with None => false | Some r => tail_known r end
  | _ => false
  end.

(* read_mailmap_line without the comment test *)
Definition g_core (buffer : bytes) : option g_args :=
  match g_parse_ne buffer false with
  | (name1, Some email1, Some rest) =>
      let '(name2, email2, _) := g_parse_ne rest true in Some (name1, Some email1, name2, email2)
  | (name1, Some email1, None) => Some (name1, Some email1, None, None)
  | _ => None
  end.
Lemma g_read_line_core b r : g_read_line (b :: r) = if g_isb b 35 then None else g_core (b :: r).
Proof. reflexivity. Qed.

(* git's line has no effect on any lookup: nothing, or an entry without name and email *)
Definition git_noop (o : option g_args) : Prop :=
  o = None \/ exists e, o = Some (None, Some e, None, None).

Lemma g_find_lt c : forall s n, g_find c s = Some n -> (n < length s)%nat.
Proof.
  induction s as [|b r IH]; intros n; cbn [g_find]; [discriminate|].
  destruct (g_isb b c); [intros H; injection H as <-; cbn [length]; lia|].
  destruct (g_find c r) as [m|]; [|discriminate]. cbn [option_map]. intros H. injection H as <-.
  cbn [length]. specialize (IH m eq_refl). lia.
Qed.

Lemma firstn_nonempty {A} n (s : list A) : n <> O -> (n < length s)%nat -> firstn n s <> [].
Proof. intros Hn Hl E. apply (f_equal (@length A)) in E. rewrite firstn_length in E. cbn [length] in E. lia. Qed.

Lemma is_empty_false {A} (s : list A) : s <> [] -> match s with [] => true | _ => false end = false.
Proof. destruct s; [contradiction|reflexivity]. Qed.

(* the common ending: only blanks remain after the first pair *)
Lemma finish_simple (nm e1 : bytes) :
  e1 <> [] ->
  match
    match nonempty_opt nm, Some e1, @None bytes, @None bytes with
    | Some pn, Some ce, None, None => Ok (mkEntry (Some pn) None None ce)
    | None, Some pe, None, Some ce => Ok (mkEntry None (Some pe) None ce)
    | Some pn, Some pe, None, Some ce => Ok (mkEntry (Some pn) (Some pe) None ce)
    | Some pn, Some pe, Some cn, Some ce => Ok (mkEntry (Some pn) (Some pe) (Some cn) ce)
    | None, Some pe, Some cn, Some ce => Ok (mkEntry None (Some pe) (Some cn) ce)
    | _, _, _, _ => @Err entry perr Malformed
    end
  with
  | Ok en => Some (match nm with [] => None | _ => Some nm end, Some e1, @None bytes, @None bytes) = Some (entry_args en)
  | Err _ => git_noop (Some (match nm with [] => None | _ => Some nm end, Some e1, None, None))
  | _ => False
  end.
Proof.
  intros _. destruct nm as [|x nm]; cbn [nonempty_opt is_empty].
  - right. exists e1. reflexivity.
  - reflexivity.
Qed.

Lemma parse_line_core l :
  all_plain l = true -> edge_space l = false -> l <> [] -> line_known l = false ->
  match parse_line l with
  | Ok en => g_core l = Some (entry_args en)
  | Err _ => git_noop (g_core l)
  | _ => False
  end.
Proof.
  intros Hp He Hn Hk.
  remember (g_core l) as G eqn:EG.
  unfold parse_line. rewrite (pne_eq l Hp).
  unfold g_core in EG. unfold line_known in Hk.
  unfold g_parse_ne at 1 in EG. unfold g_parse_ne at 1 in Hk. unfold pne_shape at 1.
  destruct (g_find 60 l) as [sb|] eqn:E1.
  2:{ rewrite (pne_eq l Hp). unfold pne_shape. rewrite E1.
      rewrite (trim_plain l Hp), (g_trim_noedge l He).
      destruct l; [contradiction|]. cbn [is_empty negb]. left. exact EG. }
  cbv zeta in *. set (after := skipn (S sb) l) in *.
  assert (Hpa : all_plain after = true) by (apply all_plain_skipn, Hp).
  destruct (g_find 62 after) as [cb|] eqn:E2; [|left; exact EG].
  cbn [negb andb] in *.
  destruct (Nat.eqb cb 0) eqn:E0.
  { apply Nat.eqb_eq in E0. subst cb. cbn [firstn]. change (g_trim []) with (@nil byte).
    cbn [is_empty]. left. exact EG. }
  apply Nat.eqb_neq in E0. pose proof (g_find_lt _ _ _ E2) as Hlt.
  set (e1 := firstn cb after) in *.
  assert (He1 : e1 <> []) by (apply firstn_nonempty; assumption).
  apply orb_false_elim in Hk. destruct Hk as [Hk1 Hk2].
  rewrite (g_trim_noedge e1 Hk1). unfold is_empty at 1. rewrite (is_empty_false e1 He1).
  set (nm := g_trim (firstn sb l)) in *.
  set (rest := skipn (S cb) after) in *.
  assert (Hpr : all_plain rest = true) by (apply all_plain_skipn, Hpa).
  clearbody rest nm. clear Hlt E2.
  rewrite (pne_eq rest Hpr).
  destruct rest as [|rb rr].
  { cbn [pne_shape g_find]. change (trim []) with (@nil byte). cbn [is_empty negb].
    subst G. apply finish_simple. exact He1. }
  set (rest := rb :: rr) in *.
  unfold tail_known in Hk2.
  assert (EP : g_parse_ne rest true =
               match g_find 60 rest with
               | None => (None, None, None)
               | Some sb2 =>
                   match g_find 62 (skipn (S sb2) rest) with
                   | None => (None, None, None)
                   | Some cb2 =>
                       (match g_trim (firstn sb2 rest) with [] => None | x :: y => Some (g_trim (firstn sb2 rest)) end,
                        Some (firstn cb2 (skipn (S sb2) rest)),
                        match skipn (S cb2) (skipn (S sb2) rest) with
                        | [] => None | x :: y => Some (skipn (S cb2) (skipn (S sb2) rest)) end)
                   end
               end).
  { unfold g_parse_ne. destruct (g_find 60 rest); [|reflexivity].
    destruct (g_find 62 (skipn (S n) rest)); reflexivity. }
  rewrite EP in EG, Hk2. clear EP. unfold pne_shape.
  destruct (g_find 60 rest) as [sb2|] eqn:E3.
  2:{ apply negb_false_iff in Hk2.
      rewrite (trim_plain rest Hpr), (g_trim_all_space rest Hk2). cbn [is_empty negb].
      subst G. apply finish_simple. exact He1. }
  cbv zeta in *. set (after2 := skipn (S sb2) rest) in *.
  assert (Hpa2 : all_plain after2 = true) by (apply all_plain_skipn, Hpr).
  destruct (g_find 62 after2) as [cb2|] eqn:E4.
  2:{ apply negb_false_iff in Hk2. rewrite (all_space_no_lt rest Hk2) in E3. discriminate. }
  set (e2 := firstn cb2 after2) in *. set (rest2 := skipn (S cb2) after2) in *.
  assert (Hp2 : all_plain rest2 = true) by (apply all_plain_skipn, Hpa2).
  apply orb_false_elim in Hk2. destruct Hk2 as [Hk2 Hk5].
  apply orb_false_elim in Hk2. destruct Hk2 as [Hk3 Hk4].
  rewrite (g_trim_noedge e2 Hk3). rewrite Hk4.
  assert (Ht : trim rest2 = []).
  { rewrite (trim_plain rest2 Hp2). clearbody rest2.
    destruct rest2 as [|x y]; [reflexivity|].
    apply negb_false_iff in Hk5. apply g_trim_all_space, Hk5. }
  rewrite Ht. cbn [is_empty negb].
  set (nm2 := g_trim (firstn sb2 rest)) in *. clearbody nm2 rest2.
  subst G.
  destruct nm as [|x nm'], nm2 as [|y nm2'], rest2; cbn [nonempty_opt is_empty]; reflexivity.
Qed.

(* ---- the trimmed line: Lines::next vs read_mailmap_line *)
Lemma parse_raw_line_trimmed l :
  all_plain l = true -> edge_space l = false -> l <> [] -> line_known l = false ->
  match parse_raw_line l with
  | None => g_read_line l = None
  | Some (Ok en) => g_read_line l = Some (entry_args en)
  | Some (Err _) => git_noop (g_read_line l)
  | _ => False
  end.
Proof.
  intros Hp He Hn Hk. pose proof (parse_line_core l Hp He Hn Hk) as H.
  destruct l as [|b r]; [contradiction|]. rewrite g_read_line_core. unfold parse_raw_line.
  change (isb b 35) with (g_isb b 35). destruct (g_isb b 35); [reflexivity|].
  rewrite (trim_plain _ Hp), (g_trim_noedge _ He). cbn [is_empty]. exact H.
Qed.

(* ---- blanks around the line do not matter to git *)
Lemma g_trim_cons_space b y : g_isspace b = true -> g_trim (b :: y) = g_trim y.
Proof. intros H. unfold g_trim. cbn [g_ltrim]. rewrite H. reflexivity. Qed.

Lemma space_not_lt b : g_isspace b = true -> g_isb b 60 = false.
Proof.
  intros Hb.
  pose proof (forall_bytes (fun b => implb (g_isspace b) (negb (g_isb b 60))) ltac:(vm_compute; reflexivity) b) as F.
  cbv beta in F. rewrite Hb in F. cbn [implb] in F. destruct (g_isb b 60); [discriminate|reflexivity].
Qed.
Lemma space_not_gt b : g_isspace b = true -> g_isb b 62 = false.
Proof.
  intros Hb.
  pose proof (forall_bytes (fun b => implb (g_isspace b) (negb (g_isb b 62))) ltac:(vm_compute; reflexivity) b) as F.
  cbv beta in F. rewrite Hb in F. cbn [implb] in F. destruct (g_isb b 62); [discriminate|reflexivity].
Qed.
Lemma all_space_no_gt : forall s, all_space s = true -> g_find 62 s = None.
Proof.
  induction s as [|b r IH]; [reflexivity|]. cbn [all_space forallb g_find]. intros H.
  apply andb_prop in H. destruct H as [Hb Hr]. rewrite (IH Hr), (space_not_gt b Hb). reflexivity.
Qed.

Lemma g_parse_ne_cons_space b x a : g_isspace b = true ->
  g_parse_ne (b :: x) a = g_parse_ne x a.
Proof.
  intros Hb. unfold g_parse_ne. cbn [g_find]. rewrite (space_not_lt b Hb).
  destruct (g_find 60 x) as [sb|]; cbn [option_map]; [|reflexivity].
  cbn [skipn firstn]. rewrite (g_trim_cons_space b _ Hb). reflexivity.
Qed.
Lemma g_core_lead_space : forall w x, all_space w = true -> g_core (w ++ x) = g_core x.
Proof.
  induction w as [|b w IH]; intros x H; [reflexivity|].
  cbn [all_space forallb] in H. apply andb_prop in H. destruct H as [Hb Hw].
  cbn [app]. unfold g_core at 1. rewrite (g_parse_ne_cons_space b _ false Hb).
  fold (g_core (w ++ x)). apply IH, Hw.
Qed.

Lemma g_find_app_none c w : g_find c w = None -> forall r, g_find c (r ++ w) = g_find c r.
Proof.
  intros Hw. induction r as [|b r IH]; [exact Hw|]. cbn [app g_find]. rewrite IH. reflexivity.
Qed.
Lemma firstn_app_le {A} n (a b : list A) : (n <= length a)%nat -> firstn n (a ++ b) = firstn n a.
Proof.
  intros H. rewrite firstn_app. replace (n - length a)%nat with O by lia. cbn [firstn]. apply app_nil_r.
Qed.
Lemma skipn_app_le {A} n (a b : list A) : (n <= length a)%nat -> skipn n (a ++ b) = skipn n a ++ b.
Proof.
  intros H. rewrite skipn_app. replace (n - length a)%nat with O by lia. reflexivity.
Qed.

Definition tail_opt (rst : option bytes) (w : bytes) : option bytes :=
  match rst with
  | Some t => Some (t ++ w)
  | None => match w with [] => None | _ => Some w end
  end.

Lemma g_parse_ne_trail r w a : all_space w = true ->
  g_parse_ne (r ++ w) a =
  match g_parse_ne r a with
  | (n, Some e, rst) => (n, Some e, tail_opt rst w)
  | (_, None, _) => (None, None, None)
  end.
Proof.
  intros Hw. unfold g_parse_ne.
  rewrite (g_find_app_none 60 w (all_space_no_lt w Hw) r).
  destruct (g_find 60 r) as [lft|] eqn:E1; [|reflexivity].
  pose proof (g_find_lt _ _ _ E1) as H1.
  rewrite (skipn_app_le (S lft) r w) by lia. rewrite (firstn_app_le lft r w) by lia.
  set (after := skipn (S lft) r).
  rewrite (g_find_app_none 62 w (all_space_no_gt w Hw) after).
  destruct (g_find 62 after) as [rlen|] eqn:E2; [|reflexivity].
  pose proof (g_find_lt _ _ _ E2) as H2.
  destruct (negb a && Nat.eqb rlen 0); [reflexivity|].
  rewrite (skipn_app_le (S rlen) after w) by lia. rewrite (firstn_app_le rlen after w) by lia.
  f_equal. unfold tail_opt. destruct (skipn (S rlen) after) as [|x y]; [|reflexivity].
  cbn [app]. destruct w; reflexivity.
Qed.

Lemma g_parse_ne_no_email r a n rst : g_parse_ne r a = (n, None, rst) -> n = None /\ rst = None.
Proof.
  unfold g_parse_ne. destruct (g_find 60 r); [|intros H; injection H as <- <-; split; reflexivity].
  destruct (g_find 62 (skipn (S n0) r)); [|intros H; injection H as <- <-; split; reflexivity].
  destruct (negb a && Nat.eqb n1 0); [intros H; injection H as <- <-; split; reflexivity|discriminate].
Qed.

Lemma g_core_trail_space x w : all_space w = true -> g_core (x ++ w) = g_core x.
Proof.
  intros Hw. unfold g_core. rewrite (g_parse_ne_trail x w false Hw).
  destruct (g_parse_ne x false) as [[n [e|]] rst]; [|reflexivity].
  destruct rst as [t|]; cbn [tail_opt].
  - rewrite (g_parse_ne_trail t w true Hw).
    destruct (g_parse_ne t true) as [[n2 [e2|]] rst2] eqn:E; [reflexivity|].
    destruct (g_parse_ne_no_email _ _ _ _ E) as [-> _]. reflexivity.
  - destruct w as [|b w']; [reflexivity|].
    unfold g_parse_ne. rewrite (all_space_no_lt _ Hw). reflexivity.
Qed.

Lemma all_space_rev s : all_space (rev s) = all_space s.
Proof.
  induction s as [|a r IH]; [reflexivity|]. cbn [rev]. unfold all_space in *.
  rewrite forallb_app, IH. cbn [forallb]. rewrite andb_true_r. apply andb_comm.
Qed.
Lemma g_ltrim_split : forall s, exists w, all_space w = true /\ s = w ++ g_ltrim s.
Proof.
  induction s as [|b r (w & Hw & E)]; [exists []; split; reflexivity|].
  cbn [g_ltrim]. destruct (g_isspace b) eqn:Hb.
  - exists (b :: w). split; [cbn [all_space forallb]; rewrite Hb; exact Hw|].
    cbn [app]. f_equal. exact E.
  - exists []. split; reflexivity.
Qed.
Lemma g_trim_split s : exists w1 w2, all_space w1 = true /\ all_space w2 = true /\ s = w1 ++ g_trim s ++ w2.
Proof.
  destruct (g_ltrim_split s) as (w1 & H1 & E1).
  destruct (g_ltrim_split (rev (g_ltrim s))) as (w2 & H2 & E2).
  exists w1, (rev w2). split; [exact H1|]. split; [rewrite all_space_rev; exact H2|].
  unfold g_trim. rewrite <- rev_app_distr, <- E2, rev_involutive. exact E1.
Qed.
Lemma g_core_trim s : g_core s = g_core (g_trim s).
Proof.
  destruct (g_trim_split s) as (w1 & w2 & H1 & H2 & E). rewrite E at 1.
  rewrite (g_core_lead_space w1 _ H1). apply g_core_trail_space, H2.
Qed.

Lemma head_space_ltrim : forall s, head_space (g_ltrim s) = false.
Proof.
  induction s as [|b r IH]; [reflexivity|]. cbn [g_ltrim]. destruct (g_isspace b) eqn:E; [exact IH|].
  cbn [head_space]. exact E.
Qed.
Lemma edge_space_g_trim s : edge_space (g_trim s) = false.
Proof.
  unfold edge_space. apply orb_false_intro.
  - destruct (g_ltrim_split (rev (g_ltrim s))) as (w2 & H2 & E2).
    apply (f_equal (@rev byte)) in E2. rewrite rev_involutive, rev_app_distr in E2.
    fold (g_trim s) in E2. pose proof (head_space_ltrim s) as H. rewrite E2 in H.
    destruct (g_trim s) as [|x T]; [reflexivity|]. exact H.
  - unfold g_trim. rewrite rev_involutive. apply head_space_ltrim.
Qed.
Lemma all_plain_g_trim s : all_plain s = true -> all_plain (g_trim s) = true.
Proof.
  intros H. unfold g_trim. rewrite all_plain_rev. apply g_ltrim_plain.
  rewrite all_plain_rev. apply g_ltrim_plain, H.
Qed.
Lemma space_not_hash b : g_isspace b = true -> g_isb b 35 = false.
Proof.
  intros Hb.
  pose proof (forall_bytes (fun b => implb (g_isspace b) (negb (g_isb b 35))) ltac:(vm_compute; reflexivity) b) as F.
  cbv beta in F. rewrite Hb in F. cbn [implb] in F. destruct (g_isb b 35); [discriminate|reflexivity].
Qed.
Lemma g_core_all_space w : all_space w = true -> g_core w = None.
Proof. intros H. unfold g_core, g_parse_ne. rewrite (all_space_no_lt w H). reflexivity. Qed.

(* One line: gix sees [l] (the line without its terminator), git sees [l ++ w] where [w] is the
   terminator (nothing, LF or CR LF — any blanks). *)
Lemma parse_line_is_git l w :
  all_plain l = true -> all_space w = true -> line_known (g_trim l) = false ->
  match parse_raw_line l with
  | None => g_read_line (l ++ w) = None
  | Some (Ok en) => g_read_line (l ++ w) = Some (entry_args en)
  | Some (Err _) => git_noop (g_read_line (l ++ w))
  | _ => False
  end.
Proof.
  intros Hp Hw Hk. destruct l as [|b r].
  - cbn [parse_raw_line app]. destruct w as [|c w']; [reflexivity|].
    rewrite g_read_line_core.
    assert (Hc : g_isspace c = true) by (cbn [all_space forallb] in Hw; apply andb_prop in Hw; apply Hw).
    rewrite (space_not_hash c Hc). apply g_core_all_space, Hw.
  - change ((b :: r) ++ w) with (b :: (r ++ w)). rewrite g_read_line_core.
    change (b :: (r ++ w)) with ((b :: r) ++ w).
    unfold parse_raw_line. change (isb b 35) with (g_isb b 35).
    destruct (g_isb b 35); [reflexivity|].
    rewrite (g_core_trail_space (b :: r) w Hw), (g_core_trim (b :: r)).
    rewrite (trim_plain (b :: r) Hp).
    pose proof (all_plain_g_trim _ Hp) as Hpt. pose proof (edge_space_g_trim (b :: r)) as Het.
    set (t := g_trim (b :: r)) in *.
    destruct t as [|x y] eqn:ET; [reflexivity|]. cbn [is_empty]. rewrite <- ET.
    apply parse_line_core; rewrite ET; [exact Hpt|exact Het|discriminate|exact Hk].
Qed.
