(* C53 — git's fgets(buffer, 1024) pieces are the LF-terminated lines when no line (with its LF) is
   longer than 1022 bytes. *)
From Coq Require Import Arith Lia List.
From GixV.Base Require Import Bytes BytesFacts Outcome.
From GixV.C53 Require Import Model Spec.
Import ListNotations.

Definition no_lf (s : bytes) : bool := forallb (fun b => negb (isb b 10)) s.

Lemma no_lf_app a b : no_lf (a ++ b) = no_lf a && no_lf b.
Proof. apply forallb_app. Qed.
Lemma no_lf_rev s : no_lf (rev s) = no_lf s.
Proof.
  induction s as [|a r IH]; [reflexivity|]. cbn [rev]. rewrite no_lf_app, IH.
  cbn [no_lf forallb]. rewrite andb_true_r. apply andb_comm.
Qed.

Lemma lines_wt_nolf : forall p, no_lf p = true -> lines_wt p = match p with [] => [] | _ => [p] end.
Proof.
  induction p as [|a r IH]; [reflexivity|]. cbn [no_lf forallb]. intros H.
  apply andb_prop in H. destruct H as [Ha Hr]. apply negb_true_iff in Ha.
  cbn [lines_wt]. rewrite Ha, (IH Hr). destruct r; reflexivity.
Qed.
Lemma lines_wt_app : forall p b s, no_lf p = true -> isb b 10 = true ->
  lines_wt (p ++ b :: s) = (p ++ [b]) :: lines_wt s.
Proof.
  induction p as [|a p IH]; intros b s Hp Hb.
  - cbn [app lines_wt]. rewrite Hb. reflexivity.
  - cbn [no_lf forallb] in Hp. apply andb_prop in Hp. destruct Hp as [Ha Hp]. apply negb_true_iff in Ha.
    cbn [app lines_wt]. rewrite Ha, (IH b s Hp Hb). reflexivity.
Qed.
Lemma lines_wt_head : forall p s, no_lf p = true -> p <> [] ->
  exists l r, lines_wt (p ++ s) = (p ++ l) :: r.
Proof.
  induction p as [|a p IH]; intros s Hp Hn; [contradiction|].
  cbn [no_lf forallb] in Hp. apply andb_prop in Hp. destruct Hp as [Ha Hp]. apply negb_true_iff in Ha.
  cbn [app lines_wt]. rewrite Ha. destruct p as [|x p'].
  - cbn [app]. destruct (lines_wt s) as [|l r]; [exists [], []|exists l, r]; reflexivity.
  - destruct (IH s Hp ltac:(discriminate)) as (l & r & E). rewrite E. exists l, r. reflexivity.
Qed.

Lemma fgets_go_spec : forall s cur room acc,
  no_lf cur = true -> (room + length cur = 1023)%nat ->
  Forall (fun c => (length c <= 1022)%nat) (lines_wt (rev cur ++ s)) ->
  fgets_go s cur room acc = rev acc ++ lines_wt (rev cur ++ s).
Proof.
  induction s as [|b s' IH]; intros cur room acc Hc Hr Hf.
  - cbn [fgets_go]. rewrite app_nil_r. rewrite lines_wt_nolf by (rewrite no_lf_rev; exact Hc).
    destruct cur as [|x c]; [cbn [rev]; rewrite app_nil_r; reflexivity|].
    destruct (rev (x :: c)) as [|y z] eqn:E.
    + apply (f_equal (@length byte)) in E. rewrite rev_length in E. discriminate.
    + rewrite <- E. reflexivity.
  - cbn [fgets_go]. change (g_isb b 10) with (isb b 10). destruct (isb b 10) eqn:Eb.
    + rewrite (lines_wt_app (rev cur) b s') in * by (rewrite ?no_lf_rev; assumption).
      inversion Hf; subst.
      rewrite (IH [] 1023%nat); [| reflexivity | reflexivity | exact H2].
      cbn [rev app]. rewrite <- app_assoc. reflexivity.
    + assert (Hp : no_lf (rev cur ++ [b]) = true).
      { rewrite no_lf_app, no_lf_rev, Hc. cbn [no_lf forallb]. rewrite Eb. reflexivity. }
      assert (Hsplit : rev cur ++ b :: s' = (rev cur ++ [b]) ++ s') by (rewrite <- app_assoc; reflexivity).
      assert (Hlen : (length cur <= 1021)%nat).
      { destruct (lines_wt_head (rev cur ++ [b]) s' Hp) as (l & r & E).
        - destruct (rev cur); discriminate.
        - rewrite Hsplit, E in Hf. inversion Hf; subst.
          rewrite !app_length, rev_length in H1. cbn [length] in H1. lia. }
      destruct room as [|[|room']]; try lia.
      cbn [Nat.pred].
      rewrite (IH (b :: cur) (S room') acc).
      * cbn [rev]. rewrite <- Hsplit. reflexivity.
      * cbn [no_lf forallb]. rewrite Eb. exact Hc.
      * cbn [length]. lia.
      * cbn [rev]. rewrite <- Hsplit. exact Hf.
Qed.

Lemma fgets_chunks_lines text :
  Forall (fun c => (length c <= 1022)%nat) (lines_wt text) -> fgets_chunks text = lines_wt text.
Proof.
  intros H. unfold fgets_chunks. rewrite (fgets_go_spec text [] 1023%nat []); [reflexivity|reflexivity|reflexivity|exact H].
Qed.
