(* C44 — part 8: what the tree decoder guarantees about modes: only 040000 is a tree. *)
From Coq Require Import List Lia.
From GixV.Base Require Import Bytes BytesFacts Outcome.
From GixV.C44 Require Import Model Spec Proofs ProofsOrder ProofsSpec ProofsFlat.
Import ListNotations.
Local Open Scope N_scope.

Lemma entry_mode_tree m m' : entry_mode_of m = Some m' -> is_tree m' = true -> m' = 16384.
Proof.
  unfold entry_mode_of, is_tree. intros H T.
  destruct (N.eqb m 16384) eqn:E1; [apply N.eqb_eq in E1; cbn in H; congruence|].
  destruct (N.eqb m 40960) eqn:E2.
  { apply N.eqb_eq in E2. cbn in H. injection H as <-. subst m. vm_compute in T. discriminate. }
  destruct (N.eqb m 57344) eqn:E3.
  { apply N.eqb_eq in E3. cbn in H. injection H as <-. subst m. vm_compute in T. discriminate. }
  cbn [orb] in H. destruct (N.eqb (N.land m 32768) 32768) eqn:E4; [|discriminate].
  injection H as <-. exfalso. apply N.eqb_eq in E4. apply N.eqb_eq in T.
  assert (B1 : N.testbit m 15 = true).
  { assert (X : N.testbit (N.land m 32768) 15 = true) by (rewrite E4; reflexivity).
    rewrite N.land_spec in X. apply Bool.andb_true_iff in X. tauto. }
  assert (B2 : N.testbit (N.land (N.modulo m 65536) 61440) 15 = false) by (rewrite T; reflexivity).
  rewrite N.land_spec in B2. change 65536 with (2 ^ 16) in B2.
  rewrite N.mod_pow2_bits_low in B2 by reflexivity. rewrite B1 in B2. discriminate.
Qed.

Lemma fast_entry_mode i rest e : fast_entry i = Some (rest, e) -> mode_ok e.
Proof.
  unfold fast_entry. destruct (parse_mode i 0) as [[m i1]|]; [|discriminate].
  destruct (entry_mode_of m) as [mode|] eqn:EM; [|discriminate].
  destruct (split_nul i1) as [[name i2]|]; [|discriminate].
  destruct (Nat.ltb (length i2) 20); [discriminate|].
  intros H. injection H as _ <-. unfold mode_ok. cbn [emode]. apply (entry_mode_tree m). exact EM.
Qed.

Lemma parse_tree_f_modes : forall fuel data, Forall mode_ok (fst (parse_tree_f fuel data)).
Proof.
  induction fuel as [|f IH]; intros data; cbn [parse_tree_f]; [constructor|].
  destruct data as [|b r]; [constructor|].
  destruct (fast_entry (b :: r)) as [[rest e]|] eqn:FE; [|constructor].
  specialize (IH rest). destruct (parse_tree_f f rest) as [es bad]. cbn [fst] in *.
  constructor; [eapply fast_entry_mode; exact FE | exact IH].
Qed.

Lemma L_parsed_modes data : Forall mode_ok (fst (parse_tree data)).
Proof. apply parse_tree_f_modes. Qed.
