(* C44 — transcript printer.  Case: diff <lhs tree bytes> <rhs tree bytes> <flag> (<id> <kind byte ++ data>)*
   or reuse … (see run_model).
   kind byte 't' = tree object, anything else = some other object kind.
   Line: "ok" then one " K:..." item per recorded change in recording order, or "err <kind>".
   Mode "spec" prints Spec.tdiff (git's depth-first diff-tree -r -t) in git's raw output form. *)
From GixV.Base Require Import Bytes BytesFacts Outcome.
From GixV.C44 Require Import Model Spec.
Local Open Scope N_scope.

Fixpoint mk_odb (fs : list bytes) : list (bytes * (bool * bytes)) :=
  match fs with
  | id :: obj :: rest =>
      (id, match obj with
           | k :: data => (beqb k "t"%byte, data)
           | [] => (false, [])
           end) :: mk_odb rest
  | _ => []
  end.
Fixpoint lookup (tbl : list (bytes * (bool * bytes))) (id : bytes) : option (bool * bytes) :=
  match tbl with
  | [] => None
  | (k, v) :: r => if bytes_eqb k id then Some v else lookup r id
  end.

Definition colon := bs ":".
Definition show_rel (r : option rel) : bytes :=
  match r with
  | None => bs "-"
  | Some (Parent n) => bs "P" ++ N_to_dec n
  | Some (ChildOf n) => bs "C" ++ N_to_dec n
  end.
Definition show_change (c : change) : bytes :=
  match c with
  | Addition m o p r => bs " A:" ++ N_to_dec m ++ colon ++ hex_encode o ++ colon ++ hex_encode p ++ colon ++ show_rel r
  | Deletion m o p r => bs " D:" ++ N_to_dec m ++ colon ++ hex_encode o ++ colon ++ hex_encode p ++ colon ++ show_rel r
  | Modification pm po m o p =>
      bs " M:" ++ N_to_dec pm ++ colon ++ hex_encode po ++ colon ++ N_to_dec m ++ colon ++ hex_encode o
         ++ colon ++ hex_encode p
  end.
Definition err_name (e : err) : bytes :=
  match e with Find => bs "Find" | EntriesDecode => bs "EntriesDecode" | Cancelled => bs "Cancelled" end.

Definition big_fuel : nat := N.to_nat 100000.

(* "reuse" cases: reuse <lhs1> <rhs1> <k> <lhs2> <rhs2> (<id> <obj>)*: a first diff that is cancelled at
   the k-th visit (or fails) leaves pairs in State.trees; the second diff reuses that State.  diff()
   begins with state.clear(), which resets the queue and change_id, so the second call is [diff] from
   [init_st] on the second pair: that is what the model prints. *)
Definition run_model (fs : list bytes) : bytes :=
  let reuse := bytes_eqb (nth_field 0 fs) (bs "reuse") in
  let tbl := mk_odb (skipn (if reuse then 6 else 4) fs) in
  match diff big_fuel (lookup tbl) (nth_field (if reuse then 4 else 1) fs) (nth_field (if reuse then 5 else 2) fs) with
  | Ok cs => bs "ok" ++ concat (map show_change cs)
  | Err e => bs "err " ++ err_name e
  | Panic => bs "PANIC"
  | OutOfFuel => bs "HANG"
  end.

(* git diff-tree -r -t --no-renames --raw --no-abbrev -z style, one item per change:
   " <oldmode> <newmode> <oldid> <newid> <status> <pathhex>" with modes in octal as git prints them *)
Fixpoint N_to_oct_fuel (fuel : nat) (n : N) (acc : bytes) : bytes :=
  match fuel with
  | O => acc
  | S f => let acc := N2b (48 + N.modulo n 8) :: acc in
           if N.ltb n 8 then acc else N_to_oct_fuel f (N.div n 8) acc
  end.
Definition oct6 (n : N) : bytes :=
  let d := N_to_oct_fuel 12 n [] in repeat "0"%byte (6 - length d) ++ d.
Definition zero_id : bytes := repeat "0"%byte 40.
Definition kind_of (m : N) : N := N.land m 61440.
Definition show_spec (c : schange) : bytes :=
  match c with
  | SAdd p m o => bs " 000000 " ++ oct6 m ++ bs " " ++ zero_id ++ bs " " ++ hex_encode o ++ bs " A "
                     ++ hex_encode (render p)
  | SDel p m o => bs " " ++ oct6 m ++ bs " 000000 " ++ hex_encode o ++ bs " " ++ zero_id ++ bs " D "
                     ++ hex_encode (render p)
  | SMod p pm po m o =>
      bs " " ++ oct6 pm ++ bs " " ++ oct6 m ++ bs " " ++ hex_encode po ++ bs " " ++ hex_encode o
         ++ (if N.eqb (kind_of pm) (kind_of m) then bs " M " else bs " T ") ++ hex_encode (render p)
  end.
Definition run_spec (fs : list bytes) : bytes :=
  let tbl := mk_odb (skipn 4 fs) in
  let db := fun id => match lookup tbl id with Some (true, d) => Some (fst (parse_tree d)) | _ => None end in
  bs "ok" ++ concat (map show_spec
     (tdiff_level 64 db [] (fst (parse_tree (nth_field 1 fs))) (fst (parse_tree (nth_field 2 fs))))).

Definition run (fs : list bytes) : bytes :=
  match fs with
  | mode :: rest =>
      if bytes_eqb mode (bs "spec") then run_spec rest else run_model rest
  | [] => bs "?"
  end.
