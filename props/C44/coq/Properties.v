(* C44 — Tree diffs agree with git.  Only statements here; proofs are in Proofs*.v.
   Model.v: gix_diff::tree::diff with the default Recorder (after fix ffe749990).
   Spec.v: [key_cmp] = git's base_name_compare; [merge] = the textbook merge walk;
   [tdiff_level] = git diff-tree -r -t --no-renames as a recursive function; [flatten] = all
   (path, mode, id) of a tree, tree entries included, paths as component lists.
   [strip] drops the rename-tracking relation of a recorded change, [render] joins path components with "/".
   [sdb_of db] = the trees of the object database that decode completely.
   [wfl db k L]: every tree reachable from the entries L is in [db], decodes completely, lies at
     depth <= k, and no entry name contains '/'.
   [wfs sdb k L]: the same for valid git trees: in addition every list of entries is strictly
     increasing in git's order and tree entries have mode 040000.
   [w db k L R]: number of merge events plus number of tree pairs of the two trees (the fuel).
   [diff_spec FA FB c]: c is a member of the difference of two flattened trees keyed by
     (path, is-a-tree): deletion = key only in FA, addition = key only in FB, modification = key
     in both with another mode or id.
   [applied D FA y]: y remains of FA after removing what D deletes/modifies, or is created by D. *)
From Coq Require Import List Permutation.
From GixV.Base Require Import Bytes BytesFacts Outcome.
From GixV.C44 Require Import Model Spec Proofs ProofsOrder ProofsWalk ProofsSpec ProofsFlat ProofsApply ProofsParse ProofsTop.
Import ListNotations.

(* Recorder: popping after pushing a name without '/' restores the path *)
Theorem recorder_pop_push : forall p n, no_slash n -> pop_element (push_element p n) = p.
Proof. exact L_pop_push. Qed.

(* gix's entry comparison is git's base_name_compare (name, with "/" appended for trees, as bytes) *)
Theorem compare_is_git_order : forall a b,
  no_slash (ename a) -> no_slash (ename b) -> compare a b = key_cmp a b.
Proof. exact L_compare_key. Qed.

(* one level: on strictly sorted lists the merge walk yields exactly the entries whose key occurs
   only left, only right, or on both sides *)
Theorem level_events_are_key_difference : forall L R, ssorted L -> ssorted R ->
  forall ev, In ev (merge key_cmp L R) <-> ev_spec L R ev.
Proof. exact L_merge_char. Qed.

(* diff() on two decodable root trees terminates within w+1 loop iterations, does not fail or
   panic, and records - up to the order, which is breadth-first instead of depth-first - exactly
   the changes of git's recursive tree diff.  No sortedness is needed for this. *)
Theorem diff_is_git_recursive_diff : forall db lhs rhs k L R fuel,
  parse_tree lhs = (L, false) -> parse_tree rhs = (R, false) ->
  wfl db k L -> wfl db k R -> fuel > w db k L R ->
  exists cs, diff fuel db lhs rhs = Ok cs /\
             Permutation (map strip cs) (map (gmap render) (tdiff_level k (sdb_of db) [] L R)).
Proof. exact L_diff_is_tdiff. Qed.

(* git's recursive diff of valid trees is the difference of the flattened maps *)
Theorem recursive_diff_is_map_difference : forall sdb k p L R, wfs sdb k L -> wfs sdb k R ->
  forall c, In c (tdiff_level k sdb p L R) <-> diff_spec (flatten k sdb p L) (flatten k sdb p R) c.
Proof. exact L_tdiff_char. Qed.

(* both together: the changes diff() records for valid trees are exactly the members of the
   difference of the two flattened (path, mode, id) maps *)
Theorem diff_is_map_difference : forall db lhs rhs k L R fuel,
  parse_tree lhs = (L, false) -> parse_tree rhs = (R, false) ->
  wfs (sdb_of db) k L -> wfs (sdb_of db) k R -> fuel > w db k L R ->
  exists cs, diff fuel db lhs rhs = Ok cs /\
    forall c, In c (map strip cs) <->
      exists sc, c = gmap render sc /\
        diff_spec (flatten k (sdb_of db) [] L) (flatten k (sdb_of db) [] R) sc.
Proof. exact L_diff_is_map_difference. Qed.

(* a flattened valid tree has at most one entry per (path, kind) *)
Theorem flatten_keys_unique : forall sdb k p L, wfs sdb k L -> key_unique (flatten k sdb p L).
Proof. exact flat_unique. Qed.

(* applying any list of changes that is the difference of two maps to the first map gives the second *)
Theorem apply_difference : forall FA FB D, key_unique FA -> key_unique FB ->
  (forall c, In c D <-> diff_spec FA FB c) ->
  forall y, applied D FA y <-> In y FB.
Proof. exact L_apply_set. Qed.

(* apply (diff a b) a = b for what diff() records *)
Theorem apply_diff : forall db lhs rhs k L R fuel,
  parse_tree lhs = (L, false) -> parse_tree rhs = (R, false) ->
  wfs (sdb_of db) k L -> wfs (sdb_of db) k R -> fuel > w db k L R ->
  exists cs D, diff fuel db lhs rhs = Ok cs /\
    Permutation (map strip cs) (map (gmap render) D) /\
    forall y, applied D (flatten k (sdb_of db) [] L) y <-> In y (flatten k (sdb_of db) [] R).
Proof. exact L_apply_diff. Qed.

(* the tree decoder only lets mode 040000 be a tree: this hypothesis of [wfs] always holds for decoded trees *)
Theorem decoded_tree_modes_canonical : forall data, Forall mode_ok (fst (parse_tree data)).
Proof. exact L_parsed_modes. Qed.

(* non-vacuity: file "a" replaced by a directory, mode change of "a.b" which sorts between "a" and "a/" *)
Example diff_example :
  exists L R, parse_tree ex_lhs = (L, false) /\ parse_tree ex_rhs = (R, false) /\
    wfl ex_db 1 L /\ wfl ex_db 1 R /\ w ex_db 1 L R = 5 /\
    diff 6 ex_db ex_lhs ex_rhs =
      Ok [Deletion 33188 id1 (bs "a") None;
          Modification 33261 id1 33188 id1 (bs "a.b");
          Addition 16384 id3 (bs "a") (Some (Parent 1));
          Addition 33188 id2 (bs "a/x") (Some (ChildOf 1))].
Proof. exact L_example. Qed.
Example valid_trees_example :
  exists L R, parse_tree ex_lhs = (L, false) /\ parse_tree ex_rhs = (R, false) /\
    wfs (sdb_of ex_db) 1 L /\ wfs (sdb_of ex_db) 1 R /\
    length (flatten 1 (sdb_of ex_db) [] L) = 2%nat /\ length (flatten 1 (sdb_of ex_db) [] R) = 3%nat.
Proof. exact L_example_valid. Qed.
