(* C44 — Tree diffs agree with git.  Only statements here; proofs are in Proofs*.v.
   Model.v: gix_diff::tree::diff with the default Recorder.  Spec.v: [key_cmp] = git's
   base_name_compare, [tdiff_level] = git diff-tree -r -t --no-renames as a recursive function,
   [flatten] = all (path, mode, id) of a tree.  [strip] drops the rename-tracking relation of a
   recorded change, [render] joins path components with "/".
   [wfl db k L]: every tree reachable from the entries L is in the object database, decodes
   completely, lies at depth <= k, and no entry name contains '/'.
   [w db k L R]: number of merge events plus number of tree pairs of the two trees. *)
From Coq Require Import List Permutation.
From GixV.Base Require Import Bytes BytesFacts Outcome.
From GixV.C44 Require Import Model Spec Proofs ProofsOrder ProofsWalk ProofsTop.
Import ListNotations.

(* Recorder: popping after pushing a name without '/' restores the path *)
Theorem recorder_pop_push : forall p n, no_slash n -> pop_element (push_element p n) = p.
Proof. exact L_pop_push. Qed.

(* gix's entry comparison is git's base_name_compare (name, with "/" appended for trees, as bytes) *)
Theorem compare_is_git_order : forall a b,
  no_slash (ename a) -> no_slash (ename b) -> compare a b = key_cmp a b.
Proof. exact L_compare_key. Qed.

(* diff() on two decodable root trees terminates within w+1 loop iterations, does not fail or
   panic, and records - up to the order, which is breadth-first instead of depth-first - exactly
   the changes of git's recursive tree diff *)
Theorem diff_is_git_recursive_diff : forall db lhs rhs k L R fuel,
  parse_tree lhs = (L, false) -> parse_tree rhs = (R, false) ->
  wfl db k L -> wfl db k R -> fuel > w db k L R ->
  exists cs, diff fuel db lhs rhs = Ok cs /\
             Permutation (map strip cs) (map (gmap render) (tdiff_level k (sdb_of db) [] L R)).
Proof. exact L_diff_is_tdiff. Qed.

(* non-vacuity: file "a" replaced by a directory, mode change of "a.b" which sorts between "a" and "a/" *)
Example diff_example :
  exists L R, parse_tree ex_lhs = (L, false) /\ parse_tree ex_rhs = (R, false) /\
    wfl ex_db 1 L /\ wfl ex_db 1 R /\ w ex_db 1 L R = 5 /\
    diff 6 ex_db ex_lhs ex_rhs =
      Ok [Deletion 33188 id1 (bs "a") None;
          Modification 33261 id1 33188 id1 (bs "a.b");
          Addition 16384 id3 (bs "a") (Some (Parent 1));
          Addition 33188 id2 (bs "a/x") (Some (ChildOf 1))].
Proof. exact L_example. Qed.
