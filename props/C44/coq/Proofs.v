(* C44 — part 1: the Recorder's path bookkeeping and the walk of diff() as a sequence of merge events. *)
From Coq Require Import List Lia Permutation.
From GixV.Base Require Import Bytes BytesFacts Outcome.
From GixV.C44 Require Import Model Spec.
Import ListNotations.

Definition no_slash (n : bytes) : Prop := ~ In x2f n.

Lemma rfind_slash_none n : no_slash n -> rfind_slash n = None.
Proof.
  induction n as [|b r IH]; intros H; cbn; auto.
  rewrite IH by (intros X; apply H; right; exact X).
  destruct (beqb b x2f) eqn:E; auto.
  apply beqb_eq in E. subst. exfalso. apply H. left. reflexivity.
Qed.

Lemma rfind_slash_app p n : no_slash n -> rfind_slash (p ++ x2f :: n) = Some (length p).
Proof.
  intros H. induction p as [|b r IH]; cbn.
  - rewrite rfind_slash_none by exact H. cbn. reflexivity.
  - rewrite IH. reflexivity.
Qed.

Lemma L_pop_push p n : no_slash n -> pop_element (push_element p n) = p.
Proof.
  intros H. unfold pop_element, push_element. destruct p as [|b r].
  - rewrite rfind_slash_none by exact H. reflexivity.
  - rewrite rfind_slash_app by exact H.
    rewrite firstn_app, firstn_all, PeanoNat.Nat.sub_diag. cbn [firstn]. apply app_nil_r.
Qed.

Lemma render_snoc p n : render (p ++ [n]) = push_element (render p) n.
Proof. unfold render. rewrite fold_left_app. reflexivity. Qed.

(* ---------------------------------------------------------------- merge equations *)

Lemma merge_nil_l cmp R : merge cmp [] R = map OnlyR R.
Proof. destruct R; reflexivity. Qed.
Lemma merge_nil_r cmp L : merge cmp L [] = map OnlyL L.
Proof. destruct L; reflexivity. Qed.
Lemma merge_cons cmp a L b R :
  merge cmp (a :: L) (b :: R) =
  match cmp a b with
  | Eq => Both a b :: merge cmp L R
  | Lt => OnlyL a :: merge cmp L (b :: R)
  | Gt => OnlyR b :: merge cmp (a :: L) R
  end.
Proof. reflexivity. Qed.

Fixpoint catch_l (cmp : entry -> entry -> comparison) (L : list entry) (r : entry) : list mev * list entry :=
  match L with
  | [] => ([OnlyR r], [])
  | l :: rest =>
      match cmp l r with
      | Eq => ([Both l r], rest)
      | Lt => let '(evs, L2) := catch_l cmp rest r in (OnlyL l :: evs, L2)
      | Gt => ([OnlyR r], l :: rest)
      end
  end.
Fixpoint catch_r (cmp : entry -> entry -> comparison) (l : entry) (R : list entry) : list mev * list entry :=
  match R with
  | [] => ([OnlyL l], [])
  | r :: rest =>
      match cmp l r with
      | Eq => ([Both l r], rest)
      | Gt => let '(evs, R2) := catch_r cmp l rest in (OnlyR r :: evs, R2)
      | Lt => ([OnlyL l], r :: rest)
      end
  end.

Lemma catch_l_merge cmp r R : forall L,
  merge cmp L (r :: R) = fst (catch_l cmp L r) ++ merge cmp (snd (catch_l cmp L r)) R.
Proof.
  induction L as [|l rest IH].
  - cbn [catch_l fst snd]. rewrite !merge_nil_l. reflexivity.
  - rewrite merge_cons. cbn [catch_l]. destruct (cmp l r); try reflexivity.
    destruct (catch_l cmp rest r) as [evs L2]. cbn in *. rewrite IH. reflexivity.
Qed.
Lemma catch_r_merge cmp l L : forall R,
  merge cmp (l :: L) R = fst (catch_r cmp l R) ++ merge cmp L (snd (catch_r cmp l R)).
Proof.
  induction R as [|r rest IH].
  - cbn [catch_r fst snd]. rewrite !merge_nil_r. reflexivity.
  - rewrite merge_cons. cbn [catch_r]. destruct (cmp l r); try reflexivity.
    destruct (catch_r cmp l rest) as [evs R2]. cbn in *. rewrite IH. reflexivity.
Qed.
Lemma catch_l_suffix cmp r : forall L, exists pre, L = pre ++ snd (catch_l cmp L r).
Proof.
  induction L as [|l rest [pre IH]]; cbn.
  - exists []. reflexivity.
  - destruct (cmp l r).
    + exists [l]. reflexivity.
    + destruct (catch_l cmp rest r) as [evs L2]. cbn in *. exists (l :: pre). rewrite IH at 1. reflexivity.
    + exists []. reflexivity.
Qed.
Lemma catch_r_suffix cmp l : forall R, exists pre, R = pre ++ snd (catch_r cmp l R).
Proof.
  induction R as [|r rest [pre IH]]; cbn.
  - exists []. reflexivity.
  - destruct (cmp l r).
    + exists [r]. reflexivity.
    + exists []. reflexivity.
    + destruct (catch_r cmp l rest) as [evs R2]. cbn in *. exists (r :: pre). rewrite IH at 1. reflexivity.
Qed.

(* what one iteration of diff()'s loop consumes: events, remaining lhs, remaining rhs *)
Definition iter_evs (L R : list entry) : list mev * list entry * list entry :=
  match L, R with
  | [], [] => ([], [], [])
  | l :: L1, [] => ([OnlyL l], L1, [])
  | [], r :: R1 => ([OnlyR r], [], R1)
  | l :: L1, r :: R1 =>
      match compare l r with
      | Eq => ([Both l r], L1, R1)
      | Lt => (OnlyL l :: fst (catch_l compare L1 r), snd (catch_l compare L1 r), R1)
      | Gt => (OnlyR r :: fst (catch_r compare l R1), L1, snd (catch_r compare l R1))
      end
  end.

Lemma iter_evs_merge L R :
  merge compare L R = fst (fst (iter_evs L R)) ++ merge compare (snd (fst (iter_evs L R))) (snd (iter_evs L R)).
Proof.
  destruct L as [|l L1], R as [|r R1]; try reflexivity.
  - cbn [iter_evs fst snd]. rewrite !merge_nil_l. reflexivity.
  - cbn [iter_evs fst snd]. rewrite !merge_nil_r. reflexivity.
  - rewrite merge_cons. unfold iter_evs. destruct (compare l r); cbn [fst snd].
    + reflexivity.
    + rewrite catch_l_merge. reflexivity.
    + rewrite catch_r_merge. reflexivity.
Qed.
Lemma iter_evs_suffix L R :
  (exists pre, L = pre ++ snd (fst (iter_evs L R))) /\ (exists pre, R = pre ++ snd (iter_evs L R)).
Proof.
  destruct L as [|l L1], R as [|r R1]; cbn.
  - split; exists []; reflexivity.
  - split; [exists [] | exists [r]]; reflexivity.
  - split; [exists [l] | exists []]; reflexivity.
  - destruct (compare l r); cbn.
    + split; [exists [l] | exists [r]]; reflexivity.
    + split; [| exists [r]; reflexivity].
      destruct (catch_l_suffix compare r L1) as [pre E]. exists (l :: pre). cbn. rewrite <- E. reflexivity.
    + split; [exists [l]; reflexivity |].
      destruct (catch_r_suffix compare l R1) as [pre E]. exists (r :: pre). cbn. rewrite <- E. reflexivity.
Qed.
Lemma iter_evs_nonempty L R : (L, R) <> ([], []) -> fst (fst (iter_evs L R)) <> [].
Proof.
  destruct L as [|l L1], R as [|r R1]; cbn; try congruence.
  destruct (compare l r); cbn; congruence.
Qed.

(* ---------------------------------------------------------------- the model's loops as event folds *)

Definition do_ev (rl : option rel) (ev : mev) (s : st) : st :=
  match ev with
  | OnlyL e => delete_entry e rl s
  | OnlyR e => add_entry e rl s
  | Both l r => handle_equal l r rl s
  end.
Definition step_ev (rl : option rel) (s : st) (ev : mev) : st := pop_path_component (do_ev rl ev s).
Definition pop_do (rl : option rel) (s : st) (ev : mev) : st := do_ev rl ev (pop_path_component s).

Lemma catchup_lhs_loop_spec r rl : forall L s,
  catchup_lhs_loop L false r rl s =
  Ok (fold_left (pop_do rl) (fst (catch_l compare L r)) s, (snd (catch_l compare L r), false)).
Proof.
  induction L as [|l rest IH]; intros s; cbn [catchup_lhs_loop catch_l].
  - reflexivity.
  - destruct (compare l r).
    + reflexivity.
    + rewrite IH. destruct (catch_l compare rest r) as [evs L2]. reflexivity.
    + reflexivity.
Qed.
Lemma catchup_rhs_loop_spec l rl : forall R s,
  catchup_rhs_loop R false l rl s =
  Ok (fold_left (pop_do rl) (fst (catch_r compare l R)) s, (snd (catch_r compare l R), false)).
Proof.
  induction R as [|r rest IH]; intros s; cbn [catchup_rhs_loop catch_r].
  - reflexivity.
  - destruct (compare l r).
    + reflexivity.
    + reflexivity.
    + rewrite IH. destruct (catch_r compare l rest) as [evs R2]. reflexivity.
Qed.

Lemma pop_fold rl : forall evs s,
  pop_path_component (fold_left (pop_do rl) evs s) = fold_left (step_ev rl) evs (pop_path_component s).
Proof.
  induction evs as [|ev evs IH]; intros s; cbn.
  - reflexivity.
  - rewrite IH. reflexivity.
Qed.

(* one iteration on lists that are not both exhausted *)
Lemma diff_loop_iter f db L R rl pop s :
  (L, R) <> ([], []) ->
  exists s1,
    diff_loop (S f) db (L, false) (R, false) rl pop s =
    diff_loop f db (snd (fst (iter_evs L R)), false) (snd (iter_evs L R), false) rl true s1 /\
    pop_path_component s1 =
    fold_left (step_ev rl) (fst (fst (iter_evs L R))) (if pop then pop_path_component s else s).
Proof.
  intros NE. set (s0 := if pop then pop_path_component s else s).
  destruct L as [|l L1], R as [|r R1]; try congruence.
  - exists (add_entry r rl s0). split; reflexivity.
  - exists (delete_entry l rl s0). split; reflexivity.
  - cbn [diff_loop next iter_evs]. fold s0. destruct (compare l r) eqn:C.
    + exists (handle_equal l r rl s0). split; reflexivity.
    + unfold catchup_lhs_with_rhs. cbn [fst snd]. rewrite catchup_lhs_loop_spec.
      eexists. split; [reflexivity|]. rewrite pop_fold. reflexivity.
    + unfold catchup_rhs_with_lhs. cbn [fst snd]. rewrite catchup_rhs_loop_spec.
      eexists. split; [reflexivity|]. rewrite pop_fold. reflexivity.
Qed.
