(* C44 — part 7: applying the changes to the first flattened tree yields the second. *)
From Coq Require Import List Lia.
From GixV.Base Require Import Bytes BytesFacts Outcome.
From GixV.C44 Require Import Model Spec Proofs ProofsOrder ProofsSpec ProofsFlat.
Import ListNotations.
Local Open Scope N_scope.

(* the entry (x, kind t) is removed or replaced by change c *)
Definition touches (c : schange) (x : spath) (t : bool) : Prop :=
  match c with
  | SDel p m _ => p = x /\ is_tree m = t
  | SMod p pm _ _ _ => p = x /\ is_tree pm = t
  | SAdd _ _ _ => False
  end.
(* the entry y is created by change c *)
Definition produces (c : schange) (y : fitem) : Prop :=
  match c with
  | SAdd p m o => y = (p, m, o)
  | SMod p _ _ m o => y = (p, m, o)
  | SDel _ _ _ => False
  end.
(* the set of entries after applying the changes D to the flattened tree FA *)
Definition applied (D : list schange) (FA : list fitem) (y : fitem) : Prop :=
  (In y FA /\ ~ exists c, In c D /\ touches c (fst (fst y)) (is_tree (snd (fst y)))) \/
  (exists c, In c D /\ produces c y).

Definition key_unique (F : list fitem) : Prop :=
  forall x m o m' o', In (x, m, o) F -> In (x, m', o') F -> is_tree m = is_tree m' -> m = m' /\ o = o'.

Lemma spath_eq_dec (a b : spath) : {a = b} + {a <> b}.
Proof. apply list_eq_dec. apply list_eq_dec. apply Byte.byte_eq_dec. Qed.
Lemma bytes_eq_dec (a b : bytes) : {a = b} + {a <> b}.
Proof. apply list_eq_dec. apply Byte.byte_eq_dec. Qed.

Lemma has_key_dec : forall F x t, has_key F x t \/ ~ has_key F x t.
Proof.
  induction F as [|[[p m] o] F IH]; intros x t.
  - right. intros (m & o & [] & _).
  - destruct (IH x t) as [H|H].
    + left. destruct H as (m' & o' & H & T). exists m', o'. split; [right; exact H | exact T].
    + destruct (spath_eq_dec p x) as [->|NE]; [destruct (Bool.bool_dec (is_tree m) t) as [T|NT]|].
      * left. exists m, o. split; [left; reflexivity | exact T].
      * right. intros (m' & o' & [E|H'] & T).
        -- injection E as -> ->. contradiction.
        -- apply H. exists m', o'. auto.
      * right. intros (m' & o' & [E|H'] & T).
        -- injection E as -> -> ->. contradiction.
        -- apply H. exists m', o'. auto.
Qed.

Theorem L_apply_set FA FB D : key_unique FA -> key_unique FB ->
  (forall c, In c D <-> diff_spec FA FB c) ->
  forall y, applied D FA y <-> In y FB.
Proof.
  intros UA UB HD [[x m] o]. split.
  - intros [[HA NT]|[c [Hc P]]].
    + cbn [fst snd] in NT. destruct (has_key_dec FB x (is_tree m)) as [(m' & o' & HB & T)|NK].
      * destruct (N.eq_dec m m') as [<-|NM]; [destruct (bytes_eq_dec o o') as [<-|NO]|].
        -- exact HB.
        -- exfalso. apply NT. exists (SMod x m o m o'). split; [|cbn; auto].
           apply HD. cbn. auto.
        -- exfalso. apply NT. exists (SMod x m o m' o'). split; [|cbn; auto].
           apply HD. cbn. auto.
      * exfalso. apply NT. exists (SDel x m o). split; [|cbn; auto]. apply HD. cbn. auto.
    + apply HD in Hc. destruct c as [p m' o'|p m' o'|p pm po m' o']; cbn in P, Hc.
      * rewrite P. tauto.
      * contradiction.
      * rewrite P. tauto.
  - intros HB. destruct (has_key_dec FA x (is_tree m)) as [(m' & o' & HA & T)|NK].
    + destruct (N.eq_dec m' m) as [->|NM]; [destruct (bytes_eq_dec o' o) as [->|NO]|].
      * left. split; [exact HA|]. cbn [fst snd]. intros [c [Hc TC]]. apply HD in Hc.
        destruct c as [p m' o'|p m' o'|p pm po m' o']; cbn in TC, Hc.
        -- contradiction.
        -- destruct TC as [-> T']. destruct Hc as [_ NK]. apply NK. exists m, o. rewrite T'. auto.
        -- destruct TC as [-> T']. destruct Hc as (H1 & H2 & H3 & H4).
           destruct (UA _ _ _ _ _ H1 HA T') as [-> ->].
           assert (T2 : is_tree m' = is_tree m) by congruence.
           destruct (UB _ _ _ _ _ H2 HB T2) as [-> ->]. destruct H4; contradiction.
      * right. exists (SMod x m o' m o). split; [|reflexivity]. apply HD. cbn. auto.
      * right. exists (SMod x m' o' m o). split; [|reflexivity]. apply HD. cbn. auto.
    + right. exists (SAdd x m o). split; [|reflexivity]. apply HD. cbn. auto.
Qed.

Section UNIQ.
Variable db : sdb.

Lemma flat_unique : forall k p L, wfs db k L -> key_unique (flatten k db p L).
Proof.
  induction k as [k IH] using lt_wf_ind. intros p L W x m o m' o' H1 H2 T.
  pose proof (wfs_sorted _ _ _ W) as S.
  apply flat_inv in H1. apply flat_inv in H2.
  destruct H1 as [e [He [(Ex & -> & ->)|(Te & k1 & n1 & q1 & Ek1 & Ex & H1)]]];
  destruct H2 as [e' [He' [(Ex' & -> & ->)|(Te' & k2 & n2 & q2 & Ek2 & Ex' & H2)]]].
  - rewrite Ex in Ex'. apply path_top_top in Ex'.
    assert (e = e') by (apply (sorted_key_unique L); auto; apply key_eq_of; auto). subst e'. auto.
  - exfalso. rewrite Ex in Ex'. apply (path_top_deep _ _ _ _ _ Ex').
  - exfalso. rewrite Ex' in Ex. apply (path_top_deep _ _ _ _ _ Ex).
  - rewrite Ex in Ex'. pose proof (path_deep_deep _ _ _ _ _ _ _ Ex') as En.
    assert (e = e') by (apply (sorted_key_unique L); auto; apply key_eq_of; congruence). subst e'.
    subst k. injection Ek2 as <-.
    destruct (wfs_child _ _ _ _ W He Te) as [k3 [Ek3 W1]]. injection Ek3 as <-.
    apply (IH k1 (PeanoNat.Nat.lt_succ_diag_r k1) _ _ W1 x m o m' o' H1 H2 T).
Qed.
End UNIQ.
