(* C44 — part 2: gix's compare() is git's base_name_compare on names without '/'; order facts. *)
From Coq Require Import List Lia.
From GixV.Base Require Import Bytes BytesFacts Outcome.
From GixV.C44 Require Import Model Spec Proofs.
Import ListNotations.
Local Open Scope N_scope.

Definition suf (t : bool) : bytes := if t then [x2f] else [].

Lemma ncmp_refl n : N.compare n n = Eq.
Proof. apply N.compare_refl. Qed.

Lemma slash_cmp_ne y : y <> x2f -> N.compare (b2N x2f) (b2N y) <> Eq.
Proof. intros H E. apply N.compare_eq in E. apply b2N_inj in E. congruence. Qed.

Lemma compare_names na : forall nb ta tb, no_slash na -> no_slash nb ->
  cmp_then (bytes_cmp (firstn (Nat.min (length na) (length nb)) na) (firstn (Nat.min (length na) (length nb)) nb))
           (opt_byte_cmp (next_byte na (Nat.min (length na) (length nb)) ta)
                         (next_byte nb (Nat.min (length na) (length nb)) tb))
  = bytes_cmp (na ++ suf ta) (nb ++ suf tb).
Proof.
  induction na as [|x na IH]; intros nb ta tb Ha Hb.
  - destruct nb as [|y nb].
    + destruct ta, tb; reflexivity.
    + cbn [length Nat.min firstn bytes_cmp cmp_then next_byte nth_error app].
      destruct ta; cbn [suf opt_byte_cmp bytes_cmp]; [|reflexivity].
      assert (Hy : y <> x2f) by (intros ->; apply Hb; left; reflexivity).
      destruct (N.compare (b2N x2f) (b2N y)) eqn:E; try reflexivity.
      exfalso. revert E. apply slash_cmp_ne. exact Hy.
  - destruct nb as [|y nb].
    + cbn [length Nat.min firstn bytes_cmp cmp_then next_byte nth_error app].
      destruct tb; cbn [suf opt_byte_cmp bytes_cmp]; [|reflexivity].
      assert (Hx : x <> x2f) by (intros ->; apply Ha; left; reflexivity).
      destruct (N.compare (b2N x) (b2N x2f)) eqn:E; try reflexivity.
      exfalso. apply N.compare_eq in E. apply b2N_inj in E. congruence.
    + cbn [length Nat.min firstn bytes_cmp next_byte nth_error app].
      assert (Ha' : no_slash na) by (intros X; apply Ha; right; exact X).
      assert (Hb' : no_slash nb) by (intros X; apply Hb; right; exact X).
      specialize (IH nb ta tb Ha' Hb'). unfold next_byte in IH.
      destruct (N.compare (b2N x) (b2N y)); cbn [cmp_then]; try reflexivity.
      exact IH.
Qed.

Lemma L_compare_key a b : no_slash (ename a) -> no_slash (ename b) -> compare a b = key_cmp a b.
Proof. intros Ha Hb. unfold compare, key_cmp, keystr. apply compare_names; assumption. Qed.

(* merge only looks at the comparison of elements of the two lists *)
Lemma merge_ext c1 c2 : forall L R,
  (forall a b, In a L -> In b R -> c1 a b = c2 a b) -> merge c1 L R = merge c2 L R.
Proof.
  induction L as [|a L IHL]; intros R H.
  - rewrite !merge_nil_l. reflexivity.
  - induction R as [|b R IHR].
    + rewrite !merge_nil_r. reflexivity.
    + rewrite !merge_cons. rewrite <- (H a b) by (left; reflexivity).
      destruct (c1 a b).
      * f_equal. apply IHL. intros; apply H; right; assumption.
      * f_equal. apply IHL. intros x y Hx Hy; apply H; [right|]; assumption.
      * f_equal. apply IHR. intros x y Hx Hy; apply H; [|right]; assumption.
Qed.

Definition ev_in (L R : list entry) (ev : mev) : Prop :=
  match ev with
  | OnlyL e => In e L
  | OnlyR e => In e R
  | Both l r => In l L /\ In r R
  end.
Lemma ev_in_mono L R L' R' ev : incl L L' -> incl R R' -> ev_in L R ev -> ev_in L' R' ev.
Proof. intros HL HR. destruct ev; cbn; intuition. Qed.
Lemma merge_in cmp : forall L R ev, In ev (merge cmp L R) -> ev_in L R ev.
Proof.
  induction L as [|a L IHL]; intros R ev H.
  - rewrite merge_nil_l in H. apply in_map_iff in H. destruct H as [e [<- He]]. exact He.
  - induction R as [|b R IHR].
    + rewrite merge_nil_r in H. apply in_map_iff in H. destruct H as [e [<- He]]. exact He.
    + rewrite merge_cons in H. destruct (cmp a b).
      * destruct H as [<-|H]. { split; left; reflexivity. }
        apply IHL in H. eapply ev_in_mono; [| |exact H]; intros x Hx; right; exact Hx.
      * destruct H as [<-|H]. { left; reflexivity. }
        apply IHL in H. eapply ev_in_mono; [| |exact H]; intros x Hx; [right|]; exact Hx.
      * destruct H as [<-|H]. { left; reflexivity. }
        apply IHR in H. eapply ev_in_mono; [| |exact H]; intros x Hx; [|right]; exact Hx.
Qed.
