(* C44 — part 4: the statement about diff() itself. *)
From Coq Require Import List Lia Permutation.
From GixV.Base Require Import Bytes BytesFacts Outcome.
From GixV.C44 Require Import Model Spec Proofs ProofsOrder ProofsWalk ProofsSpec ProofsFlat ProofsApply.
Import ListNotations.

Lemma L_diff_is_tdiff db lhs rhs k L R fuel :
  parse_tree lhs = (L, false) -> parse_tree rhs = (R, false) ->
  wfl db k L -> wfl db k R -> fuel > w db k L R ->
  exists cs, diff fuel db lhs rhs = Ok cs /\
             Permutation (map strip cs) (map (gmap render) (tdiff_level k (sdb_of db) [] L R)).
Proof.
  intros PL PR WL WR Hf. unfold diff. rewrite PL, PR.
  destruct (loop_correct db fuel k [] L R [] None false init_st) as [s' [E P]];
    try reflexivity; try assumption.
  - constructor.
  - cbn [map list_sum fold_right]. lia.
  - exists (recs s'). rewrite E. split; [reflexivity|].
    cbn [init_st recs map app flat_map] in P. rewrite app_nil_r in P. exact P.
Qed.

Lemma sdb_of_found db id es : sdb_of db id = Some es -> find_tree_iter db id = Ok (es, false).
Proof.
  unfold sdb_of. destruct (find_tree_iter db id) as [[es' [|]]| | |]; intros H; try discriminate.
  injection H as ->. reflexivity.
Qed.

(* valid git trees are in particular reachable, decodable and slash-free *)
Lemma wfs_wfl db : forall k L, wfs (sdb_of db) k L -> wfl db k L.
Proof.
  induction k as [|k IH]; intros L (S & N & M & C); split; try exact N.
  - exact C.
  - eapply Forall_impl; [|exact C]. intros e H T. destruct (H T) as [es [E W]].
    exists es. split; [apply sdb_of_found; exact E | apply IH; exact W].
Qed.

Lemma L_diff_is_map_difference db lhs rhs k L R fuel :
  parse_tree lhs = (L, false) -> parse_tree rhs = (R, false) ->
  wfs (sdb_of db) k L -> wfs (sdb_of db) k R -> fuel > w db k L R ->
  exists cs, diff fuel db lhs rhs = Ok cs /\
    forall c, In c (map strip cs) <->
      exists sc, c = gmap render sc /\
        diff_spec (flatten k (sdb_of db) [] L) (flatten k (sdb_of db) [] R) sc.
Proof.
  intros PL PR WL WR Hf.
  destruct (L_diff_is_tdiff db lhs rhs k L R fuel PL PR (wfs_wfl db k L WL) (wfs_wfl db k R WR) Hf)
    as [cs [E P]].
  exists cs. split; [exact E|]. intros c. split.
  - intros H. apply (Permutation_in _ P) in H. apply in_map_iff in H. destruct H as [sc [<- H]].
    exists sc. split; [reflexivity|]. apply (L_tdiff_char (sdb_of db) k [] L R WL WR). exact H.
  - intros [sc [-> H]]. apply (Permutation_in _ (Permutation_sym P)). apply in_map.
    apply (L_tdiff_char (sdb_of db) k [] L R WL WR). exact H.
Qed.

Lemma L_apply_diff db lhs rhs k L R fuel :
  parse_tree lhs = (L, false) -> parse_tree rhs = (R, false) ->
  wfs (sdb_of db) k L -> wfs (sdb_of db) k R -> fuel > w db k L R ->
  exists cs D, diff fuel db lhs rhs = Ok cs /\
    Permutation (map strip cs) (map (gmap render) D) /\
    forall y, applied D (flatten k (sdb_of db) [] L) y <-> In y (flatten k (sdb_of db) [] R).
Proof.
  intros PL PR WL WR Hf.
  destruct (L_diff_is_tdiff db lhs rhs k L R fuel PL PR (wfs_wfl db k L WL) (wfs_wfl db k R WR) Hf)
    as [cs [E P]].
  exists cs, (tdiff_level k (sdb_of db) [] L R). split; [exact E|]. split; [exact P|].
  apply L_apply_set.
  - apply flat_unique. exact WL.
  - apply flat_unique. exact WR.
  - apply L_tdiff_char; assumption.
Qed.

(* a concrete pair of trees: file "a" becomes directory "a" holding "x"; "a.b" stays *)
Definition id1 : bytes := repeat x01 20.
Definition id2 : bytes := repeat x02 20.
Definition id3 : bytes := repeat x03 20.
Definition ex_sub : bytes := bs "100644 x" ++ [x00] ++ id2.
Definition ex_lhs : bytes := bs "100644 a" ++ [x00] ++ id1 ++ bs "100755 a.b" ++ [x00] ++ id1.
Definition ex_rhs : bytes := bs "100644 a.b" ++ [x00] ++ id1 ++ bs "40000 a" ++ [x00] ++ id3.
Definition ex_db : odb := fun id => if bytes_eqb id id3 then Some (true, ex_sub) else None.

Lemma ex_no_slash_a : no_slash (bs "a").
Proof. unfold no_slash. cbn. intuition discriminate. Qed.
Lemma ex_no_slash_ab : no_slash (bs "a.b").
Proof. unfold no_slash. cbn. intuition discriminate. Qed.
Lemma ex_no_slash_x : no_slash (bs "x").
Proof. unfold no_slash. cbn. intuition discriminate. Qed.

Lemma L_example :
  exists L R, parse_tree ex_lhs = (L, false) /\ parse_tree ex_rhs = (R, false) /\
    wfl ex_db 1 L /\ wfl ex_db 1 R /\ w ex_db 1 L R = 5 /\
    diff 6 ex_db ex_lhs ex_rhs =
      Ok [Deletion 33188 id1 (bs "a") None;
          Modification 33261 id1 33188 id1 (bs "a.b");
          Addition 16384 id3 (bs "a") (Some (Parent 1));
          Addition 33188 id2 (bs "a/x") (Some (ChildOf 1))].
Proof.
  eexists. eexists. split; [vm_compute; reflexivity|]. split; [vm_compute; reflexivity|].
  split; [|split; [|split; [vm_compute; reflexivity | vm_compute; reflexivity]]].
  - split.
    + repeat constructor; [apply ex_no_slash_a | apply ex_no_slash_ab].
    + repeat constructor; cbn; discriminate.
  - split.
    + repeat constructor; [apply ex_no_slash_ab | apply ex_no_slash_a].
    + constructor; [cbn; discriminate|]. constructor; [|constructor].
      intros _. eexists. split; [vm_compute; reflexivity|].
      split; repeat constructor; [apply ex_no_slash_x | cbn; discriminate].
Qed.

Ltac mode_tac := unfold mode_ok; cbn [emode]; let H := fresh in intro H; vm_compute in H; try discriminate H; try reflexivity.

Lemma L_example_valid :
  exists L R, parse_tree ex_lhs = (L, false) /\ parse_tree ex_rhs = (R, false) /\
    wfs (sdb_of ex_db) 1 L /\ wfs (sdb_of ex_db) 1 R /\
    length (flatten 1 (sdb_of ex_db) [] L) = 2%nat /\ length (flatten 1 (sdb_of ex_db) [] R) = 3%nat.
Proof.
  eexists. eexists. split; [vm_compute; reflexivity|]. split; [vm_compute; reflexivity|].
  split; [|split; [|split; vm_compute; reflexivity]].
  - split; [|split; [|split]].
    + split; [|split; [constructor | exact I]]. constructor; [vm_compute; reflexivity | constructor].
    + repeat constructor; [apply ex_no_slash_a | apply ex_no_slash_ab].
    + repeat constructor; mode_tac.
    + repeat constructor; cbn; discriminate.
  - split; [|split; [|split]].
    + split; [|split; [constructor | exact I]]. constructor; [vm_compute; reflexivity | constructor].
    + repeat constructor; [apply ex_no_slash_ab | apply ex_no_slash_a].
    + repeat constructor; mode_tac.
    + constructor; [cbn; discriminate|]. constructor; [|constructor].
      intros _. eexists. split; [vm_compute; reflexivity|].
      split; [|split; [|split]].
      * split; [constructor | exact I].
      * repeat constructor. apply ex_no_slash_x.
      * repeat constructor; mode_tac.
      * repeat constructor; cbn; discriminate.
Qed.
