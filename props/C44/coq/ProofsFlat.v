(* C44 — part 6: the recursive diff is the difference of the flattened (path, mode, id) maps. *)
From Coq Require Import List Lia.
From GixV.Base Require Import Bytes BytesFacts Outcome.
From GixV.C44 Require Import Model Spec Proofs ProofsOrder ProofsSpec.
Import ListNotations.
Local Open Scope N_scope.

Definition fitem := (spath * N * bytes)%type.
Definition has_key (F : list fitem) (p : spath) (t : bool) : Prop :=
  exists m o, In (p, m, o) F /\ is_tree m = t.

(* the difference of two flattened trees, keyed by (path, is-a-tree) *)
Definition diff_spec (FA FB : list fitem) (c : schange) : Prop :=
  match c with
  | SDel p m o => In (p, m, o) FA /\ ~ has_key FB p (is_tree m)
  | SAdd p m o => In (p, m, o) FB /\ ~ has_key FA p (is_tree m)
  | SMod p pm po m o =>
      In (p, pm, po) FA /\ In (p, m, o) FB /\ is_tree pm = is_tree m /\ (pm <> m \/ po <> o)
  end.

Lemma keystr_inj a b : no_slash (ename a) -> no_slash (ename b) -> keystr a = keystr b ->
  ename a = ename b /\ is_tree (emode a) = is_tree (emode b).
Proof.
  unfold keystr. intros Ha Hb. destruct (is_tree (emode a)), (is_tree (emode b)); intros E.
  - apply app_inj_tail in E. tauto.
  - exfalso. apply Hb. rewrite app_nil_r in E. rewrite <- E. apply in_or_app. right. left. reflexivity.
  - exfalso. apply Ha. rewrite app_nil_r in E. rewrite E. apply in_or_app. right. left. reflexivity.
  - rewrite !app_nil_r in E. tauto.
Qed.
Lemma key_eq_of a b : ename a = ename b -> is_tree (emode a) = is_tree (emode b) -> key_cmp a b = Eq.
Proof. intros E1 E2. apply key_eq_iff. unfold keystr. rewrite E1, E2. reflexivity. Qed.

Lemma sorted_key_unique : forall L e e', ssorted L -> In e L -> In e' L -> key_cmp e e' = Eq -> e = e'.
Proof.
  induction L as [|a L IH]; intros e e' S He He' E; [destruct He|].
  destruct S as [Sa S']. rewrite Forall_forall in Sa.
  destruct He as [<-|He], He' as [<-|He'].
  - reflexivity.
  - specialize (Sa e' He'). unfold klt in Sa. congruence.
  - specialize (Sa e He). unfold klt in Sa. rewrite key_antisym, Sa in E. discriminate.
  - apply IH; assumption.
Qed.

Lemma key_find : forall (R : list entry) e,
  (forall b, In b R -> key_cmp e b <> Eq) \/ (exists b, In b R /\ key_cmp e b = Eq).
Proof.
  induction R as [|r R IH]; intros e.
  - left. intros ? [].
  - destruct (key_cmp e r) eqn:C.
    + right. exists r. split; [left; reflexivity | exact C].
    + destruct (IH e) as [H|[b [Hb E]]].
      * left. intros b [<-|Hb]; [congruence | auto].
      * right. exists b. split; [right; exact Hb | exact E].
    + destruct (IH e) as [H|[b [Hb E]]].
      * left. intros b [<-|Hb]; [congruence | auto].
      * right. exists b. split; [right; exact Hb | exact E].
Qed.
Lemma key_find_l : forall (L : list entry) e,
  (forall a, In a L -> key_cmp a e <> Eq) \/ (exists a, In a L /\ key_cmp a e = Eq).
Proof.
  intros L e. destruct (key_find L e) as [H|[b [Hb E]]].
  - left. intros a Ha E. apply (H a Ha). rewrite key_antisym, E. reflexivity.
  - right. exists b. split; [exact Hb|]. rewrite key_antisym, E. reflexivity.
Qed.

Section FLAT.
Variable db : sdb.

Definition mode_ok (e : entry) : Prop := is_tree (emode e) = true -> emode e = 16384.
(* valid git trees below a list of entries, of height <= k *)
Fixpoint wfs (k : nat) (L : list entry) : Prop :=
  ssorted L /\ Forall (fun e => no_slash (ename e)) L /\ Forall mode_ok L /\
  Forall (fun e => is_tree (emode e) = true ->
            match k with
            | O => False
            | S k' => exists es, db (eoid e) = Some es /\ wfs k' es
            end) L.

Lemma wfs_sorted k L : wfs k L -> ssorted L.
Proof. destruct k; intros H; apply H. Qed.
Lemma wfs_names k L : wfs k L -> forall e, In e L -> no_slash (ename e).
Proof. destruct k; intros (_ & H & _) e He; rewrite Forall_forall in H; auto. Qed.
Lemma wfs_modes k L : wfs k L -> forall e, In e L -> mode_ok e.
Proof. destruct k; intros (_ & _ & H & _) e He; rewrite Forall_forall in H; auto. Qed.
Lemma wfs_child k L e : wfs k L -> In e L -> is_tree (emode e) = true ->
  exists k', k = S k' /\ wfs k' (entries db (Some (eoid e))).
Proof.
  destruct k; intros (_ & _ & _ & H) He T; rewrite Forall_forall in H; specialize (H e He T).
  - contradiction.
  - destruct H as [es [E W]]. exists k. split; [reflexivity|]. unfold entries. rewrite E. exact W.
Qed.
Lemma wfs_nil k : wfs k [].
Proof. destruct k; repeat split; constructor. Qed.
Lemma wfs_entries_none k : wfs k (entries db None).
Proof. apply wfs_nil. Qed.

(* ---------------------------------------------------------------- membership in flatten *)

Definition sub (k : nat) (p : spath) (e : entry) : list fitem :=
  match k with
  | S k' => if is_tree (emode e) then flatten k' db (p ++ [ename e]) (entries db (Some (eoid e))) else []
  | O => []
  end.
Lemma flatten_eq k p L :
  flatten k db p L = flat_map (fun e => (p ++ [ename e], emode e, eoid e) :: sub k p e) L.
Proof. destruct k; reflexivity. Qed.

Lemma flat_prefix : forall k p L x m o, In (x, m, o) (flatten k db p L) -> exists nm q, x = p ++ nm :: q.
Proof.
  induction k as [|k IH]; intros p L x m o H; rewrite flatten_eq in H; apply in_flat_map in H;
    destruct H as [e [He [H|H]]].
  - injection H as <- _ _. exists (ename e), []. reflexivity.
  - destruct H.
  - injection H as <- _ _. exists (ename e), []. reflexivity.
  - cbn [sub] in H. destruct (is_tree (emode e)); [|destruct H].
    apply IH in H. destruct H as [nm [q ->]]. exists (ename e), (nm :: q). rewrite <- app_assoc. reflexivity.
Qed.

Lemma top_in k p L e : In e L -> In (p ++ [ename e], emode e, eoid e) (flatten k db p L).
Proof. intros He. rewrite flatten_eq. apply in_flat_map. exists e. split; [exact He | left; reflexivity]. Qed.
Lemma deep_in k p L e y : In e L -> is_tree (emode e) = true ->
  In y (flatten k db (p ++ [ename e]) (entries db (Some (eoid e)))) -> In y (flatten (S k) db p L).
Proof.
  intros He T Hy. rewrite flatten_eq. apply in_flat_map. exists e. split; [exact He|]. right.
  cbn [sub]. rewrite T. exact Hy.
Qed.
Lemma flat_inv k p L x m o : In (x, m, o) (flatten k db p L) ->
  exists e, In e L /\
    ((x = p ++ [ename e] /\ m = emode e /\ o = eoid e) \/
     (is_tree (emode e) = true /\ exists k' nm q, k = S k' /\ x = p ++ ename e :: nm :: q /\
        In (x, m, o) (flatten k' db (p ++ [ename e]) (entries db (Some (eoid e)))))).
Proof.
  intros H. rewrite flatten_eq in H. apply in_flat_map in H. destruct H as [e [He [H|H]]]; exists e; (split; [exact He|]).
  - left. injection H as <- <- <-. auto.
  - right. destruct k as [|k']; [destruct H|]. cbn [sub] in H. destruct (is_tree (emode e)) eqn:T; [|destruct H].
    split; [reflexivity|]. destruct (flat_prefix _ _ _ _ _ _ H) as [nm [q E]].
    exists k', nm, q. split; [reflexivity|]. split; [|exact H]. rewrite E, <- app_assoc. reflexivity.
Qed.

Lemma path_top_top (p : spath) a b : p ++ [a] = p ++ [b] -> a = b.
Proof. intros H. apply app_inv_head in H. congruence. Qed.
Lemma path_top_deep (p : spath) a b n q : p ++ [a] = p ++ b :: n :: q -> False.
Proof. intros H. apply app_inv_head in H. discriminate. Qed.
Lemma path_deep_deep (p : spath) a b n q n' q' : p ++ a :: n :: q = p ++ b :: n' :: q' -> a = b.
Proof. intros H. apply app_inv_head in H. congruence. Qed.

(* a key of the form p/nm at the top level *)
Lemma has_key_top k p R nm t : has_key (flatten k db p R) (p ++ [nm]) t ->
  exists e, In e R /\ ename e = nm /\ is_tree (emode e) = t.
Proof.
  intros (m & o & H & T). apply flat_inv in H. destruct H as [e [He [(E & -> & _)|(_ & k' & n & q & _ & E & _)]]].
  - exists e. split; [exact He|]. split; [|exact T]. symmetry. apply (path_top_top p). exact E.
  - exfalso. apply (path_top_deep _ _ _ _ _ E).
Qed.
Lemma has_key_deep k p R nm n q t : has_key (flatten k db p R) (p ++ nm :: n :: q) t ->
  exists e k', In e R /\ ename e = nm /\ is_tree (emode e) = true /\ k = S k' /\
    has_key (flatten k' db (p ++ [nm]) (entries db (Some (eoid e)))) (p ++ nm :: n :: q) t.
Proof.
  intros (m & o & H & T). apply flat_inv in H. destruct H as [e [He [(E & _)|(Te & k' & n' & q' & -> & E & H)]]].
  - exfalso. symmetry in E. apply (path_top_deep _ _ _ _ _ E).
  - pose proof (path_deep_deep _ _ _ _ _ _ _ E) as N. subst nm. exists e, k'. repeat split; auto.
    exists m, o. split; [exact H | exact T].
Qed.

(* ---------------------------------------------------------------- membership in tdiff_level *)

Definition child_t (k : nat) (p : spath) (ev : mev) : list schange :=
  match k, ev_child ev with
  | S k', Some (name, lo, ro) => tdiff_level k' db (p ++ [name]) (entries db lo) (entries db ro)
  | _, _ => []
  end.
Lemma tdiff_in k p L R c : In c (tdiff_level k db p L R) <->
  exists ev, In ev (merge key_cmp L R) /\ (In c (ev_changes p ev) \/ In c (child_t k p ev)).
Proof.
  assert (E : tdiff_level k db p L R = flat_map (fun ev => ev_changes p ev ++ child_t k p ev) (merge key_cmp L R))
    by (destruct k; reflexivity).
  rewrite E, in_flat_map. split; intros [ev [H1 H2]]; exists ev; (split; [exact H1|]).
  - apply in_app_or. exact H2.
  - apply in_or_app. exact H2.
Qed.

Lemma both_kinds L R l r : (forall e, In e L -> no_slash (ename e)) -> (forall e, In e R -> no_slash (ename e)) ->
  ev_spec L R (Both l r) -> ename l = ename r /\ is_tree (emode l) = is_tree (emode r).
Proof.
  intros NL NR (Hl & Hr & E). apply key_eq_iff in E. apply keystr_inj; auto.
Qed.

Lemma flatten_nil k p : flatten k db p [] = [].
Proof. destruct k; reflexivity. Qed.

(* ---------------------------------------------------------------- soundness *)

Lemma changes_sound k p L R ev c : wfs k L -> wfs k R -> ev_spec L R ev -> In c (ev_changes p ev) ->
  diff_spec (flatten k db p L) (flatten k db p R) c.
Proof.
  intros WL WR ES H. pose proof (wfs_names _ _ WL) as NL. pose proof (wfs_names _ _ WR) as NR.
  destruct ev as [e|e|l r].
  - destruct ES as [He Hn]. destruct H as [<-|[]]. split; [apply top_in; exact He|].
    intros HK. apply has_key_top in HK. destruct HK as (e' & He' & En & Et).
    apply (Hn e' He'). apply key_eq_of; congruence.
  - destruct ES as [He Hn]. destruct H as [<-|[]]. split; [apply top_in; exact He|].
    intros HK. apply has_key_top in HK. destruct HK as (e' & He' & En & Et).
    apply (Hn e' He'). apply key_eq_of; congruence.
  - destruct (both_kinds L R l r NL NR ES) as [En Ek]. destruct ES as (Hl & Hr & _).
    unfold ev_changes in H. rewrite Ek in H. destruct (is_tree (emode r)) eqn:Tr.
    + destruct (bytes_eqb (eoid l) (eoid r)) eqn:B; [destruct H|]. destruct H as [<-|[]].
      split; [apply top_in; exact Hl|]. split; [rewrite En; apply top_in; exact Hr|].
      split; [congruence|]. right. intros E. rewrite (proj2 (bytes_eqb_eq _ _) E) in B. discriminate.
    + destruct (same_entry l r) eqn:B; [destruct H|]. destruct H as [<-|[]].
      split; [apply top_in; exact Hl|]. split; [rewrite En; apply top_in; exact Hr|].
      split; [congruence|]. unfold same_entry in B. apply Bool.andb_false_iff in B. destruct B as [B|B].
      * right. intros E. rewrite (proj2 (bytes_eqb_eq _ _) E) in B. discriminate.
      * left. apply N.eqb_neq. exact B.
Qed.

Lemma tdiff_sound : forall k p L R, wfs k L -> wfs k R ->
  forall c, In c (tdiff_level k db p L R) -> diff_spec (flatten k db p L) (flatten k db p R) c.
Proof.
  induction k as [|k IH]; intros p L R WL WR c H; apply tdiff_in in H; destruct H as [ev [Hev [H|H]]];
    pose proof (merge_sound L R (wfs_sorted _ _ WL) (wfs_sorted _ _ WR) ev Hev) as ES.
  - eapply changes_sound; eauto.
  - destruct H.
  - eapply changes_sound; eauto.
  - pose proof (wfs_names _ _ WL) as NL. pose proof (wfs_names _ _ WR) as NR.
    unfold child_t in H. destruct ev as [e|e|l r]; cbn [ev_child] in H.
    + destruct ES as [He Hn]. destruct (is_tree (emode e)) eqn:T; [|destruct H].
      destruct (wfs_child _ _ _ WL He T) as [k' [Ek W]]. injection Ek as <-.
      specialize (IH _ _ _ W (wfs_entries_none k) c H). cbn [entries] in IH. rewrite flatten_nil in IH.
      destruct c as [x m o|x m o|x pm po m o]; cbn [diff_spec] in IH |- *.
      * destruct IH as [[] _].
      * destruct IH as [HIn _]. split; [eapply deep_in; eauto|].
        destruct (flat_prefix _ _ _ _ _ _ HIn) as [nm [q Ex]]. rewrite <- app_assoc in Ex. cbn [app] in Ex. subst x.
        intros HK. apply has_key_deep in HK. destruct HK as (e' & k' & He' & En & Te' & _ & _).
        apply (Hn e' He'). apply key_eq_of; congruence.
      * destruct IH as [_ [[] _]].
    + destruct ES as [He Hn]. destruct (is_tree (emode e)) eqn:T; [|destruct H].
      destruct (wfs_child _ _ _ WR He T) as [k' [Ek W]]. injection Ek as <-.
      specialize (IH _ _ _ (wfs_entries_none k) W c H). cbn [entries] in IH. rewrite flatten_nil in IH.
      destruct c as [x m o|x m o|x pm po m o]; cbn [diff_spec] in IH |- *.
      * destruct IH as [HIn _]. split; [eapply deep_in; eauto|].
        destruct (flat_prefix _ _ _ _ _ _ HIn) as [nm [q Ex]]. rewrite <- app_assoc in Ex. cbn [app] in Ex. subst x.
        intros HK. apply has_key_deep in HK. destruct HK as (e' & k' & He' & En & Te' & _ & _).
        apply (Hn e' He'). apply key_eq_of; congruence.
      * destruct IH as [[] _].
      * destruct IH as [[] _].
    + destruct (both_kinds L R l r NL NR ES) as [En Ek]. destruct ES as (Hl & Hr & EK).
      rewrite Ek in H. destruct (is_tree (emode r)) eqn:Tr; [|destruct H].
      destruct (wfs_child _ _ _ WL Hl Ek) as [k1 [Ek1 W1]]. injection Ek1 as <-.
      destruct (wfs_child _ _ _ WR Hr Tr) as [k2 [Ek2 W2]]. injection Ek2 as <-.
      specialize (IH _ _ _ W1 W2 c H).
      destruct c as [x m o|x m o|x pm po m o]; cbn [diff_spec] in IH |- *.
      * destruct IH as [HIn HN]. split; [apply (deep_in k p R r _ Hr Tr); rewrite <- En; exact HIn|].
        destruct (flat_prefix _ _ _ _ _ _ HIn) as [nm [q Ex]]. rewrite <- app_assoc in Ex. cbn [app] in Ex. subst x.
        intros HK. apply has_key_deep in HK. destruct HK as (e' & k' & He' & En' & Te' & Ek' & HK).
        injection Ek' as <-.
        assert (e' = l) by (apply (sorted_key_unique L); auto; [eapply wfs_sorted; eauto | apply key_eq_of; congruence]).
        subst e'. apply HN. exact HK.
      * destruct IH as [HIn HN]. split; [apply (deep_in k p L l _ Hl Ek); exact HIn|].
        destruct (flat_prefix _ _ _ _ _ _ HIn) as [nm [q Ex]]. rewrite <- app_assoc in Ex. cbn [app] in Ex. subst x.
        intros HK. apply has_key_deep in HK. destruct HK as (e' & k' & He' & En' & Te' & Ek' & HK).
        injection Ek' as <-.
        assert (e' = r) by (apply (sorted_key_unique R); auto; [eapply wfs_sorted; eauto | apply key_eq_of; congruence]).
        subst e'. apply HN. exact HK.
      * destruct IH as (H1 & H2 & H3 & H4). split; [apply (deep_in k p L l _ Hl Ek); exact H1|].
        split; [apply (deep_in k p R r _ Hr Tr); rewrite <- En; exact H2|]. auto.
Qed.

(* ---------------------------------------------------------------- completeness *)

Lemma child_t_both k p l r : is_tree (emode l) = true -> is_tree (emode r) = true ->
  child_t (S k) p (Both l r) =
  tdiff_level k db (p ++ [ename l]) (entries db (Some (eoid l))) (entries db (Some (eoid r))).
Proof. intros Tl Tr. unfold child_t. cbn [ev_child]. rewrite Tl, Tr. reflexivity. Qed.
Lemma child_t_l k p e : is_tree (emode e) = true ->
  child_t (S k) p (OnlyL e) = tdiff_level k db (p ++ [ename e]) (entries db (Some (eoid e))) (entries db None).
Proof. intros T. unfold child_t. cbn [ev_child]. rewrite T. reflexivity. Qed.
Lemma child_t_r k p e : is_tree (emode e) = true ->
  child_t (S k) p (OnlyR e) = tdiff_level k db (p ++ [ename e]) (entries db None) (entries db (Some (eoid e))).
Proof. intros T. unfold child_t. cbn [ev_child]. rewrite T. reflexivity. Qed.

Lemma tdiff_complete : forall k p L R, wfs k L -> wfs k R ->
  forall c, diff_spec (flatten k db p L) (flatten k db p R) c -> In c (tdiff_level k db p L R).
Proof.
  induction k as [k IH] using lt_wf_ind. intros p L R WL WR c HS. apply tdiff_in.
  pose proof (wfs_names _ _ WL) as NL. pose proof (wfs_names _ _ WR) as NR.
  pose proof (wfs_sorted _ _ WL) as SL. pose proof (wfs_sorted _ _ WR) as SR.
  destruct c as [x m o|x m o|x pm po m o]; cbn [diff_spec] in HS.
  - destruct HS as [HIn HN]. apply flat_inv in HIn.
    destruct HIn as [e [He [(-> & -> & ->)|(T & k' & nm & q & -> & -> & HIn)]]].
    + destruct (key_find_l L e) as [Hno|[a [Ha E]]].
      * exists (OnlyR e). split; [apply merge_complete; cbn; auto | left; left; reflexivity].
      * exfalso. apply HN. apply key_eq_iff in E. destruct (keystr_inj a e (NL a Ha) (NR e He) E) as [En Ek].
        exists (emode a), (eoid a). split; [rewrite <- En; apply top_in; exact Ha | exact Ek].
    + destruct (wfs_child _ _ _ WR He T) as [k2 [Ek2 W2]]. injection Ek2 as <-.
      destruct (key_find_l L e) as [Hno|[a [Ha E]]].
      * exists (OnlyR e). split; [apply merge_complete; cbn; auto|]. right. rewrite (child_t_r _ _ _ T).
        apply IH; [lia | apply wfs_entries_none | exact W2 |]. cbn [diff_spec entries]. split; [exact HIn|].
        rewrite flatten_nil. intros (m' & o' & [] & _).
      * pose proof E as E'. apply key_eq_iff in E'.
        destruct (keystr_inj a e (NL a Ha) (NR e He) E') as [En Ek]. rewrite T in Ek.
        destruct (wfs_child _ _ _ WL Ha Ek) as [k1 [Ek1 W1]]. injection Ek1 as <-.
        exists (Both a e). split; [apply merge_complete; cbn; auto|]. right. rewrite (child_t_both _ _ _ _ Ek T).
        apply IH; [lia | exact W1 | exact W2 |]. cbn [diff_spec]. rewrite En. split; [exact HIn|].
        intros (m' & o' & HI & Tk). apply HN. exists m', o'. split; [|exact Tk].
        apply (deep_in k' p L a _ Ha Ek). rewrite En. exact HI.
  - destruct HS as [HIn HN]. apply flat_inv in HIn.
    destruct HIn as [e [He [(-> & -> & ->)|(T & k' & nm & q & -> & -> & HIn)]]].
    + destruct (key_find R e) as [Hno|[b [Hb E]]].
      * exists (OnlyL e). split; [apply merge_complete; cbn; auto | left; left; reflexivity].
      * exfalso. apply HN. apply key_eq_iff in E. destruct (keystr_inj e b (NL e He) (NR b Hb) E) as [En Ek].
        exists (emode b), (eoid b). split; [rewrite En; apply top_in; exact Hb | symmetry; exact Ek].
    + destruct (wfs_child _ _ _ WL He T) as [k2 [Ek2 W2]]. injection Ek2 as <-.
      destruct (key_find R e) as [Hno|[b [Hb E]]].
      * exists (OnlyL e). split; [apply merge_complete; cbn; auto|]. right. rewrite (child_t_l _ _ _ T).
        apply IH; [lia | exact W2 | apply wfs_entries_none |]. cbn [diff_spec entries]. split; [exact HIn|].
        rewrite flatten_nil. intros (m' & o' & [] & _).
      * pose proof E as E'. apply key_eq_iff in E'.
        destruct (keystr_inj e b (NL e He) (NR b Hb) E') as [En Ek]. rewrite T in Ek. symmetry in Ek.
        destruct (wfs_child _ _ _ WR Hb Ek) as [k1 [Ek1 W1]]. injection Ek1 as <-.
        exists (Both e b). split; [apply merge_complete; cbn; auto|]. right. rewrite (child_t_both _ _ _ _ T Ek).
        apply IH; [lia | exact W2 | exact W1 |]. cbn [diff_spec]. split; [exact HIn|].
        intros (m' & o' & HI & Tk). apply HN. exists m', o'. split; [|exact Tk].
        apply (deep_in k' p R b _ Hb Ek). rewrite <- En. exact HI.
  - destruct HS as (H1 & H2 & H3 & H4). apply flat_inv in H1. apply flat_inv in H2.
    destruct H1 as [e [He [(Ex & -> & ->)|(T & k1 & n1 & q1 & Ek1 & Ex & H1)]]];
    destruct H2 as [e' [He' [(Ex' & -> & ->)|(T' & k2 & n2 & q2 & Ek2 & Ex' & H2)]]].
    + rewrite Ex in Ex'. apply path_top_top in Ex'. subst x.
      exists (Both e e'). split; [apply merge_complete; auto; cbn; repeat split; auto; apply key_eq_of; auto|].
      left. unfold ev_changes. rewrite H3. destruct (is_tree (emode e')) eqn:T'.
      * pose proof (wfs_modes _ _ WL e He H3) as M1. pose proof (wfs_modes _ _ WR e' He' T') as M2.
        destruct H4 as [H4|H4]; [congruence|].
        destruct (bytes_eqb (eoid e) (eoid e')) eqn:B; [apply bytes_eqb_eq in B; contradiction|].
        left. reflexivity.
      * destruct (same_entry e e') eqn:B.
        { unfold same_entry in B. apply Bool.andb_true_iff in B. destruct B as [B1 B2].
          apply bytes_eqb_eq in B1. apply N.eqb_eq in B2. destruct H4; contradiction. }
        left. reflexivity.
    + exfalso. rewrite Ex in Ex'. apply (path_top_deep _ _ _ _ _ Ex').
    + exfalso. rewrite Ex' in Ex. apply (path_top_deep _ _ _ _ _ Ex).
    + rewrite Ex in Ex'. pose proof (path_deep_deep _ _ _ _ _ _ _ Ex') as En. subst k. injection Ek2 as <-.
      destruct (wfs_child _ _ _ WL He T) as [k3 [Ek3 W1]]. injection Ek3 as <-.
      destruct (wfs_child _ _ _ WR He' T') as [k3 [Ek3 W2]]. injection Ek3 as <-.
      exists (Both e e'). split; [apply merge_complete; auto; cbn; repeat split; auto; apply key_eq_of; congruence|].
      right. rewrite (child_t_both _ _ _ _ T T'). apply IH; [lia | exact W1 | exact W2 |].
      cbn [diff_spec]. split; [exact H1|]. split; [rewrite En; exact H2|]. auto.
Qed.

Theorem L_tdiff_char k p L R : wfs k L -> wfs k R ->
  forall c, In c (tdiff_level k db p L R) <-> diff_spec (flatten k db p L) (flatten k db p R) c.
Proof. intros WL WR c. split; [apply tdiff_sound | apply tdiff_complete]; assumption. Qed.

End FLAT.
