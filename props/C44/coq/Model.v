(* C44 — model of gix-diff tree diff without rename tracking.
   Sources: gix-diff/src/tree/function.rs (diff, compare, delete/add_entry_schedule_recursion,
   catchup_lhs_with_rhs, catchup_rhs_with_lhs, handle_lhs_and_rhs_with_equal_filenames, to_child),
   gix-diff/src/tree/recorder.rs (Recorder with Location::Path, the default),
   gix-object/src/tree/ref_iter.rs (TreeRefIter::next, decode::fast_entry, mode_from_decimal,
   EntryMode::try_from<u32>), gix-object/src/tree/mod.rs (EntryMode::is_tree).
   An iterator over a tree is [iter] = the entries that still decode, and whether a decode error
   follows them.  The object database is a function from ids to (is-a-tree, data).
   Not modelled: u32 overflow of the change id (needs 2^32 added/deleted directories);
   Recorder locations FileName/None; delegates that cancel (Recorder never does). *)
From GixV.Base Require Import Bytes BytesFacts Outcome.
Local Open Scope N_scope.

Record entry := { emode : N; ename : bytes; eoid : bytes }.

(* ---------------------------------------------------------------- tree decoding (lazy iterator) *)

(* mode_from_decimal: octal digits up to the first space; u32 arithmetic, `<<` drops high bits *)
Fixpoint parse_mode (i : bytes) (acc : N) : option (N * bytes) :=
  match i with
  | [] => None
  | b :: r =>
      if beqb b x20 then Some (acc, r)
      else if N.ltb (b2N b) 48 || N.ltb 55 (b2N b) then None
      else parse_mode r (N.modulo (acc * 8 + (b2N b - 48)) 4294967296)
  end.

(* EntryMode::try_from(u32) followed by `as u16` *)
Definition entry_mode_of (m : N) : option N :=
  if N.eqb m 16384 || N.eqb m 40960 || N.eqb m 57344 then Some m
  else if N.eqb (N.land m 32768) 32768 then Some (N.modulo m 65536)
  else None.

Fixpoint split_nul (i : bytes) : option (bytes * bytes) :=
  match i with
  | [] => None
  | b :: r =>
      if beqb b x00 then Some ([], r)
      else match split_nul r with Some (n, r') => Some (b :: n, r') | None => None end
  end.

Definition fast_entry (i : bytes) : option (bytes * entry) :=
  match parse_mode i 0 with
  | None => None
  | Some (m, i1) =>
      match entry_mode_of m with
      | None => None
      | Some mode =>
          match split_nul i1 with
          | None => None
          | Some (name, i2) =>
              if Nat.ltb (length i2) 20 then None
              else Some (skipn 20 i2, {| emode := mode; ename := name; eoid := firstn 20 i2 |})
          end
      end
  end.

Definition iter := (list entry * bool)%type.

(* all of TreeRefIter's items: the entries, then possibly one decode error *)
Fixpoint parse_tree_f (fuel : nat) (data : bytes) : iter :=
  match fuel with
  | O => ([], false)
  | S f =>
      match data with
      | [] => ([], false)
      | _ => match fast_entry data with
             | Some (rest, e) => let '(es, bad) := parse_tree_f f rest in (e :: es, bad)
             | None => ([], true)
             end
      end
  end.
Definition parse_tree (data : bytes) : iter := parse_tree_f (length data) data.

(* ---------------------------------------------------------------- entries and their order *)

Definition is_tree (m : N) : bool := N.eqb (N.land m 61440) 16384.

Definition next_byte (name : bytes) (common : nat) (tree : bool) : option byte :=
  match nth_error name common with
  | Some b => Some b
  | None => if tree then Some x2f else None
  end.
Definition opt_byte_cmp (a b : option byte) : comparison :=
  match a, b with
  | None, None => Eq
  | None, Some _ => Lt
  | Some _, None => Gt
  | Some x, Some y => N.compare (b2N x) (b2N y)
  end.
(* function.rs: compare *)
Definition compare (a b : entry) : comparison :=
  let common := Nat.min (length (ename a)) (length (ename b)) in
  cmp_then (bytes_cmp (firstn common (ename a)) (firstn common (ename b)))
           (opt_byte_cmp (next_byte (ename a) common (is_tree (emode a)))
                         (next_byte (ename b) common (is_tree (emode b)))).

(* ---------------------------------------------------------------- Recorder *)

Inductive rel := Parent (n : N) | ChildOf (n : N).
Definition to_child (r : option rel) : option rel :=
  match r with
  | Some (Parent n) => Some (ChildOf n)
  | Some (ChildOf n) => Some (ChildOf n)
  | None => None
  end.

Inductive change :=
| Addition (m : N) (o : bytes) (p : bytes) (r : option rel)
| Deletion (m : N) (o : bytes) (p : bytes) (r : option rel)
| Modification (pm : N) (po : bytes) (m : N) (o : bytes) (p : bytes).

(* what visit() receives: the change without its path *)
Inductive vchange :=
| VAdd (m : N) (o : bytes) (r : option rel)
| VDel (m : N) (o : bytes) (r : option rel)
| VMod (pm : N) (po : bytes) (m : N) (o : bytes).

Definition qitem := (option bytes * option bytes * option rel)%type.

(* Recorder {path, path_deque, records} + State {trees, change_id} *)
Record st := mkst {
  path : bytes; deque : list bytes; recs : list change;
  queue : list qitem; cid : N }.

Fixpoint rfind_slash (p : bytes) : option nat :=
  match p with
  | [] => None
  | b :: r => match rfind_slash r with
              | Some i => Some (S i)
              | None => if beqb b x2f then Some O else None
              end
  end.
Definition pop_element (p : bytes) : bytes :=
  match rfind_slash p with Some pos => firstn pos p | None => [] end.
Definition push_element (p name : bytes) : bytes :=
  match p with [] => name | _ => p ++ x2f :: name end.

Definition with_path (s : st) (p : bytes) : st :=
  mkst p (deque s) (recs s) (queue s) (cid s).
Definition push_path_component (name : bytes) (s : st) : st := with_path s (push_element (path s) name).
Definition pop_path_component (s : st) : st := with_path s (pop_element (path s)).
Definition push_back_tracked (name : bytes) (s : st) : st :=
  let p := push_element (path s) name in
  mkst p (deque s ++ [p]) (recs s) (queue s) (cid s).
Definition pop_front_tracked {E} (s : st) : outcome st E :=
  match deque s with
  | [] => Panic                                   (* expect("every parent is set only once") *)
  | p :: d => Ok (mkst p d (recs s) (queue s) (cid s))
  end.
Definition visit (c : vchange) (s : st) : st :=
  let r := match c with
           | VAdd m o r => Addition m o (path s) r
           | VDel m o r => Deletion m o (path s) r
           | VMod pm po m o => Modification pm po m o (path s)
           end in
  mkst (path s) (deque s) (recs s ++ [r]) (queue s) (cid s).
Definition enqueue (q : qitem) (s : st) : st :=
  mkst (path s) (deque s) (recs s) (queue s ++ [q]) (cid s).
Definition with_cid (s : st) (c : N) : st := mkst (path s) (deque s) (recs s) (queue s) c.

(* relation_to_propagate.or_else(|| is_tree.then(|| { change_id += 1; Parent(change_id) })) *)
Definition fresh_relation (tree : bool) (prop : option rel) (s : st) : option rel * st :=
  match prop with
  | Some r => (Some r, s)
  | None => if tree then (Some (Parent (cid s + 1)), with_cid s (cid s + 1)) else (None, s)
  end.

(* ---------------------------------------------------------------- function.rs *)

Definition delete_entry (e : entry) (prop : option rel) (s : st) : st :=
  let s := push_path_component (ename e) s in
  let '(relation, s) := fresh_relation (is_tree (emode e)) prop s in
  let s := visit (VDel (emode e) (eoid e) relation) s in
  if is_tree (emode e) then
    enqueue (Some (eoid e), None, to_child relation)
            (push_back_tracked (ename e) (pop_path_component s))
  else s.

Definition add_entry (e : entry) (prop : option rel) (s : st) : st :=
  let s := push_path_component (ename e) s in
  let '(relation, s) := fresh_relation (is_tree (emode e)) prop s in
  let s := visit (VAdd (emode e) (eoid e) relation) s in
  if is_tree (emode e) then
    enqueue (None, Some (eoid e), to_child relation)
            (push_back_tracked (ename e) (pop_path_component s))
  else s.

Definition handle_equal (l r : entry) (prop : option rel) (s : st) : st :=
  match is_tree (emode l), is_tree (emode r) with
  | true, true =>
      let s := push_back_tracked (ename l) s in
      let s := if bytes_eqb (eoid l) (eoid r) then s
               else visit (VMod (emode l) (eoid l) (emode r) (eoid r)) s in
      enqueue (Some (eoid l), Some (eoid r), prop) s
  | false, true =>
      let s := push_back_tracked (ename l) s in
      let s := visit (VDel (emode l) (eoid l) None) s in
      let '(relation, s) := fresh_relation true prop s in
      let s := visit (VAdd (emode r) (eoid r) relation) s in
      enqueue (None, Some (eoid r), to_child relation) s
  | true, false =>
      let s := push_back_tracked (ename l) s in
      let '(relation, s) := fresh_relation true prop s in
      let s := visit (VDel (emode l) (eoid l) relation) s in
      let s := visit (VAdd (emode r) (eoid r) None) s in
      enqueue (Some (eoid l), None, to_child relation) s
  | false, false =>
      let s := push_path_component (ename l) s in
      if bytes_eqb (eoid l) (eoid r) && N.eqb (emode l) (emode r) then s
      else visit (VMod (emode l) (eoid l) (emode r) (eoid r)) s
  end.

Inductive err := Find | EntriesDecode | Cancelled.

(* the loop of catchup_lhs_with_rhs after the first deletion; [es] = lhs_entries (peekable) *)
Fixpoint catchup_lhs_loop (es : list entry) (bad : bool) (rhs : entry) (prop : option rel) (s : st)
  : outcome (st * iter) err :=
  match es with
  | [] => if bad then Err EntriesDecode
          else Ok (add_entry rhs prop (pop_path_component s), ([], false))
  | l :: rest =>
      match compare l rhs with
      | Eq => Ok (handle_equal l rhs prop (pop_path_component s), (rest, bad))
      | Lt => catchup_lhs_loop rest bad rhs prop (delete_entry l prop (pop_path_component s))
      | Gt => Ok (add_entry rhs prop (pop_path_component s), (l :: rest, bad))
      end
  end.
Definition catchup_lhs_with_rhs (it : iter) (lhs rhs : entry) (prop : option rel) (s : st) :=
  catchup_lhs_loop (fst it) (snd it) rhs prop (delete_entry lhs prop s).

Fixpoint catchup_rhs_loop (es : list entry) (bad : bool) (lhs : entry) (prop : option rel) (s : st)
  : outcome (st * iter) err :=
  match es with
  | [] => if bad then Err EntriesDecode
          else Ok (delete_entry lhs prop (pop_path_component s), ([], false))
  | r :: rest =>
      match compare lhs r with
      | Eq => Ok (handle_equal lhs r prop (pop_path_component s), (rest, bad))
      | Gt => catchup_rhs_loop rest bad lhs prop (add_entry r prop (pop_path_component s))
      | Lt => Ok (delete_entry lhs prop (pop_path_component s), (r :: rest, bad))
      end
  end.
Definition catchup_rhs_with_lhs (it : iter) (lhs rhs : entry) (prop : option rel) (s : st) :=
  catchup_rhs_loop (fst it) (snd it) lhs prop (add_entry rhs prop s).

(* Iterator::next on TreeRefIter: after an error the iterator is empty *)
Inductive item := NoItem | BadItem | AnEntry (e : entry) (rest : iter).
Definition next (it : iter) : item :=
  match it with
  | (e :: r, bad) => AnEntry e (r, bad)
  | ([], true) => BadItem
  | ([], false) => NoItem
  end.

Definition odb := bytes -> option (bool * bytes).      (* id -> (kind is Tree, data) *)
(* objects.find_tree_iter(id, buf) *)
Definition find_tree_iter (db : odb) (id : bytes) : outcome iter err :=
  match db id with
  | Some (true, data) => Ok (parse_tree data)
  | _ => Err Find
  end.

Local Open Scope outcome_scope.

(* the loop of diff(); one unit of fuel per iteration *)
Fixpoint diff_loop (fuel : nat) (db : odb) (L R : iter) (relation : option rel) (pop_path : bool)
                   (s : st) : outcome st err :=
  match fuel with
  | O => OutOfFuel
  | S f =>
      let s := if pop_path then pop_path_component s else s in
      match next L, next R with
      | NoItem, NoItem =>
          match queue s with
          | [] => Ok s
          | q :: qs =>
              let s := mkst (path s) (deque s) (recs s) qs (cid s) in
              match q with
              | (None, Some r, rl) =>
                  s <- pop_front_tracked s ;;
                  R' <- find_tree_iter db r ;;
                  diff_loop f db L R' rl false s
              | (Some l, Some r, rl) =>
                  s <- pop_front_tracked s ;;
                  L' <- find_tree_iter db l ;;
                  R' <- find_tree_iter db r ;;
                  diff_loop f db L' R' rl false s
              | (Some l, None, rl) =>
                  s <- pop_front_tracked s ;;
                  L' <- find_tree_iter db l ;;
                  diff_loop f db L' R rl false s
              | (None, None, _) => Panic          (* unreachable!() *)
              end
          end
      | AnEntry l L', AnEntry r R' =>
          match compare l r with
          | Eq => diff_loop f db L' R' relation true (handle_equal l r relation s)
          | Lt => '(s, L'') <- catchup_lhs_with_rhs L' l r relation s ;;
                  diff_loop f db L'' R' relation true s
          | Gt => '(s, R'') <- catchup_rhs_with_lhs R' l r relation s ;;
                  diff_loop f db L' R'' relation true s
          end
      | AnEntry l L', NoItem => diff_loop f db L' R relation true (delete_entry l relation s)
      | NoItem, AnEntry r R' => diff_loop f db L R' relation true (add_entry r relation s)
      | _, _ => Err EntriesDecode                  (* (lhs?, rhs?) with a failing item *)
      end
  end.

Definition init_st : st := mkst [] [] [] [] 0.

(* diff(lhs, rhs, State::default(), objects, &mut Recorder::default()) -> recorder.records *)
Definition diff (fuel : nat) (db : odb) (lhs rhs : bytes) : outcome (list change) err :=
  s <- diff_loop fuel db (parse_tree lhs) (parse_tree rhs) None false init_st ;;
  Ok (recs s).
