(* C44 — part 3: the loop of diff() with its queue and the Recorder computes, breadth-first, a
   permutation of the recursive specification [tdiff_level]; it needs no more fuel than the number
   of merge events and tree pairs, never panics, and fails only when an object is missing. *)
From Coq Require Import List Lia Permutation.
From GixV.Base Require Import Bytes BytesFacts Outcome.
From GixV.C44 Require Import Model Spec Proofs ProofsOrder.
Import ListNotations.

Definition ev_name (ev : mev) : bytes :=
  match ev with OnlyL e => ename e | OnlyR e => ename e | Both l _ => ename l end.
Definition qpair (q : qitem) : option bytes * option bytes := fst q.

Record item := mkitem { ipath : spath; ilo : option bytes; iro : option bytes; ik : nat }.
Definition ipair (it : item) := (ilo it, iro it).
Definition irender (it : item) := render (ipath it).
Definition child_items (k : nat) (p : spath) (ev : mev) : list item :=
  match ev_child ev with
  | Some (name, lo, ro) => [mkitem (p ++ [name]) lo ro (pred k)]
  | None => []
  end.

Lemma step_ev_view rl k p ev s : path s = render p -> no_slash (ev_name ev) ->
  path (step_ev rl s ev) = render p /\
  deque (step_ev rl s ev) = deque s ++ map irender (child_items k p ev) /\
  map strip (recs (step_ev rl s ev)) = map strip (recs s) ++ map (gmap render) (ev_changes p ev) /\
  map qpair (queue (step_ev rl s ev)) = map qpair (queue s) ++ map ipair (child_items k p ev).
Proof.
  destruct s as [pa dq rc qu ci]. cbn [path]. intros -> Hn.
  destruct ev as [e|e|l r]; cbn [ev_name] in Hn;
    unfold step_ev, do_ev, delete_entry, add_entry, handle_equal, child_items, ev_child, ev_changes, same_entry, irender, ipair, qpair.
  - destruct (is_tree (emode e)) eqn:T; destruct rl as [rl|];
      cbn -[render push_element pop_element]; unfold irender, ipair, qpair; cbn -[render push_element pop_element]; rewrite ?map_app, ?render_snoc, ?L_pop_push by exact Hn;
      cbn -[render push_element pop_element]; rewrite ?app_nil_r; repeat split; reflexivity.
  - destruct (is_tree (emode e)) eqn:T; destruct rl as [rl|];
      cbn -[render push_element pop_element]; unfold irender, ipair, qpair; cbn -[render push_element pop_element]; rewrite ?map_app, ?render_snoc, ?L_pop_push by exact Hn;
      cbn -[render push_element pop_element]; rewrite ?app_nil_r; repeat split; reflexivity.
  - destruct (is_tree (emode l)) eqn:Tl; destruct (is_tree (emode r)) eqn:Tr; destruct rl as [rl|];
      try destruct (bytes_eqb (eoid l) (eoid r)); try destruct (N.eqb (emode l) (emode r));
      cbn -[render push_element pop_element]; unfold irender, ipair, qpair; cbn -[render push_element pop_element]; rewrite ?map_app, ?render_snoc, ?L_pop_push by exact Hn;
      cbn -[render push_element pop_element]; rewrite ?app_nil_r, <- ?app_assoc; repeat split; reflexivity.
Qed.

Lemma fold_step_view rl k p : forall evs s, path s = render p -> Forall (fun ev => no_slash (ev_name ev)) evs ->
  path (fold_left (step_ev rl) evs s) = render p /\
  deque (fold_left (step_ev rl) evs s) = deque s ++ map irender (flat_map (child_items k p) evs) /\
  map strip (recs (fold_left (step_ev rl) evs s)) =
    map strip (recs s) ++ map (gmap render) (flat_map (ev_changes p) evs) /\
  map qpair (queue (fold_left (step_ev rl) evs s)) =
    map qpair (queue s) ++ map ipair (flat_map (child_items k p) evs).
Proof.
  induction evs as [|ev evs IH]; intros s Hp Hn.
  - cbn. rewrite !app_nil_r. auto.
  - inversion Hn as [|? ? Hn1 Hn2]; subst.
    destruct (step_ev_view rl k p ev s Hp Hn1) as (A & B & C & D).
    destruct (IH (step_ev rl s ev) A Hn2) as (A' & B' & C' & D').
    cbn [fold_left flat_map]. rewrite A', B', C', D', B, C, D, !map_app, <- !app_assoc. auto.
Qed.

Section WALK.
Variable db : odb.

(* the trees of the object database that decode completely *)
Definition sdb_of : sdb :=
  fun id => match find_tree_iter db id with Ok (es, false) => Some es | _ => None end.

(* the trees reachable from a list of entries exist, decode completely, have height <= k, and no name contains '/' *)
Fixpoint wfl (k : nat) (L : list entry) : Prop :=
  Forall (fun e => no_slash (ename e)) L /\
  Forall (fun e => is_tree (emode e) = true ->
            match k with
            | O => False
            | S k' => exists es, find_tree_iter db (eoid e) = Ok (es, false) /\ wfl k' es
            end) L.
Definition wfo (k : nat) (o : option bytes) : Prop :=
  match o with
  | None => True
  | Some id => exists es, find_tree_iter db id = Ok (es, false) /\ wfl k es
  end.

Lemma wfl_nil k : wfl k [].
Proof. destruct k; split; constructor. Qed.
Lemma wfl_names k L : wfl k L -> Forall (fun e => no_slash (ename e)) L.
Proof. destruct k; intros [H _]; exact H. Qed.
Lemma wfl_suffix k pre L : wfl k (pre ++ L) -> wfl k L.
Proof.
  destruct k; intros [H1 H2]; apply Forall_app in H1; apply Forall_app in H2; split; tauto.
Qed.
Lemma wfl_child k L e : wfl k L -> In e L -> is_tree (emode e) = true ->
  wfo (pred k) (Some (eoid e)) /\ k <> O.
Proof.
  destruct k; intros [_ H] Hin T; rewrite Forall_forall in H; specialize (H e Hin T).
  - contradiction.
  - split; [exact H | discriminate].
Qed.
Lemma entries_found id es : find_tree_iter db id = Ok (es, false) -> entries sdb_of (Some id) = es.
Proof. intros H. unfold entries, sdb_of. rewrite H. reflexivity. Qed.
Lemma wfo_entries k o : wfo k o -> wfl k (entries sdb_of o).
Proof.
  destruct o as [id|]; cbn [wfo].
  - intros [es [H W]]. rewrite (entries_found _ _ H). exact W.
  - intros _. apply wfl_nil.
Qed.

Definition item_wf (it : item) : Prop :=
  ipair it <> (None, None) /\ wfo (ik it) (ilo it) /\ wfo (ik it) (iro it).
Definition item_tdiff (it : item) : list schange :=
  tdiff_level (ik it) sdb_of (ipath it) (entries sdb_of (ilo it)) (entries sdb_of (iro it)).

(* number of loop iterations a pair of lists needs: one per merge event and one per tree pair *)
Fixpoint w (k : nat) (L R : list entry) : nat :=
  list_sum (map (fun ev =>
      S (match k, ev_child ev with
         | S k', Some (_, lo, ro) => S (w k' (entries sdb_of lo) (entries sdb_of ro))
         | _, _ => O
         end)) (merge key_cmp L R)).
Definition iw (it : item) : nat := S (w (ik it) (entries sdb_of (ilo it)) (entries sdb_of (iro it))).

Definition evw (k : nat) (ev : mev) : nat :=
  S (match k, ev_child ev with
     | S k', Some (_, lo, ro) => S (w k' (entries sdb_of lo) (entries sdb_of ro))
     | _, _ => O
     end).
Lemma w_eq k L R : w k L R = list_sum (map (evw k) (merge key_cmp L R)).
Proof. destruct k; reflexivity. Qed.

Definition evt (k : nat) (p : spath) (ev : mev) : list schange :=
  ev_changes p ev ++
  match k, ev_child ev with
  | S k', Some (name, lo, ro) => tdiff_level k' sdb_of (p ++ [name]) (entries sdb_of lo) (entries sdb_of ro)
  | _, _ => []
  end.
Lemma tdiff_eq k p L R : tdiff_level k sdb_of p L R = flat_map (evt k p) (merge key_cmp L R).
Proof. destruct k; reflexivity. Qed.

(* an event of well-formed lists: its name has no '/', and a child pair exists only for k > 0 *)
Definition ev_good (k : nat) (ev : mev) : Prop :=
  no_slash (ev_name ev) /\ (ev_child ev <> None -> k <> O) /\
  Forall item_wf (child_items k [] ev).

Lemma child_items_wf_any k p q ev : Forall item_wf (child_items k p ev) -> Forall item_wf (child_items k q ev).
Proof.
  unfold child_items. destruct (ev_child ev) as [[[name lo] ro]|]; [|constructor].
  intros H. inversion H as [|? ? H1 _]; subst. constructor; [|constructor]. exact H1.
Qed.

Lemma ev_in_good k L R ev : wfl k L -> wfl k R -> ev_in L R ev -> ev_good k ev.
Proof.
  intros WL WR Hin. pose proof (wfl_names _ _ WL) as NL. pose proof (wfl_names _ _ WR) as NR.
  rewrite Forall_forall in NL, NR.
  destruct ev as [e|e|l r]; cbn [ev_in] in Hin; unfold ev_good, child_items, ev_child; cbn [ev_name].
  - split; [apply NL; exact Hin|]. destruct (is_tree (emode e)) eqn:T.
    + destruct (wfl_child _ _ _ WL Hin T) as [W K]. split; [intros _; exact K|].
      constructor; [|constructor]. repeat split; cbn; try exact W; try exact I; discriminate.
    + split; [congruence | constructor].
  - split; [apply NR; exact Hin|]. destruct (is_tree (emode e)) eqn:T.
    + destruct (wfl_child _ _ _ WR Hin T) as [W K]. split; [intros _; exact K|].
      constructor; [|constructor]. repeat split; cbn; try exact W; try exact I; discriminate.
    + split; [congruence | constructor].
  - destruct Hin as [Hl Hr]. split; [apply NL; exact Hl|].
    destruct (is_tree (emode l)) eqn:Tl; destruct (is_tree (emode r)) eqn:Tr.
    + destruct (wfl_child _ _ _ WL Hl Tl) as [W1 K]. destruct (wfl_child _ _ _ WR Hr Tr) as [W2 _].
      split; [intros _; exact K|]. constructor; [|constructor].
      repeat split; cbn; try exact W1; try exact W2; discriminate.
    + destruct (wfl_child _ _ _ WL Hl Tl) as [W1 K].
      split; [intros _; exact K|]. constructor; [|constructor].
      repeat split; cbn; try exact W1; try exact I; discriminate.
    + destruct (wfl_child _ _ _ WR Hr Tr) as [W2 K].
      split; [intros _; exact K|]. constructor; [|constructor].
      repeat split; cbn; try exact W2; try exact I; discriminate.
    + split; [congruence | constructor].
Qed.

(* weight and specification of an event in terms of its child item *)
Lemma evw_items k p ev : (ev_child ev <> None -> k <> O) ->
  evw k ev = S (list_sum (map iw (child_items k p ev))).
Proof.
  unfold evw, child_items. destruct (ev_child ev) as [[[name lo] ro]|]; intros H.
  - destruct k; [exfalso; apply H; congruence|]. cbn. rewrite PeanoNat.Nat.add_0_r. reflexivity.
  - destruct k; reflexivity.
Qed.
Lemma evt_items k p ev : (ev_child ev <> None -> k <> O) ->
  evt k p ev = ev_changes p ev ++ flat_map item_tdiff (child_items k p ev).
Proof.
  unfold evt, child_items. destruct (ev_child ev) as [[[name lo] ro]|]; intros H.
  - destruct k; [exfalso; apply H; congruence|]. cbn. rewrite app_nil_r. reflexivity.
  - destruct k; reflexivity.
Qed.

Lemma list_sum_cons a l : list_sum (a :: l) = a + list_sum l.
Proof. reflexivity. Qed.
Lemma sum_evw k p : forall evs, Forall (ev_good k) evs ->
  list_sum (map (evw k) evs) = length evs + list_sum (map iw (flat_map (child_items k p) evs)).
Proof.
  induction evs as [|ev evs IH]; intros H; [reflexivity|].
  inversion H as [|? ? [_ [H1 _]] H2]; subst. cbn [map flat_map length].
  rewrite list_sum_cons, map_app, list_sum_app, (evw_items k p ev H1), IH by exact H2. lia.
Qed.
Lemma perm_evt k p : forall evs, Forall (ev_good k) evs ->
  Permutation (flat_map (evt k p) evs)
              (flat_map (ev_changes p) evs ++ flat_map item_tdiff (flat_map (child_items k p) evs)).
Proof.
  induction evs as [|ev evs IH]; intros H; [constructor|].
  inversion H as [|? ? [_ [H1 _]] H2]; subst. cbn [flat_map].
  rewrite (evt_items k p ev H1), flat_map_app, <- !app_assoc.
  apply Permutation_app_head.
  eapply Permutation_trans; [apply Permutation_app_head; apply IH; exact H2|].
  rewrite !app_assoc. apply Permutation_app_tail. apply Permutation_app_comm.
Qed.
Lemma items_wf k p : forall evs, Forall (ev_good k) evs -> Forall item_wf (flat_map (child_items k p) evs).
Proof.
  induction evs as [|ev evs IH]; intros H; [constructor|].
  inversion H as [|? ? [_ [_ H1]] H2]; subst. cbn [flat_map]. apply Forall_app. split.
  - eapply child_items_wf_any. exact H1.
  - apply IH. exact H2.
Qed.

Lemma merge_key_compare k L R : wfl k L -> wfl k R -> merge key_cmp L R = merge compare L R.
Proof.
  intros WL WR. apply merge_ext. intros a b Ha Hb. symmetry.
  pose proof (wfl_names _ _ WL) as NL. pose proof (wfl_names _ _ WR) as NR.
  rewrite Forall_forall in NL, NR. apply L_compare_key; auto.
Qed.

(* the iteration that finds both lists exhausted and takes the next pair of trees from the queue *)
Lemma loop_pop f rl (pop : bool) s a b qr qs d ds k :
  let s0 := if pop then pop_path_component s else s in
  queue s0 = (a, b, qr) :: qs -> deque s0 = d :: ds ->
  (a, b) <> (None, None) -> wfo k a -> wfo k b ->
  diff_loop (S f) db ([], false) ([], false) rl pop s =
  diff_loop f db (entries sdb_of a, false) (entries sdb_of b, false) qr false
            (mkst d ds (recs s0) qs (cid s0)).
Proof.
  intros s0 EQ ED NE Wa Wb. cbn [diff_loop next]. fold s0. rewrite EQ.
  unfold pop_front_tracked. cbn [deque]. rewrite ED.
  destruct a as [a|], b as [b|]; cbn [wfo] in Wa, Wb.
  - destruct Wa as [ea [Fa _]]. destruct Wb as [eb [Fb _]].
    rewrite (entries_found _ _ Fa), (entries_found _ _ Fb). cbn [obind]. rewrite Fa. cbn [obind]. rewrite Fb.
    reflexivity.
  - destruct Wa as [ea [Fa _]]. rewrite (entries_found _ _ Fa). cbn [obind]. rewrite Fa. reflexivity.
  - destruct Wb as [eb [Fb _]]. rewrite (entries_found _ _ Fb). cbn [obind]. rewrite Fb. reflexivity.
  - congruence.
Qed.

Lemma tdiff_nil k p : tdiff_level k sdb_of p [] [] = [].
Proof. destruct k; reflexivity. Qed.
Lemma w_nil k : w k [] [] = 0.
Proof. destruct k; reflexivity. Qed.

Theorem loop_correct : forall fuel k p L R Q rl (pop : bool) s,
  let s0 := if pop then pop_path_component s else s in
  path s0 = render p -> deque s0 = map irender Q -> map qpair (queue s0) = map ipair Q ->
  wfl k L -> wfl k R -> Forall item_wf Q ->
  fuel > w k L R + list_sum (map iw Q) ->
  exists s', diff_loop fuel db (L, false) (R, false) rl pop s = Ok s' /\
    Permutation (map strip (recs s'))
                (map strip (recs s0) ++ map (gmap render) (tdiff_level k sdb_of p L R ++ flat_map item_tdiff Q)).
Proof.
  induction fuel as [|f IH]; intros k p L R Q rl pop s s0 Hp Hd Hq WL WR WQ Hf; [lia|].
  assert (D : (L = [] /\ R = []) \/ (L, R) <> ([], [])).
  { destruct L, R; [left; auto | right; congruence ..]. }
  destruct D as [[-> ->] | NE].
  - destruct Q as [|it Q'].
    + apply map_eq_nil in Hq. cbn [diff_loop next]. fold s0. rewrite Hq.
      exists s0. split; [reflexivity|]. rewrite tdiff_nil. cbn. rewrite app_nil_r. apply Permutation_refl.
    + destruct (queue s0) as [|q qs] eqn:EQ; [discriminate Hq|].
      destruct (deque s0) as [|d ds] eqn:ED; [discriminate Hd|].
      cbn [map] in Hq, Hd. injection Hq as Hq1 Hq2. injection Hd as Hd1 Hd2.
      inversion WQ as [|? ? [Wne [Wl Wr]] WQ']; subst.
      destruct q as [[qa qb] qr]. unfold qpair, ipair in Hq1. cbn [fst] in Hq1. injection Hq1 as -> ->.
      rewrite (loop_pop f rl pop s (ilo it) (iro it) qr qs (irender it) (map irender Q') (ik it) EQ ED Wne Wl Wr).
      fold s0.
      destruct (IH (ik it) (ipath it) (entries sdb_of (ilo it)) (entries sdb_of (iro it)) Q' qr false
                   (mkst (irender it) (map irender Q') (recs s0) qs (cid s0))) as [s' [E P]].
      * reflexivity.
      * reflexivity.
      * exact Hq2.
      * apply wfo_entries. exact Wl.
      * apply wfo_entries. exact Wr.
      * exact WQ'.
      * rewrite w_nil in Hf. cbn [map] in Hf. rewrite list_sum_cons in Hf. unfold iw in Hf at 1. lia.
      * exists s'. split; [exact E|]. cbn [recs] in P. rewrite tdiff_nil. cbn [flat_map app]. exact P.
  - destruct (diff_loop_iter f db L R rl pop s NE) as [s1 [E1 E2]]. fold s0 in E2.
    pose proof (iter_evs_merge L R) as M. pose proof (iter_evs_nonempty L R NE) as NEV.
    destruct (iter_evs_suffix L R) as [[preL SL] [preR SR]].
    set (evs := fst (fst (iter_evs L R))) in *.
    set (L2 := snd (fst (iter_evs L R))) in *.
    set (R2 := snd (iter_evs L R)) in *.
    assert (WL2 : wfl k L2) by (apply (wfl_suffix k preL); rewrite <- SL; exact WL).
    assert (WR2 : wfl k R2) by (apply (wfl_suffix k preR); rewrite <- SR; exact WR).
    assert (G : Forall (ev_good k) evs).
    { apply Forall_forall. intros ev Hev. apply (ev_in_good k L R ev WL WR).
      apply (merge_in compare). rewrite M. apply in_or_app. left. exact Hev. }
    assert (GN : Forall (fun ev => no_slash (ev_name ev)) evs).
    { eapply Forall_impl; [|exact G]. intros ev [H _]. exact H. }
    destruct (fold_step_view rl k p evs s0 Hp GN) as (A & B & C & DD).
    rewrite <- E2 in A, B, C, DD.
    assert (MK : merge key_cmp L R = evs ++ merge key_cmp L2 R2).
    { rewrite (merge_key_compare k L R WL WR), (merge_key_compare k L2 R2 WL2 WR2). exact M. }
    destruct (IH k p L2 R2 (Q ++ flat_map (child_items k p) evs) rl true s1) as [s' [E P]].
    + exact A.
    + rewrite B, Hd, map_app. reflexivity.
    + rewrite DD, Hq, map_app. reflexivity.
    + exact WL2.
    + exact WR2.
    + apply Forall_app. split; [exact WQ | apply items_wf; exact G].
    + rewrite w_eq, MK, map_app, list_sum_app, <- w_eq, (sum_evw k p evs G) in Hf.
      rewrite map_app, list_sum_app.
      assert (length evs > 0) by (destruct evs; [congruence | cbn; lia]). lia.
    + exists s'. split; [rewrite E1; exact E|].
      eapply Permutation_trans; [exact P|]. rewrite C, <- app_assoc. apply Permutation_app_head.
      rewrite <- map_app. apply Permutation_map.
      rewrite (tdiff_eq k p L R), MK, !flat_map_app, <- tdiff_eq.
      rewrite (perm_evt k p evs G). rewrite <- !app_assoc. apply Permutation_app_head.
      eapply Permutation_trans; [|apply Permutation_app_comm]. rewrite <- app_assoc. apply Permutation_refl.
Qed.
End WALK.
