(* C44 — part 5: on sorted entry lists the merge walk is the difference of the two lists by key
   (name, is-a-tree). *)
From Coq Require Import List Lia.
From GixV.Base Require Import Bytes BytesFacts Outcome.
From GixV.C44 Require Import Model Spec Proofs ProofsOrder.
Import ListNotations.

Definition klt (a b : entry) : Prop := key_cmp a b = Lt.
(* strictly increasing in git's order *)
Fixpoint ssorted (L : list entry) : Prop :=
  match L with
  | [] => True
  | a :: r => Forall (klt a) r /\ ssorted r
  end.

Lemma key_eq_iff a b : key_cmp a b = Eq <-> keystr a = keystr b.
Proof. unfold key_cmp. apply bytes_cmp_eq_iff. Qed.
Lemma key_antisym a b : key_cmp b a = CompOpp (key_cmp a b).
Proof. unfold key_cmp. apply bytes_cmp_antisym. Qed.
Lemma key_cmp_keystr a a' b : keystr a = keystr a' -> key_cmp a b = key_cmp a' b.
Proof. unfold key_cmp. intros ->. reflexivity. Qed.
Lemma key_cmp_keystr_r a b b' : keystr b = keystr b' -> key_cmp a b = key_cmp a b'.
Proof. unfold key_cmp. intros ->. reflexivity. Qed.

(* a < b < r  ==>  a and r have different keys (no transitivity needed) *)
Lemma chain_ne a b r : key_cmp a b = Lt -> key_cmp b r = Lt -> key_cmp a r <> Eq.
Proof.
  intros H1 H2 E. apply key_eq_iff in E. rewrite (key_cmp_keystr_r b r a) in H2 by (symmetry; exact E).
  rewrite (key_antisym a b), H1 in H2. discriminate.
Qed.
Lemma chain_ne' a b r : key_cmp a b = Gt -> key_cmp a r = Lt -> key_cmp r b <> Eq.
Proof.
  intros H1 H2 E. apply key_eq_iff in E. rewrite (key_cmp_keystr_r a r b) in H2 by exact E.
  rewrite H1 in H2. discriminate.
Qed.
Lemma eq_lt_ne a b x : key_cmp a b = Eq -> key_cmp a x = Lt -> key_cmp x b <> Eq.
Proof.
  intros H1 H2 E. apply key_eq_iff in H1. apply key_eq_iff in E.
  rewrite (key_cmp_keystr_r a x a) in H2 by (rewrite E; symmetry; exact H1).
  unfold key_cmp in H2. rewrite bytes_cmp_refl in H2. discriminate.
Qed.
Lemma eq_lt_ne' a b y : key_cmp a b = Eq -> key_cmp b y = Lt -> key_cmp a y <> Eq.
Proof.
  intros H1 H2 E. apply key_eq_iff in H1. apply key_eq_iff in E.
  rewrite (key_cmp_keystr_r b y b) in H2 by (rewrite <- E; exact H1).
  unfold key_cmp in H2. rewrite bytes_cmp_refl in H2. discriminate.
Qed.

Definition ev_spec (L R : list entry) (ev : mev) : Prop :=
  match ev with
  | OnlyL a => In a L /\ forall b, In b R -> key_cmp a b <> Eq
  | OnlyR b => In b R /\ forall a, In a L -> key_cmp a b <> Eq
  | Both a b => In a L /\ In b R /\ key_cmp a b = Eq
  end.

Lemma merge_sound : forall L R, ssorted L -> ssorted R ->
  forall ev, In ev (merge key_cmp L R) -> ev_spec L R ev.
Proof.
  induction L as [|a L IHL]; intros R SL SR ev H.
  - rewrite merge_nil_l in H. apply in_map_iff in H. destruct H as [b [<- Hb]]. split; [exact Hb|]. intros ? [].
  - induction R as [|b R IHR].
    + rewrite merge_nil_r in H. apply in_map_iff in H. destruct H as [x [<- Hx]]. split; [exact Hx|]. intros ? [].
    + destruct SL as [SLa SL']. destruct SR as [SRb SR']. rewrite Forall_forall in SLa, SRb.
      rewrite merge_cons in H. destruct (key_cmp a b) eqn:C.
      * destruct H as [<-|H]. { cbn. auto. }
        specialize (IHL R SL' SR' ev H). destruct ev as [x|y|x y]; cbn in IHL |- *.
        -- destruct IHL as [Hx Hn]. split; [auto|]. intros r [<-|Hr]; [|auto].
           apply (eq_lt_ne a b x C). apply SLa. exact Hx.
        -- destruct IHL as [Hy Hn]. split; [auto|]. intros l [<-|Hl]; [|auto].
           apply (eq_lt_ne' a b y C). apply SRb. exact Hy.
        -- tauto.
      * destruct H as [<-|H].
        { cbn. split; [auto|]. intros r [<-|Hr]; [congruence|]. apply (chain_ne a b r C). apply SRb. exact Hr. }
        specialize (IHL (b :: R) SL' (conj (proj2 (Forall_forall _ _) SRb) SR') ev H).
        destruct ev as [x|y|x y]; cbn in IHL |- *.
        -- tauto.
        -- destruct IHL as [Hy Hn]. split; [exact Hy|]. intros l [<-|Hl]; [|auto].
           destruct Hy as [<-|Hy]; [congruence|]. apply (chain_ne a b y C). apply SRb. exact Hy.
        -- tauto.
      * destruct H as [<-|H].
        { cbn. split; [auto|]. intros l [<-|Hl]; [congruence|]. apply (chain_ne' a b l C). apply SLa. exact Hl. }
        assert (SLfull : ssorted (a :: L)) by (split; [apply Forall_forall; exact SLa | exact SL']).
        specialize (IHR SR' H). destruct ev as [x|y|x y]; cbn in IHR |- *.
        -- destruct IHR as [Hx Hn]. split; [exact Hx|]. intros r [<-|Hr]; [|auto].
           destruct Hx as [<-|Hx]; [congruence|]. intros E. apply (chain_ne' a b x C); [apply SLa; exact Hx | exact E].
        -- tauto.
        -- tauto.
Qed.

Lemma merge_complete : forall L R, ssorted L -> ssorted R ->
  forall ev, ev_spec L R ev -> In ev (merge key_cmp L R).
Proof.
  induction L as [|a L IHL]; intros R SL SR ev H.
  - rewrite merge_nil_l. destruct ev as [x|y|x y]; cbn in H.
    + destruct H as [[] _].
    + apply in_map. tauto.
    + destruct H as [[] _].
  - induction R as [|b R IHR].
    + rewrite merge_nil_r. destruct ev as [x|y|x y]; cbn [ev_spec] in H.
      * apply in_map. tauto.
      * destruct H as [[] _].
      * destruct H as [_ [[] _]].
    + destruct SL as [SLa SL']. destruct SR as [SRb SR']. rewrite Forall_forall in SLa, SRb.
      assert (SRfull : ssorted (b :: R)) by (split; [apply Forall_forall; exact SRb | exact SR']).
      rewrite merge_cons. destruct (key_cmp a b) eqn:C.
      * destruct ev as [x|y|x y]; cbn [ev_spec] in H.
        -- destruct H as [[<-|Hx] Hn]. { exfalso. apply (Hn b); [left; reflexivity | exact C]. }
           right. apply IHL; auto. split; [exact Hx|]. intros r Hr. apply Hn. right. exact Hr.
        -- destruct H as [[<-|Hy] Hn]. { exfalso. apply (Hn a); [left; reflexivity | exact C]. }
           right. apply IHL; auto. split; [exact Hy|]. intros l Hl. apply Hn. right. exact Hl.
        -- destruct H as [[<-|Hx] [[<-|Hy] E]].
           ++ left. reflexivity.
           ++ exfalso. apply (eq_lt_ne' a b y C); [apply SRb; exact Hy | exact E].
           ++ exfalso. apply (eq_lt_ne a b x C); [apply SLa; exact Hx | exact E].
           ++ right. apply IHL; auto. cbn. auto.
      * destruct ev as [x|y|x y]; cbn [ev_spec] in H.
        -- destruct H as [[<-|Hx] Hn]. { left. reflexivity. }
           right. apply IHL; auto. cbn. auto.
        -- destruct H as [Hy Hn]. right. apply IHL; auto. cbn. split; [exact Hy|].
           intros l Hl. apply Hn. right. exact Hl.
        -- destruct H as [[<-|Hx] [Hy E]].
           ++ exfalso. destruct Hy as [<-|Hy]; [congruence|].
              apply (chain_ne a b y C); [apply SRb; exact Hy | exact E].
           ++ right. apply IHL; auto. cbn. auto.
      * destruct ev as [x|y|x y]; cbn [ev_spec] in H.
        -- destruct H as [Hx Hn]. right. apply IHR; auto. cbn. split; [exact Hx|].
           intros r Hr. apply Hn. right. exact Hr.
        -- destruct H as [[<-|Hy] Hn]. { left. reflexivity. }
           right. apply IHR; auto. cbn. auto.
        -- destruct H as [Hx [[<-|Hy] E]].
           ++ exfalso. destruct Hx as [<-|Hx]; [congruence|].
              apply (chain_ne' a b x C); [apply SLa; exact Hx | exact E].
           ++ right. apply IHR; auto. cbn. auto.
Qed.

Theorem L_merge_char L R : ssorted L -> ssorted R ->
  forall ev, In ev (merge key_cmp L R) <-> ev_spec L R ev.
Proof. intros SL SR ev. split; [apply merge_sound | apply merge_complete]; assumption. Qed.
