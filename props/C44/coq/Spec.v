(* C44 — specification side.
   * [key_cmp]: git's base_name_compare (tree.c): byte order of the name with "/" appended for trees.
   * [merge]: the textbook merge walk of two entry lists, generic in the comparison.
   * [tdiff_level]: git diff-tree -r -t --no-renames as a recursive, depth-first function
     (ll_diff_tree_paths: emit the entry, with -t also the tree entry itself, then recurse).
   * [flatten]: all (path, mode, id) of a tree, tree entries included; paths are component lists,
     [render] joins them with "/".
   No proofs here. *)
From GixV.Base Require Import Bytes BytesFacts Outcome.
From GixV.C44 Require Import Model.
Local Open Scope N_scope.

Definition spath := list bytes.
Definition render (p : spath) : bytes := fold_left push_element p [].

(* a change with its path; [P] = component list (specification) or byte string (Recorder) *)
Inductive gchange (P : Type) :=
| SAdd (p : P) (m : N) (o : bytes)
| SDel (p : P) (m : N) (o : bytes)
| SMod (p : P) (pm : N) (po : bytes) (m : N) (o : bytes).
Arguments SAdd {P} p m o.
Arguments SDel {P} p m o.
Arguments SMod {P} p pm po m o.
Definition schange := gchange spath.
Definition gmap {P Q} (f : P -> Q) (c : gchange P) : gchange Q :=
  match c with
  | SAdd p m o => SAdd (f p) m o
  | SDel p m o => SDel (f p) m o
  | SMod p pm po m o => SMod (f p) pm po m o
  end.
(* a recorded change without its relation *)
Definition strip (c : change) : gchange bytes :=
  match c with
  | Addition m o p _ => SAdd p m o
  | Deletion m o p _ => SDel p m o
  | Modification pm po m o p => SMod p pm po m o
  end.

Definition sdb := bytes -> option (list entry).
Definition entries (db : sdb) (o : option bytes) : list entry :=
  match o with
  | None => []
  | Some id => match db id with Some es => es | None => [] end
  end.

Definition keystr (e : entry) : bytes := ename e ++ (if is_tree (emode e) then [x2f] else []).
Definition key_cmp (a b : entry) : comparison := bytes_cmp (keystr a) (keystr b).

Inductive mev := OnlyL (e : entry) | OnlyR (e : entry) | Both (l r : entry).

Fixpoint merge (cmp : entry -> entry -> comparison) (L : list entry) : list entry -> list mev :=
  fix go (R : list entry) : list mev :=
    match L, R with
    | [], _ => map OnlyR R
    | _, [] => map OnlyL L
    | a :: L', b :: R' =>
        match cmp a b with
        | Eq => Both a b :: merge cmp L' R'
        | Lt => OnlyL a :: merge cmp L' R
        | Gt => OnlyR b :: go R'
        end
    end.

Definition same_entry (l r : entry) : bool :=
  bytes_eqb (eoid l) (eoid r) && N.eqb (emode l) (emode r).

(* the changes one merge event stands for, at directory [p] *)
Definition ev_changes (p : spath) (ev : mev) : list schange :=
  match ev with
  | OnlyL e => [SDel (p ++ [ename e]) (emode e) (eoid e)]
  | OnlyR e => [SAdd (p ++ [ename e]) (emode e) (eoid e)]
  | Both l r =>
      match is_tree (emode l), is_tree (emode r) with
      | true, true => if bytes_eqb (eoid l) (eoid r) then []
                      else [SMod (p ++ [ename l]) (emode l) (eoid l) (emode r) (eoid r)]
      | false, false => if same_entry l r then []
                        else [SMod (p ++ [ename l]) (emode l) (eoid l) (emode r) (eoid r)]
      | _, _ => [SDel (p ++ [ename l]) (emode l) (eoid l); SAdd (p ++ [ename l]) (emode r) (eoid r)]
      end
  end.
(* the pair of subtrees to descend into *)
Definition ev_child (ev : mev) : option (bytes * option bytes * option bytes) :=
  match ev with
  | OnlyL e => if is_tree (emode e) then Some (ename e, Some (eoid e), None) else None
  | OnlyR e => if is_tree (emode e) then Some (ename e, None, Some (eoid e)) else None
  | Both l r =>
      match is_tree (emode l), is_tree (emode r) with
      | true, true => Some (ename l, Some (eoid l), Some (eoid r))
      | false, true => Some (ename l, None, Some (eoid r))
      | true, false => Some (ename l, Some (eoid l), None)
      | false, false => None
      end
  end.

(* [n] bounds the height of the trees *)
Fixpoint tdiff_level (n : nat) (db : sdb) (p : spath) (L R : list entry) : list schange :=
  flat_map (fun ev =>
      ev_changes p ev ++
      match n, ev_child ev with
      | S n', Some (name, lo, ro) => tdiff_level n' db (p ++ [name]) (entries db lo) (entries db ro)
      | _, _ => []
      end) (merge key_cmp L R).

Fixpoint flatten (n : nat) (db : sdb) (p : spath) (es : list entry) : list (spath * N * bytes) :=
  flat_map (fun e =>
      (p ++ [ename e], emode e, eoid e) ::
      match n with
      | S n' => if is_tree (emode e) then flatten n' db (p ++ [ename e]) (entries db (Some (eoid e)))
                else []
      | O => []
      end) es.

(* applying a list of changes to a flattened tree *)
Definition skey (x : spath * N * bytes) : spath * bool := (fst (fst x), is_tree (snd (fst x))).
Definition touched (c : schange) : spath * bool :=
  match c with
  | SAdd p m _ => (p, is_tree m)
  | SDel p m _ => (p, is_tree m)
  | SMod p pm _ _ _ => (p, is_tree pm)
  end.
