//! C44 harness: gix_diff::tree() with the default Recorder on pairs of related trees.
//! Case: diff <lhs root tree bytes> <rhs root tree bytes> <flag> (<id> <kind byte ++ object data>)*
//!   kind byte b't' = tree; anything else = an object of another kind (find_tree_iter fails).
//!   flag: informational (b"v" valid stream, b"m" malformed stream).
use gix_diff::tree::{recorder::Change, visit::Relation, Recorder, State};
use gix_hash::ObjectId;
use gix_object::TreeRefIter;
use gixv_common::*;
use std::collections::{BTreeMap, HashMap};

// ------------------------------------------------------------------------------------------- odb

struct Odb(HashMap<ObjectId, (bool, Vec<u8>)>);
impl gix_object::Find for Odb {
    fn try_find<'a>(
        &self,
        id: &gix_hash::oid,
        buffer: &'a mut Vec<u8>,
    ) -> Result<Option<gix_object::Data<'a>>, gix_object::find::Error> {
        match self.0.get(id) {
            None => Ok(None),
            Some((is_tree, data)) => {
                buffer.clear();
                buffer.extend_from_slice(data);
                Ok(Some(gix_object::Data {
                    kind: if *is_tree { gix_object::Kind::Tree } else { gix_object::Kind::Blob },
                    data: buffer,
                }))
            }
        }
    }
}

fn is_reuse(c: &Case) -> bool {
    f_str(c, 0) == b"reuse"
}
fn odb_start(c: &Case) -> usize {
    if is_reuse(c) {
        6
    } else {
        4
    }
}
/// the pair of root trees the verdict is about
fn roots(c: &Case) -> (&[u8], &[u8]) {
    if is_reuse(c) {
        (f_str(c, 4), f_str(c, 5))
    } else {
        (f_str(c, 1), f_str(c, 2))
    }
}

fn odb_of(c: &Case) -> Odb {
    let mut m = HashMap::new();
    let mut i = odb_start(c);
    while i + 1 < c.len() {
        if c[i].len() == 20 {
            let id = ObjectId::from_bytes_or_panic(&c[i]);
            let obj = &c[i + 1];
            let (k, d) = if obj.is_empty() { (false, vec![]) } else { (obj[0] == b't', obj[1..].to_vec()) };
            // the model takes the first entry for an id
            m.entry(id).or_insert((k, d));
        }
        i += 2;
    }
    Odb(m)
}

/// A delegate that records like `Recorder` and cancels at the k-th visit (k = 0: never).
struct CancelAt {
    inner: Recorder,
    k: u64,
    seen: u64,
}
impl gix_diff::tree::Visit for CancelAt {
    fn pop_front_tracked_path_and_set_current(&mut self) {
        self.inner.pop_front_tracked_path_and_set_current()
    }
    fn push_back_tracked_path_component(&mut self, component: &gix_object::bstr::BStr) {
        self.inner.push_back_tracked_path_component(component)
    }
    fn push_path_component(&mut self, component: &gix_object::bstr::BStr) {
        self.inner.push_path_component(component)
    }
    fn pop_path_component(&mut self) {
        self.inner.pop_path_component()
    }
    fn visit(&mut self, change: gix_diff::tree::visit::Change) -> gix_diff::tree::visit::Action {
        self.seen += 1;
        self.inner.visit(change);
        if self.k != 0 && self.seen == self.k {
            gix_diff::tree::visit::Action::Cancel
        } else {
            gix_diff::tree::visit::Action::Continue
        }
    }
}

fn diff_pair(odb: &Odb, lhs: &[u8], rhs: &[u8], state: &mut State) -> Result<Vec<Change>, gix_diff::tree::Error> {
    let mut rec = Recorder::default();
    gix_diff::tree(TreeRefIter::from_bytes(lhs), TreeRefIter::from_bytes(rhs), state, odb, &mut rec)?;
    Ok(rec.records)
}

/// the diff the case is about; for `reuse` cases: the second diff, with the State the first one left behind
fn run_diff(c: &Case) -> Result<Vec<Change>, gix_diff::tree::Error> {
    let odb = odb_of(c);
    let mut state = State::default();
    if is_reuse(c) {
        let mut first = CancelAt { inner: Recorder::default(), k: f_u64(c, 3), seen: 0 };
        let _ = gix_diff::tree(
            TreeRefIter::from_bytes(f_str(c, 1)),
            TreeRefIter::from_bytes(f_str(c, 2)),
            &mut state,
            &odb,
            &mut first,
        );
    }
    let (l, r) = roots(c);
    diff_pair(&odb, l, r, &mut state)
}
/// the same pair with a fresh State
fn run_diff_fresh(c: &Case) -> Result<Vec<Change>, gix_diff::tree::Error> {
    let odb = odb_of(c);
    let (l, r) = roots(c);
    diff_pair(&odb, l, r, &mut State::default())
}

fn show_result(r: &Result<Vec<Change>, gix_diff::tree::Error>) -> String {
    match r {
        Ok(records) => {
            let mut s = String::from("ok");
            for r in records {
                s.push_str(&format!(" {:?}", r));
            }
            s
        }
        Err(gix_diff::tree::Error::Find(_)) => "err Find".into(),
        Err(gix_diff::tree::Error::EntriesDecode(_)) => "err EntriesDecode".into(),
        Err(gix_diff::tree::Error::Cancelled) => "err Cancelled".into(),
    }
}

// ------------------------------------------------------------------------------------------- impl

fn show_rel(r: &Option<Relation>) -> String {
    match r {
        None => "-".into(),
        Some(Relation::Parent(n)) => format!("P{n}"),
        Some(Relation::ChildOfParent(n)) => format!("C{n}"),
    }
}

fn imp(c: &Case) -> String {
    if f_str(c, 0) != b"diff" && !is_reuse(c) {
        return "?".into();
    }
    match run_diff(c) {
        Ok(records) => {
            let mut s = String::from("ok");
            for r in &records {
                match r {
                    Change::Addition { entry_mode, oid, path, relation } => s.push_str(&format!(
                        " A:{}:{}:{}:{}",
                        entry_mode.0,
                        hexs(oid.as_bytes()),
                        hexs(path),
                        show_rel(relation)
                    )),
                    Change::Deletion { entry_mode, oid, path, relation } => s.push_str(&format!(
                        " D:{}:{}:{}:{}",
                        entry_mode.0,
                        hexs(oid.as_bytes()),
                        hexs(path),
                        show_rel(relation)
                    )),
                    Change::Modification { previous_entry_mode, previous_oid, entry_mode, oid, path } => {
                        s.push_str(&format!(
                            " M:{}:{}:{}:{}:{}",
                            previous_entry_mode.0,
                            hexs(previous_oid.as_bytes()),
                            entry_mode.0,
                            hexs(oid.as_bytes()),
                            hexs(path)
                        ))
                    }
                }
            }
            s
        }
        Err(gix_diff::tree::Error::Find(_)) => "err Find".into(),
        Err(gix_diff::tree::Error::EntriesDecode(_)) => "err EntriesDecode".into(),
        Err(gix_diff::tree::Error::Cancelled) => "err Cancelled".into(),
    }
}

// ------------------------------------------------------------------------------------------- oracle

/// An independent, strict reader of a tree object: canonical modes only.
#[derive(Clone, Debug, PartialEq, Eq)]
struct Ent {
    mode: u32,
    name: Vec<u8>,
    oid: Vec<u8>,
}
fn is_dir(mode: u32) -> bool {
    mode == 0o40000
}
fn read_tree(mut d: &[u8]) -> Option<Vec<Ent>> {
    let mut out = Vec::new();
    while !d.is_empty() {
        let sp = d.iter().position(|b| *b == b' ')?;
        let mode = match &d[..sp] {
            b"40000" => 0o40000,
            b"100644" => 0o100644,
            b"100755" => 0o100755,
            b"120000" => 0o120000,
            b"160000" => 0o160000,
            _ => return None,
        };
        d = &d[sp + 1..];
        let nul = d.iter().position(|b| *b == 0)?;
        let name = d[..nul].to_vec();
        d = &d[nul + 1..];
        if d.len() < 20 {
            return None;
        }
        out.push(Ent { mode, name, oid: d[..20].to_vec() });
        d = &d[20..];
    }
    Some(out)
}
/// git's order: the name, with '/' appended for directories, compared as bytes
fn git_key(e: &Ent) -> Vec<u8> {
    let mut k = e.name.clone();
    if is_dir(e.mode) {
        k.push(b'/');
    }
    k
}
fn tree_ok(es: &[Ent]) -> bool {
    es.iter().all(|e| !e.name.is_empty() && !e.name.contains(&b'/'))
        && es.windows(2).all(|w| git_key(&w[0]) < git_key(&w[1]))
}

type Key = (Vec<u8>, bool);
type Flat = BTreeMap<Key, (u32, Vec<u8>)>;

/// flattened (path, is_dir) -> (mode, id), tree entries included; None if the tree is not a valid git tree
fn flatten(objs: &HashMap<Vec<u8>, (bool, Vec<u8>)>, data: &[u8], prefix: &[u8], out: &mut Flat, depth: usize) -> Option<()> {
    if depth > 32 {
        return None;
    }
    let es = read_tree(data)?;
    if !tree_ok(&es) {
        return None;
    }
    for e in es {
        let mut p = prefix.to_vec();
        if !p.is_empty() {
            p.push(b'/');
        }
        p.extend_from_slice(&e.name);
        if out.insert((p.clone(), is_dir(e.mode)), (e.mode, e.oid.clone())).is_some() {
            return None;
        }
        if is_dir(e.mode) {
            let (k, d) = objs.get(&e.oid)?;
            if !*k {
                return None;
            }
            flatten(objs, d, &p, out, depth + 1)?;
        }
    }
    Some(())
}

fn objs_of(c: &Case) -> HashMap<Vec<u8>, (bool, Vec<u8>)> {
    let mut m = HashMap::new();
    let mut i = odb_start(c);
    while i + 1 < c.len() {
        let obj = &c[i + 1];
        let v = if obj.is_empty() { (false, vec![]) } else { (obj[0] == b't', obj[1..].to_vec()) };
        m.entry(c[i].clone()).or_insert(v);
        i += 2;
    }
    m
}

#[derive(Clone, Debug, PartialEq, Eq, PartialOrd, Ord)]
enum Ch {
    Add(Key, u32, Vec<u8>),
    Del(Key, u32, Vec<u8>),
    Mod(Key, u32, Vec<u8>, u32, Vec<u8>),
}

fn prop(c: &Case) -> Verdict {
    if f_str(c, 0) != b"diff" && !is_reuse(c) {
        return Verdict::ok(false, "?");
    }
    let objs = objs_of(c);
    let (mut fa, mut fb) = (Flat::new(), Flat::new());
    let (root_l, root_r) = roots(c);
    let valid = flatten(&objs, root_l, b"", &mut fa, 0).is_some() && flatten(&objs, root_r, b"", &mut fb, 0).is_some();
    let got = run_diff(c);
    if is_reuse(c) {
        // a State left behind by a cancelled or failed diff must not influence the next diff
        let fresh = run_diff_fresh(c);
        let (a, b) = (show_result(&got), show_result(&fresh));
        if a != b {
            return Verdict::fail("state-reuse-differs", format!("reused: {} fresh: {}", a, b));
        }
    }
    if !valid {
        // malformed input: the only expectation is a definite answer (panics and hangs are caught by the driver)
        return Verdict::ok(false, if got.is_ok() { "malformed-ok" } else { "malformed-err" });
    }
    let records = match got {
        Ok(r) => r,
        Err(e) => return Verdict::fail("valid-trees-error", format!("{e:?}")),
    };
    // expected: the difference of the two maps
    let mut want = Vec::new();
    for (k, (m, o)) in &fa {
        match fb.get(k) {
            None => want.push(Ch::Del(k.clone(), *m, o.clone())),
            Some((m2, o2)) => {
                if m2 != m || o2 != o {
                    want.push(Ch::Mod(k.clone(), *m, o.clone(), *m2, o2.clone()))
                }
            }
        }
    }
    for (k, (m, o)) in &fb {
        if !fa.contains_key(k) {
            want.push(Ch::Add(k.clone(), *m, o.clone()));
        }
    }
    let mut have = Vec::new();
    for r in &records {
        have.push(match r {
            Change::Addition { entry_mode, oid, path, .. } => {
                Ch::Add((path.to_vec(), entry_mode.is_tree()), entry_mode.0 as u32, oid.as_bytes().to_vec())
            }
            Change::Deletion { entry_mode, oid, path, .. } => {
                Ch::Del((path.to_vec(), entry_mode.is_tree()), entry_mode.0 as u32, oid.as_bytes().to_vec())
            }
            Change::Modification { previous_entry_mode, previous_oid, entry_mode, oid, path } => Ch::Mod(
                (path.to_vec(), previous_entry_mode.is_tree()),
                previous_entry_mode.0 as u32,
                previous_oid.as_bytes().to_vec(),
                entry_mode.0 as u32,
                oid.as_bytes().to_vec(),
            ),
        });
    }
    let have_unsorted = have.clone();
    want.sort();
    have.sort();
    if want != have {
        let missing: Vec<_> = want.iter().filter(|w| !have.contains(w)).collect();
        let extra: Vec<_> = have.iter().filter(|h| !want.contains(h)).collect();
        let class = if missing.iter().any(|m| matches!(m, Ch::Mod(_, pm, po, m2, o2) if po == o2 && pm != m2)) {
            "mode-only-change-missing"
        } else {
            "diff-mismatch"
        };
        return Verdict::fail(class, format!("missing {:?} extra {:?}", missing, extra));
    }
    // applying the changes, in the order reported, to the first tree yields the second
    let mut cur = fa.clone();
    for ch in &have_unsorted {
        match ch {
            Ch::Del(k, m, o) => {
                if cur.remove(k) != Some((*m, o.clone())) {
                    return Verdict::fail("apply-mismatch", format!("deleting absent {:?}", k));
                }
            }
            Ch::Add(k, m, o) => {
                if cur.insert(k.clone(), (*m, o.clone())).is_some() {
                    return Verdict::fail("apply-mismatch", format!("adding present {:?}", k));
                }
            }
            Ch::Mod(k, pm, po, m, o) => {
                if cur.insert(k.clone(), (*m, o.clone())) != Some((*pm, po.clone())) {
                    return Verdict::fail("apply-mismatch", format!("modifying other {:?}", k));
                }
            }
        }
    }
    if cur != fb {
        return Verdict::fail("apply-mismatch", "result differs from second tree");
    }
    // a deleted/added directory is reported before anything below it
    for (i, ch) in have_unsorted.iter().enumerate() {
        let (k, dir) = match ch {
            Ch::Add(k, m, _) | Ch::Del(k, m, _) => (k, is_dir(*m)),
            Ch::Mod(k, m, ..) => (k, is_dir(*m)),
        };
        if dir {
            let mut pre = k.0.clone();
            pre.push(b'/');
            for earlier in &have_unsorted[..i] {
                let ek = match earlier {
                    Ch::Add(k, ..) | Ch::Del(k, ..) | Ch::Mod(k, ..) => k,
                };
                if ek.0.starts_with(&pre) {
                    return Verdict::fail("child-before-parent", format!("{:?}", ek));
                }
            }
        }
    }
    let class = if have.is_empty() {
        "valid-identical"
    } else if have.iter().any(|h| matches!(h, Ch::Add((_, true), ..) | Ch::Del((_, true), ..))) {
        "valid-dir-add-del"
    } else {
        "valid-changes"
    };
    Verdict::ok(!fa.is_empty() || !fb.is_empty(), class)
}

// ------------------------------------------------------------------------------------------- git

fn tree_id(data: &[u8]) -> Vec<u8> {
    gix_object::compute_hash(gix_hash::Kind::Sha1, gix_object::Kind::Tree, data).as_bytes().to_vec()
}

fn git_dir() -> std::path::PathBuf {
    use std::sync::atomic::{AtomicU64, Ordering};
    static N: AtomicU64 = AtomicU64::new(0);
    let d = std::env::temp_dir().join(format!("gixv-c44-{}-{}", std::process::id(), N.fetch_add(1, Ordering::SeqCst)));
    let _ = std::fs::remove_dir_all(&d);
    std::fs::create_dir_all(d.join("objects")).unwrap();
    std::fs::create_dir_all(d.join("refs")).unwrap();
    std::fs::write(d.join("HEAD"), b"ref: refs/heads/main\n").unwrap();
    std::fs::write(d.join("config"), b"[core]\n\trepositoryformatversion = 0\n\tbare = true\n").unwrap();
    d
}

fn run_git(dir: &std::path::Path, args: &[&str], stdin: &[u8]) -> Option<(bool, Vec<u8>)> {
    use std::io::Write;
    use std::process::{Command, Stdio};
    let mut cmd = Command::new("/usr/bin/git");
    cmd.current_dir(dir)
        .env_clear()
        .env("HOME", dir)
        .env("GIT_DIR", dir)
        .env("GIT_CONFIG_NOSYSTEM", "1")
        .env("GIT_CONFIG_GLOBAL", "/dev/null")
        .env("LC_ALL", "C")
        .env("PATH", "/usr/bin:/bin");
    cmd.args(args).stdin(Stdio::piped()).stdout(Stdio::piped()).stderr(Stdio::null());
    let mut child = cmd.spawn().ok()?;
    {
        let mut si = child.stdin.take()?;
        let _ = si.write_all(stdin);
    }
    let out = child.wait_with_output().ok()?;
    out.status.code()?;
    Some((out.status.success(), out.stdout))
}

/// git's answer for valid cases whose ids are the real hashes: trees written with `git mktree`,
/// compared with `git diff-tree -r -t --no-renames`.
fn git(c: &Case) -> String {
    if f_str(c, 0) != b"diff" {
        return "-".into(); // reuse cases: the second diff is judged by prop() against a fresh State and the map difference
    }
    let objs = objs_of(c);
    let (mut fa, mut fb) = (Flat::new(), Flat::new());
    if flatten(&objs, f_str(c, 1), b"", &mut fa, 0).is_none() || flatten(&objs, f_str(c, 2), b"", &mut fb, 0).is_none() {
        return "-".into();
    }
    // all ids genuine?
    for (id, (k, d)) in &objs {
        if !*k || &tree_id(d) != id {
            return "-".into();
        }
    }
    let dir = git_dir();
    let r = git_inner(c, &objs, &dir);
    let _ = std::fs::remove_dir_all(&dir);
    r.unwrap_or_else(|| "git-failed".into())
}

fn git_inner(c: &Case, objs: &HashMap<Vec<u8>, (bool, Vec<u8>)>, dir: &std::path::Path) -> Option<String> {
    let mut trees: Vec<&[u8]> = objs.values().map(|(_, d)| d.as_slice()).collect();
    trees.push(f_str(c, 1));
    trees.push(f_str(c, 2));
    trees.sort();
    trees.dedup();
    let mut input = Vec::new();
    let mut expected = Vec::new();
    for t in &trees {
        let es = read_tree(t)?;
        if es.is_empty() {
            continue; // git knows the empty tree without an object
        }
        for e in &es {
            let ty = match e.mode {
                0o40000 => "tree",
                0o160000 => "commit",
                _ => "blob",
            };
            input.extend_from_slice(format!("{:o} {} {}\t", e.mode, ty, hexs(&e.oid)).as_bytes());
            input.extend_from_slice(&e.name);
            input.push(0);
        }
        input.push(0);
        expected.push(hexs(&tree_id(t)));
    }
    if !expected.is_empty() {
        let (ok, out) = run_git(dir, &["mktree", "-z", "--missing", "--batch"], &input)?;
        if !ok {
            return Some("mktree-failed".into());
        }
        let got: Vec<String> = String::from_utf8_lossy(&out).lines().map(|s| s.to_string()).collect();
        if got != expected {
            return Some(format!("mktree-ids-differ {:?} {:?}", got, expected));
        }
    }
    let a = hexs(&tree_id(f_str(c, 1)));
    let b = hexs(&tree_id(f_str(c, 2)));
    let (ok, out) = run_git(dir, &["diff-tree", "-r", "-t", "--no-renames", "--raw", "--no-abbrev", "-z", &a, &b], b"")?;
    if !ok {
        return Some("diff-tree-failed".into());
    }
    // :oldmode newmode oldid newid S\0path\0
    let mut s = String::from("ok");
    let mut parts = out.split(|b| *b == 0);
    loop {
        let head = match parts.next() {
            Some(h) if !h.is_empty() => h,
            _ => break,
        };
        let path = parts.next()?;
        let head = std::str::from_utf8(head).ok()?;
        let head = head.strip_prefix(':')?;
        s.push_str(&format!(" {} {}", head, hexs(path)));
    }
    Some(s)
}

// ------------------------------------------------------------------------------------------- gen

#[derive(Clone, Debug, PartialEq)]
enum Node {
    Leaf(u32, Vec<u8>),
    Dir(Vec<(Vec<u8>, Node)>),
}

const NAMES: &[&[u8]] = &[
    b"a", b"b", b"a-", b"a.", b"a.b", b"a0", b"a-b", b"ab", b"a b", b"A", b"c", b"a\x01", b"a\xff", b"a,", b"0", b"-", b".a",
    b"b.c", b"b0", b"b-",
];
const LEAF_MODES: &[u32] = &[0o100644, 0o100644, 0o100644, 0o100755, 0o120000, 0o160000];

fn blob_id(rng: &mut Rng) -> Vec<u8> {
    // a small pool so that equal ids occur under different names and modes
    let k = rng.below(6) as u8;
    vec![0x10 + k; 20]
}

fn rand_node(rng: &mut Rng, depth: usize) -> Node {
    if depth > 0 && rng.chance(2, 5) {
        let n = if rng.chance(1, 12) { 0 } else { rng.range(1, 4) as usize };
        Node::Dir(rand_entries(rng, n, depth - 1))
    } else {
        Node::Leaf(*rng.pick(LEAF_MODES), blob_id(rng))
    }
}
fn rand_entries(rng: &mut Rng, n: usize, depth: usize) -> Vec<(Vec<u8>, Node)> {
    let mut es: Vec<(Vec<u8>, Node)> = Vec::new();
    for _ in 0..n {
        let name = rng.pick(NAMES).to_vec();
        let node = rand_node(rng, depth);
        let dir = matches!(node, Node::Dir(_));
        // one entry per (name, kind); a file and a directory of the same name only rarely
        if es.iter().any(|(n2, x)| *n2 == name && (matches!(x, Node::Dir(_)) == dir || !rng.chance(1, 10))) {
            continue;
        }
        es.push((name, node));
    }
    es
}

fn mutate(rng: &mut Rng, node: &Node, depth: usize) -> Node {
    match node {
        Node::Leaf(m, o) => match rng.below(8) {
            0 => Node::Leaf(*m, blob_id(rng)),
            1 => Node::Leaf(*rng.pick(LEAF_MODES), o.clone()),
            2 => Node::Leaf(*rng.pick(LEAF_MODES), blob_id(rng)),
            3 if depth > 0 => {
                let k = rng.range(1, 3) as usize;
                Node::Dir(rand_entries(rng, k, depth - 1))
            }
            _ => node.clone(),
        },
        Node::Dir(es) => {
            if rng.chance(1, 10) {
                return Node::Leaf(*rng.pick(LEAF_MODES), blob_id(rng));
            }
            let mut out: Vec<(Vec<u8>, Node)> = Vec::new();
            for (n, x) in es {
                match rng.below(10) {
                    0 => {} // removed
                    1..=4 => out.push((n.clone(), mutate(rng, x, depth.saturating_sub(1)))),
                    _ => out.push((n.clone(), x.clone())),
                }
            }
            let extra = if rng.chance(1, 2) { rng.range(0, 2) as usize } else { 0 };
            for (n, x) in rand_entries(rng, extra, depth.saturating_sub(1)) {
                let dir = matches!(x, Node::Dir(_));
                if out.iter().any(|(n2, y)| *n2 == n && (matches!(y, Node::Dir(_)) == dir || !rng.chance(1, 10))) {
                    continue;
                }
                out.push((n, x));
            }
            Node::Dir(out)
        }
    }
}

fn entry_bytes(mode: u32, name: &[u8], oid: &[u8]) -> Vec<u8> {
    let mut v = format!("{:o} ", mode).into_bytes();
    v.extend_from_slice(name);
    v.push(0);
    v.extend_from_slice(oid);
    v
}

/// serialise a directory (children first), collecting tree objects; returns the tree bytes
fn write_dir(es: &[(Vec<u8>, Node)], objs: &mut Vec<(Vec<u8>, Vec<u8>)>) -> Vec<u8> {
    let mut items: Vec<(Vec<u8>, Vec<u8>)> = Vec::new(); // (git key, entry bytes)
    for (name, x) in es {
        match x {
            Node::Leaf(m, o) => items.push((name.clone(), entry_bytes(*m, name, o))),
            Node::Dir(sub) => {
                let data = write_dir(sub, objs);
                let id = tree_id(&data);
                if !objs.iter().any(|(i, _)| *i == id) {
                    let mut obj = vec![b't'];
                    obj.extend_from_slice(&data);
                    objs.push((id.clone(), obj));
                }
                let mut k = name.clone();
                k.push(b'/');
                items.push((k, entry_bytes(0o40000, name, &id)));
            }
        }
    }
    // insertion sort by git key
    for i in 1..items.len() {
        let mut j = i;
        while j > 0 && items[j - 1].0 > items[j].0 {
            items.swap(j - 1, j);
            j -= 1;
        }
    }
    items.into_iter().flat_map(|(_, b)| b).collect()
}

fn case_of(a: &[(Vec<u8>, Node)], b: &[(Vec<u8>, Node)], flag: &[u8]) -> (Case, Vec<(Vec<u8>, Vec<u8>)>) {
    let mut objs = Vec::new();
    let ta = write_dir(a, &mut objs);
    let tb = write_dir(b, &mut objs);
    let mut c = vec![tag("diff"), ta, tb, flag.to_vec()];
    for (id, o) in &objs {
        c.push(id.clone());
        c.push(o.clone());
    }
    (c, objs)
}

/// reuse <lhs1> <rhs1> <k> <lhs2> <rhs2> objects…; with `missing` one subtree used only by the first pair is left out
fn reuse_case(a1: &[(Vec<u8>, Node)], b1: &[(Vec<u8>, Node)], k: u64, a2: &[(Vec<u8>, Node)], b2: &[(Vec<u8>, Node)], missing: bool) -> Case {
    let mut objs1 = Vec::new();
    let l1 = write_dir(a1, &mut objs1);
    let r1 = write_dir(b1, &mut objs1);
    let mut objs2 = Vec::new();
    let l2 = write_dir(a2, &mut objs2);
    let r2 = write_dir(b2, &mut objs2);
    let mut c = vec![tag("reuse"), l1, r1, num(k), l2, r2];
    let mut dropped = !missing;
    // last written = closest to the root: dropping it fails the first diff after other pairs were queued
    for (id, o) in objs1.iter().rev() {
        if !objs2.iter().any(|(i, _)| i == id) {
            if !dropped {
                dropped = true;
                continue;
            }
            c.push(id.clone());
            c.push(o.clone());
        }
    }
    for (id, o) in &objs2 {
        c.push(id.clone());
        c.push(o.clone());
    }
    c
}

fn leaf(m: u32, k: u8) -> Node {
    Node::Leaf(m, vec![k; 20])
}
fn e(n: &[u8], x: Node) -> (Vec<u8>, Node) {
    (n.to_vec(), x)
}

fn gen(rng: &mut Rng, n: usize) -> Vec<Case> {
    let mut out: Vec<Case> = Vec::new();
    // ---- boundary block
    let f = |k| leaf(0o100644, k);
    let d = |es: Vec<(Vec<u8>, Node)>| Node::Dir(es);
    let fixed: Vec<(Vec<(Vec<u8>, Node)>, Vec<(Vec<u8>, Node)>)> = vec![
        (vec![], vec![]),
        (vec![], vec![e(b"a", f(1))]),
        (vec![e(b"a", f(1))], vec![]),
        (vec![e(b"a", f(1))], vec![e(b"a", f(1))]),
        (vec![e(b"a", f(1))], vec![e(b"a", f(2))]),
        // mode-only changes
        (vec![e(b"a", f(1))], vec![e(b"a", leaf(0o100755, 1))]),
        (vec![e(b"a", f(1))], vec![e(b"a", leaf(0o120000, 1))]),
        (vec![e(b"a", leaf(0o120000, 1))], vec![e(b"a", leaf(0o160000, 1))]),
        (vec![e(b"d", d(vec![e(b"x", f(1))]))], vec![e(b"d", d(vec![e(b"x", leaf(0o100755, 1))]))]),
        // file <-> directory with neighbours sorting between "a" and "a/"
        (vec![e(b"a", f(1)), e(b"a.b", f(2)), e(b"a-", f(3)), e(b"a0", f(4))],
         vec![e(b"a", d(vec![e(b"x", f(1))])), e(b"a.b", f(2)), e(b"a-", f(3)), e(b"a0", f(4))]),
        (vec![e(b"a", d(vec![e(b"x", f(1)), e(b"y", d(vec![e(b"z", f(2))]))])), e(b"a.b", f(2)), e(b"a0", f(4))],
         vec![e(b"a", f(1)), e(b"a.b", f(2)), e(b"a0", f(5))]),
        (vec![e(b"a", f(1)), e(b"a", d(vec![e(b"x", f(1))]))], vec![e(b"a", d(vec![e(b"x", f(2))]))]),
        // whole directory added / deleted, nested
        (vec![], vec![e(b"d", d(vec![e(b"e", d(vec![e(b"f", f(1))])), e(b"g", f(2))]))]),
        (vec![e(b"d", d(vec![e(b"e", d(vec![e(b"f", f(1))])), e(b"g", f(2))]))], vec![]),
        // empty directories
        (vec![e(b"d", d(vec![]))], vec![e(b"d", d(vec![e(b"x", f(1))]))]),
        (vec![e(b"d", d(vec![]))], vec![]),
        // two directories changed: breadth-first order
        (vec![e(b"a", d(vec![e(b"x", f(1)), e(b"s", d(vec![e(b"t", f(1))]))])), e(b"b", d(vec![e(b"y", f(1))]))],
         vec![e(b"a", d(vec![e(b"x", f(2)), e(b"s", d(vec![e(b"t", f(2))]))])), e(b"b", d(vec![e(b"y", f(2))]))]),
        // catch-up runs
        (vec![e(b"a", f(1)), e(b"b", f(1)), e(b"c", f(1)), e(b"d", f(1))], vec![e(b"d", f(2))]),
        (vec![e(b"d", f(2))], vec![e(b"a", f(1)), e(b"b", f(1)), e(b"c", f(1)), e(b"d", f(1))]),
        (vec![e(b"a", f(1)), e(b"c", f(1))], vec![e(b"b", f(1)), e(b"d", f(1))]),
        (vec![e(b"b", f(1)), e(b"d", f(1))], vec![e(b"a", f(1)), e(b"c", f(1))]),
    ];
    for (a, b) in &fixed {
        out.push(case_of(a, b, b"v").0);
    }
    // ---- State reuse after a cancelled first diff: directory "d" changed (its pair is queued), then file "z" changed
    {
        let a1 = vec![e(b"d", d(vec![e(b"x", f(1)), e(b"s", d(vec![e(b"t", f(1))]))])), e(b"z", f(1))];
        let b1 = vec![e(b"d", d(vec![e(b"x", f(2)), e(b"s", d(vec![e(b"t", f(2))]))])), e(b"z", f(2))];
        let seconds: Vec<(Vec<(Vec<u8>, Node)>, Vec<(Vec<u8>, Node)>)> = vec![
            (vec![e(b"a", f(1))], vec![e(b"a", f(2))]),
            (vec![], vec![]),
            (vec![e(b"q", d(vec![e(b"r", f(1))]))], vec![e(b"q", d(vec![e(b"r", f(3))])), e(b"u", f(1))]),
            (vec![e(b"d", d(vec![e(b"x", f(1))]))], vec![]),
        ];
        for (a2, b2) in &seconds {
            for k in 0..=4u64 {
                out.push(reuse_case(&a1, &b1, k, a2, b2, false));
            }
            out.push(reuse_case(&a1, &b1, 0, a2, b2, true));
        }
    }
    // ---- random stream
    while out.len() < n {
        if rng.chance(1, 7) {
            // first pair: related trees with directories; cancelled at a random visit or a subtree is missing
            let depth = rng.range(1, 3) as usize;
            let na = rng.range(1, 5) as usize;
            let a1 = rand_entries(rng, na, depth);
            let b1 = match mutate(rng, &Node::Dir(a1.clone()), depth + 1) {
                Node::Dir(es) => es,
                x => vec![e(b"a", x)],
            };
            let na2 = rng.range(0, 4) as usize;
            let d2 = rng.range(0, 2) as usize;
            let a2 = rand_entries(rng, na2, d2);
            let b2 = match mutate(rng, &Node::Dir(a2.clone()), d2 + 1) {
                Node::Dir(es) => es,
                x => vec![e(b"a", x)],
            };
            let missing = rng.chance(1, 4);
            let k = if missing { 0 } else { rng.range(1, 6) as u64 };
            out.push(reuse_case(&a1, &b1, k, &a2, &b2, missing));
            continue;
        }
        let depth = rng.range(0, 3) as usize;
        let na = rng.range(0, 5) as usize;
        let a = rand_entries(rng, na, depth);
        let b = match rng.below(10) {
            0 => {
                let nb = rng.range(0, 5) as usize;
                rand_entries(rng, nb, depth)
            }
            1 => a.clone(),
            _ => {
                // a related tree; try a few times to get one that differs
                let mut b = a.clone();
                for _ in 0..4 {
                    b = match mutate(rng, &Node::Dir(a.clone()), depth + 1) {
                        Node::Dir(es) => es,
                        x => vec![e(b"a", x)],
                    };
                    if b != a {
                        break;
                    }
                }
                b
            }
        };
        let (mut c, objs) = case_of(&a, &b, b"v");
        if rng.chance(1, 6) {
            c[3] = b"m".to_vec();
            malform(rng, &mut c, &objs);
        }
        out.push(c);
    }
    out.truncate(n.max(1));
    out
}

/// damage a valid case: the ids of the objects are left as they are (no cycles can arise because a
/// damaged object only refers to ids it referred to before, or to random ones)
fn malform(rng: &mut Rng, c: &mut Case, objs: &[(Vec<u8>, Vec<u8>)]) {
    // which tree to damage: a root or an object
    let nobj = objs.len();
    let pick = rng.below(2 + nobj as u64) as usize;
    let (idx, off) = if pick < 2 { (1 + pick, 0) } else { (4 + 2 * (pick - 2) + 1, 1) };
    match rng.below(9) {
        0 => {
            // drop an object
            if nobj > 0 {
                let k = rng.below(nobj as u64) as usize;
                c.drain(4 + 2 * k..4 + 2 * k + 2);
            }
        }
        1 => {
            // an object of another kind
            if nobj > 0 {
                let k = rng.below(nobj as u64) as usize;
                c[4 + 2 * k + 1][0] = b'b';
            }
        }
        2 => {
            // truncate
            let len = c[idx].len();
            if len > off {
                let cut = off + rng.below((len - off) as u64) as usize;
                c[idx].truncate(cut);
            }
        }
        3 => {
            // flip a byte
            let len = c[idx].len();
            if len > off {
                let i = off + rng.below((len - off) as u64) as usize;
                c[idx][i] ^= 1 << rng.below(8);
            }
        }
        4 => {
            // reverse the order of the entries (unsorted tree)
            if let Some(mut es) = read_tree(&c[idx][off..]) {
                es.reverse();
                let mut v = c[idx][..off].to_vec();
                for x in es {
                    v.extend(entry_bytes(x.mode, &x.name, &x.oid));
                }
                c[idx] = v;
            }
        }
        5 => {
            // duplicate an entry
            if let Some(es) = read_tree(&c[idx][off..]) {
                if !es.is_empty() {
                    let k = rng.below(es.len() as u64) as usize;
                    let mut v = c[idx][..off].to_vec();
                    for (i, x) in es.iter().enumerate() {
                        v.extend(entry_bytes(x.mode, &x.name, &x.oid));
                        if i == k {
                            v.extend(entry_bytes(x.mode, &x.name, &x.oid));
                        }
                    }
                    c[idx] = v;
                }
            }
        }
        6 => {
            // odd names and modes
            if let Some(es) = read_tree(&c[idx][off..]) {
                let mut v = c[idx][..off].to_vec();
                for x in es.iter() {
                    let name: Vec<u8> = if rng.chance(1, 3) { rng.pick(&[&b""[..], b"a/b", b"/", b"a/", b"/a"]).to_vec() } else { x.name.clone() };
                    if rng.chance(1, 3) {
                        let m = *rng.pick(&[&b"040000"[..], b"100664", b"40755", b"7", b"", b"100000", b"140000", b"37777777777", b"40000040000", b"1000000100644", b"10064x", b"0100644", b"177777", b"200000"]);
                        v.extend_from_slice(m);
                        v.push(b' ');
                        v.extend_from_slice(&name);
                        v.push(0);
                        v.extend_from_slice(&x.oid);
                    } else {
                        v.extend(entry_bytes(x.mode, &name, &x.oid));
                    }
                }
                c[idx] = v;
            }
        }
        7 => {
            // trailing garbage
            let g = rng.word(b"1 0a\x00", 1, 25);
            c[idx].extend_from_slice(&g);
        }
        _ => {
            // a directory entry pointing to an unknown id
            if let Some(es) = read_tree(&c[idx][off..]) {
                let mut v = c[idx][..off].to_vec();
                let mut done = false;
                for x in es.iter() {
                    if is_dir(x.mode) && !done {
                        v.extend(entry_bytes(x.mode, &x.name, &[0xee; 20]));
                        done = true;
                    } else {
                        v.extend(entry_bytes(x.mode, &x.name, &x.oid));
                    }
                }
                c[idx] = v;
            }
        }
    }
}

fn main() {
    main_with(Harness { gen, imp, prop, git: Some(git), deadline: std::time::Duration::from_secs(120) });
}
