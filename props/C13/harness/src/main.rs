//! C13 harness: gix_odb::alternate::resolve on a file-system layout described by the case.
//!
//! case:  res <root> (<path> <spec>)*
//!   <root>, <path>  abstract absolute paths ("/R/a/objects"): plain components, no "." / ".." / "//"
//!   <spec>          "a"+content  object directory with info/alternates holding `content`
//!                   "d"          plain directory            "f"  regular (empty) file
//! The abstract root "/" is mapped onto a fresh scratch directory PREFIX; absolute entries in
//! alternates files (lines starting with `/` or `"/`) get PREFIX inserted, results get it stripped.
//!
//! impl: transcript of resolve() (raw returned paths / error kind + cycle chain).
//! prop: the property itself: gix's list (minus directories that do not exist) against an
//!       independent plain-Rust transcription of git's link_alt_odb_entries run on the abstract
//!       layout; every 4th case (by hash) the reference is itself checked against real git.
//! git:  `git count-objects -v` alternate list (compared with the Coq Spec by check.py).
use gixv_common::*;
use std::collections::{BTreeMap, BTreeSet};
use std::os::unix::ffi::OsStrExt;
use std::path::{Path, PathBuf};

type Comps = Vec<Vec<u8>>;

#[derive(Clone, PartialEq, Debug)]
enum Node {
    Dir,
    File(Vec<u8>),
}

struct Layout {
    root: Vec<u8>,
    /// expanded nodes in creation order
    nodes: Vec<(Comps, Node)>,
    fs: BTreeMap<Comps, Node>,
    contents: Vec<Vec<u8>>,
    has_file_node: bool,
}

const MAX_COMP: usize = 100;
const MAX_TOTAL: usize = 3000;

fn plain_path(p: &[u8]) -> Option<Comps> {
    if p.len() < 2 || p[0] != b'/' {
        return None;
    }
    let mut out = Vec::new();
    for c in p[1..].split(|b| *b == b'/') {
        if c.is_empty() || c == b"." || c == b".." || c.contains(&0) || c.len() > MAX_COMP {
            return None;
        }
        out.push(c.to_vec());
    }
    Some(out)
}

fn parse_layout(c: &Case) -> Option<Layout> {
    if f_str(c, 0) != b"res" || c.len() < 2 || (c.len() - 2) % 2 != 0 {
        return None;
    }
    let root = f_str(c, 1).to_vec();
    plain_path(&root)?;
    let mut total = root.len();
    let mut nodes: Vec<(Comps, Node)> = Vec::new();
    let mut contents = Vec::new();
    let mut has_file_node = false;
    let mut i = 2;
    while i + 1 < c.len() {
        let p = plain_path(f_str(c, i))?;
        let spec = f_str(c, i + 1);
        match spec.first() {
            Some(b'a') => {
                let content = spec[1..].to_vec();
                total += content.len();
                nodes.push((p.clone(), Node::Dir));
                let mut q = p.clone();
                q.push(b"info".to_vec());
                nodes.push((q.clone(), Node::Dir));
                q.push(b"alternates".to_vec());
                nodes.push((q, Node::File(content.clone())));
                contents.push(content);
            }
            Some(b'd') if spec.len() == 1 => nodes.push((p, Node::Dir)),
            Some(b'f') if spec.len() == 1 => {
                has_file_node = true;
                nodes.push((p, Node::File(Vec::new())))
            }
            _ => return None,
        }
        i += 2;
    }
    if total > MAX_TOTAL || nodes.len() > 200 {
        return None;
    }
    let mut fs: BTreeMap<Comps, Node> = BTreeMap::new();
    for (p, n) in &nodes {
        match fs.get(p) {
            Some(old) => {
                if *old != Node::Dir || *n != Node::Dir {
                    return None;
                }
            }
            None => {
                fs.insert(p.clone(), n.clone());
            }
        }
    }
    for (p, _) in &fs {
        for k in 1..p.len() {
            if let Some(Node::File(_)) = fs.get(&p[..k].to_vec()) {
                return None;
            }
        }
    }
    Some(Layout { root, nodes, fs, contents, has_file_node })
}

// ------------------------------------------------------------------------------------------------
// real file system

fn scratch() -> PathBuf {
    static COUNTER: std::sync::atomic::AtomicUsize = std::sync::atomic::AtomicUsize::new(0);
    let tmp = std::fs::canonicalize(std::env::temp_dir()).expect("temp dir");
    tmp.join(format!(
        "gixv-c13-{}-{}",
        std::process::id(),
        COUNTER.fetch_add(1, std::sync::atomic::Ordering::SeqCst)
    ))
}

fn bpath(b: &[u8]) -> PathBuf {
    PathBuf::from(std::ffi::OsStr::from_bytes(b))
}

fn rewrite(content: &[u8], prefix: &[u8]) -> Vec<u8> {
    let mut out = Vec::new();
    for (i, line) in content.split(|b| *b == b'\n').enumerate() {
        if i > 0 {
            out.push(b'\n');
        }
        if line.starts_with(b"/") {
            out.extend_from_slice(prefix);
            out.extend_from_slice(line);
        } else if line.starts_with(b"\"/") {
            out.push(b'"');
            out.extend_from_slice(prefix);
            out.extend_from_slice(&line[1..]);
        } else {
            out.extend_from_slice(line);
        }
    }
    out
}

fn real_of(prefix: &[u8], comps: &Comps) -> PathBuf {
    let mut b = prefix.to_vec();
    for c in comps {
        b.push(b'/');
        b.extend_from_slice(c);
    }
    bpath(&b)
}

/// Creates the layout under `<case dir>/r`; returns (case dir, PREFIX bytes).
fn materialize(l: &Layout) -> (PathBuf, Vec<u8>) {
    let case_dir = scratch();
    let prefix_path = case_dir.join("r");
    std::fs::create_dir_all(&prefix_path).expect("scratch dir");
    let prefix = prefix_path.as_os_str().as_bytes().to_vec();
    assert!(prefix.iter().all(|b| b.is_ascii_alphanumeric() || b"/-_.".contains(b)), "tame temp dir");
    for (p, n) in &l.nodes {
        let real = real_of(&prefix, p);
        match n {
            Node::Dir => std::fs::create_dir_all(&real).expect("mkdir"),
            Node::File(content) => {
                std::fs::create_dir_all(real.parent().expect("parent")).expect("mkdir parent");
                let is_alt = p.last().map(|c| c.as_slice()) == Some(b"alternates");
                let data = if is_alt { rewrite(content, &prefix) } else { content.clone() };
                std::fs::write(&real, data).expect("write");
            }
        }
    }
    (case_dir, prefix)
}

fn abstract_of(prefix: &[u8], p: &[u8]) -> Vec<u8> {
    if p.starts_with(prefix) && (p.len() == prefix.len() || p[prefix.len()] == b'/') {
        if p.len() == prefix.len() {
            b"/".to_vec()
        } else {
            p[prefix.len()..].to_vec()
        }
    } else {
        let mut v = b"!".to_vec();
        v.extend_from_slice(p);
        v
    }
}

enum Gix {
    Ok(Vec<PathBuf>),
    Err(&'static str, Vec<PathBuf>),
}

fn run_gix(prefix: &[u8], root: &[u8]) -> Gix {
    use gix_odb::alternate::{parse, Error};
    let mut r = prefix.to_vec();
    r.extend_from_slice(root);
    match gix_odb::alternate::resolve(bpath(&r), &bpath(prefix)) {
        Ok(l) => Gix::Ok(l),
        Err(Error::Cycle(chain)) => Gix::Err("Cycle", chain),
        Err(Error::Io(_)) => Gix::Err("Io", vec![]),
        Err(Error::Realpath(_)) => Gix::Err("Realpath", vec![]),
        Err(Error::Parse(parse::Error::Unquote(_))) => Gix::Err("Unquote", vec![]),
        Err(Error::Parse(parse::Error::PathConversion(_))) => Gix::Err("PathConversion", vec![]),
    }
}

fn imp(c: &Case) -> String {
    if f_str(c, 0) == b"sym" {
        return "e2e".into(); // symlink layouts are outside the model: judged by prop() only
    }
    let Some(l) = parse_layout(c) else { return "badcase".into() };
    let (case_dir, prefix) = materialize(&l);
    let r = std::panic::catch_unwind(std::panic::AssertUnwindSafe(|| run_gix(&prefix, &l.root)));
    let _ = std::fs::remove_dir_all(&case_dir);
    let r = match r {
        Ok(r) => r,
        Err(e) => std::panic::resume_unwind(e),
    };
    let show = |ps: &[PathBuf]| {
        ps.iter()
            .map(|p| format!(" {}", hexs(&abstract_of(&prefix, p.as_os_str().as_bytes()))))
            .collect::<String>()
    };
    match r {
        Gix::Ok(l) => format!("ok{}", show(&l)),
        Gix::Err(k, chain) => format!("err {}{}", k, show(&chain)),
    }
}

// ------------------------------------------------------------------------------------------------
// reference: git's object-file.c (read_info_alternates / link_alt_odb_entries / link_alt_odb_entry /
// alt_odb_usable / parse_alt_odb_entry, quote.c unquote_c_style, abspath.c strbuf_realpath) on the
// abstract layout.  Written from git 2.39's C source, independently of the gix code and of the Coq files.

fn is_dir(fs: &BTreeMap<Comps, Node>, p: &[Vec<u8>]) -> bool {
    if p.is_empty() {
        return true;
    }
    match fs.get(p) {
        Some(Node::Dir) => true,
        Some(Node::File(_)) => false,
        None => fs.keys().any(|k| k.len() > p.len() && k[..p.len()] == *p),
    }
}
fn is_file(fs: &BTreeMap<Comps, Node>, p: &[Vec<u8>]) -> bool {
    matches!(fs.get(p), Some(Node::File(_)))
}
fn exists(fs: &BTreeMap<Comps, Node>, p: &[Vec<u8>]) -> bool {
    is_dir(fs, p) || is_file(fs, p)
}

fn cstr(s: &[u8]) -> &[u8] {
    match s.iter().position(|b| *b == 0) {
        Some(i) => &s[..i],
        None => s,
    }
}

/// strbuf_realpath(path) followed by is_directory(): Some(canonical components) when the path names a directory.
fn g_realdir(fs: &BTreeMap<Comps, Node>, path: &[u8]) -> Option<Comps> {
    let path = cstr(path);
    let mut cur: Comps = Vec::new();
    for c in path.split(|b| *b == b'/') {
        if c.is_empty() || c == b"." {
            continue;
        }
        if c == b".." {
            cur.pop(); // lexical, also when `cur` is a regular file; "/.." is "/"
            continue;
        }
        if !is_dir(fs, &cur) {
            return None; // lstat: ENOTDIR
        }
        cur.push(c.to_vec());
        if !exists(fs, &cur) {
            return None; // missing component (a missing last one passes realpath, but not is_directory)
        }
    }
    is_dir(fs, &cur).then_some(cur)
}

/// open()+read() of `path`: the kernel's walk
fn g_read(fs: &BTreeMap<Comps, Node>, path: &[u8]) -> Option<Vec<u8>> {
    if path.contains(&0) {
        return None;
    }
    let mut cur: Comps = Vec::new();
    for c in path.split(|b| *b == b'/') {
        if c.is_empty() || c == b"." {
            continue;
        }
        if !is_dir(fs, &cur) {
            return None;
        }
        if c == b".." {
            cur.pop();
            continue;
        }
        cur.push(c.to_vec());
        if !exists(fs, &cur) {
            return None;
        }
    }
    match fs.get(&cur) {
        Some(Node::File(c)) => Some(c.clone()),
        _ => None,
    }
}

fn render(c: &Comps) -> Vec<u8> {
    let mut out = Vec::new();
    for x in c {
        out.push(b'/');
        out.extend_from_slice(x);
    }
    out
}

/// unquote_c_style starting at s[i] == '"': Some((unquoted, index after the closing quote))
fn g_unquote(s: &[u8], i: usize) -> Option<(Vec<u8>, usize)> {
    let n = s.len();
    let mut q = i + 1;
    let mut sb = Vec::new();
    loop {
        while q < n && s[q] != b'"' && s[q] != b'\\' {
            sb.push(s[q]);
            q += 1;
        }
        if q >= n {
            return None;
        }
        let ch = s[q];
        q += 1;
        if ch == b'"' {
            return Some((sb, q));
        }
        if q >= n {
            return None;
        }
        let ch = s[q];
        q += 1;
        let v = match ch {
            b'a' => 7,
            b'b' => 8,
            b'f' => 12,
            b'n' => 10,
            b'r' => 13,
            b't' => 9,
            b'v' => 11,
            b'\\' | b'"' => ch,
            b'0'..=b'3' => {
                let mut ac = (ch - b'0') << 6;
                if q >= n || !(b'0'..=b'7').contains(&s[q]) {
                    return None;
                }
                ac |= (s[q] - b'0') << 3;
                q += 1;
                if q >= n || !(b'0'..=b'7').contains(&s[q]) {
                    return None;
                }
                ac |= s[q] - b'0';
                q += 1;
                ac
            }
            _ => return None,
        };
        sb.push(v);
    }
}

/// the entries link_alt_odb_entries hands to link_alt_odb_entry; second: a quoted entry swallowed a newline
fn g_entries(content: &[u8]) -> (Vec<Vec<u8>>, bool) {
    let s = cstr(content);
    let n = s.len();
    let mut out = Vec::new();
    let mut spans = false;
    let mut i = 0;
    let eol = |from: usize| s[from..].iter().position(|b| *b == b'\n').map(|p| from + p).unwrap_or(n);
    while i < n {
        let mut entry = Vec::new();
        let mut end;
        if s[i] == b'#' {
            end = eol(i);
        } else if let Some((o, e)) = if s[i] == b'"' { g_unquote(s, i) } else { None } {
            if s[i..e].contains(&b'\n') {
                spans = true;
            }
            entry = o;
            end = e;
        } else {
            end = eol(i);
            entry = s[i..end].to_vec();
        }
        if end < n {
            end += 1;
        }
        i = end;
        if !entry.is_empty() {
            out.push(entry);
        }
    }
    (out, spans)
}

struct GitRef<'a> {
    fs: &'a BTreeMap<Comps, Node>,
    objdir: Vec<u8>,
    seen: BTreeSet<Vec<u8>>,
    out: Vec<Vec<u8>>,
    too_deep: bool,
    spans: bool,
}

impl GitRef<'_> {
    fn read_info(&mut self, base: &[u8], depth: usize) {
        let mut p = base.to_vec();
        p.extend_from_slice(b"/info/alternates");
        let Some(content) = g_read(self.fs, &p) else { return };
        if cstr(&content).is_empty() {
            return;
        }
        if depth > 5 {
            self.too_deep = true;
            return;
        }
        let (entries, spans) = g_entries(&content);
        self.spans |= spans;
        for e in entries {
            self.link(&e, base, depth);
        }
    }
    fn link(&mut self, entry: &[u8], base: &[u8], depth: usize) {
        let path = if entry[0] == b'/' {
            entry.to_vec()
        } else {
            let Some(b) = g_realdir(self.fs, base) else { return };
            let mut p = render(&b);
            p.push(b'/');
            p.extend_from_slice(entry);
            p
        };
        let Some(canon) = g_realdir(self.fs, &path) else { return };
        let s = render(&canon);
        if s.is_empty() || s == self.objdir || !self.seen.insert(s.clone()) {
            return;
        }
        self.out.push(s.clone());
        self.read_info(&s, depth + 1);
    }
}

struct Reference {
    list: Vec<Vec<u8>>,
    too_deep: bool,
    spans: bool,
    has_cycle: bool,
}

fn reference(l: &Layout) -> Reference {
    let objdir = g_realdir(&l.fs, &l.root).map(|c| render(&c)).unwrap_or_else(|| l.root.clone());
    let mut g = GitRef {
        fs: &l.fs,
        objdir: objdir.clone(),
        seen: BTreeSet::from([l.root.clone()]),
        out: vec![],
        too_deep: false,
        spans: false,
    };
    g.read_info(&l.root, 0);
    // cycle: a directory whose alternates (git's reading of the files, no depth limit, no de-duplication)
    // lead back to itself, reachable from the root
    fn edges(fs: &BTreeMap<Comps, Node>, n: &[u8]) -> Vec<Vec<u8>> {
        let mut p = n.to_vec();
        p.extend_from_slice(b"/info/alternates");
        let Some(content) = g_read(fs, &p) else { return vec![] };
        let (entries, _) = g_entries(&content);
        entries
            .iter()
            .filter_map(|e| {
                let path = if e[0] == b'/' {
                    e.clone()
                } else {
                    let mut p = n.to_vec();
                    p.push(b'/');
                    p.extend_from_slice(e);
                    p
                };
                g_realdir(fs, &path).map(|c| render(&c))
            })
            .collect()
    }
    fn cyc(fs: &BTreeMap<Comps, Node>, n: &[u8], gray: &mut Vec<Vec<u8>>, black: &mut BTreeSet<Vec<u8>>) -> bool {
        if gray.iter().any(|g| g == n) {
            return true;
        }
        if black.contains(n) {
            return false;
        }
        gray.push(n.to_vec());
        for ch in edges(fs, n) {
            if cyc(fs, &ch, gray, black) {
                return true;
            }
        }
        gray.pop();
        black.insert(n.to_vec());
        false
    }
    let has_cycle = cyc(&l.fs, &objdir, &mut vec![], &mut BTreeSet::new());
    Reference { list: g.out, too_deep: g.too_deep, spans: g.spans, has_cycle }
}

/// a line starting with `"` that is a complete c-style quoted string ending exactly at the end of the line
fn well_quoted(line: &[u8]) -> Option<Vec<u8>> {
    match g_unquote(line, 0) {
        Some((o, e)) if e == line.len() => Some(o),
        _ => None,
    }
}
fn quote_malformed(l: &Layout) -> bool {
    l.contents.iter().any(|c| {
        cstr(c)
            .split(|b| *b == b'\n')
            .any(|line| line.starts_with(b"\"") && well_quoted(line).is_none())
    })
}
fn empty_quoted(l: &Layout) -> bool {
    l.contents.iter().any(|c| {
        c.split(|b| *b == b'\n')
            .any(|line| line.starts_with(b"\"") && well_quoted(line).map(|o| o.is_empty()).unwrap_or(false))
    })
}
/// some entry walks through a missing component (or a regular file) and leaves it again with "..":
/// git's strbuf_realpath (and the kernel) refuse such a path, a purely lexical normalisation names a directory
fn dotdot_after_missing(l: &Layout) -> bool {
    l.fs.iter().any(|(p, n)| {
        let Node::File(content) = n else { return false };
        if p.len() < 2 || p[p.len() - 1] != b"alternates" || p[p.len() - 2] != b"info" {
            return false;
        }
        let dir = render(&p[..p.len() - 2].to_vec());
        g_entries(content).0.iter().any(|e| {
            let path = if e[0] == b'/' {
                e.clone()
            } else {
                let mut q = dir.clone();
                q.push(b'/');
                q.extend_from_slice(e);
                q
            };
            let mut cur: Comps = Vec::new();
            let mut broken = false;
            for c in cstr(&path).split(|b| *b == b'/') {
                if c.is_empty() || c == b"." {
                    continue;
                }
                if c == b".." {
                    if !is_dir(&l.fs, &cur) {
                        broken = true;
                    }
                    cur.pop();
                } else {
                    cur.push(c.to_vec());
                }
            }
            broken
        })
    })
}
fn has_nul(l: &Layout) -> bool {
    l.contents.iter().any(|c| c.contains(&0) || c.windows(4).any(|w| w == b"\\000"))
}

// ------------------------------------------------------------------------------------------------
// real git

fn c_unquote_line(s: &[u8]) -> Vec<u8> {
    if s.starts_with(b"\"") {
        if let Some((o, _)) = g_unquote(s, 0) {
            return o;
        }
    }
    s.to_vec()
}

fn real_git(case_dir: &Path, prefix: &[u8], root: &[u8]) -> Option<Vec<Vec<u8>>> {
    let skel = case_dir.join("skel.git");
    std::fs::create_dir_all(skel.join("refs")).ok()?;
    std::fs::create_dir_all(skel.join("objects")).ok()?;
    std::fs::write(skel.join("HEAD"), "ref: refs/heads/main\n").ok()?;
    let mut od = prefix.to_vec();
    od.extend_from_slice(root);
    let out = std::process::Command::new("/usr/bin/git")
        .current_dir(case_dir)
        .env_clear()
        .env("PATH", "/usr/bin:/bin")
        .env("HOME", case_dir)
        .env("GIT_CONFIG_NOSYSTEM", "1")
        .env("GIT_CONFIG_GLOBAL", "/dev/null")
        .env("LC_ALL", "C")
        .env("GIT_DIR", &skel)
        .env("GIT_OBJECT_DIRECTORY", bpath(&od))
        .args(["count-objects", "-v"])
        .stderr(std::process::Stdio::null())
        .output()
        .ok()?;
    if !out.status.success() {
        return None;
    }
    let mut res = Vec::new();
    for line in out.stdout.split(|b| *b == b'\n') {
        if let Some(rest) = line.strip_prefix(b"alternate: ") {
            res.push(abstract_of(prefix, &c_unquote_line(rest)));
        }
    }
    Some(res)
}

fn show_list(l: &[Vec<u8>]) -> String {
    format!("ok{}", l.iter().map(|p| format!(" {}", hexs(p))).collect::<String>())
}

/// git has a say when the layout is within what the abstract Spec covers
fn git_tame(l: &Layout, r: &Reference) -> bool {
    !has_nul(l) && !r.spans && is_dir(&l.fs, &plain_path(&l.root).unwrap_or_default())
}

fn git(c: &Case) -> String {
    if f_str(c, 0) == b"sym" {
        return "-".into();
    }
    let Some(l) = parse_layout(c) else { return "-".into() };
    let r = reference(&l);
    if !git_tame(&l, &r) {
        return "-".into();
    }
    let (case_dir, prefix) = materialize(&l);
    let g = real_git(&case_dir, &prefix, &l.root);
    let _ = std::fs::remove_dir_all(&case_dir);
    match g {
        Some(list) => show_list(&list),
        None => "-".into(),
    }
}

// ------------------------------------------------------------------------------------------------
// property

fn fnv(c: &Case) -> u64 {
    let mut h: u64 = 0xcbf29ce484222325;
    for f in c {
        for b in f.iter().chain([0xffu8].iter()) {
            h ^= *b as u64;
            h = h.wrapping_mul(0x100000001b3);
        }
    }
    h
}

fn prop(c: &Case) -> Verdict {
    if f_str(c, 0) == b"sym" {
        return prop_sym(c);
    }
    let Some(l) = parse_layout(c) else { return Verdict::ok(false, "badcase") };
    let r = reference(&l);
    let (case_dir, prefix) = materialize(&l);
    let gix = std::panic::catch_unwind(std::panic::AssertUnwindSafe(|| run_gix(&prefix, &l.root)));
    // what gix returned, reduced to the directories that exist, canonical, abstract
    let mut listed: Vec<Vec<u8>> = Vec::new();
    let mut raw_len = 0;
    if let Ok(Gix::Ok(ps)) = &gix {
        raw_len = ps.len();
        for p in ps {
            if p.is_dir() {
                if let Ok(canon) = std::fs::canonicalize(p) {
                    listed.push(abstract_of(&prefix, canon.as_os_str().as_bytes()));
                }
            }
        }
    }
    let git_real = if fnv(c) % 4 == 0 && git_tame(&l, &r) { real_git(&case_dir, &prefix, &l.root) } else { None };
    let _ = std::fs::remove_dir_all(&case_dir);
    if let Some(g) = &git_real {
        if *g != r.list {
            return Verdict::fail(
                "oracle-mismatch",
                format!("real git lists {} but the reference says {}", show_list(g), show_list(&r.list)),
            );
        }
    }
    let gix = match gix {
        Ok(g) => g,
        Err(_) => return Verdict::fail("panic", "resolve() panicked"),
    };
    let quirk = |fallback: &str| -> String {
        if quote_malformed(&l) {
            "quote-malformed".into()
        } else if empty_quoted(&l) {
            "empty-quoted-entry".into()
        } else if has_nul(&l) {
            "nul-byte".into()
        } else if dotdot_after_missing(&l) {
            "dotdot-after-missing".into()
        } else {
            fallback.into()
        }
    };
    match gix {
        Gix::Err("Cycle", _) => {
            if r.has_cycle {
                Verdict::ok(true, "cycle-reported")
            } else {
                Verdict::fail(quirk("false-cycle"), format!("Cycle reported, no cycle; git lists {}", show_list(&r.list)))
            }
        }
        Gix::Err(kind, _) => {
            let fallback = match kind {
                "Io" if l.has_file_node => "not-a-directory",
                "Io" => "io-error",
                "Unquote" => "unquote-error",
                _ => "other-error",
            };
            Verdict::fail(quirk(fallback), format!("err {kind}; git lists {}", show_list(&r.list)))
        }
        Gix::Ok(_) => {
            if r.has_cycle {
                return Verdict::fail(quirk("cycle-not-reported"), format!("cycle followed: {}", show_list(&listed)));
            }
            if listed == r.list {
                let class = if r.list.is_empty() {
                    if raw_len == 0 {
                        "no-alternates"
                    } else {
                        "only-missing"
                    }
                } else if raw_len != listed.len() {
                    "same-dirs-some-missing"
                } else {
                    "same-dirs"
                };
                return Verdict::ok(!r.list.is_empty(), class);
            }
            let mut a = listed.clone();
            let mut b = r.list.clone();
            a.sort();
            b.sort();
            let fallback = if r.too_deep {
                "nesting-too-deep"
            } else if a == b {
                "order"
            } else {
                "dirs-differ"
            };
            Verdict::fail(quirk(fallback), format!("gix {} git {}", show_list(&listed), show_list(&r.list)))
        }
    }
}

// ------------------------------------------------------------------------------------------------
// e2e-only family: layouts WITH symbolic links.   case:  sym <root> (<path> <spec>)*
//   spec as above plus "l"+target (symbolic link; an absolute target gets PREFIX inserted).
// Outside the Coq model (transcript is the constant "e2e" on both sides); the verdict compares the
// directories gix lists (canonicalised by the kernel) with `git count-objects -v` on the same tree.

fn materialize_sym(c: &Case) -> Option<(PathBuf, Vec<u8>, Vec<u8>)> {
    if c.len() < 2 || (c.len() - 2) % 2 != 0 {
        return None;
    }
    let root = f_str(c, 1).to_vec();
    plain_path(&root)?;
    let case_dir = scratch();
    let prefix_path = case_dir.join("r");
    std::fs::create_dir_all(&prefix_path).ok()?;
    let prefix = prefix_path.as_os_str().as_bytes().to_vec();
    let mut ok = true;
    let mut i = 2;
    while i + 1 < c.len() {
        let Some(p) = plain_path(f_str(c, i)) else {
            ok = false;
            break;
        };
        let real = real_of(&prefix, &p);
        let spec = f_str(c, i + 1);
        let parent_ok = real.parent().map(|d| std::fs::create_dir_all(d).is_ok()).unwrap_or(false);
        ok &= parent_ok
            && match spec.first() {
                Some(b'a') => {
                    std::fs::create_dir_all(real.join("info")).is_ok()
                        && std::fs::write(real.join("info").join("alternates"), rewrite(&spec[1..], &prefix)).is_ok()
                }
                Some(b'd') => std::fs::create_dir_all(&real).is_ok(),
                Some(b'f') => std::fs::write(&real, b"").is_ok(),
                Some(b'l') => {
                    let t = &spec[1..];
                    let target = if t.starts_with(b"/") { [&prefix[..], t].concat() } else { t.to_vec() };
                    std::os::unix::fs::symlink(bpath(&target), &real).is_ok()
                }
                _ => false,
            };
        i += 2;
    }
    if !ok {
        let _ = std::fs::remove_dir_all(&case_dir);
        return None;
    }
    Some((case_dir, prefix, root))
}

fn prop_sym(c: &Case) -> Verdict {
    let Some((case_dir, prefix, root)) = materialize_sym(c) else { return Verdict::ok(false, "badcase") };
    let gix = std::panic::catch_unwind(std::panic::AssertUnwindSafe(|| run_gix(&prefix, &root)));
    let mut listed: Vec<Vec<u8>> = Vec::new();
    if let Ok(Gix::Ok(ps)) = &gix {
        for p in ps {
            if p.is_dir() {
                if let Ok(canon) = std::fs::canonicalize(p) {
                    listed.push(abstract_of(&prefix, canon.as_os_str().as_bytes()));
                }
            }
        }
    }
    let git = real_git(&case_dir, &prefix, &root);
    let _ = std::fs::remove_dir_all(&case_dir);
    let Some(git) = git else { return Verdict::ok(false, "sym-no-git") };
    match gix {
        Err(_) => Verdict::fail("panic", "resolve() panicked"),
        Ok(Gix::Err(kind, _)) => Verdict::fail("sym-error", format!("err {kind}; git lists {}", show_list(&git))),
        Ok(Gix::Ok(_)) => {
            if listed == git {
                Verdict::ok(!git.is_empty(), "sym-same-dirs")
            } else {
                Verdict::fail("sym-dirs-differ", format!("gix {} git {}", show_list(&listed), show_list(&git)))
            }
        }
    }
}

/// object directories reached through symbolic links whose target sits at a different depth, relative
/// entries with "..": git (and the kernel) resolve ".." physically, from where the link points to
fn sym_case(rng: &mut Rng) -> Case {
    fn dirs(rng: &mut Rng, top: &str, tag: &str, n: usize) -> Vec<Vec<u8>> {
        let mut v = vec![top.as_bytes().to_vec()];
        for i in 0..n {
            v.push(format!("{tag}{i}").into_bytes());
        }
        let _ = rng;
        v
    }
    fn up(base: &Comps, ups: usize, tail: &[&str]) -> Comps {
        let mut v = base[..base.len() - ups].to_vec();
        v.extend(tail.iter().map(|t| t.as_bytes().to_vec()));
        v
    }
    let mut c: Vec<(Vec<u8>, Vec<u8>)> = Vec::new();
    let spec = |k: u8, body: &[u8]| [&[k][..], body].concat();
    // the main object directory: a link at depth e pointing to the store at depth d
    let d = 1 + rng.below(4) as usize;
    let mut e = 1 + rng.below(4) as usize;
    if e == d {
        e = if d == 4 { 1 } else { d + 1 };
    }
    let mut store = dirs(rng, "S", "s", d);
    store.push(b"objects".to_vec());
    let mut link = dirs(rng, "R", "r", e);
    // the link is the objects directory itself, or a directory above it (.git -> ...)
    let link_above = rng.chance(1, 3);
    let root: Comps = if link_above {
        let mut r = link.clone();
        r.push(b"objects".to_vec());
        c.push((render(&link), spec(b'l', &render(&store[..store.len() - 1].to_vec()))));
        r
    } else {
        link.push(b"objects".to_vec());
        let target = if rng.chance(1, 2) {
            render(&store)
        } else {
            // relative link target
            let mut t = vec![b"..".to_vec(); link.len() - 1];
            t.extend(store.iter().cloned());
            comps_join(&t)
        };
        c.push((render(&link), spec(b'l', &target)));
        link.clone()
    };
    let u1 = 1 + rng.below((store.len().min(root.len()) - 1).min(3) as u64) as usize;
    let entry1 = format!("{}alt/objects", "../".repeat(u1));
    let p1 = up(&store, u1, &["alt", "objects"]);
    let decoy1 = up(&root, u1, &["alt", "objects"]);
    let quoted = |rng: &mut Rng, e: String| -> Vec<u8> {
        if rng.chance(1, 4) {
            c_quote(e.as_bytes(), rng, true)
        } else {
            e.into_bytes()
        }
    };
    let mut content = quoted(rng, entry1);
    content.push(b'\n');
    c.push((render(&store), spec(b'a', &content)));
    // (below a linked directory one ".." stays inside the link target: no separate lexical place)
    if rng.chance(4, 5) && !(link_above && u1 == 1) {
        c.push((render(&decoy1), b"d".to_vec()));
    }
    // second level
    match rng.below(4) {
        0 => c.push((render(&p1), b"d".to_vec())),
        1 => {
            // the alternate is a plain directory with a relative entry of its own
            let u2 = 1 + rng.below(2) as usize;
            let p2 = up(&p1, u2, &["alt2", "o"]);
            let mut content = quoted(rng, format!("{}alt2/o", "../".repeat(u2)));
            content.push(b'\n');
            c.push((render(&p1), spec(b'a', &content)));
            c.push((render(&p2), b"d".to_vec()));
        }
        _ => {
            // the alternate is itself a link to a directory at another depth, with a relative entry
            let f = 1 + rng.below(4) as usize;
            let mut t = dirs(rng, "T", "t", f);
            t.push(b"objects".to_vec());
            let u2 = 1 + rng.below((t.len() - 1).min(p1.len() - 1).min(3) as u64) as usize;
            let p2 = up(&t, u2, &["alt2", "o"]);
            let decoy2 = up(&p1, u2, &["alt2", "o"]);
            let mut content = quoted(rng, format!("{}alt2/o", "../".repeat(u2)));
            content.push(b'\n');
            c.push((render(&p1), spec(b'l', &render(&t))));
            c.push((render(&t), spec(b'a', &content)));
            c.push((render(&p2), b"d".to_vec()));
            if rng.chance(3, 4) && decoy2 != p2 {
                c.push((render(&decoy2), b"d".to_vec()));
            }
        }
    }
    let mut case = vec![tag("sym"), render(&root)];
    for (p, s) in c {
        case.push(p);
        case.push(s);
    }
    case
}

// ------------------------------------------------------------------------------------------------
// generator

fn c_quote(s: &[u8], rng: &mut Rng, gratuitous: bool) -> Vec<u8> {
    let mut o = vec![b'"'];
    for &b in s {
        match b {
            b'"' => o.extend_from_slice(b"\\\""),
            b'\\' => o.extend_from_slice(b"\\\\"),
            b'\n' => o.extend_from_slice(b"\\n"),
            b'\t' => o.extend_from_slice(b"\\t"),
            b'\r' => o.extend_from_slice(b"\\r"),
            7 if rng.chance(2, 3) => o.extend_from_slice(b"\\a"),
            8 if rng.chance(2, 3) => o.extend_from_slice(b"\\b"),
            11 if rng.chance(2, 3) => o.extend_from_slice(b"\\v"),
            12 if rng.chance(2, 3) => o.extend_from_slice(b"\\f"),
            1..=0x1f | 0x7f..=0xff => o.extend_from_slice(format!("\\{:03o}", b).as_bytes()),
            b'/' | b'.' => o.push(b),
            _ if gratuitous && rng.chance(1, 6) => o.extend_from_slice(format!("\\{:03o}", b).as_bytes()),
            _ => o.push(b),
        }
    }
    o.push(b'"');
    o
}

fn needs_quote(s: &[u8]) -> bool {
    s.first() == Some(&b'"') || s.first() == Some(&b'#') || s.contains(&b'\n')
}

fn comps_join(c: &[Vec<u8>]) -> Vec<u8> {
    c.join(&b'/')
}

/// entry text naming directory `t` from the alternates file of directory `d`
fn render_entry(rng: &mut Rng, d: &Comps, t: &Comps, root: &Comps, style: u64) -> Vec<u8> {
    let rel_from = |from: &Comps, extra_up: usize| -> Vec<u8> {
        let mut k = 0;
        while k < from.len() && k < t.len() && from[k] == t[k] {
            k += 1;
        }
        let k = k.saturating_sub(extra_up.min(k));
        let mut parts: Vec<Vec<u8>> = vec![b"..".to_vec(); from.len() - k];
        parts.extend(t[k..].iter().cloned());
        if parts.is_empty() {
            b".".to_vec()
        } else {
            comps_join(&parts)
        }
    };
    let mut e = match style {
        0 => render(t),
        1 => rel_from(d, 0),
        2 => {
            // noisy relative
            let base = rel_from(d, 0);
            let mut o = Vec::new();
            if rng.chance(1, 2) {
                o.extend_from_slice(b"./");
            }
            if rng.chance(1, 4) {
                o.extend_from_slice(b"zz/../");
            }
            for &b in &base {
                o.push(b);
                if b == b'/' && rng.chance(1, 5) {
                    o.extend_from_slice(if rng.chance(1, 2) { b"/" } else { b"./" });
                }
            }
            if rng.chance(1, 3) {
                o.push(b'/');
            }
            o
        }
        3 => rel_from(d, 1 + rng.below(2) as usize),
        4 => {
            // written as if relative to the ROOT object directory (what the pinned code assumed)
            let e = rel_from(root, 0);
            let ups = e.split(|b| *b == b'/').filter(|c| *c == b"..").count();
            if ups <= d.len() && ups <= root.len() {
                e
            } else {
                rel_from(d, 0)
            }
        }
        _ => {
            // absolute with noise
            let mut o = Vec::new();
            for c in t {
                o.extend_from_slice(if rng.chance(1, 6) { b"//" } else { b"/" });
                if rng.chance(1, 8) {
                    o.extend_from_slice(b"./");
                }
                o.extend_from_slice(c);
            }
            if rng.chance(1, 4) {
                o.push(b'/');
            }
            o
        }
    };
    if needs_quote(&e) {
        if e.contains(&b'\n') || rng.chance(2, 3) {
            e = c_quote(&e, rng, false);
        } else {
            let mut o = b"./".to_vec();
            if e.starts_with(b"/") {
                o = b"/".to_vec();
            }
            o.extend_from_slice(&e);
            e = o;
        }
    } else if rng.chance(1, 5) {
        e = c_quote(&e, rng, true);
    }
    e
}

const BASES: &[&str] = &["/R", "/R/a", "/R/a/b", "/R/a/b/c", "/S", "/S/x/y", "/R/b", "/R/a/c", "/S/x/y/z/w"];
const TAILS: &[&str] = &["", "/objects", "/.git/objects", "/o", "/x/y/objects"];
const ODD: &[&[u8]] = &[b"ob j", b"t\tab", b"q\"uo", b"b\\s", b"\xc3\xa9", b"#h", b"\"lead", b"n\nl", b"c\rr", b"\x7f", b"v\x0bt", b"be\x07l", b"f\x0cf\x08"];

fn node_path(rng: &mut Rng, i: usize) -> Vec<u8> {
    let mut p = rng.pick(BASES).as_bytes().to_vec();
    p.extend_from_slice(format!("/n{i}").as_bytes());
    p.extend_from_slice(rng.pick(TAILS).as_bytes());
    if rng.chance(1, 7) {
        p.push(b'/');
        let odd: &[u8] = *rng.pick(ODD);
        p.extend_from_slice(odd);
    }
    p
}

#[derive(Clone)]
enum Target {
    Node(usize),
    Missing,
    FileNode,
    Raw(Vec<u8>),
}

fn build_case(rng: &mut Rng, paths: &[Vec<u8>], edges: &[Vec<Target>], styles: &[u64], extra: Vec<(Vec<u8>, Vec<u8>)>) -> Case {
    let comps: Vec<Comps> = paths.iter().map(|p| plain_path(p).expect("plain")).collect();
    let mut c = vec![tag("res"), paths[0].clone()];
    let mut extra = extra;
    for (i, p) in paths.iter().enumerate() {
        if edges[i].is_empty() && rng.chance(4, 5) {
            c.push(p.clone());
            c.push(b"d".to_vec());
            continue;
        }
        let mut lines: Vec<Vec<u8>> = Vec::new();
        for t in &edges[i] {
            if rng.chance(1, 6) {
                let l = rng.pick(&[&b"# comment"[..], b"", b"#", b"# /R/a", b"#c", b"#c"]).to_vec();
                if l == b"#c" {
                    // a directory that the comment line would name if it were taken as an entry
                    let mut q = p.clone();
                    q.extend_from_slice(b"/#c");
                    extra.push((q, b"d".to_vec()));
                }
                lines.push(l);
            }
            let style = *rng.pick(styles);
            match t {
                Target::Node(j) => lines.push(render_entry(rng, &comps[i], &comps[*j], &comps[0], style)),
                Target::Missing => {
                    let mut t = comps[i].clone();
                    t.pop();
                    t.push(b"nope".to_vec());
                    lines.push(render_entry(rng, &comps[i], &t, &comps[0], style))
                }
                Target::FileNode => {
                    let mut t = comps[i].clone();
                    t.pop();
                    t.push(format!("file{i}").into_bytes());
                    extra.push((render(&t), b"f".to_vec()));
                    lines.push(render_entry(rng, &comps[i], &t, &comps[0], style))
                }
                Target::Raw(r) => lines.push(r.clone()),
            }
        }
        let sep: &[u8] = if rng.chance(1, 40) { b"\r\n" } else { b"\n" };
        let mut content = lines.join(sep);
        if rng.chance(3, 4) {
            content.extend_from_slice(sep);
        }
        let mut spec = b"a".to_vec();
        spec.extend_from_slice(&content);
        c.push(p.clone());
        c.push(spec);
    }
    let mut seen = BTreeSet::new();
    for (p, s) in extra {
        if seen.insert(p.clone()) {
            c.push(p);
            c.push(s);
        }
    }
    c
}

fn fixed_case(root: &str, nodes: &[(&str, &str)]) -> Case {
    let mut c = vec![tag("res"), root.as_bytes().to_vec()];
    for (p, s) in nodes {
        c.push(p.as_bytes().to_vec());
        c.push(s.as_bytes().to_vec());
    }
    c
}

fn fixed_case_sym() -> Case {
    let mut c = fixed_case(
        "/repo/.git/objects",
        &[
            ("/repo/.git/objects", "l/store/deep/nested/objects"),
            ("/store/deep/nested/objects", "a../../alt/objects\n"),
            ("/store/deep/alt/objects", "a../../alt2/objects\n"),
            ("/store/alt2/objects", "d"),
            ("/repo/alt/objects", "d"),
        ],
    );
    c[0] = tag("sym");
    c
}

fn boundary() -> Vec<Case> {
    let mut out = vec![
        // no alternates at all / empty file / comment only
        fixed_case("/R/a/objects", &[("/R/a/objects", "d")]),
        fixed_case("/R/a/objects", &[("/R/a/objects", "a")]),
        fixed_case("/R/a/objects", &[("/R/a/objects", "a# nothing\n\n")]),
        fixed_case("/R/a/objects", &[("/R/a/objects", "a#c\n# /R/b\n"), ("/R/a/objects/#c", "d"), ("/R/b", "d")]),
        // one absolute link, one relative link
        fixed_case("/R/a/objects", &[("/R/a/objects", "a/R/b/objects\n"), ("/R/b/objects", "d")]),
        fixed_case("/R/a/objects", &[("/R/a/objects", "a../../b/objects\n"), ("/R/b/objects", "d")]),
        // relative entries at different directory depths: the second hop is relative to /S/x/y/objects
        fixed_case(
            "/R/a/objects",
            &[
                ("/R/a/objects", "a../../../S/x/y/objects\n"),
                ("/S/x/y/objects", "a../../z/objects\n"),
                ("/S/x/z/objects", "d"),
                ("/R/z/objects", "d"),
            ],
        ),
        // sibling order
        fixed_case(
            "/R/a/objects",
            &[("/R/a/objects", "a../../b/o\n../../c/o\n../../d/o\n"), ("/R/b/o", "d"), ("/R/c/o", "d"), ("/R/d/o", "d")],
        ),
        // pre-order: b, b's child e, then c
        fixed_case(
            "/R/a/o",
            &[("/R/a/o", "a../../b/o\n../../c/o\n"), ("/R/b/o", "a../../e/o\n"), ("/R/c/o", "d"), ("/R/e/o", "d")],
        ),
        // diamond
        fixed_case(
            "/R/a/o",
            &[("/R/a/o", "a../../b/o\n../../c/o\n"), ("/R/b/o", "a../../d/o\n"), ("/R/c/o", "a../../d/o\n"), ("/R/d/o", "d")],
        ),
        // shared directory listed later at the top: git's order is b, d, c
        fixed_case(
            "/R/a/o",
            &[("/R/a/o", "a../../b/o\n../../c/o\n../../d/o\n"), ("/R/b/o", "a../../d/o\n"), ("/R/c/o", "d"), ("/R/d/o", "d")],
        ),
        // duplicate entry
        fixed_case("/R/a/o", &[("/R/a/o", "a../../b/o\n../../b/o\n/R/b/o\n"), ("/R/b/o", "d")]),
        // two-cycle, self loop, three-cycle behind a tail
        fixed_case("/R/a/o", &[("/R/a/o", "a../../b/o\n"), ("/R/b/o", "a../../a/o\n")]),
        fixed_case("/R/a/o", &[("/R/a/o", "a.\n")]),
        fixed_case("/R/a/o", &[("/R/a/o", "a../../a/o\n")]),
        fixed_case(
            "/R/a/o",
            &[("/R/a/o", "a../../b/o\n"), ("/R/b/o", "a../../c/o\n"), ("/R/c/o", "a../../d/o\n"), ("/R/d/o", "a../../b/o\n")],
        ),
        // quoting, comment
        fixed_case("/R/a/o", &[("/R/a/o", "a# c\n\"../../b\\tx/o\"\n"), ("/R/b\tx/o", "d")]),
        fixed_case("/R/a/o", &[("/R/a/o", "a\"/R/b\\303\\251/o\"\n"), ("/R/b\u{e9}/o", "d")]),
        fixed_case(
            "/R/a/o",
            &[("/R/a/o", "a\"../../b\\a\\b\\f\\v\\r\\n\\t\\\\\\\"/o\"\n"), ("/R/b\u{7}\u{8}\u{c}\u{b}\r\n\t\\\"/o", "d")],
        ),
        // missing directory, regular file
        fixed_case("/R/a/o", &[("/R/a/o", "a../../nope/o\n../../b/o\n"), ("/R/b/o", "d")]),
        fixed_case("/R/a/o", &[("/R/a/o", "a../../zz/../b/o\n"), ("/R/b/o", "d")]),
        fixed_case("/R/a/o", &[("/R/a/o", "a../../zz/../b/o\n../../b/o\n"), ("/R/b/o", "d")]),
        fixed_case("/R/a/o", &[("/R/a/o", "a../../f\n../../b/o\n"), ("/R/b/o", "d"), ("/R/f", "f")]),
        // malformed quoting
        fixed_case("/R/a/o", &[("/R/a/o", "a\"../../b/o\n"), ("/R/b/o", "d")]),
        fixed_case("/R/a/o", &[("/R/a/o", "a\"../../b\\q/o\"\n"), ("/R/b/o", "d")]),
        fixed_case("/R/a/o", &[("/R/a/o", "a\"../../b/o\"../../c/o\n"), ("/R/b/o", "d"), ("/R/c/o", "d")]),
        fixed_case("/R/a/o", &[("/R/a/o", "a\"\"\n../../b/o\n"), ("/R/b/o", "d")]),
        fixed_case("/R/a/o", &[("/R/a/o", "a\"\n"), ("/R/b/o", "d")]),
        fixed_case("/R/a/o", &[("/R/a/o", "a\"../../b/o\\"), ("/R/b/o", "d")]),
        fixed_case("/R/a/o", &[("/R/a/o", "a\"../../b/o\\4\"\n\"../../b/o\\18\"\n"), ("/R/b/o", "d")]),
    ];
    // chains of every depth 1..=8 (git stops reading alternates files nested deeper than 5)
    for depth in 1..=8usize {
        let mut nodes: Vec<(String, String)> = Vec::new();
        for i in 0..=depth {
            let here = format!("/R/c{i}/o");
            if i < depth {
                nodes.push((here, format!("a../../c{}/o\n", i + 1)));
            } else {
                nodes.push((here, "d".into()));
            }
        }
        let refs: Vec<(&str, &str)> = nodes.iter().map(|(a, b)| (a.as_str(), b.as_str())).collect();
        out.push(fixed_case("/R/c0/o", &refs));
    }
    out
}

fn gen(rng: &mut Rng, n: usize) -> Vec<Case> {
    let mut out = boundary();
    {
        // the coordinator's example: repo/.git/objects -> store/deep/nested/objects, entry ../alt/objects
        let mut r2 = Rng::new(13);
        out.push(fixed_case_sym());
        for _ in 0..12 {
            out.push(sym_case(&mut r2));
        }
    }
    out.truncate(n);
    while out.len() < n {
        if rng.chance(1, 10) {
            out.push(sym_case(rng));
            continue;
        }
        let k = 1 + rng.below(8) as usize;
        let paths: Vec<Vec<u8>> = (0..=k).map(|i| node_path(rng, i)).collect();
        let mut edges: Vec<Vec<Target>> = vec![Vec::new(); k + 1];
        let shape = rng.below(12);
        match shape {
            0 | 1 => {
                // chain, sometimes deeper than git's limit
                let len = if rng.chance(1, 6) { k } else { k.min(5) };
                for i in 0..len {
                    edges[i].push(Target::Node(i + 1));
                }
            }
            _ => {
                // tree with fan-out <= 3
                for i in 1..=k {
                    let mut tries = 0;
                    loop {
                        let p = rng.below(i as u64) as usize;
                        if edges[p].len() < 3 || tries > 8 {
                            edges[p].push(Target::Node(i));
                            break;
                        }
                        tries += 1;
                    }
                }
                for e in edges.iter_mut() {
                    // sibling order independent of node numbering
                    if e.len() > 1 && rng.chance(1, 2) {
                        let a = rng.below(e.len() as u64) as usize;
                        e.swap(0, a);
                    }
                }
            }
        }
        // diamonds / duplicates: extra forward edges
        if shape >= 5 {
            for _ in 0..rng.below(3) {
                let a = rng.below(k as u64) as usize;
                let b = a + 1 + rng.below((k - a) as u64) as usize;
                let at = rng.below(edges[a].len() as u64 + 1) as usize;
                edges[a].insert(at, Target::Node(b));
            }
        }
        // cycles: back edges, self loops
        if shape >= 9 {
            let a = rng.below(k as u64 + 1) as usize;
            let b = rng.below(a as u64 + 1) as usize;
            let at = rng.below(edges[a].len() as u64 + 1) as usize;
            edges[a].insert(at, Target::Node(b));
        }
        // missing directories and regular files
        if rng.chance(1, 5) {
            let a = rng.below(k as u64 + 1) as usize;
            let at = rng.below(edges[a].len() as u64 + 1) as usize;
            edges[a].insert(at, if rng.chance(1, 4) { Target::FileNode } else { Target::Missing });
        }
        // malformed stream
        if rng.chance(1, 14) {
            let a = rng.below(k as u64 + 1) as usize;
            let at = rng.below(edges[a].len() as u64 + 1) as usize;
            let junk: Vec<u8> = match rng.below(8) {
                0 => b"\"../unterminated".to_vec(),
                1 => b"\"bad\\qescape\"".to_vec(),
                2 => b"\"x\"trailing".to_vec(),
                3 => b"\"\"".to_vec(),
                4 => b"\"oct\\40\"".to_vec(),
                5 => {
                    let jl = 1 + rng.below(12) as usize;
                    let mut j = rng.bytes(jl);
                    for b in j.iter_mut() {
                        if *b == b'.' || *b == b'\n' || *b == 0 {
                            *b = b'x';
                        }
                    }
                    j
                }
                6 => b"nul\0byte".to_vec(),
                _ => b"\"end\\".to_vec(),
            };
            edges[a].insert(at, Target::Raw(junk));
        }
        let styles: &[u64] = match rng.below(6) {
            0 => &[0],
            1 => &[1],
            2 => &[0, 1, 2, 3, 4, 5],
            3 => &[1, 2, 3],
            4 => &[1, 4],
            _ => &[0, 1, 1, 2, 5],
        };
        let c = build_case(rng, &paths, &edges, styles, vec![]);
        if parse_layout(&c).is_some() {
            out.push(c);
        }
    }
    out
}

fn main() {
    main_with(Harness { gen, imp, prop, git: Some(git), deadline: std::time::Duration::from_secs(180) });
}
