(* C13 — lemmas about the model (Model.v) and the git specification (Spec.v). *)
From Coq Require Import Lia.
From GixV.Base Require Import Bytes BytesFacts Outcome.
From GixV.C13 Require Import Model Spec.

(* ------------------------------------------------------------------------------------------------ *)
(* 1. A reported cycle is a real one: the chain carried by Error::Cycle is the sequence of canonical
      directories along an actual chain of alternates links starting at the root, and the directory
      that triggered the error is on that chain.                                                   *)

Definition alt_file (dir : bytes) : bytes := path_join (path_join dir info_alternates) alternates_name.

(* [linked fs root it]: [it] is the root item, or was produced by reading the alternates file of a
   linked item that was itself not a repetition of its chain *)
Inductive linked (fs : fsys) (root : item) : item -> Prop :=
| linked_root : linked fs root root
| linked_step : forall it input entries kids kid,
    linked fs root it ->
    mem_comps (i_canon it) (i_chain it) = false ->
    fs_read fs (alt_file (i_dir it)) = RContent input ->
    content input = Ok entries ->
    alternates_of (i_dir it) (i_chain it ++ [i_canon it]) entries = Ok kids ->
    In kid kids ->
    linked fs root kid.

Lemma realpath_go_not_cycle ch : forall cs rr k, realpath_go cs rr k <> Err (ECycle ch).
Proof.
  induction cs as [|c0 cs IH]; intros rr k; cbn [realpath_go]; [discriminate|].
  destruct c0.
  - destruct rr; [discriminate|apply IH].
  - destruct (max_symlink_checks <? k + 1)%N; [discriminate|apply IH].
Qed.
Lemma realpath_not_cycle ch p : realpath p <> Err (ECycle ch).
Proof. unfold realpath. destruct p; [discriminate|apply realpath_go_not_cycle]. Qed.

Lemma alternates_of_not_cycle ch d chn : forall entries, alternates_of d chn entries <> Err (ECycle ch).
Proof.
  induction entries as [|e r IH]; cbn [alternates_of]; [discriminate|].
  destruct (realpath (path_join d e)) as [c|x| |] eqn:Hr; try discriminate.
  - unfold omap, obind. destruct (alternates_of d chn r); try discriminate. exact IH.
  - intros H. injection H as ->. eapply realpath_not_cycle; eauto.
Qed.

Lemma content_lines_not_cycle ch : forall ls, content_lines ls <> Err (ECycle ch).
Proof.
  induction ls as [|l r IH]; cbn [content_lines]; [discriminate|].
  destruct (bytes_eqb l [] || starts_with x23 l); [exact IH|].
  destruct (starts_with dquote l).
  - destruct (undo l); [|discriminate].
    unfold omap, obind. destruct (content_lines r); try discriminate. exact IH.
  - unfold omap, obind. destruct (content_lines r); try discriminate. exact IH.
Qed.

Lemma loop_cycle_linked fs root : forall fuel dirs seen out ch,
  Forall (linked fs root) dirs ->
  loop fuel fs dirs seen out = Err (ECycle ch) ->
  exists it, linked fs root it /\ i_chain it = ch /\ mem_comps (i_canon it) ch = true.
Proof.
  induction fuel as [|f IH]; intros dirs seen out ch Hall Hloop; [discriminate|].
  cbn [loop] in Hloop.
  destruct dirs as [|it rest]; [discriminate|].
  inversion Hall as [|? ? Hit Hrest]; subst.
  destruct (mem_comps (i_canon it) (i_chain it)) eqn:Hmem.
  - injection Hloop as <-. exists it. auto.
  - destruct (mem_comps (i_canon it) seen).
    + eapply IH; eauto.
    + fold (alt_file (i_dir it)) in Hloop.
      destruct (fs_read fs (alt_file (i_dir it))) as [input| |] eqn:Hrd.
      * destruct (content input) as [entries|e| |] eqn:Hc; try discriminate.
        -- destruct (alternates_of (i_dir it) (i_chain it ++ [i_canon it]) entries) as [kids|e| |] eqn:Hk;
             try discriminate.
           ++ eapply IH; [|exact Hloop].
              apply Forall_app. split; [|exact Hrest].
              apply Forall_forall. intros kid Hin.
              eapply linked_step; eauto.
           ++ exfalso. injection Hloop as ->. exact (alternates_of_not_cycle _ _ _ _ Hk).
        -- exfalso. injection Hloop as ->. exact (content_lines_not_cycle _ _ Hc).
      * eapply IH; eauto.
      * discriminate.
Qed.

(* the chain of a linked item is exactly the list of canonical directories on the way to it *)
Inductive chain_of (fs : fsys) (root : item) : item -> list comps -> Prop :=
| chain_root : chain_of fs root root (i_chain root)
| chain_step : forall it kid ch,
    chain_of fs root it ch ->
    i_chain kid = ch ++ [i_canon it] ->
    chain_of fs root kid (ch ++ [i_canon it]).

Lemma alternates_of_chain dir chn : forall entries kids kid,
  alternates_of dir chn entries = Ok kids -> In kid kids ->
  i_chain kid = chn /\ exists e, In e entries /\ i_dir kid = path_join dir e /\ realpath (i_dir kid) = Ok (i_canon kid).
Proof.
  induction entries as [|e r IH]; intros kids kid Hk Hin; cbn [alternates_of] in Hk.
  - injection Hk as <-. destruct Hin.
  - destruct (realpath (path_join dir e)) as [c|x| |] eqn:Hr; try discriminate.
    unfold omap, obind in Hk. destruct (alternates_of dir chn r) as [ks|x| |] eqn:Hr2; try discriminate.
    injection Hk as <-. destruct Hin as [<-|Hin].
    + cbn. split; [reflexivity|]. exists e. split; [left; reflexivity|]. split; [reflexivity|exact Hr].
    + destruct (IH ks kid eq_refl Hin) as [H1 [e' [H2 [H3 H4]]]].
      split; [exact H1|]. exists e'. split; [right; exact H2|]. auto.
Qed.

Lemma linked_chain fs root it : linked fs root it -> chain_of fs root it (i_chain it).
Proof.
  induction 1 as [|it input entries kids kid Hl IH Hmem Hrd Hc Hk Hin].
  - constructor.
  - destruct (alternates_of_chain _ _ _ _ _ Hk Hin) as [Hch _].
    rewrite Hch. econstructor; eauto.
Qed.

(* ------------------------------------------------------------------------------------------------ *)
(* 2. Quoting: whenever git's unquote_c_style accepts a quoted entry, ansi_c::undo yields the same bytes *)

Lemma unquote_agrees : forall s acc o t,
  g_unquote_go s acc = Some (o, t) -> undo_go s acc = Some o.
Proof.
  fix IH 1. intros s acc o t H.
  destruct s as [|b r]; [discriminate|].
  cbn [g_unquote_go undo_go] in *.
  destruct (beqb b dquote); [injection H as <- _; reflexivity|].
  destruct (beqb b backslash).
  - destruct r as [|n r2]; [discriminate|].
    unfold g_escape in H.
    destruct (simple_escape n).
    + eapply IH; eauto.
    + destruct (is_0_to_3 n); [|discriminate].
      destruct r2 as [|d1 [|d2 r3]]; try discriminate.
      destruct (oct_digit n), (oct_digit d1), (oct_digit d2); try discriminate.
      eapply IH; eauto.
  - eapply IH; eauto.
Qed.

(* and a string undo accepts either has a closing quote git accepts too, or has none at all *)
Lemma undo_then_git : forall s acc o,
  undo_go s acc = Some o ->
  (exists t, g_unquote_go s acc = Some (o, t)) \/ g_unquote_go s acc = None.
Proof.
  fix IH 1. intros s acc o H.
  destruct s as [|b r]; [right; reflexivity|].
  cbn [g_unquote_go undo_go] in *.
  destruct (beqb b dquote); [left; injection H as <-; eexists; reflexivity|].
  destruct (beqb b backslash).
  - destruct r as [|n r2]; [discriminate|].
    unfold g_escape.
    destruct (simple_escape n).
    + eapply IH; eauto.
    + destruct (is_0_to_3 n); [|discriminate].
      destruct r2 as [|d1 [|d2 r3]]; try discriminate.
      destruct (oct_digit n), (oct_digit d1), (oct_digit d2); try discriminate.
      eapply IH; eauto.
  - eapply IH; eauto.
Qed.

(* ------------------------------------------------------------------------------------------------ *)
(* 3. Paths: components of a join, counter-free normalisation                                      *)

Lemma comps_eqb_eq : forall a b, comps_eqb a b = true <-> a = b.
Proof.
  unfold comps_eqb. induction a as [|x a IH]; destruct b as [|y b]; cbn [list_eqb]; split; intros H;
    try reflexivity; try discriminate.
  - apply andb_true_iff in H. destruct H as [H1 H2]. apply bytes_eqb_eq in H1. apply IH in H2. congruence.
  - injection H as -> ->. apply andb_true_iff. split; [apply bytes_eqb_eq; reflexivity|apply IH; reflexivity].
Qed.

Lemma beqb_refl b : beqb b b = true.
Proof. apply beqb_eq. reflexivity. Qed.

Lemma split_on_go_app sep b : forall a acc,
  split_on_go sep (a ++ sep :: b) acc = split_on_go sep a acc ++ split_on_go sep b [].
Proof.
  induction a as [|x a IH]; intros acc; cbn [app split_on_go].
  - rewrite beqb_refl. reflexivity.
  - destruct (beqb x sep); [cbn [app]; f_equal|]; apply IH.
Qed.

Lemma comps_of_segs_app : forall a b, comps_of_segs (a ++ b) = comps_of_segs a ++ comps_of_segs b.
Proof.
  induction a as [|s a IH]; intros b; cbn [app comps_of_segs]; [reflexivity|].
  destruct (bytes_eqb s [] || bytes_eqb s dot); [apply IH|].
  destruct (bytes_eqb s dotdot); cbn [app]; f_equal; apply IH.
Qed.

Lemma components_sep a b : components (a ++ slash :: b) = components a ++ components b.
Proof. unfold components, split_on. rewrite split_on_go_app. apply comps_of_segs_app. Qed.

Lemma ends_with_slash_inv base : ends_with_slash base = true -> exists b', base = b' ++ [slash].
Proof.
  unfold ends_with_slash. destruct (rev base) as [|b l] eqn:Hr; [discriminate|].
  intros H. apply beqb_eq in H. subst b. exists (rev l).
  rewrite <- (rev_involutive base), Hr. reflexivity.
Qed.

Lemma components_join base e :
  is_abs e = false -> base <> [] -> components (path_join base e) = components base ++ components e.
Proof.
  intros He Hb. unfold path_join. rewrite He.
  destruct base as [|b0 base0]; [congruence|].
  destruct (ends_with_slash (b0 :: base0)) eqn:Hs.
  - destruct (ends_with_slash_inv _ Hs) as [b' Hb']. rewrite Hb'.
    rewrite <- app_assoc. cbn [app]. rewrite !components_sep.
    replace (components []) with (@nil comp) by reflexivity. rewrite app_nil_r. reflexivity.
  - apply components_sep.
Qed.

Fixpoint norm_rev (cs : list comp) (r : comps) : option comps :=
  match cs with
  | [] => Some r
  | CUp :: t => match r with [] => None | _ :: r' => norm_rev t r' end
  | CName n :: t => norm_rev t (n :: r)
  end.

Lemma realpath_go_norm : forall cs r k c, realpath_go cs r k = Ok c -> norm_rev cs r = Some (rev c).
Proof.
  induction cs as [|c0 cs IH]; intros r k c H; cbn [realpath_go norm_rev] in *.
  - apply Ok_inj in H. subst c. rewrite rev_involutive. reflexivity.
  - destruct c0.
    + destruct r; [discriminate|]. eapply IH; eauto.
    + destruct (max_symlink_checks <? k + 1)%N; [discriminate|]. eapply IH; eauto.
Qed.

Lemma realpath_norm p c : realpath p = Ok c -> p <> [] /\ norm_rev (components p) [] = Some (rev c).
Proof.
  unfold realpath. destruct p; [discriminate|]. intros H. split; [discriminate|].
  eapply realpath_go_norm; eauto.
Qed.

Lemma norm_rev_app : forall a b r,
  norm_rev (a ++ b) r = match norm_rev a r with Some r' => norm_rev b r' | None => None end.
Proof.
  induction a as [|c0 a IH]; intros b r; cbn [app norm_rev]; [reflexivity|].
  destruct c0; [destruct r; [reflexivity|]|]; apply IH.
Qed.

(* the canonical path of an alternate = the entry's components applied to the canonical path of the
   directory whose alternates file lists it *)
Lemma relative_to_containing_dir dir e c c' :
  is_abs e = false ->
  realpath dir = Ok c ->
  realpath (path_join dir e) = Ok c' ->
  norm_rev (components e) (rev c) = Some (rev c').
Proof.
  intros He Hd Hj.
  apply realpath_norm in Hd. destruct Hd as [Hne Hd].
  apply realpath_norm in Hj. destruct Hj as [_ Hj].
  rewrite components_join in Hj by assumption.
  rewrite norm_rev_app, Hd in Hj. exact Hj.
Qed.

Lemma absolute_entry dir e : is_abs e = true -> path_join dir e = e.
Proof. intros H. unfold path_join. rewrite H. reflexivity. Qed.

(* ------------------------------------------------------------------------------------------------ *)
(* 4. Termination: resolve never runs out of fuel (and never panics), cycles included              *)

Definition terminated {A} (o : outcome A err) : Prop :=
  match o with Ok _ | Err _ => True | _ => False end.

Lemma realpath_go_terminated : forall cs r k, terminated (realpath_go cs r k).
Proof.
  induction cs as [|c0 cs IH]; intros r k; cbn [realpath_go]; [exact I|].
  destruct c0; [destruct r; [exact I|apply IH]|].
  destruct (max_symlink_checks <? k + 1)%N; [exact I|apply IH].
Qed.
Lemma realpath_terminated p : terminated (realpath p).
Proof. unfold realpath. destruct p; [exact I|apply realpath_go_terminated]. Qed.

Lemma alternates_of_terminated d chn : forall es, terminated (alternates_of d chn es).
Proof.
  induction es as [|e r IH]; cbn [alternates_of]; [exact I|].
  pose proof (realpath_terminated (path_join d e)) as Ht.
  destruct (realpath (path_join d e)); try exact I; try contradiction.
  unfold omap, obind. destruct (alternates_of d chn r); try exact I; contradiction.
Qed.

Lemma content_lines_terminated : forall ls, terminated (content_lines ls).
Proof.
  induction ls as [|l r IH]; cbn [content_lines]; [exact I|].
  destruct (bytes_eqb l [] || starts_with x23 l); [exact IH|].
  destruct (starts_with dquote l).
  - destruct (undo l); [|exact I]. unfold omap, obind. destruct (content_lines r); try exact I; contradiction.
  - unfold omap, obind. destruct (content_lines r); try exact I; contradiction.
Qed.

Lemma content_lines_length : forall ls es, content_lines ls = Ok es -> (length es <= length ls)%nat.
Proof.
  induction ls as [|l r IH]; intros es H; cbn [content_lines] in H.
  - apply Ok_inj in H. subst es. cbn. lia.
  - destruct (bytes_eqb l [] || starts_with x23 l).
    + apply IH in H. cbn [length]. lia.
    + destruct (starts_with dquote l).
      * destruct (undo l); [|discriminate]. unfold omap, obind in H.
        destruct (content_lines r) as [es'| | |] eqn:Hr; try discriminate.
        apply Ok_inj in H. subst es. cbn [length]. specialize (IH es' eq_refl). lia.
      * unfold omap, obind in H.
        destruct (content_lines r) as [es'| | |] eqn:Hr; try discriminate.
        apply Ok_inj in H. subst es. cbn [length]. specialize (IH es' eq_refl). lia.
Qed.

Lemma split_on_go_length sep : forall s acc, (length (split_on_go sep s acc) <= length s + 1)%nat.
Proof.
  induction s as [|b s IH]; intros acc; cbn [split_on_go length]; [lia|].
  destruct (beqb b sep); cbn [length]; [specialize (IH [])|specialize (IH (b :: acc))]; lia.
Qed.

Lemma content_length input es : content input = Ok es -> (length es <= length input + 1)%nat.
Proof.
  unfold content, split_on. intros H. apply content_lines_length in H.
  pose proof (split_on_go_length x0a input []). lia.
Qed.

Lemma alternates_of_length d chn : forall es kids, alternates_of d chn es = Ok kids -> length kids = length es.
Proof.
  induction es as [|e r IH]; intros kids H; cbn [alternates_of] in H.
  - apply Ok_inj in H. subst. reflexivity.
  - destruct (realpath (path_join d e)); try discriminate.
    unfold omap, obind in H. destruct (alternates_of d chn r) as [ks| | |] eqn:Hr; try discriminate.
    apply Ok_inj in H. subst kids. cbn [length]. f_equal. apply IH. reflexivity.
Qed.

(* the kernel's walk and the lexical normalisation agree whenever the walk reaches a file *)
Lemma walk_norm fs : forall segs cur c p,
  walk fs segs cur = RContent c -> norm_rev (comps_of_segs segs) cur = Some p -> fs_kind fs (rev p) = KFile c.
Proof.
  induction segs as [|s r IH]; intros cur c p Hw Hn; cbn [walk comps_of_segs norm_rev] in *.
  - injection Hn as <-. destruct (fs_kind fs (rev cur)); try discriminate. injection Hw as ->. reflexivity.
  - destruct (bytes_eqb s [] || bytes_eqb s dot); [eapply IH; eauto|].
    destruct (fs_kind fs (rev cur)) eqn:Hk; try discriminate.
    destruct (bytes_eqb s dotdot).
    + cbn [norm_rev] in Hn. destruct cur as [|x cur']; [discriminate|]. cbn [tl] in Hw. eapply IH; eauto.
    + cbn [norm_rev] in Hn. destruct (Nat.ltb name_max (length s)); [discriminate|].
      destruct (fs_kind fs (rev (s :: cur))); try discriminate; eapply IH; eauto.
Qed.

Definition alt_path (c : comps) : comps := c ++ [info_alternates; alternates_name].

Lemma components_alt_file dir : dir <> [] ->
  components (alt_file dir) = components dir ++ [CName info_alternates; CName alternates_name].
Proof.
  intros Hd. unfold alt_file.
  rewrite components_join; [|reflexivity|].
  - rewrite components_join by (try reflexivity; assumption). rewrite <- app_assoc. reflexivity.
  - unfold path_join. cbn [is_abs info_alternates bs]. cbn.
    destruct dir; [congruence|]. destruct (ends_with_slash (b :: dir)); discriminate.
Qed.

Lemma read_alt_file fs dir canon input :
  realpath dir = Ok canon -> fs_read fs (alt_file dir) = RContent input ->
  In (alt_path canon, NFile input) fs.
Proof.
  intros Hr Hrd. apply realpath_norm in Hr. destruct Hr as [Hne Hn].
  unfold fs_read in Hrd. destruct (existsb (beqb x00) (alt_file dir)); [discriminate|].
  assert (Hk : fs_kind fs (alt_path canon) = KFile input).
  { replace (alt_path canon) with (rev (alternates_name :: info_alternates :: rev canon)).
    - eapply walk_norm; [exact Hrd|].
      change (comps_of_segs (split_on slash (alt_file dir))) with (components (alt_file dir)).
      rewrite components_alt_file by assumption.
      rewrite norm_rev_app, Hn. reflexivity.
    - cbn [rev]. rewrite rev_involutive, <- app_assoc. reflexivity. }
  unfold fs_kind in Hk.
  destruct (alt_path canon) as [|x l] eqn:Hp.
  { unfold alt_path in Hp. destruct canon; discriminate. }
  rewrite <- Hp in *. clear Hp.
  destruct (lookup fs (alt_path canon)) as [[|c]|] eqn:Hl.
  - discriminate.
  - injection Hk as ->. clear - Hl. induction fs as [|[q n] fs IH]; cbn [lookup] in Hl; [discriminate|].
    destruct (comps_eqb q (alt_path canon)) eqn:He.
    + apply comps_eqb_eq in He. injection Hl as ->. left. congruence.
    + right. auto.
  - destruct (existsb _ fs); discriminate.
Qed.

Definition weight (e : comps * node) : nat :=
  match snd e with NFile c => (2 + length c)%nat | NDir => 0%nat end.
Definition visited (seen : list comps) (e : comps * node) : bool :=
  existsb (fun s => comps_eqb (fst e) (alt_path s)) seen.
Fixpoint W (fs : fsys) (seen : list comps) : nat :=
  match fs with
  | [] => 0%nat
  | e :: r => ((if visited seen e then 0 else weight e) + W r seen)%nat
  end.

Lemma W_mono c : forall fs seen, (W fs (c :: seen) <= W fs seen)%nat.
Proof.
  induction fs as [|e r IH]; intros seen; cbn [W]; [lia|].
  specialize (IH seen). unfold visited at 1. cbn [existsb]. fold (visited seen e).
  destruct (comps_eqb (fst e) (alt_path c)); cbn [orb]; destruct (visited seen e); lia.
Qed.

Lemma alt_path_inj a b : alt_path a = alt_path b -> a = b.
Proof. unfold alt_path. apply app_inv_tail. Qed.

Lemma W_visit c input : forall fs seen,
  In (alt_path c, NFile input) fs -> mem_comps c seen = false ->
  (W fs (c :: seen) + (2 + length input) <= W fs seen)%nat.
Proof.
  induction fs as [|e r IH]; intros seen Hin Hmem; [destruct Hin|].
  cbn [W]. destruct Hin as [->|Hin].
  - pose proof (W_mono c r seen).
    assert (Hv : visited seen (alt_path c, NFile input) = false).
    { unfold visited. cbn [fst]. destruct (existsb _ seen) eqn:Hex; [|reflexivity].
      apply existsb_exists in Hex. destruct Hex as [s [Hs He]].
      apply comps_eqb_eq in He. apply alt_path_inj in He. subst s.
      unfold mem_comps in Hmem. assert (existsb (comps_eqb c) seen = true).
      { apply existsb_exists. exists c. split; [assumption|apply comps_eqb_eq; reflexivity]. }
      congruence. }
    rewrite Hv. unfold visited. cbn [existsb fst].
    replace (comps_eqb (alt_path c) (alt_path c)) with true by (symmetry; apply comps_eqb_eq; reflexivity).
    cbn [orb weight snd]. lia.
  - specialize (IH seen Hin Hmem).
    unfold visited at 1. cbn [existsb]. fold (visited seen e).
    destruct (comps_eqb (fst e) (alt_path c)); cbn [orb]; destruct (visited seen e); lia.
Qed.

Definition item_ok (it : item) : Prop := realpath (i_dir it) = Ok (i_canon it).

Lemma loop_terminates fs : forall fuel dirs seen out,
  Forall item_ok dirs -> (length dirs + W fs seen < fuel)%nat ->
  terminated (loop fuel fs dirs seen out).
Proof.
  induction fuel as [|f IH]; intros dirs seen out Hok Hf; [lia|].
  cbn [loop]. destruct dirs as [|it rest]; [exact I|].
  inversion Hok as [|? ? Hit Hrest]; subst. cbn [length] in Hf.
  destruct (mem_comps (i_canon it) (i_chain it)); [exact I|].
  destruct (mem_comps (i_canon it) seen) eqn:Hseen.
  - apply IH; [assumption|lia].
  - pose proof (W_mono (i_canon it) fs seen) as Hm.
    fold (alt_file (i_dir it)).
    destruct (fs_read fs (alt_file (i_dir it))) as [input| |] eqn:Hrd.
    + pose proof (content_lines_terminated (split_on x0a input)) as Hct. fold (content input) in Hct.
      destruct (content input) as [entries| | |] eqn:Hc; try exact I; try contradiction.
      pose proof (alternates_of_terminated (i_dir it) (i_chain it ++ [i_canon it]) entries) as Hat.
      destruct (alternates_of (i_dir it) (i_chain it ++ [i_canon it]) entries) as [kids| | |] eqn:Hk;
        try exact I; try contradiction.
      apply IH.
      * apply Forall_app. split; [|assumption]. apply Forall_forall. intros kid Hin.
        destruct (alternates_of_chain _ _ _ _ _ Hk Hin) as [_ [e [_ [_ Hr]]]]. exact Hr.
      * rewrite app_length.
        pose proof (alternates_of_length _ _ _ _ Hk) as Hl.
        pose proof (content_length _ _ Hc) as Hcl.
        pose proof (W_visit (i_canon it) input fs seen (read_alt_file _ _ _ _ Hit Hrd) Hseen).
        lia.
    + apply IH; [assumption|lia].
    + exact I.
Qed.

Lemma fuel_for_enough : forall fs, (1 + W fs [] < fuel_for fs)%nat.
Proof.
  induction fs as [|[p n] r IH]; cbn [fuel_for W]; [lia|].
  unfold visited. cbn [existsb]. destruct n; cbn [weight snd]; lia.
Qed.

Lemma resolve_terminated fs root : terminated (resolve fs root).
Proof.
  unfold resolve, resolve_fuel.
  pose proof (realpath_terminated root) as Ht.
  destruct (realpath root) as [c| | |] eqn:Hr; try exact I; try contradiction.
  apply loop_terminates.
  - constructor; [exact Hr|constructor].
  - cbn [length]. pose proof (fuel_for_enough fs). lia.
Qed.

(* ------------------------------------------------------------------------------------------------ *)
(* 5. Statements at the level of resolve                                                           *)

Lemma resolve_cycle_is_real fs root c ch :
  realpath root = Ok c ->
  resolve fs root = Err (ECycle ch) ->
  exists it, linked fs (mk_item root c []) it /\ i_chain it = ch /\ mem_comps (i_canon it) ch = true.
Proof.
  intros Hr H. unfold resolve, resolve_fuel in H. rewrite Hr in H.
  eapply loop_cycle_linked; [|exact H]. constructor; [constructor|constructor].
Qed.

Lemma alternate_base dir chn entries kids kid c :
  realpath dir = Ok c ->
  alternates_of dir chn entries = Ok kids -> In kid kids ->
  exists e, In e entries /\
    (is_abs e = true -> i_dir kid = e) /\
    (is_abs e = false -> norm_rev (components e) (rev c) = Some (rev (i_canon kid))).
Proof.
  intros Hd Hk Hin.
  destruct (alternates_of_chain _ _ _ _ _ Hk Hin) as [_ [e [He [Hdir Hr]]]].
  exists e. split; [exact He|]. split; intros Habs.
  - rewrite Hdir. apply absolute_entry. exact Habs.
  - rewrite Hdir in Hr. eapply relative_to_containing_dir; eauto.
Qed.

(* every linked item other than the root hangs off a linked parent whose canonical path is the last of its chain *)
Lemma linked_parent fs root it :
  linked fs root it -> it = root \/
  exists parent input entries e,
    linked fs root parent /\ fs_read fs (alt_file (i_dir parent)) = RContent input /\
    content input = Ok entries /\ In e entries /\
    i_dir it = path_join (i_dir parent) e /\ realpath (i_dir it) = Ok (i_canon it) /\
    i_chain it = i_chain parent ++ [i_canon parent].
Proof.
  destruct 1 as [|parent input entries kids kid Hl Hmem Hrd Hc Hk Hin]; [left; reflexivity|right].
  destruct (alternates_of_chain _ _ _ _ _ Hk Hin) as [Hch [e [He [Hdir Hr]]]].
  exists parent, input, entries, e. auto 10.
Qed.
