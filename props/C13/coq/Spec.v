(* C13 — specification: git's alternates resolution (git 2.39 object-file.c: read_info_alternates,
   link_alt_odb_entries, parse_alt_odb_entry, link_alt_odb_entry, alt_odb_usable; quote.c:
   unquote_c_style; abspath.c: strbuf_realpath) on the same abstract file system as the model.
   Validated against the installed git by check.py (`harness git` = `git count-objects -v`
   against [run ("spec" :: case)]).  No proofs here. *)
From GixV.Base Require Import Bytes Outcome.
From GixV.C13 Require Import Model.
Local Open Scope N_scope.

(* a C string ends at the first NUL *)
Fixpoint cstr (s : bytes) : bytes :=
  match s with
  | [] => []
  | b :: r => if beqb b x00 then [] else b :: cstr r
  end.

(* strbuf_realpath followed by is_directory: Some canonical components iff [path] names a directory.
   ".." is removed lexically (also after a regular file); every other component must exist. *)
Definition exists_kind (k : kind) : bool := match k with KMissing => false | _ => true end.
Definition is_dir_kind (k : kind) : bool := match k with KDir => true | _ => false end.

Fixpoint g_realdir_go (fs : fsys) (segs : list bytes) (cur_rev : comps) : option comps :=
  match segs with
  | [] => if is_dir_kind (fs_kind fs (rev cur_rev)) then Some (rev cur_rev) else None
  | s :: r =>
      if bytes_eqb s [] || bytes_eqb s dot then g_realdir_go fs r cur_rev
      else if bytes_eqb s dotdot then g_realdir_go fs r (tl cur_rev)
      else if is_dir_kind (fs_kind fs (rev cur_rev)) && exists_kind (fs_kind fs (rev (s :: cur_rev)))
           then g_realdir_go fs r (s :: cur_rev)
           else None
  end.
Definition g_realdir (fs : fsys) (path : bytes) : option comps :=
  g_realdir_go fs (split_on slash (cstr path)) [].

(* open + read: the model's kernel walk; any failure means "no alternates file" *)
Definition g_read (fs : fsys) (path : bytes) : option bytes :=
  match fs_read fs path with RContent c => Some c | _ => None end.

(* unquote_c_style after the opening quote: Some (unquoted, rest after the closing quote) *)
Definition g_escape (b : byte) : option byte := simple_escape b.   (* a b f n r t v, double quote, backslash: same table *)

Fixpoint g_unquote_go (s : bytes) (out_rev : bytes) : option (bytes * bytes) :=
  match s with
  | [] => None                                       (* hit the terminating NUL *)
  | b :: r =>
      if beqb b dquote then Some (rev out_rev, r)
      else if beqb b backslash then
        match r with
        | [] => None
        | n :: r2 =>
            match g_escape n with
            | Some v => g_unquote_go r2 (v :: out_rev)
            | None =>
                if is_0_to_3 n then
                  match r2 with
                  | d1 :: d2 :: r3 =>
                      match oct_digit n, oct_digit d1, oct_digit d2 with
                      | Some a, Some b1, Some c => g_unquote_go r3 (N2b (64 * a + 8 * b1 + c) :: out_rev)
                      | _, _, _ => None
                      end
                  | _ => None
                  end
                else None
            end
        end
      else g_unquote_go r (b :: out_rev)
  end.

(* strchrnul(s, LF): (text before the newline, text from the newline on) *)
Fixpoint until_nl (s : bytes) : bytes * bytes :=
  match s with
  | [] => ([], [])
  | b :: r => if beqb b x0a then ([], s) else let '(a, t) := until_nl r in (b :: a, t)
  end.
Definition skip_one (s : bytes) : bytes := match s with [] => [] | _ :: r => r end.   (* skip the separator, if any *)

(* parse_alt_odb_entry: (entry, rest) *)
Definition g_parse_entry (s : bytes) : bytes * bytes :=
  match s with
  | [] => ([], [])
  | b :: r =>
      if beqb b x23 then let '(_, t) := until_nl s in ([], skip_one t)
      else
        match (if beqb b dquote then g_unquote_go r [] else None) with
        | Some (e, t) => (e, skip_one t)
        | None => let '(e, t) := until_nl s in (e, skip_one t)
        end
  end.

(* the while-loop of link_alt_odb_entries; every round consumes at least one byte *)
Fixpoint g_entries_go (fuel : nat) (s : bytes) : list bytes :=
  match fuel with
  | O => []
  | S f =>
      match s with
      | [] => []
      | _ =>
          let '(e, t) := g_parse_entry s in
          match e with
          | [] => g_entries_go f t
          | _ => e :: g_entries_go f t
          end
      end
  end.
Definition g_entries (content : bytes) : list bytes :=
  let s := cstr content in g_entries_go (S (length s)) s.

Definition mem_bytes (x : bytes) (l : list bytes) : bool := existsb (bytes_eqb x) l.

(* state: the paths in odb_by_path (main object directory as given + every linked alternate), and the
   alternates linked so far (newest first) *)
Definition gstate := (list bytes * list bytes)%type.

Section Git.
  Variable fs : fsys.
  Variable objdir : bytes.          (* strbuf_realpath of the main object directory *)

  (* [levels]: how many more levels of alternates files are read: read_info_alternates at depth d runs
     with levels = 6 - d, so that files nested deeper than 5 are ignored *)
  Fixpoint g_read_info (levels : nat) (base : bytes) (st : gstate) : gstate :=
    match levels with
    | O => st
    | S lv =>
        match g_read fs (base ++ bs "/info/alternates") with
        | None => st
        | Some content =>
            fold_left
              (fun st entry =>
                 let path :=
                   if is_abs entry then Some entry
                   else match g_realdir fs base with
                        | Some b => Some (render b ++ slash :: entry)
                        | None => None
                        end in
                 match path with
                 | None => st
                 | Some path =>
                     match g_realdir fs path with
                     | None => st
                     | Some canon =>
                         let s := render canon in
                         if bytes_eqb s [] || bytes_eqb s objdir || mem_bytes s (fst st) then st
                         else g_read_info lv s (s :: fst st, s :: snd st)
                     end
                 end)
              (g_entries content) st
        end
    end.
End Git.

Definition git_alternates (fs : fsys) (root : bytes) : list bytes :=
  let objdir := match g_realdir fs root with Some c => render c | None => root end in
  rev (snd (g_read_info fs objdir 6 root ([root], []))).
