(* C13 — transcript printer.  case:  res <root> (<path> <spec>)*   (see harness/src/main.rs) *)
From GixV.Base Require Import Bytes Outcome.
From GixV.C13 Require Import Model Spec.

(* a plain absolute path: "/" c1 "/" c2 …, every component non-empty, not "." or "..", NUL-free, <= 100 bytes *)
Definition plain_comp (c : bytes) : bool :=
  negb (bytes_eqb c []) && negb (bytes_eqb c dot) && negb (bytes_eqb c dotdot)
  && negb (existsb (beqb x00) c) && Nat.leb (length c) 100.
Definition plain_path (p : bytes) : option comps :=
  match p with
  | b :: ((_ :: _) as r) =>
      if beqb b slash then
        let cs := split_on slash r in
        if forallb plain_comp cs then Some cs else None
      else None
  | _ => None
  end.

(* the nodes a (path, spec) pair stands for, and the size it counts for *)
Definition expand (p : comps) (spec : bytes) : option (list (comps * node) * nat) :=
  match spec with
  | x61 :: content =>                                   (* 'a' *)
      Some ([(p, NDir); (p ++ [bs "info"], NDir); (p ++ [bs "info"; bs "alternates"], NFile content)],
            length content)
  | [x64] => Some ([(p, NDir)], O)                      (* 'd' *)
  | [x66] => Some ([(p, NFile [])], O)                  (* 'f' *)
  | _ => None
  end.

Fixpoint parse_nodes (fs : list bytes) : option (list (comps * node) * nat) :=
  match fs with
  | [] => Some ([], O)
  | p :: spec :: r =>
      match plain_path p with
      | None => None
      | Some pc =>
          match expand pc spec, parse_nodes r with
          | Some (ns, k), Some (ns', k') => Some (ns ++ ns', (k + k')%nat)
          | _, _ => None
          end
      end
  | _ => None
  end.

Definition is_ndir (n : node) : bool := match n with NDir => true | _ => false end.

(* the same path twice only as directories; nothing below a regular file *)
Fixpoint no_clash (seen : fsys) (nodes : fsys) : bool :=
  match nodes with
  | [] => true
  | (p, n) :: r =>
      match lookup seen p with
      | Some old => is_ndir old && is_ndir n && no_clash seen r
      | None => no_clash ((p, n) :: seen) r
      end
  end.
Definition nothing_below_files (fs : fsys) : bool :=
  forallb (fun e => match snd e with
                    | NFile _ => negb (existsb (fun e' => strict_prefix (fst e) (fst e')) fs)
                    | NDir => true
                    end) fs.

Definition parse_case (fields : list bytes) : option (bytes * fsys) :=
  match fields with
  | op :: root :: rest =>
      if bytes_eqb op (bs "res") then
        match plain_path root, parse_nodes rest with
        | Some _, Some (nodes, size) =>
            if Nat.leb (length root + size) 3000 && Nat.leb (length nodes) 200
               && no_clash [] nodes && nothing_below_files nodes
            then Some (root, nodes) else None
        | _, _ => None
        end
      else None
  | _ => None
  end.

Definition show_paths (ps : list bytes) : bytes := concat (map (fun p => sp :: hex_encode p) ps).

Definition show_result (o : outcome (list bytes) err) : bytes :=
  match o with
  | Ok l => bs "ok" ++ show_paths l
  | Err EIo => bs "err Io"
  | Err ERealpath => bs "err Realpath"
  | Err EUnquote => bs "err Unquote"
  | Err (ECycle chain) => bs "err Cycle" ++ show_paths (map show_comps chain)
  | Panic => bs "PANIC"
  | OutOfFuel => bs "HANG"
  end.

Definition run (fs : list bytes) : bytes :=
  match fs with
  | mode :: fields =>
      (* "sym" cases (layouts with symbolic links) are outside the model: constant transcript, judged by prop() only *)
      if bytes_eqb (nth_field 0 fields) (bs "sym") then bs "e2e" else
      match parse_case fields with
      | None => bs "badcase"
      | Some (root, nodes) =>
          if bytes_eqb mode (bs "spec") then bs "ok" ++ show_paths (git_alternates nodes root)
          else show_result (resolve nodes root)
      end
  | [] => bs "?"
  end.
