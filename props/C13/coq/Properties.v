(* C13 — Alternate object databases are resolved like git: what is proved about the model of
   gix_odb::alternate::resolve (Model.v) and its relation to git's algorithm (Spec.v).
   Every statement quantifies over all file systems [fs] (any finite list of directories and files),
   all root paths and all file contents. *)
From GixV.Base Require Import Bytes Outcome.
From GixV.C13 Require Import Model Spec Proofs.

(* "cycles are reported rather than followed", part 1: resolve always returns — Ok or Err, never out of
   fuel, never a panic — whatever the alternates files contain, cycles included.  [resolve] runs the
   stack loop with [fuel_for fs] = 2 + sum over files (3 + size) rounds; the theorem is the fuel bound. *)
Theorem resolve_terminates : forall fs root,
  resolve fs root <> OutOfFuel /\ resolve fs root <> Panic.
Proof.
  intros fs root. pose proof (resolve_terminated fs root) as H.
  destruct (resolve fs root); cbn in H; try contradiction; split; discriminate.
Qed.

(* part 2: Error::Cycle(chain) is only returned for a real cycle: there is an item reached from the root by
   actual alternates links ([linked]: each step reads the info/alternates of the previous directory and
   takes one of its entries), [chain] is the list of canonical directories on the way to it, and its own
   canonical directory is already on that chain.  A directory that is merely reachable twice (diamond) is
   not on its own chain, so it cannot produce this error. *)
Theorem cycle_reported_is_real : forall fs root c chain,
  realpath root = Ok c ->
  resolve fs root = Err (ECycle chain) ->
  exists it, linked fs (mk_item root c []) it /\ i_chain it = chain /\ mem_comps (i_canon it) chain = true.
Proof. exact resolve_cycle_is_real. Qed.

Theorem linked_chain_is_link_path : forall fs root it,
  linked fs root it -> chain_of fs root it (i_chain it).
Proof. exact linked_chain. Qed.

Theorem linked_has_parent : forall fs root it,
  linked fs root it -> it = root \/
  exists parent input entries e,
    linked fs root parent /\ fs_read fs (alt_file (i_dir parent)) = RContent input /\
    content input = Ok entries /\ In e entries /\
    i_dir it = path_join (i_dir parent) e /\ realpath (i_dir it) = Ok (i_canon it) /\
    i_chain it = i_chain parent ++ [i_canon parent].
Proof. exact linked_parent. Qed.

(* "relative entries are interpreted relative to the object directory whose alternates file names them":
   for the alternates [kids] produced from the file of directory [dir] (canonical path [c]), every kid comes
   from an entry e; an absolute e is taken as it is, a relative e is applied, component by component, to the
   canonical path of [dir] — which is git's strbuf_realpath(relative_base) + "/" + entry. *)
Theorem relative_entries_use_containing_dir : forall dir chain entries kids kid c,
  realpath dir = Ok c ->
  alternates_of dir chain entries = Ok kids -> In kid kids ->
  exists e, In e entries /\
    (is_abs e = true -> i_dir kid = e) /\
    (is_abs e = false -> norm_rev (components e) (rev c) = Some (rev (i_canon kid))).
Proof. exact alternate_base. Qed.

Theorem join_then_realpath_is_relative_to_canonical_dir : forall dir e c c',
  is_abs e = false -> realpath dir = Ok c -> realpath (path_join dir e) = Ok c' ->
  norm_rev (components e) (rev c) = Some (rev c').
Proof. exact relative_to_containing_dir. Qed.

(* the file resolve reads for a directory is the info/alternates below its canonical path *)
Theorem reads_alternates_of_canonical_dir : forall fs dir canon input,
  realpath dir = Ok canon -> fs_read fs (alt_file dir) = RContent input ->
  In (alt_path canon, NFile input) fs.
Proof. exact read_alt_file. Qed.

(* quoting: whenever git's unquote_c_style accepts a quoted entry, ansi_c::undo returns the same bytes;
   and what undo accepts is either accepted by git with the same result or has no closing quote at all
   (the known class quote-malformed) *)
Theorem quoted_entry_unquoted_like_git : forall s o t,
  g_unquote_go s [] = Some (o, t) -> undo_go s [] = Some o.
Proof. intros s o t. apply unquote_agrees. Qed.

Theorem undo_accepts_only_git_strings_or_unterminated : forall s o,
  undo_go s [] = Some o -> (exists t, g_unquote_go s [] = Some (o, t)) \/ g_unquote_go s [] = None.
Proof. intros s o. apply undo_then_git. Qed.

(* The full property, NOT proved (tested by the harness against git and a transcription of git's C):
   on layouts without the known classes, resolve lists exactly git's alternates, in git's order. *)
Definition resolve_is_git_full_statement : Prop :=
  forall fs root l,
    resolve fs root = Ok l ->
    (forall p, In p l -> g_realdir fs p <> None) ->      (* every listed path names a directory *)
    map (fun p => match g_realdir fs p with Some c => render c | None => p end) l = git_alternates fs root.

(* ---- non-vacuity ------------------------------------------------------------------------------ *)

Definition o (s : String.string) : comps * node := (split_on slash (bs s), NDir).
Definition a (s : String.string) (content : String.string) : list (comps * node) :=
  let p := split_on slash (bs s) in
  [(p, NDir); (p ++ [bs "info"], NDir); (p ++ [bs "info"; bs "alternates"], NFile (bs content))].
Arguments o s%string.
Arguments a (s content)%string.
Definition nl : String.string := String.String (Ascii.ascii_of_nat 10) String.EmptyString.

(* diamond a -> b, c; b -> d; c -> d: listed b, d, c — and git's specification says the same *)
Definition diamond : fsys :=
  a "R/a/o" (String.append "../../b/o" (String.append nl (String.append "../../c/o" nl))) ++ a "R/b/o" (String.append "../../d/o" nl)
  ++ a "R/c/o" (String.append "/R/d/o" nl) ++ [o "R/d/o"].
Example diamond_is_not_a_cycle :
  resolve diamond (bs "/R/a/o") = Ok [bs "/R/a/o/../../b/o"; bs "/R/a/o/../../b/o/../../d/o"; bs "/R/a/o/../../c/o"]
  /\ git_alternates diamond (bs "/R/a/o") = [bs "/R/b/o"; bs "/R/d/o"; bs "/R/c/o"].
Proof. split; vm_compute; reflexivity. Qed.

(* a -> b -> a *)
Definition two_cycle : fsys := a "R/a/o" (String.append "../../b/o" nl) ++ a "R/b/o" (String.append "../../a/o" nl).
Example two_cycle_is_reported :
  resolve two_cycle (bs "/R/a/o") = Err (ECycle [[bs "R"; bs "a"; bs "o"]; [bs "R"; bs "b"; bs "o"]]).
Proof. vm_compute. reflexivity. Qed.

(* relative entries at different directory depths: the second hop is relative to /S/x/y/objects *)
Definition nested : fsys :=
  a "R/a/objects" (String.append "../../../S/x/y/objects" nl) ++ a "S/x/y/objects" (String.append "../../z/objects" nl)
  ++ [o "S/x/z/objects"; o "R/z/objects"].
Example nested_relative_entries :
  resolve nested (bs "/R/a/objects")
    = Ok [bs "/R/a/objects/../../../S/x/y/objects"; bs "/R/a/objects/../../../S/x/y/objects/../../z/objects"]
  /\ git_alternates nested (bs "/R/a/objects") = [bs "/S/x/y/objects"; bs "/S/x/z/objects"]
  /\ realpath (bs "/R/a/objects/../../../S/x/y/objects/../../z/objects") = Ok [bs "S"; bs "x"; bs "z"; bs "objects"].
Proof. repeat split; vm_compute; reflexivity. Qed.

Example quoted_entry :
  g_unquote_go (bs "a\tb""rest") [] = Some (bs "a" ++ [x09] ++ bs "b", bs "rest")
  /\ undo_go (bs "a\tb""rest") [] = Some (bs "a" ++ [x09] ++ bs "b")
  /\ undo_go (bs "unterminated") [] = Some (bs "unterminated") /\ g_unquote_go (bs "unterminated") [] = None.
Proof. repeat split; vm_compute; reflexivity. Qed.
