From GixV.Base Require Import Bytes Outcome.
From GixV.C13 Require Import Model Spec.
Example placeholder : realpath (bs "/a/../b") = Ok [bs "b"].
Proof. reflexivity. Qed.
