(* C13 — executable model of gix_odb::alternate::{resolve, parse::content}, gix_quote::ansi_c::undo and
   gix_path::realpath_opts (symlink-free file systems), over an abstract file system.
   No proofs here.  The model follows the code as it is in /repo (after the three `fix:` commits
   recorded in ../findings.txt). *)
From GixV.Base Require Import Bytes Outcome.
Local Open Scope N_scope.

(* ---------------------------------------------------------------- paths ------------------------ *)

Definition slash : byte := x2f.
Definition comps := list bytes.          (* a canonical absolute path: its components, outermost first *)

Fixpoint list_eqb {A} (eqb : A -> A -> bool) (a b : list A) : bool :=
  match a, b with
  | [], [] => true
  | x :: a', y :: b' => eqb x y && list_eqb eqb a' b'
  | _, _ => false
  end.
Definition comps_eqb : comps -> comps -> bool := list_eqb bytes_eqb.
Definition mem_comps (c : comps) (l : list comps) : bool := existsb (comps_eqb c) l.

(* [split_on sep s]: the segments between separators (k separators give k+1 segments) —
   <[u8]>::split(|b| *b == sep) *)
Fixpoint split_on_go (sep : byte) (s : bytes) (cur_rev : bytes) : list bytes :=
  match s with
  | [] => [rev cur_rev]
  | b :: r => if beqb b sep then rev cur_rev :: split_on_go sep r [] else split_on_go sep r (b :: cur_rev)
  end.
Definition split_on (sep : byte) (s : bytes) : list bytes := split_on_go sep s [].

Definition is_abs (p : bytes) : bool := match p with b :: _ => beqb b slash | [] => false end.
Definition ends_with_slash (p : bytes) : bool := match rev p with b :: _ => beqb b slash | [] => false end.

(* PathBuf::push / Path::join on Unix *)
Definition path_join (base p : bytes) : bytes :=
  if is_abs p then p
  else match base with
       | [] => p
       | _ => if ends_with_slash base then base ++ p else base ++ slash :: p
       end.

(* Path::components of an ABSOLUTE path: RootDir (implicit here), then one item per non-empty segment;
   "." is dropped, ".." is ParentDir *)
Inductive comp := CUp | CName (n : bytes).
Definition dot : bytes := [x2e].
Definition dotdot : bytes := [x2e; x2e].
Fixpoint comps_of_segs (segs : list bytes) : list comp :=
  match segs with
  | [] => []
  | s :: r =>
      if bytes_eqb s [] || bytes_eqb s dot then comps_of_segs r
      else if bytes_eqb s dotdot then CUp :: comps_of_segs r
      else CName s :: comps_of_segs r
  end.
Definition components (p : bytes) : list comp := comps_of_segs (split_on slash p).

Fixpoint render (c : comps) : bytes :=
  match c with
  | [] => []
  | x :: r => slash :: x ++ render r
  end.
Definition show_comps (c : comps) : bytes := match c with [] => [slash] | _ => render c end.

(* ---------------------------------------------------------------- errors ----------------------- *)

Inductive err :=
| EIo                      (* alternate::Error::Io *)
| ERealpath                (* alternate::Error::Realpath(MissingParent | ExcessiveComponentCount | EmptyPath) *)
| EUnquote                 (* alternate::Error::Parse(parse::Error::Unquote) *)
| ECycle (chain : list comps).

(* ---------------------------------------------------------------- realpath_opts ---------------- *)

(* gix_path::realpath_opts(path, cwd, 32) for an absolute [path] on a file system without symbolic
   links: [real_path] (kept reversed) grows by every Normal component, shrinks by every "..";
   symlink_checks counts Normal components. *)
Definition max_symlink_checks : N := 2048.
Fixpoint realpath_go (cs : list comp) (real_rev : comps) (checks : N) : outcome comps err :=
  match cs with
  | [] => Ok (rev real_rev)
  | CUp :: r =>
      match real_rev with
      | [] => Err ERealpath                       (* PathBuf::pop() on "/" is false: MissingParent *)
      | _ :: real' => realpath_go r real' checks
      end
  | CName n :: r =>
      let checks' := checks + 1 in
      if max_symlink_checks <? checks' then Err ERealpath   (* ExcessiveComponentCount *)
      else realpath_go r (n :: real_rev) checks'
  end.
Definition realpath (p : bytes) : outcome comps err :=
  match p with
  | [] => Err ERealpath                           (* EmptyPath *)
  | _ => realpath_go (components p) [] 0
  end.

(* ---------------------------------------------------------------- the abstract file system ----- *)

Inductive node := NDir | NFile (content : bytes).
Definition fsys := list (comps * node).

Inductive kind := KMissing | KDir | KFile (content : bytes).

Fixpoint strict_prefix (a b : comps) : bool :=      (* a is a proper prefix of b *)
  match a, b with
  | [], _ :: _ => true
  | x :: a', y :: b' => bytes_eqb x y && strict_prefix a' b'
  | _, _ => false
  end.

Fixpoint lookup (fs : fsys) (p : comps) : option node :=
  match fs with
  | [] => None
  | (q, n) :: r => if comps_eqb q p then Some n else lookup r p
  end.

(* every listed node exists, and so does every directory leading to it; "/" always exists *)
Definition fs_kind (fs : fsys) (p : comps) : kind :=
  match p with
  | [] => KDir
  | _ =>
      match lookup fs p with
      | Some NDir => KDir
      | Some (NFile c) => KFile c
      | None => if existsb (fun e => strict_prefix p (fst e)) fs then KDir else KMissing
      end
  end.

(* std::fs::read(path): the kernel's walk over the raw path, then the read *)
Inductive rd := RContent (c : bytes) | RNotFound | RIoErr.

Definition name_max : nat := 255.
Fixpoint walk (fs : fsys) (segs : list bytes) (cur_rev : comps) : rd :=
  match segs with
  | [] =>
      match fs_kind fs (rev cur_rev) with
      | KFile c => RContent c
      | KDir => RIoErr                              (* EISDIR *)
      | KMissing => RNotFound
      end
  | s :: r =>
      if bytes_eqb s [] || bytes_eqb s dot then walk fs r cur_rev
      else
        match fs_kind fs (rev cur_rev) with
        | KFile _ => RIoErr                         (* ENOTDIR *)
        | KMissing => RNotFound
        | KDir =>
            if bytes_eqb s dotdot then walk fs r (tl cur_rev)
            else if Nat.ltb name_max (length s) then RIoErr      (* ENAMETOOLONG *)
            else
              match fs_kind fs (rev (s :: cur_rev)) with
              | KMissing => RNotFound
              | _ => walk fs r (s :: cur_rev)
              end
        end
  end.
Definition fs_read (fs : fsys) (p : bytes) : rd :=
  if existsb (beqb x00) p then RIoErr                (* CString conversion fails: InvalidInput *)
  else walk fs (split_on slash p) [].

(* ---------------------------------------------------------------- gix_quote::ansi_c::undo ------ *)

Definition dquote : byte := x22.
Definition backslash : byte := x5c.

Definition simple_escape (b : byte) : option byte :=
  match b with
  | x6e => Some x0a   (* n *)
  | x72 => Some x0d   (* r *)
  | x74 => Some x09   (* t *)
  | x61 => Some x07   (* a *)
  | x62 => Some x08   (* b *)
  | x76 => Some x0b   (* v *)
  | x66 => Some x0c   (* f *)
  | x22 => Some x22
  | x5c => Some x5c
  | _ => None
  end.
Definition oct_digit (b : byte) : option N :=
  let n := b2N b in if (48 <=? n) && (n <=? 55) then Some (n - 48) else None.
Definition is_0_to_3 (b : byte) : bool := let n := b2N b in (48 <=? n) && (n <=? 51).

(* the loop of [undo] after the opening quote was dropped; None = Err(_) *)
Fixpoint undo_go (inp : bytes) (out_rev : bytes) : option bytes :=
  match inp with
  | [] => Some (rev out_rev)                        (* no closing quote: everything is taken *)
  | b :: r =>
      if beqb b dquote then Some (rev out_rev)      (* whatever follows the closing quote is ignored *)
      else if beqb b backslash then
        match r with
        | [] => None                                (* "Unexpected end of input" *)
        | n :: r2 =>
            match simple_escape n with
            | Some v => undo_go r2 (v :: out_rev)
            | None =>
                if is_0_to_3 n then
                  match r2 with
                  | d1 :: d2 :: r3 =>
                      match oct_digit n, oct_digit d1, oct_digit d2 with
                      | Some a, Some b1, Some c => undo_go r3 (N2b (64 * a + 8 * b1 + c) :: out_rev)
                      | _, _, _ => None             (* btoi: InvalidDigit *)
                      end
                  | _ => None                       (* fewer than two more bytes *)
                  end
                else None                           (* UnsupportedEscapeByte *)
            end
        end
      else undo_go r (b :: out_rev)
  end.

(* undo(line) for a line that starts with a double quote *)
Definition undo (line : bytes) : option bytes :=
  match line with
  | _q :: ((_ :: _) as rest) => undo_go rest []
  | _ => None                                       (* len < 2: "Input must be surrounded by double quotes" *)
  end.

(* ---------------------------------------------------------------- parse::content --------------- *)

Definition starts_with (b : byte) (l : bytes) : bool := match l with x :: _ => beqb x b | [] => false end.

Fixpoint content_lines (lines : list bytes) : outcome (list bytes) err :=
  match lines with
  | [] => Ok []
  | line :: r =>
      if bytes_eqb line [] || starts_with x23 line then content_lines r
      else if starts_with dquote line then
        match undo line with
        | None => Err EUnquote
        | Some p => omap (cons p) (content_lines r)
        end
      else omap (cons line) (content_lines r)
  end.
Definition content (input : bytes) : outcome (list bytes) err := content_lines (split_on x0a input).

(* ---------------------------------------------------------------- resolve ---------------------- *)

Record item := mk_item { i_dir : bytes; i_canon : comps; i_chain : list comps }.

(* one entry of an alternates file of [dir]: (dir.join(entry), its realpath, the chain) *)
Fixpoint alternates_of (dir : bytes) (chain : list comps) (entries : list bytes) : outcome (list item) err :=
  match entries with
  | [] => Ok []
  | e :: r =>
      let path := path_join dir e in
      match realpath path with
      | Ok c => omap (cons (mk_item path c chain)) (alternates_of dir chain r)
      | Err x => Err x
      | Panic => Panic
      | OutOfFuel => OutOfFuel
      end
  end.

Definition info_alternates : bytes := bs "info".
Definition alternates_name : bytes := bs "alternates".

(* the `while let Some(..) = dirs.pop()` loop; the head of [dirs] is the top of the stack *)
Fixpoint loop (fuel : nat) (fs : fsys) (dirs : list item) (seen : list comps) (out_rev : list bytes)
  : outcome (list bytes) err :=
  match fuel with
  | O => OutOfFuel
  | S f =>
      match dirs with
      | [] => Ok (rev out_rev)
      | it :: rest =>
          if mem_comps (i_canon it) (i_chain it) then Err (ECycle (i_chain it))
          else if mem_comps (i_canon it) seen then loop f fs rest seen out_rev
          else
            let seen' := i_canon it :: seen in
            let out' := match i_chain it with [] => out_rev | _ => i_dir it :: out_rev end in
            let chain' := i_chain it ++ [i_canon it] in
            match fs_read fs (path_join (path_join (i_dir it) info_alternates) alternates_name) with
            | RContent input =>
                match content input with
                | Ok entries =>
                    match alternates_of (i_dir it) chain' entries with
                    | Ok kids => loop f fs (kids ++ rest) seen' out'
                    | Err x => Err x
                    | Panic => Panic
                    | OutOfFuel => OutOfFuel
                    end
                | Err x => Err x
                | Panic => Panic
                | OutOfFuel => OutOfFuel
                end
            | RNotFound => loop f fs rest seen' out'
            | RIoErr => Err EIo
            end
      end
  end.

(* enough fuel for every file system (Properties.resolve_terminates) *)
Fixpoint fuel_for (fs : fsys) : nat :=
  match fs with
  | [] => 2%nat
  | (_, NFile c) :: r => (3 + length c + fuel_for r)%nat
  | (_, NDir) :: r => fuel_for r
  end.

Definition resolve_fuel (fuel : nat) (fs : fsys) (objects_directory : bytes) : outcome (list bytes) err :=
  match realpath objects_directory with
  | Ok root => loop fuel fs [mk_item objects_directory root []] [] []
  | Err x => Err x
  | Panic => Panic
  | OutOfFuel => OutOfFuel
  end.
Definition resolve (fs : fsys) (objects_directory : bytes) : outcome (list bytes) err :=
  resolve_fuel (fuel_for fs) fs objects_directory.
