(* C06 — transcript printer: the same observable string the Rust harness prints for a case. *)
From GixV.Base Require Import Bytes Outcome.
From GixV.C06 Require Import Model.
Local Open Scope N_scope.

Definition out_default {A E} (f : A -> bytes) (g : E -> bytes) (o : outcome A E) : bytes :=
  match o with
  | Ok a => f a
  | Err e => g e
  | Panic => bs "PANIC"
  | OutOfFuel => bs "HANG"
  end.

(* maximal runs of consecutive positions "start+len", from an ascending list *)
Fixpoint runs_go (l : list N) (start cnt : N) (acc : list bytes) : list bytes :=
  match l with
  | [] => rev_append ((N_to_dec start ++ bs "+" ++ N_to_dec cnt) :: acc) []
  | x :: r =>
      if x =? start + cnt then runs_go r start (cnt + 1) acc
      else runs_go r x 1 ((N_to_dec start ++ bs "+" ++ N_to_dec cnt) :: acc)
  end.
Fixpoint join_with (sep : bytes) (ls : list bytes) : bytes :=
  match ls with
  | [] => []
  | [x] => x
  | x :: r => x ++ sep ++ join_with sep r
  end.
Definition show_runs (asc : list N) : bytes :=
  match asc with
  | [] => bs "-"
  | x :: r => join_with (bs ",") (runs_go r x 1 [])
  end.

Definition run_ewah (d : bytes) (limit : N) : bytes :=
  match ewah_decode d with
  | Err _ => bs "err"
  | Panic => bs "PANIC"
  | OutOfFuel => bs "HANG"
  | Ok (v, rest) =>
      match for_each_set_bit (collect limit) v ([], 0) with
      | Ok (some, (seen, n)) =>
          bs "ok " ++ N_to_dec (num_bits v) ++ bs " " ++ N_to_dec (len rest) ++ bs " "
             ++ (if some then bs "some" else bs "none") ++ bs " " ++ N_to_dec n ++ bs " " ++ show_runs (rev_append seen [])
      | Err _ => bs "err"
      | Panic => bs "PANIC"
      | OutOfFuel => bs "HANG"
      end
  end.

Definition run_lref (d : bytes) : bytes :=
  match loose_parse d with
  | Ok (LId id) => bs "id " ++ hex_encode id
  | Ok (LPath p) => bs "sym " ++ hex_encode p
  | Err _ => bs "err parse"
  | Panic => bs "PANIC"
  | OutOfFuel => bs "HANG"
  end.

Definition cerr_name (e : cerr) : bytes :=
  match e with
  | CEmpty => bs "Empty" | CTocTooSmall => bs "TocTooSmall" | CEarlySentinel => bs "EarlySentinel"
  | CDuplicate => bs "Duplicate" | COutOfBounds => bs "OutOfBounds" | CNonIncremental => bs "NonIncremental"
  | CMissingSentinel => bs "MissingSentinel"
  end.

Definition show_centry (c : centry) : bytes :=
  hex_encode (ckind c) ++ bs ":" ++ N_to_dec (cstart c) ++ bs "-" ++ N_to_dec (cend c).

Definition run_chunk (d : bytes) (toc : N) (n : N) : bytes :=
  match chunk_from_bytes d (N.to_nat toc) n with
  | Ok cs =>
      bs "ok " ++ join_with (bs ",") (map show_centry cs) ++ bs " hi="
         ++ N_to_dec (match rev cs with c :: _ => cend c | [] => 0 end)
  | Err e => bs "err " ++ cerr_name e
  | Panic => bs "PANIC"
  | OutOfFuel => bs "HANG"
  end.

Definition gerr_name (e : gerr) : bytes :=
  match e with
  | GCorrupt => bs "Corrupt"
  | GVersion v => bs "Version " ++ N_to_dec v
  | GHash v => bs "Hash " ++ N_to_dec v
  | GChunk e => bs "Chunk " ++ cerr_name e
  | GMissing k => bs "Missing " ++ hex_encode k
  | GSize k => bs "Size " ++ hex_encode k
  | GBaseMismatch h c => bs "BaseMismatch " ++ N_to_dec h ++ bs " " ++ N_to_dec c
  | GCountMismatch k a b => bs "CountMismatch " ++ hex_encode k ++ bs " " ++ N_to_dec a ++ bs " " ++ N_to_dec b
  | GTrailer => bs "Trailer"
  end.

Definition run_cgraph (d : bytes) : bytes :=
  match cgraph_new d with
  | Ok (n, base) => bs "ok n=" ++ N_to_dec n ++ bs " base=" ++ N_to_dec base
  | Err e => bs "err " ++ gerr_name e
  | Panic => bs "PANIC"
  | OutOfFuel => bs "HANG"
  end.

Definition run_model (fs : list bytes) : bytes :=
  let op := nth_field 0 fs in
  if bytes_eqb op (bs "ewah") then run_ewah (nth_field 1 fs) (field_N 2 fs)
  else if bytes_eqb op (bs "lref") then run_lref (nth_field 1 fs)
  else if bytes_eqb op (bs "chunk") then run_chunk (nth_field 1 fs) (field_N 2 fs) (field_N 3 fs)
  else if bytes_eqb op (bs "cgraph") then run_cgraph (nth_field 1 fs)
  else if bytes_eqb op (bs "fz") then bs "fz"
  else bs "?".

Definition run (fs : list bytes) : bytes :=
  match fs with
  | _mode :: rest => run_model rest
  | [] => bs "?"
  end.
