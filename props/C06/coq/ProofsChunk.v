(* C06 — gix-chunk table of contents and the commit-graph header checks never panic. *)
From Coq Require Import List NArith Lia ZifyBool ZifyNat ZifyN.
From GixV.Base Require Import Bytes BytesFacts Outcome.
From GixV.C06 Require Import Model.
Import ListNotations.
Local Open Scope N_scope.

Lemma slice_to_ok d n : (n <= length d)%nat -> slice_to d n = Ok (firstn n d).
Proof. intros H. unfold slice_to. destruct (Nat.ltb_spec (length d) n); [lia|reflexivity]. Qed.
Lemma slice_from_ok d n : (n <= length d)%nat -> slice_from d n = Ok (skipn n d).
Proof. intros H. unfold slice_from. destruct (Nat.ltb_spec (length d) n); [lia|reflexivity]. Qed.
Lemma be_u64_ok d : (8 <= length d)%nat -> be_u64 d = Ok (be_num (firstn 8 d) 0).
Proof. intros H. unfold be_u64. now rewrite slice_to_ok. Qed.

Definition in_file (dl : N) (c : centry) : Prop := cstart c <= cend c /\ cend c <= dl.

Lemma chunk_loop_ok n : forall te acc dl, (12 * (n + 1) <= length te)%nat ->
  (exists e, chunk_loop n dl te acc = Err e) \/
  (exists new, chunk_loop n dl te acc = Ok (rev acc ++ new) /\ length new = n /\ Forall (in_file dl) new).
Proof.
  induction n as [|n IH]; intros te acc dl Hl; cbn [chunk_loop].
  - rewrite slice_to_ok by lia. cbn [obind].
    destruct (bytes_eqb (firstn 4 te) SENTINEL); [right|left; eauto].
    exists []. rewrite app_nil_r. repeat split. constructor.
  - rewrite slice_to_ok by lia. cbn [obind]. rewrite slice_from_ok by lia. cbn [obind].
    destruct (bytes_eqb (firstn 4 te) SENTINEL); [left; eauto|].
    destruct (existsb _ acc); [left; eauto|].
    rewrite be_u64_ok by (rewrite skipn_length; lia). cbn [obind].
    destruct (N.ltb_spec dl (be_num (firstn 8 (skipn 4 te)) 0)) as [H1|H1]; [left; eauto|].
    rewrite slice_from_ok by lia. cbn [obind].
    rewrite slice_from_ok by (rewrite skipn_length; lia). cbn [obind].
    rewrite be_u64_ok by (rewrite !skipn_length; lia). cbn [obind].
    set (off := be_num (firstn 8 (skipn 4 te)) 0) in *.
    set (nxt := be_num (firstn 8 (skipn 4 (skipn 12 te))) 0).
    destruct (N.ltb_spec dl nxt) as [H2|H2]; [left; eauto|].
    destruct (N.ltb_spec nxt off) as [H3|H3]; [left; eauto|].
    destruct (IH (skipn 12 te) ({| ckind := firstn 4 te; cstart := off; cend := nxt |} :: acc) dl)
      as [[e E]|[new [E [L F]]]]; [rewrite skipn_length; lia|left; eauto|].
    right. exists ({| ckind := firstn 4 te; cstart := off; cend := nxt |} :: new).
    rewrite E. cbn [rev]. rewrite <- app_assoc. cbn [app]. repeat split.
    + cbn [length]. lia.
    + constructor; [unfold in_file; cbn [cstart cend]; split; lia|exact F].
Qed.

(* with the table offset inside the file — what both callers establish by their size check — *)
Lemma L_chunk_total data toc num : (toc <= length data)%nat ->
  (exists e, chunk_from_bytes data toc num = Err e) \/
  (exists cs, chunk_from_bytes data toc num = Ok cs /\ N.of_nat (length cs) = num /\ cs <> [] /\
              Forall (in_file (len data)) cs).
Proof.
  intros Ht. unfold chunk_from_bytes. destruct (N.eqb_spec num 0) as [H0|H0]; [left; eauto|].
  rewrite slice_from_ok by exact Ht. cbn [obind].
  destruct (N.ltb_spec (len (skipn toc data)) ((num + 1) * 12)) as [H|H]; [left; eauto|]. unfold len in H.
  destruct (chunk_loop_ok (N.to_nat num) (skipn toc data) [] (len data)) as [[e E]|[new [E [L F]]]]; [lia|left; eauto|].
  right. exists new. cbn [rev app] in E.
  split; [exact E|]. split; [rewrite L; apply N2Nat.id|]. split; [|exact F].
  intros ->. cbn [length] in L. lia.
Qed.

Lemma L_chunk_no_panic data toc num : (toc <= length data)%nat ->
  chunk_from_bytes data toc num <> Panic /\ chunk_from_bytes data toc num <> OutOfFuel.
Proof.
  intros Ht. destruct (L_chunk_total data toc num Ht) as [[e E]|[cs [E _]]]; rewrite E; split; discriminate.
Qed.

(* the only panic of from_bytes is the caller's: a table offset beyond the data *)
Lemma L_chunk_panic_iff data toc num : num <> 0 ->
  (chunk_from_bytes data toc num = Panic <-> (length data < toc)%nat).
Proof.
  intros Hn. split.
  - intros E. destruct (Nat.ltb_spec (length data) toc) as [H|H]; [exact H|].
    destruct (L_chunk_no_panic data toc num H) as [A _]. contradiction.
  - intros H. unfold chunk_from_bytes. destruct (N.eqb_spec num 0); [contradiction|].
    unfold slice_from. destruct (Nat.ltb_spec (length data) toc); [reflexivity|lia].
Qed.

(* ---- commit-graph ----------------------------------------------------------------------- *)

Lemma find_chunk_in k cs c : find_chunk k cs = Some c -> In c cs.
Proof.
  induction cs as [|x cs IH]; cbn [find_chunk]; [discriminate|].
  destruct (bytes_eqb (ckind x) k); [intros E; injection E as <-; now left|intros E; right; auto].
Qed.

Lemma nth_byte_ok d n : (n < length d)%nat -> exists v, nth_byte d n = Ok v /\ v < 256.
Proof.
  intros H. unfold nth_byte. destruct (nth_error d n) as [b|] eqn:E.
  - exists (b2N b). split; [reflexivity|apply b2N_lt].
  - apply nth_error_None in E. lia.
Qed.

Lemma gslice_from_ok d n : n <= len d -> gslice_from d n = Ok (skipn (N.to_nat n) d).
Proof. intros H. unfold gslice_from. destruct (N.ltb_spec (len d) n); [lia|reflexivity]. Qed.

Ltac done_or_err := first [left; eexists; reflexivity | idtac].

(* File::new on any file shorter than 4 GiB (so that chunk sizes divided by 20 or 36 fit 32 bits;
   a memory map of a larger file would need 80 GiB before the `expect` could fire) *)
Lemma L_cgraph_total data : len data < 2 ^ 32 ->
  cgraph_new data <> Panic /\ cgraph_new data <> OutOfFuel.
Proof.
  intros Hsz. unfold cgraph_new, MIN_FILE_SIZE.
  destruct (N.ltb_spec (len data) (8 + 12 * 4 + 256 * 4 + 20)) as [Hmin|Hmin]; [split; discriminate|].
  unfold len in Hmin, Hsz.
  destruct (negb (bytes_eqb (firstn 4 data) (bs "CGPH"))); [split; discriminate|].
  destruct (nth_byte_ok data 4) as [v4 [E4 _]]; [lia|]. rewrite E4. cbn [obind].
  destruct (negb (v4 =? 1)); [split; discriminate|].
  destruct (nth_byte_ok data 5) as [v5 [E5 _]]; [lia|]. rewrite E5. cbn [obind].
  destruct (negb (v5 =? 1)); [split; discriminate|].
  destruct (nth_byte_ok data 6) as [v6 [E6 _]]; [lia|]. rewrite E6. cbn [obind].
  destruct (nth_byte_ok data 7) as [v7 [E7 _]]; [lia|]. rewrite E7. cbn [obind].
  destruct (L_chunk_total data 8 v6) as [[e E]|[cs [E [_ [Hne F]]]]]; [lia|rewrite E; split; discriminate|].
  rewrite E.
  assert (Hfit : forall k c, find_chunk k cs = Some c -> csize c <= len data /\ cstart c <= len data).
  { intros k c Hc. apply find_chunk_in in Hc. rewrite Forall_forall in F. destruct (F c Hc) as [A B].
    unfold csize. split; lia. }
  assert (Hu32 : forall n d, n <= len data -> 0 < d -> to_u32 (n / d) = @Ok N gerr (n / d)).
  { intros n d Hn Hd. unfold to_u32, U32_MAX. destruct (N.ltb_spec (2 ^ 32 - 1) (n / d)) as [H|H]; [|reflexivity].
    exfalso. assert (n / d <= n) by (apply N.div_le_upper_bound; nia). unfold len in Hn. lia. }
  (* BASE *)
  destruct (find_chunk (bs "BASE") cs) as [cb|] eqn:Eb.
  - destruct (Hfit _ _ Eb) as [Sb _].
    destruct (negb (csize cb mod 20 =? 0)); [split; discriminate|].
    rewrite Hu32 by (auto; lia). cbn [obind].
    destruct (negb (csize cb / 20 =? v7)); [split; discriminate|]. cbn [obind].
    destruct (find_chunk (bs "CDAT") cs) as [cc|] eqn:Ec; [|split; discriminate].
    destruct (Hfit _ _ Ec) as [Sc _].
    destruct (negb (csize cc mod 36 =? 0)); [split; discriminate|].
    rewrite Hu32 by (auto; lia). cbn [obind].
    destruct (find_chunk (bs "OIDF") cs) as [cf|] eqn:Ef; [|split; discriminate].
    destruct (negb (csize cf =? 1024)) eqn:Ef1024; [split; discriminate|]. cbn [obind].
    destruct (find_chunk (bs "OIDL") cs) as [cl|] eqn:El; [|split; discriminate].
    destruct (Hfit _ _ El) as [Sl _].
    destruct (negb (csize cl mod 20 =? 0)); [split; discriminate|].
    rewrite Hu32 by (auto; lia). cbn [obind].
    destruct (rev cs) as [|cz rz] eqn:Er; [exfalso; apply Hne; apply (f_equal (@rev centry)) in Er; rewrite rev_involutive in Er; exact Er|].
    cbn [obind].
    assert (Hz : In cz cs) by (apply in_rev; rewrite Er; now left).
    rewrite Forall_forall in F. destruct (F cz Hz) as [_ Bz].
    rewrite gslice_from_ok by exact Bz. cbn [obind].
    destruct (negb (len (skipn (N.to_nat (cend cz)) data) =? 20)); [split; discriminate|].
    destruct (andb _ _); [split; discriminate|].
    apply find_chunk_in in Ef. destruct (F cf Ef) as [Af Bf].
    rewrite gslice_from_ok by lia. cbn [obind].
    apply Bool.negb_false_iff in Ef1024. apply N.eqb_eq in Ef1024. unfold csize in Ef1024.
    destruct (N.ltb_spec (len (skipn (N.to_nat (cstart cf)) data)) 1024) as [Hf|Hf].
    { exfalso. unfold len in Hf, Bf. rewrite skipn_length in Hf. lia. }
    destruct (negb _); [split; discriminate|]. destruct (negb _); split; discriminate.
  - cbn [obind].
    destruct (find_chunk (bs "CDAT") cs) as [cc|] eqn:Ec; [|split; discriminate].
    destruct (Hfit _ _ Ec) as [Sc _].
    destruct (negb (csize cc mod 36 =? 0)); [split; discriminate|].
    rewrite Hu32 by (auto; lia). cbn [obind].
    destruct (find_chunk (bs "OIDF") cs) as [cf|] eqn:Ef; [|split; discriminate].
    destruct (negb (csize cf =? 1024)) eqn:Ef1024; [split; discriminate|]. cbn [obind].
    destruct (find_chunk (bs "OIDL") cs) as [cl|] eqn:El; [|split; discriminate].
    destruct (Hfit _ _ El) as [Sl _].
    destruct (negb (csize cl mod 20 =? 0)); [split; discriminate|].
    rewrite Hu32 by (auto; lia). cbn [obind].
    destruct (rev cs) as [|cz rz] eqn:Er; [exfalso; apply Hne; apply (f_equal (@rev centry)) in Er; rewrite rev_involutive in Er; exact Er|].
    cbn [obind].
    assert (Hz : In cz cs) by (apply in_rev; rewrite Er; now left).
    rewrite Forall_forall in F. destruct (F cz Hz) as [_ Bz].
    rewrite gslice_from_ok by exact Bz. cbn [obind].
    destruct (negb (len (skipn (N.to_nat (cend cz)) data) =? 20)); [split; discriminate|].
    destruct (andb _ _); [split; discriminate|].
    apply find_chunk_in in Ef. destruct (F cf Ef) as [Af Bf].
    rewrite gslice_from_ok by lia. cbn [obind].
    apply Bool.negb_false_iff in Ef1024. apply N.eqb_eq in Ef1024. unfold csize in Ef1024.
    destruct (N.ltb_spec (len (skipn (N.to_nat (cstart cf)) data)) 1024) as [Hf|Hf].
    { exfalso. unfold len in Hf, Bf. rewrite skipn_length in Hf. lia. }
    destruct (negb _); [split; discriminate|]. destruct (negb _); split; discriminate.
Qed.
