(* C06 — EWAH: decode and for_each_set_bit never panic / never run out of fuel; the callback only
   sees increasing positions below num_bits. *)
From Coq Require Import List NArith Lia ZifyBool ZifyNat ZifyN Sorting.Sorted.
From GixV.Base Require Import Bytes BytesFacts Outcome.
From GixV.C06 Require Import Model.
Import ListNotations.
Local Open Scope N_scope.

(* ---- decode ---------------------------------------------------------------------------- *)

Lemma be_num_bound l : forall acc, be_num l acc < (acc + 1) * 256 ^ N.of_nat (length l).
Proof.
  induction l as [|b l IH]; intros acc; cbn [be_num length].
  - rewrite N.pow_0_r. lia.
  - specialize (IH (256 * acc + b2N b)). pose proof (b2N_lt b) as Hb.
    rewrite Nat2N.inj_succ, N.pow_succ_r'.
    eapply N.lt_le_trans; [exact IH|].
    apply N.le_trans with ((256 * (acc + 1)) * 256 ^ N.of_nat (length l)).
    + apply N.mul_le_mono_r. lia.
    + lia.
Qed.

Lemma split_at_pos_some d n a r :
  split_at_pos d n = Some (a, r) -> length a = N.to_nat n /\ d = a ++ r.
Proof.
  unfold split_at_pos, len. destruct (N.ltb_spec (N.of_nat (length d)) n) as [H|H]; [discriminate|].
  intros E. injection E as <- <-. split.
  - rewrite firstn_length. lia.
  - symmetry. apply firstn_skipn.
Qed.

Lemma read_u32_some d v r : read_u32 d = Some (v, r) -> v < 2 ^ 32 /\ (length d = 4 + length r)%nat.
Proof.
  unfold read_u32. destruct (split_at_pos d 4) as [[a r']|] eqn:E; [|discriminate].
  intros H. injection H as <- <-. apply split_at_pos_some in E as [La ->].
  split.
  - pose proof (be_num_bound a 0) as Hb. rewrite La in Hb. change (N.of_nat (N.to_nat 4)) with 4 in Hb.
    change ((0 + 1) * 256 ^ 4) with (2 ^ 32) in Hb. exact Hb.
  - rewrite app_length, La. reflexivity.
Qed.

Lemma take_words_ok n : forall d, length d = (8 * n)%nat ->
  exists ws, take_words n d = Ok ws /\ length ws = n.
Proof.
  induction n as [|n IH]; intros d Hd; cbn [take_words].
  - exists []. split; reflexivity.
  - destruct (Nat.ltb_spec (length d) 8) as [H|H]; [lia|].
    destruct (IH (skipn 8 d)) as [ws [E L]]; [rewrite skipn_length; lia|].
    rewrite E. eexists. split; [reflexivity|]. cbn [length]. now rewrite L.
Qed.

Lemma L_ewah_decode_total d : ewah_decode d <> Panic /\ ewah_decode d <> OutOfFuel.
Proof.
  unfold ewah_decode.
  destruct (read_u32 d) as [[nb d1]|]; [|split; discriminate].
  destruct (read_u32 d1) as [[n d2]|]; [|split; discriminate].
  destruct (split_at_pos d2 (n * 8)) as [[bits d3]|] eqn:E; [|split; discriminate].
  apply split_at_pos_some in E as [Lb _].
  destruct (take_words_ok (N.to_nat n) bits) as [ws [Ew _]]; [lia|].
  rewrite Ew. destruct (read_u32 d3) as [[r d4]|]; split; discriminate.
Qed.

(* what a successful decode returns: a 32-bit size, exactly the announced number of words, and the
   unconsumed input is a suffix of the input *)
Lemma L_ewah_decode_ok d v rest : ewah_decode d = Ok (v, rest) ->
  num_bits v < 2 ^ 32 /\ N.of_nat (length (words v)) < 2 ^ 32 /\
  (length d = 12 + 8 * length (words v) + length rest)%nat.
Proof.
  unfold ewah_decode.
  destruct (read_u32 d) as [[nb d1]|] eqn:E1; [|discriminate].
  destruct (read_u32 d1) as [[n d2]|] eqn:E2; [|discriminate].
  destruct (split_at_pos d2 (n * 8)) as [[bits d3]|] eqn:E3; [|discriminate].
  apply split_at_pos_some in E3 as [Lb ->].
  destruct (take_words_ok (N.to_nat n) bits) as [ws [Ew Lw]]; [lia|].
  rewrite Ew. destruct (read_u32 d3) as [[r d4]|] eqn:E4; [|discriminate].
  intros H. injection H as <- <-. cbn [num_bits words].
  apply read_u32_some in E1 as [H1 L1]. apply read_u32_some in E2 as [H2 L2].
  apply read_u32_some in E4 as [_ L4]. rewrite app_length in L2.
  repeat split; [exact H1|lia|lia].
Qed.

(* ---- for_each_set_bit ------------------------------------------------------------------ *)

Section Loops.
  Context {S : Type}.
  Variable f : S -> N -> S * bool.
  Variable nb : N.
  Hypothesis Hnb : nb < USIZE.

  (* an invariant that may mention the current bit position; it survives moving the position on,
     and a call of the callback at a position below num_bits *)
  Variable Inv : N -> S -> Prop.
  Hypothesis Inv_mono : forall i j s, i <= j -> Inv i s -> Inv j s.
  Hypothesis Inv_call : forall i s, i < nb -> Inv i s -> Inv (i + 1) (fst (f s i)).

  Definition flow_ok (r : flow S) : Prop :=
    match r with Cont i s => Inv i s | Stop s => exists i, Inv i s | Crash => False end.

  Lemma set_step_ok i s : Inv i s -> flow_ok (set_step f nb i s).
  Proof.
    intros HI. unfold set_step. destruct (N.leb_spec nb i) as [H|H].
    - cbn. eauto.
    - pose proof (Inv_call i s H HI) as HC. destruct (f s i) as [s' go]. cbn [fst] in HC.
      destruct go.
      + destruct (N.ltb_spec (i + 1) USIZE) as [H2|H2]; [exact HC|lia].
      + cbn. eauto.
  Qed.

  Lemma iter_pos_ok (step : N -> S -> flow S) :
    (forall i s, Inv i s -> flow_ok (step i s)) ->
    forall p i s, Inv i s -> flow_ok (iter_pos step p i s).
  Proof.
    intros Hs. induction p as [p IH|p IH|]; intros i s HI; cbn [iter_pos].
    - pose proof (Hs i s HI) as H1. destruct (step i s) as [i1 s1| |]; [|exact H1|exact H1].
      pose proof (IH i1 s1 H1) as H2. destruct (iter_pos step p i1 s1) as [i2 s2| |]; [|exact H2|exact H2].
      apply IH. exact H2.
    - pose proof (IH i s HI) as H1. destruct (iter_pos step p i s) as [i1 s1| |]; [|exact H1|exact H1].
      apply IH. exact H1.
    - apply Hs. exact HI.
  Qed.

  Lemma lit_bits_ok k : forall b w i s, Inv i s -> flow_ok (lit_bits f nb k b w i s).
  Proof.
    induction k as [|k IH]; intros b w i s HI; cbn [lit_bits]; [exact HI|].
    assert (Hafter : forall s1, Inv (i + 1) s1 ->
              flow_ok (match checked_add i 1 with
                       | Some i' => lit_bits f nb k (b + 1) w i' s1
                       | None => Stop s1 end)).
    { intros s1 H1. unfold checked_add. destruct (N.ltb_spec (i + 1) USIZE); [apply IH; exact H1|cbn; eauto]. }
    destruct (N.testbit w b).
    - destruct (N.leb_spec nb i) as [H|H]; [cbn; eauto|].
      pose proof (Inv_call i s H HI) as HC. destruct (f s i) as [s' go]. cbn [fst] in HC.
      destruct go; [apply Hafter; exact HC|cbn; eauto].
    - apply Hafter. apply Inv_mono with i; [lia|exact HI].
  Qed.

  Lemma lits_ok ws : forall k i s, Inv i s ->
    flow_ok (fst (lits f nb ws k i s)) /\ (length (snd (lits f nb ws k i s)) <= length ws)%nat.
  Proof.
    induction ws as [|w ws IH]; intros k i s HI; cbn [lits].
    - destruct (k =? 0); cbn; split; eauto.
    - destruct (k =? 0); [cbn; split; [exact HI|lia]|].
      pose proof (lit_bits_ok 64 0 w i s HI) as H1.
      destruct (lit_bits f nb 64 0 w i s) as [i1 s1|s1|]; cbn [fst snd].
      + destruct (IH (k - 1) i1 s1 H1) as [A B]. split; [exact A|cbn [length]; lia].
      + split; [exact H1|cbn [length]; lia].
      + contradiction.
  Qed.

  Lemma outer_ok fuel : forall ws i s, (length ws < fuel)%nat -> Inv i s ->
    exists b s', outer f nb fuel ws i s = Ok (b, s') /\ exists j, Inv j s'.
  Proof.
    induction fuel as [|fu IH]; intros ws i s Hf HI; [lia|].
    destruct ws as [|w ws1]; cbn [outer]; [eauto|].
    set (phase1 := if run_bit w then iter_N (set_step f nb) (running_len_bits w) i s
                   else match checked_add i (running_len_bits w) with Some i' => Cont i' s | None => Stop s end).
    assert (H1 : flow_ok phase1).
    { subst phase1. destruct (run_bit w).
      - unfold iter_N. destruct (running_len_bits w); [exact HI|].
        apply iter_pos_ok; [intros; apply set_step_ok; assumption|exact HI].
      - unfold checked_add. destruct (N.ltb_spec (i + running_len_bits w) USIZE); [|cbn; eauto].
        cbn. apply Inv_mono with i; [lia|exact HI]. }
    destruct phase1 as [i1 s1|s1|]; [|destruct H1 as [j Hj]; eauto|contradiction].
    cbn in H1. destruct (lits_ok ws1 (literal_words w) i1 s1 H1) as [A B].
    destruct (lits f nb ws1 (literal_words w) i1 s1) as [[i2 s2|s2|] ws2]; cbn [fst snd] in A, B.
    - apply IH; [cbn [length] in Hf; lia|exact A].
    - destruct A as [j Hj]. eauto.
    - contradiction.
  Qed.
End Loops.

(* the invariant for an arbitrary callback: nothing at all — it gives "never panics, never out of fuel" *)
Lemma L_for_each_total {S} (f : S -> N -> S * bool) v s : num_bits v < USIZE ->
  exists b s', for_each_set_bit f v s = Ok (b, s').
Proof.
  intros Hnb. unfold for_each_set_bit.
  destruct (outer_ok f (num_bits v) Hnb (fun _ _ => True)) with (fuel := Datatypes.S (length (words v)))
    (ws := words v) (i := 0) (s := s) as [b [s' [E _]]]; auto.
  eauto.
Qed.

(* any property of the closure state that calls at positions below num_bits preserve still holds
   when the iteration is over: the callback is never handed a position >= num_bits *)
Lemma L_for_each_inv {S} (f : S -> N -> S * bool) v (P : S -> Prop) s b s' :
  num_bits v < USIZE ->
  (forall i s, i < num_bits v -> P s -> P (fst (f s i))) ->
  P s -> for_each_set_bit f v s = Ok (b, s') -> P s'.
Proof.
  intros Hnb Hcall Hs E. unfold for_each_set_bit in E.
  destruct (outer_ok f (num_bits v) Hnb (fun _ s => P s)) with (fuel := Datatypes.S (length (words v)))
    (ws := words v) (i := 0) (s := s) as [b2 [s2 [E2 [_ Hj]]]]; auto.
  rewrite E in E2. injection E2 as <- <-. exact Hj.
Qed.

(* the harness callback: positions come in strictly increasing order, all below num_bits, hence at
   most num_bits calls — whatever the run lengths in the words say *)
Definition collected (nb : N) (i : N) (st : list N * N) : Prop :=
  Forall (fun x => x < i /\ x < nb) (fst st) /\
  StronglySorted (fun a b => b < a) (fst st) /\
  snd st = N.of_nat (length (fst st)) /\
  N.of_nat (length (fst st)) <= N.min i nb.

Lemma L_collect_sorted limit v b l n : num_bits v < USIZE ->
  for_each_set_bit (collect limit) v ([], 0) = Ok (b, (l, n)) ->
  Forall (fun x => x < num_bits v) l /\ StronglySorted (fun a b => b < a) l /\
  n = N.of_nat (length l) /\ n <= num_bits v.
Proof.
  intros Hnb E. unfold for_each_set_bit in E.
  destruct (outer_ok (collect limit) (num_bits v) Hnb (collected (num_bits v)))
    with (fuel := Datatypes.S (length (words v))) (ws := words v) (i := 0) (s := (@nil N, 0))
    as [b2 [s2 [E2 [j Hj]]]].
  - intros i j [l0 n0] Hij [A [B [C D]]]. cbn [fst snd] in *. repeat split; auto.
    + eapply Forall_impl; [|exact A]. cbn. intros x [X1 X2]. split; lia.
    + pose proof (N.le_min_l i (num_bits v)). pose proof (N.le_min_r i (num_bits v)).
      cbn [fst snd]. apply N.min_glb; lia.
  - intros i [l0 n0] Hi [A [B [C D]]]. cbn [collect fst snd] in *. repeat split.
    + constructor; [split; lia|]. eapply Forall_impl; [|exact A]. cbn. intros x [X1 X2]. split; lia.
    + constructor; [exact B|]. eapply Forall_impl; [|exact A]. cbn. intros x [X1 X2]. exact X1.
    + cbn [fst snd length]. rewrite Nat2N.inj_succ. lia.
    + cbn [fst snd length]. rewrite Nat2N.inj_succ. pose proof (N.le_min_l i (num_bits v)). pose proof (N.le_min_r i (num_bits v)). apply N.min_glb; lia.
  - lia.
  - repeat split; cbn [fst snd length]; try constructor. lia.
  - rewrite E in E2. injection E2 as <- <-. destruct Hj as [A [B [C D]]]. cbn [fst snd] in *.
    repeat split; auto.
    + eapply Forall_impl; [|exact A]. cbn. intros x [X1 X2]. exact X2.
    + pose proof (N.le_min_r j (num_bits v)). lia.
Qed.

(* decode and iterate: whatever the bytes, whatever the callback *)
Lemma L_decode_then_for_each {S} (f : S -> N -> S * bool) d v rest s :
  ewah_decode d = Ok (v, rest) -> exists b s', for_each_set_bit f v s = Ok (b, s').
Proof.
  intros E. apply L_ewah_decode_ok in E as [H _]. apply L_for_each_total.
  unfold USIZE. eapply N.lt_trans; [exact H|]. reflexivity.
Qed.
