(* C06 — untrusted bytes never crash a parser: the theorems for the parsers modelled here.
   Every statement quantifies over ALL byte strings (and, for the bitmap iteration, over all callbacks). *)
From Coq Require Import Sorting.Sorted.
From GixV.Base Require Import Bytes BytesFacts Outcome.
From GixV.C06 Require Import Model ProofsEwah ProofsRef ProofsChunk.
Local Open Scope N_scope.

(* ---- gix-bitmap: EWAH ------------------------------------------------------------------- *)

(* ewah::decode returns a value or an error on every input *)
Theorem ewah_decode_total : forall d, ewah_decode d <> Panic /\ ewah_decode d <> OutOfFuel.
Proof. exact L_ewah_decode_total. Qed.

(* what it returns: a 32-bit size, as many words as announced, and the rest of the input *)
Theorem ewah_decode_shape : forall d v rest, ewah_decode d = Ok (v, rest) ->
  num_bits v < 2 ^ 32 /\ N.of_nat (length (words v)) < 2 ^ 32 /\
  (length d = 12 + 8 * length (words v) + length rest)%nat.
Proof. exact L_ewah_decode_ok. Qed.

(* for_each_set_bit returns Some/None — never panics, never runs out of fuel — for EVERY callback
   and every word list (run lengths up to 2^38, literal counts beyond the words present, …) *)
Theorem for_each_set_bit_total : forall (S : Type) (f : S -> N -> S * bool) v s,
  num_bits v < USIZE -> exists b s', for_each_set_bit f v s = Ok (b, s').
Proof. exact @L_for_each_total. Qed.

Theorem decode_then_for_each_set_bit_total : forall (S : Type) (f : S -> N -> S * bool) d v rest s,
  ewah_decode d = Ok (v, rest) -> exists b s', for_each_set_bit f v s = Ok (b, s').
Proof. exact @L_decode_then_for_each. Qed.

(* the callback is only ever handed positions below num_bits: whatever calls at such positions
   preserve is preserved by the whole iteration (the untracked-cache decoder indexes a vector of
   num_bits directories with them) *)
Theorem for_each_set_bit_calls_below_num_bits :
  forall (S : Type) (f : S -> N -> S * bool) v (P : S -> Prop) s b s',
  num_bits v < USIZE ->
  (forall i s, i < num_bits v -> P s -> P (fst (f s i))) ->
  P s -> for_each_set_bit f v s = Ok (b, s') -> P s'.
Proof. exact @L_for_each_inv. Qed.

(* the step bound: positions arrive strictly increasing and below num_bits, so the callback runs at
   most num_bits times whatever the run lengths say (a 20-byte bitmap no longer buys 2^38 calls) *)
Theorem for_each_set_bit_positions_increase_and_are_bounded : forall limit v b l n,
  num_bits v < USIZE ->
  for_each_set_bit (collect limit) v ([], 0) = Ok (b, (l, n)) ->
  Forall (fun x => x < num_bits v) l /\ StronglySorted (fun a b => b < a) l /\
  n = N.of_nat (length l) /\ n <= num_bits v.
Proof. exact L_collect_sorted. Qed.

(* non-vacuity, and the two inputs that crashed / span before the fix:
   literal word announced but missing -> None;  a run of 2^32 set bits in a 3-bit bitmap -> 3 calls, None *)
Example ewah_missing_literal_is_none :
  for_each_set_bit (collect 100) {| num_bits := 64; words := [8589934592]; rlw := 0 |} ([], 0) = Ok (false, ([], 0)).
Proof. vm_compute. reflexivity. Qed.
Example ewah_huge_run_stops_at_num_bits :
  for_each_set_bit (collect 100) {| num_bits := 3; words := [134217729]; rlw := 0 |} ([], 0)
  = Ok (false, ([2; 1; 0], 3)).
Proof. vm_compute. reflexivity. Qed.
Example ewah_decode_example :
  exists v, ewah_decode [x00;x00;x00;x03; x00;x00;x00;x01; x00;x00;x00;x00;x08;x00;x00;x01; x00;x00;x00;x00; x2a]
            = Ok (v, [x2a]) /\ num_bits v = 3 /\ words v = [134217729].
Proof. eexists. vm_compute. repeat split. Qed.

(* ---- gix-ref: loose reference files ----------------------------------------------------- *)

Theorem loose_ref_parse_total : forall i, loose_parse i <> Panic /\ loose_parse i <> OutOfFuel.
Proof. exact L_loose_parse_total. Qed.

(* Reference::try_from_path, for any (total) name validator *)
Theorem loose_ref_try_from_path_total : forall validate i,
  try_from_path validate i <> Panic /\ try_from_path validate i <> OutOfFuel.
Proof. exact L_try_from_path_total. Qed.

(* `.expect("prior validation")` is justified: an id is exactly the decoding of the first 40 bytes,
   which are lower-case hex digits *)
Theorem loose_ref_id_is_first_40_hex : forall i id, loose_parse i = Ok (LId id) ->
  length id = 20%nat /\ exists hex rest, i = hex ++ rest /\ length hex = 40%nat /\
     forallb is_hex_lc hex = true /\ hex_decode hex = Some id.
Proof. exact L_loose_parse_id. Qed.

Theorem loose_ref_target_has_no_line_end : forall i p, loose_parse i = Ok (LPath p) -> forallb not_eol p = true.
Proof. exact L_loose_parse_path. Qed.

Example loose_ref_examples :
  loose_parse (bs "ref:   refs/heads/main" ++ [x0d; x0a]) = Ok (LPath (bs "refs/heads/main")) /\
  loose_parse (bs "0123456789abcdef0123456789abcdef01234567" ++ [x0a]) =
     Ok (LId [x01;x23;x45;x67;x89;xab;xcd;xef;x01;x23;x45;x67;x89;xab;xcd;xef;x01;x23;x45;x67]) /\
  loose_parse (bs "0123456789abcdef0123456789abcdef0123456") = Err LParse.
Proof. vm_compute. repeat split. Qed.

(* ---- gix-chunk: table of contents ------------------------------------------------------- *)

(* with the table offset inside the data (both callers check the file size first) from_bytes returns
   an error or a non-empty table of `num` chunks whose ranges lie inside the file *)
Theorem chunk_table_total : forall data toc num, (toc <= length data)%nat ->
  (exists e, chunk_from_bytes data toc num = Err e) \/
  (exists cs, chunk_from_bytes data toc num = Ok cs /\ N.of_nat (length cs) = num /\ cs <> [] /\
              Forall (in_file (len data)) cs).
Proof. exact L_chunk_total. Qed.

(* and its only panic is that caller-side slice *)
Theorem chunk_table_panics_only_on_callers_offset : forall data toc num, num <> 0 ->
  (chunk_from_bytes data toc num = Panic <-> (length data < toc)%nat).
Proof. exact L_chunk_panic_iff. Qed.

Example chunk_table_example :
  chunk_from_bytes (bs "ABCD" ++ [x00;x00;x00;x00;x00;x00;x00;x18] ++ [x00;x00;x00;x00] ++ [x00;x00;x00;x00;x00;x00;x00;x19] ++ [x2a]) 0 1
  = Ok [{| ckind := bs "ABCD"; cstart := 24; cend := 25 |}].
Proof. vm_compute. reflexivity. Qed.

(* ---- gix-commitgraph: File::new --------------------------------------------------------- *)

(* opening any file below 4 GiB returns a File or an error *)
Theorem commit_graph_open_total : forall data, len data < 2 ^ 32 ->
  cgraph_new data <> Panic /\ cgraph_new data <> OutOfFuel.
Proof. exact L_cgraph_total. Qed.

Example commit_graph_too_small : cgraph_new (bs "CGPH") = Err GCorrupt.
Proof. vm_compute. reflexivity. Qed.
