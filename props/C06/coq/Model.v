(* C06 — executable models, at slice-index fidelity, of parsers nobody else models:
     * gix-bitmap  ewah::decode + Vec::for_each_set_bit            (gix-bitmap/src/ewah.rs, lib.rs)
     * gix-ref     loose::Reference::try_from_path / decode::parse (gix-ref/src/store/file/loose/reference/decode.rs)
     * gix-chunk   file::Index::from_bytes                         (gix-chunk/src/file/decode.rs)
     * gix-commitgraph File::new                                   (gix-commitgraph/src/file/init.rs)
   Every slice/index/split_at/expect of the source is a possible [Panic] here; usize is 64 bit.
   No proofs in this file. *)
From GixV.Base Require Import Bytes Outcome.
Local Open Scope N_scope.

(* ---------------------------------------------------------------------------------------- *)
(* shared primitives                                                                         *)

Fixpoint be_num (l : bytes) (acc : N) : N :=
  match l with [] => acc | b :: r => be_num r (256 * acc + b2N b) end.

Definition len (l : bytes) : N := N.of_nat (length l).

(* gix_bitmap::decode::split_at_pos / gix_index::util::split_at_pos: None when too short.
   The length is compared in N before any [nat] of that size is built. *)
Definition split_at_pos (d : bytes) (n : N) : option (bytes * bytes) :=
  if len d <? n then None else Some (firstn (N.to_nat n) d, skipn (N.to_nat n) d).

Definition read_u32 (d : bytes) : option (N * bytes) :=
  match split_at_pos d 4 with
  | Some (a, r) => Some (be_num a 0, r)
  | None => None
  end.

Definition USIZE : N := 2 ^ 64.
Definition checked_add (a b : N) : option N := if a + b <? USIZE then Some (a + b) else None.

(* ---------------------------------------------------------------------------------------- *)
(* EWAH                                                                                      *)

Record ewah := { num_bits : N; words : list N; rlw : N }.

(* for _ in 0..len { let (w, rest) = bits.split_at(8); … }   — split_at panics when short *)
Fixpoint take_words (n : nat) (d : bytes) : outcome (list N) unit :=
  match n with
  | O => Ok []
  | S n' =>
      if (length d <? 8)%nat then Panic
      else match take_words n' (skipn 8 d) with
           | Ok ws => Ok (be_num (firstn 8 d) 0 :: ws)
           | o => o
           end
  end.

Definition ewah_decode (d : bytes) : outcome (ewah * bytes) unit :=
  match read_u32 d with
  | None => Err tt
  | Some (nb, d1) =>
      match read_u32 d1 with
      | None => Err tt
      | Some (n, d2) =>
          match split_at_pos d2 (n * 8) with
          | None => Err tt
          | Some (bits, d3) =>
              match take_words (N.to_nat n) bits with
              | Ok ws =>
                  match read_u32 d3 with
                  | None => Err tt
                  | Some (r, d4) => Ok ({| num_bits := nb; words := ws; rlw := r |}, d4)
                  end
              | Err e => Err e
              | Panic => Panic
              | OutOfFuel => OutOfFuel
              end
          end
      end
  end.

Definition run_bit (w : N) : bool := N.testbit w 0.
Definition running_len_bits (w : N) : N := N.land (N.shiftr w 1) (2 ^ 32 - 1) * 64.
Definition literal_words (w : N) : N := N.shiftr w 33.

(* where a loop stands: go on at bit position i with callback state s; the function returned None;
   or it panicked *)
Inductive flow (S : Type) := Cont (i : N) (s : S) | Stop (s : S) | Crash.
Arguments Cont {S} i s.
Arguments Stop {S} s.
Arguments Crash {S}.

Section ForEach.
  Context {S : Type}.
  (* the FnMut callback: new closure state, and whether it returned Some(()) *)
  Variable f : S -> N -> S * bool.
  Variable nb : N.                                     (* self.num_bits() *)

  (* `n` repetitions of a loop body that may leave early: binary recursion, so that a run of 2^38
     needs no unary number; it leaves at the first Stop/Crash *)
  Fixpoint iter_pos (step : N -> S -> flow S) (p : positive) (i : N) (s : S) : flow S :=
    match p with
    | xH => step i s
    | xO p' =>
        match iter_pos step p' i s with
        | Cont i1 s1 => iter_pos step p' i1 s1
        | r => r
        end
    | xI p' =>
        match step i s with
        | Cont i1 s1 =>
            match iter_pos step p' i1 s1 with
            | Cont i2 s2 => iter_pos step p' i2 s2
            | r => r
            end
        | r => r
        end
    end.
  Definition iter_N (step : N -> S -> flow S) (n : N) (i : N) (s : S) : flow S :=
    match n with N0 => Cont i s | Npos p => iter_pos step p i s end.

  (* if index >= num_bits { return None }  f(index)?;  index += 1  (plain +: overflow panics) *)
  Definition set_step (i : N) (s : S) : flow S :=
    if nb <=? i then Stop s
    else let '(s', go) := f s i in
         if go then (if i + 1 <? USIZE then Cont (i + 1) s' else Crash) else Stop s'.

  (* for bit_index in 0..64 { if word & (1 << bit_index) != 0 { guard; f(index)? } index = index.checked_add(1)? } *)
  Fixpoint lit_bits (k : nat) (b : N) (w : N) (i : N) (s : S) : flow S :=
    match k with
    | O => Cont i s
    | Datatypes.S k' =>
        let after (s1 : S) :=
          match checked_add i 1 with
          | Some i' => lit_bits k' (b + 1) w i' s1
          | None => Stop s1
          end in
        if N.testbit w b then
          if nb <=? i then Stop s
          else let '(s', go) := f s i in if go then after s' else Stop s'
        else after s
    end.

  (* for _ in 0..literal_words { let word = iter.next()?; … } — returns the words left in the iterator *)
  Fixpoint lits (ws : list N) (k : N) (i : N) (s : S) : flow S * list N :=
    if k =? 0 then (Cont i s, ws)
    else match ws with
         | [] => (Stop s, [])
         | w :: ws' =>
             match lit_bits 64 0 w i s with
             | Cont i' s' => lits ws' (k - 1) i' s'
             | r => (r, ws')
             end
         end.

  (* while let Some(word) = iter.next() { … } *)
  Fixpoint outer (fuel : nat) (ws : list N) (i : N) (s : S) : outcome (bool * S) unit :=
    match ws with
    | [] => Ok (true, s)
    | w :: ws1 =>
        match fuel with
        | O => OutOfFuel
        | Datatypes.S fu =>
            let phase1 :=
              if run_bit w then iter_N set_step (running_len_bits w) i s
              else match checked_add i (running_len_bits w) with
                   | Some i' => Cont i' s
                   | None => Stop s
                   end in
            match phase1 with
            | Cont i1 s1 =>
                match lits ws1 (literal_words w) i1 s1 with
                | (Cont i2 s2, ws2) => outer fu ws2 i2 s2
                | (Stop s2, _) => Ok (false, s2)
                | (Crash, _) => Panic
                end
            | Stop s1 => Ok (false, s1)
            | Crash => Panic
            end
        end
    end.
End ForEach.

Definition for_each_set_bit {S} (f : S -> N -> S * bool) (v : ewah) (s : S) : outcome (bool * S) unit :=
  outer f (num_bits v) (Datatypes.S (length (words v))) (words v) 0 s.

(* the callback of the harness: remember the position (most recent first), return None at the limit-th call *)
Definition collect (limit : N) (st : list N * N) (i : N) : (list N * N) * bool :=
  let '(l, n) := st in ((i :: l, n + 1), n + 1 <? limit).

(* ---------------------------------------------------------------------------------------- *)
(* loose reference files                                                                     *)

Definition is_hex_lc (b : byte) : bool :=
  let n := b2N b in (N.leb 48 n && N.leb n 57) || (N.leb 97 n && N.leb n 102).

Fixpoint strip_prefix (p l : bytes) : option bytes :=
  match p, l with
  | [], _ => Some l
  | x :: p', y :: l' => if beqb x y then strip_prefix p' l' else None
  | _ :: _, [] => None
  end.

Fixpoint drop_while (p : byte -> bool) (l : bytes) : bytes :=
  match l with
  | b :: l' => if p b then drop_while p l' else l
  | [] => []
  end.

(* winnow take_while(0..=max, p): the longest prefix satisfying p, of at most max bytes *)
Fixpoint take_while_max (p : byte -> bool) (max : nat) (l : bytes) : bytes * bytes :=
  match max, l with
  | Datatypes.S m, b :: l' =>
      if p b then let '(a, r) := take_while_max p m l' in (b :: a, r) else ([], l)
  | _, _ => ([], l)
  end.
Fixpoint span (p : byte -> bool) (l : bytes) : bytes * bytes :=
  match l with
  | b :: l' => if p b then let '(a, r) := span p l' in (b :: a, r) else ([], l)
  | [] => ([], [])
  end.

Inductive lstate := LId (id : bytes) | LPath (p : bytes).
Inductive lerr := LParse | LName.

Definition not_eol (b : byte) : bool := negb (beqb b x0d) && negb (beqb b x0a).

(* decode::parse, with `.expect("prior validation")` on ObjectId::from_hex *)
Definition loose_parse (i : bytes) : outcome lstate lerr :=
  match strip_prefix (bs "ref: ") i with
  | Some r =>
      let r := drop_while (beqb x20) r in
      let '(path, _) := span not_eol r in
      Ok (LPath path)
  | None =>
      let '(hex, _) := take_while_max is_hex_lc 40 i in
      if (length hex <? 40)%nat then Err LParse
      else match hex_decode hex with
           | Some id => if (length id =? 20)%nat then Ok (LId id) else Panic
           | None => Panic
           end
  end.

(* Reference::try_from_path with gix_validate::reference::name as a parameter (C15 models it) *)
Definition try_from_path (validate : bytes -> bool) (i : bytes) : outcome lstate lerr :=
  match loose_parse i with
  | Ok (LPath p) => if validate p then Ok (LPath p) else Err LName
  | o => o
  end.

(* ---------------------------------------------------------------------------------------- *)
(* gix-chunk: table of contents                                                              *)

Inductive cerr := CEmpty | CTocTooSmall | CEarlySentinel | CDuplicate | COutOfBounds | CNonIncremental | CMissingSentinel.
Record centry := { ckind : bytes; cstart : N; cend : N }.

(* data[..n] / data[n..] with Rust's panic *)
Definition slice_to (d : bytes) (n : nat) : outcome bytes cerr :=
  if (length d <? n)%nat then Panic else Ok (firstn n d).
Definition slice_from (d : bytes) (n : nat) : outcome bytes cerr :=
  if (length d <? n)%nat then Panic else Ok (skipn n d).
Definition be_u64 (d : bytes) : outcome N cerr :=
  match slice_to d 8 with Ok b => Ok (be_num b 0) | Err e => Err e | Panic => Panic | OutOfFuel => OutOfFuel end.

Definition SENTINEL : bytes := [x00; x00; x00; x00].

Local Open Scope outcome_scope.

Fixpoint chunk_loop (n : nat) (data_len : N) (te : bytes) (acc : list centry) : outcome (list centry) cerr :=
  match n with
  | O =>
      sentinel <- slice_to te 4 ;;
      if bytes_eqb sentinel SENTINEL then Ok (rev acc) else Err CMissingSentinel
  | Datatypes.S n' =>
      kind <- slice_to te 4 ;;                      (* toc_entry.split_at(4) *)
      rest <- slice_from te 4 ;;
      if bytes_eqb kind SENTINEL then Err CEarlySentinel
      else if existsb (fun c => bytes_eqb (ckind c) kind) acc then Err CDuplicate
      else
        offset <- be_u64 rest ;;
        if data_len <? offset then Err COutOfBounds
        else
          te' <- slice_from te 12 ;;
          next4 <- slice_from te' 4 ;;
          next_offset <- be_u64 next4 ;;
          if data_len <? next_offset then Err COutOfBounds
          else if next_offset <? offset then Err CNonIncremental
          else chunk_loop n' data_len te' ({| ckind := kind; cstart := offset; cend := next_offset |} :: acc)
  end.

Definition chunk_from_bytes (data : bytes) (toc : nat) (num : N) : outcome (list centry) cerr :=
  if num =? 0 then Err CEmpty
  else
    te <- slice_from data toc ;;
    if len te <? (num + 1) * 12 then Err CTocTooSmall
    else chunk_loop (N.to_nat num) (len data) te [].

Fixpoint find_chunk (k : bytes) (cs : list centry) : option centry :=
  match cs with
  | [] => None
  | c :: r => if bytes_eqb (ckind c) k then Some c else find_chunk k r
  end.

(* ---------------------------------------------------------------------------------------- *)
(* commit-graph File::new                                                                    *)

Inductive gerr :=
| GCorrupt | GVersion (v : N) | GHash (v : N) | GChunk (e : cerr) | GMissing (k : bytes) | GSize (k : bytes)
| GBaseMismatch (hdr chunk : N) | GCountMismatch (k : bytes) (a b : N) | GTrailer.

Definition U32_MAX : N := 2 ^ 32 - 1.
(* `.try_into().expect("… to fit in 32 bits")` *)
Definition to_u32 (n : N) : outcome N gerr := if U32_MAX <? n then Panic else Ok n.
Definition nth_byte (d : bytes) (n : nat) : outcome N gerr :=
  match nth_error d n with Some b => Ok (b2N b) | None => Panic end.
Definition gslice_from (d : bytes) (n : N) : outcome bytes gerr :=
  if len d <? n then Panic else Ok (skipn (N.to_nat n) d).

Definition MIN_FILE_SIZE : N := 8 + 12 * 4 + 256 * 4 + 20.
Definition csize (c : centry) : N := cend c - cstart c.

Definition cgraph_new (data : bytes) : outcome (N * N) gerr :=
  if len data <? MIN_FILE_SIZE then Err GCorrupt
  else if negb (bytes_eqb (firstn 4 data) (bs "CGPH")) then Err GCorrupt
  else
    version <- nth_byte data 4 ;;
    if negb (version =? 1) then Err (GVersion version)
    else
      hash <- nth_byte data 5 ;;
      if negb (hash =? 1) then Err (GHash hash)
      else
        chunk_count <- nth_byte data 6 ;;
        base_count <- nth_byte data 7 ;;
        match chunk_from_bytes data 8 chunk_count with
        | Err e => Err (GChunk e)
        | Panic => Panic
        | OutOfFuel => OutOfFuel
        | Ok chunks =>
            base <- match find_chunk (bs "BASE") chunks with
                    | None => Ok None
                    | Some c =>
                        if negb (csize c mod 20 =? 0) then Err (GSize (bs "BASE"))
                        else
                          n <- to_u32 (csize c / 20) ;;
                          if negb (n =? base_count) then Err (GBaseMismatch base_count n)
                          else Ok (Some (cstart c))
                    end ;;
            cdat_count <- match find_chunk (bs "CDAT") chunks with
                          | None => Err (GMissing (bs "CDAT"))
                          | Some c =>
                              if negb (csize c mod 36 =? 0) then Err (GSize (bs "CDAT"))
                              else to_u32 (csize c / 36)
                          end ;;
            fan_offset <- match find_chunk (bs "OIDF") chunks with
                          | None => Err (GMissing (bs "OIDF"))
                          | Some c => if negb (csize c =? 1024) then Err (GSize (bs "OIDF")) else Ok (cstart c)
                          end ;;
            oidl_count <- match find_chunk (bs "OIDL") chunks with
                          | None => Err (GMissing (bs "OIDL"))
                          | Some c =>
                              if negb (csize c mod 20 =? 0) then Err (GSize (bs "OIDL"))
                              else to_u32 (csize c / 20)
                          end ;;
            (* chunks.highest_offset(): last().expect("at least one chunk") *)
            highest <- match rev chunks with c :: _ => Ok (cend c) | [] => Panic end ;;
            trailer <- gslice_from data highest ;;
            if negb (len trailer =? 20) then Err GTrailer
            else if (0 <? base_count) && (match base with None => true | Some _ => false end)
            then Err (GMissing (bs "BASE"))
            else
              fan <- gslice_from data fan_offset ;;
              (* read_fan: assert!(d.len() >= FAN_LEN * 4) *)
              if len fan <? 1024 then Panic
              else
                let fan255 := be_num (firstn 4 (skipn 1020 fan)) 0 in
                if negb (oidl_count =? fan255) then Err (GCountMismatch (bs "OIDL") fan255 oidl_count)
                else if negb (cdat_count =? fan255) then Err (GCountMismatch (bs "CDAT") fan255 cdat_count)
                else Ok (fan255, base_count)
        end.
