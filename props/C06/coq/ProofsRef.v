(* C06 — loose reference files: decode::parse / Reference::try_from_path never panic; what they return. *)
From Coq Require Import List NArith Lia ZifyBool ZifyNat ZifyN.
From GixV.Base Require Import Bytes BytesFacts Outcome.
From GixV.C06 Require Import Model.
Import ListNotations.
Local Open Scope N_scope.

Lemma take_while_max_spec p : forall m l a r, take_while_max p m l = (a, r) ->
  l = a ++ r /\ (length a <= m)%nat /\ forallb p a = true.
Proof.
  induction m as [|m IH]; intros l a r E.
  - destruct l; cbn in E; injection E as <- <-; repeat split; cbn; lia.
  - destruct l as [|b l]; cbn [take_while_max] in E.
    + injection E as <- <-. repeat split; cbn; lia.
    + destruct (p b) eqn:Pb.
      * destruct (take_while_max p m l) as [a' r'] eqn:E'. injection E as <- <-.
        destruct (IH l a' r' E') as [-> [L F]]. repeat split; cbn [length forallb]; [lia|].
        now rewrite Pb, F.
      * injection E as <- <-. repeat split; cbn; lia.
Qed.

(* every lower-case hex digit is a hex digit, by exhaustion over the 256 bytes *)
Lemma is_hex_lc_is_hex : forall b, is_hex_lc b = true -> is_hex b = true.
Proof.
  assert (H : forall b, implb (is_hex_lc b) (is_hex b) = true) by (apply forall_bytes; vm_compute; reflexivity).
  intros b Hb. specialize (H b). rewrite Hb in H. exact H.
Qed.

Lemma forallb_hex a : forallb is_hex_lc a = true -> forallb is_hex a = true.
Proof.
  induction a as [|b a IH]; cbn [forallb]; [reflexivity|].
  intros H. apply andb_prop in H as [H1 H2]. rewrite (is_hex_lc_is_hex b H1), (IH H2). reflexivity.
Qed.

Lemma hex_decode_length s : forall l, hex_decode s = Some l -> length s = (2 * length l)%nat.
Proof.
  induction s as [s IH] using (well_founded_induction (Wf_nat.well_founded_ltof _ (@length byte))).
  intros l E. destruct s as [|h [|lo s']]; cbn [hex_decode] in E.
  - injection E as <-. reflexivity.
  - discriminate.
  - destruct (hex_val h), (hex_val lo); try discriminate.
    destruct (hex_decode s') as [r|] eqn:E'; [|discriminate]. injection E as <-.
    cbn [length]. rewrite (IH s' ltac:(unfold ltof; cbn; lia) r E'). lia.
Qed.

Lemma L_loose_parse_total i : loose_parse i <> Panic /\ loose_parse i <> OutOfFuel.
Proof.
  unfold loose_parse. destruct (strip_prefix (bs "ref: ") i) as [r|].
  - destruct (span not_eol (drop_while (beqb x20) r)). split; discriminate.
  - destruct (take_while_max is_hex_lc 40 i) as [hex rest] eqn:E.
    apply take_while_max_spec in E as [_ [L F]].
    destruct (Nat.ltb_spec (length hex) 40) as [H|H]; [split; discriminate|].
    assert (L40 : length hex = 40%nat) by lia.
    destruct (hex_decode_total hex) as [id Hid].
    + rewrite L40. reflexivity.
    + apply forallb_hex. exact F.
    + rewrite Hid. apply hex_decode_length in Hid. rewrite L40 in Hid.
      replace (length id =? 20)%nat with true by (symmetry; apply Nat.eqb_eq; lia).
      split; discriminate.
Qed.

Lemma L_try_from_path_total validate i :
  try_from_path validate i <> Panic /\ try_from_path validate i <> OutOfFuel.
Proof.
  unfold try_from_path. destruct (L_loose_parse_total i) as [A B].
  destruct (loose_parse i) as [[id|p]|e| |]; try (split; discriminate); try contradiction.
  destruct (validate p); split; discriminate.
Qed.

(* an object id comes from the first 40 bytes only and they are lower-case hex digits *)
Lemma L_loose_parse_id i id : loose_parse i = Ok (LId id) ->
  length id = 20%nat /\ exists hex rest, i = hex ++ rest /\ length hex = 40%nat /\
     forallb is_hex_lc hex = true /\ hex_decode hex = Some id.
Proof.
  unfold loose_parse. destruct (strip_prefix (bs "ref: ") i) as [r|].
  - destruct (span not_eol (drop_while (beqb x20) r)). discriminate.
  - destruct (take_while_max is_hex_lc 40 i) as [hex rest] eqn:E.
    apply take_while_max_spec in E as [-> [L F]].
    destruct (Nat.ltb_spec (length hex) 40) as [H|H]; [discriminate|].
    destruct (hex_decode hex) as [id'|] eqn:Hd; [|discriminate].
    destruct (Nat.eqb_spec (length id') 20) as [H20|H20]; [|discriminate].
    intros X. injection X as <-. split; [exact H20|].
    exists hex, rest. repeat split; auto. lia.
Qed.

Lemma span_spec p : forall l a r, span p l = (a, r) ->
  l = a ++ r /\ forallb p a = true /\ match r with b :: _ => p b = false | [] => True end.
Proof.
  induction l as [|b l IH]; intros a r E; cbn [span] in E.
  - injection E as <- <-. repeat split.
  - destruct (p b) eqn:Pb.
    + destruct (span p l) as [a' r'] eqn:E'. injection E as <- <-.
      destruct (IH a' r' eq_refl) as [-> [F T]]. repeat split; [cbn; now rewrite Pb, F|exact T].
    + injection E as <- <-. repeat split. exact Pb.
Qed.

(* a symbolic target never contains CR or LF *)
Lemma L_loose_parse_path i p : loose_parse i = Ok (LPath p) -> forallb not_eol p = true.
Proof.
  unfold loose_parse. destruct (strip_prefix (bs "ref: ") i) as [r|].
  - destruct (span not_eol (drop_while (beqb x20) r)) as [a q] eqn:E.
    intros X. injection X as <-. apply span_spec in E as [_ [F _]]. exact F.
  - destruct (take_while_max is_hex_lc 40 i) as [hex rest].
    destruct (length hex <? 40)%nat; [discriminate|].
    destruct (hex_decode hex) as [id|]; [|discriminate]. destruct (length id =? 20)%nat; discriminate.
Qed.
