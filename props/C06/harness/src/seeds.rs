//! Valid encodings per entry point (the starting points of the structure-aware mutations) and the
//! mutators themselves.
use gixv_common::Rng;

const H1: &str = "1111111111111111111111111111111111111111";
const H2: &str = "0123456789abcdef0123456789abcdef01234567";
const H3: &str = "4b825dc642cb6eb9a060e54bf8d69288fbee4904";

fn id(rng: &mut Rng) -> Vec<u8> {
    match rng.below(4) {
        0 => vec![0u8; 20],
        1 => vec![0xffu8; 20],
        _ => rng.bytes(20),
    }
}
fn be32(v: u32) -> [u8; 4] {
    v.to_be_bytes()
}
fn be64(v: u64) -> [u8; 8] {
    v.to_be_bytes()
}
fn pkt(data: &[u8]) -> Vec<u8> {
    let mut v = format!("{:04x}", data.len() + 4).into_bytes();
    v.extend_from_slice(data);
    v
}
fn pkts(lines: &[&[u8]]) -> Vec<u8> {
    let mut v = Vec::new();
    for l in lines {
        match *l {
            b"FLUSH" => v.extend_from_slice(b"0000"),
            b"DELIM" => v.extend_from_slice(b"0001"),
            b"END" => v.extend_from_slice(b"0002"),
            l => v.extend(pkt(l)),
        }
    }
    v
}

pub fn varint(mut n: u64) -> Vec<u8> {
    // git's offset varint (as read by leb64_from_read in gix-features)
    let mut bytes = vec![(n & 0x7f) as u8];
    n >>= 7;
    while n != 0 {
        n -= 1;
        bytes.push(0x80 | (n & 0x7f) as u8);
        n >>= 7;
    }
    bytes.reverse();
    bytes
}

/// an EWAH bitmap: (num_bits, words, rlw)
pub fn ewah_bytes(num_bits: u32, words: &[u64], rlw: u32) -> Vec<u8> {
    let mut v = Vec::new();
    v.extend(be32(num_bits));
    v.extend(be32(words.len() as u32));
    for w in words {
        v.extend(be64(*w));
    }
    v.extend(be32(rlw));
    v
}
pub fn rlw(run_bit: bool, run_len: u64, literals: u64) -> u64 {
    (run_bit as u64) | ((run_len & 0xffff_ffff) << 1) | (literals << 33)
}
/// a well-formed bitmap with the given bits set
pub fn ewah_of_bits(num_bits: u32, bits: &[u32]) -> Vec<u8> {
    let nwords = (num_bits as usize + 63) / 64;
    let mut plain = vec![0u64; nwords];
    for b in bits {
        if *b < num_bits {
            plain[(*b / 64) as usize] |= 1 << (*b % 64);
        }
    }
    let mut words = Vec::new();
    let mut i = 0;
    while i < nwords {
        // a run of equal all-zero/all-one words, then literals up to the next run
        let mut run = 0;
        let bit = plain[i] == u64::MAX;
        while i + run < nwords && (plain[i + run] == 0 || plain[i + run] == u64::MAX) && (plain[i + run] == u64::MAX) == bit {
            run += 1;
        }
        let mut lits = 0;
        while i + run + lits < nwords && plain[i + run + lits] != 0 && plain[i + run + lits] != u64::MAX {
            lits += 1;
        }
        if run == 0 && lits == 0 {
            lits = 1;
        }
        words.push(rlw(bit && run > 0, run as u64, lits as u64));
        words.extend_from_slice(&plain[i + run..i + run + lits]);
        i += run + lits;
    }
    ewah_bytes(num_bits, &words, 0)
}

fn stat(rng: &mut Rng) -> Vec<u8> {
    let mut v = Vec::new();
    for _ in 0..9 {
        v.extend(be32(rng.next() as u32));
    }
    v
}

fn untr_dir(rng: &mut Rng, depth: u32, count: &mut u32, out: &mut Vec<u8>) {
    *count += 1;
    let nuntracked = rng.below(3);
    let ndirs = if depth < 3 { rng.below(3) } else { 0 };
    out.extend(varint(nuntracked));
    out.extend(varint(ndirs));
    out.extend(rng.word(b"abc", 0, 3));
    out.push(0);
    for _ in 0..nuntracked {
        out.extend(rng.word(b"xyz.", 1, 4));
        out.push(0);
    }
    for _ in 0..ndirs {
        untr_dir(rng, depth + 1, count, out);
    }
}

/// a well-formed untracked-cache extension payload
pub fn untr(rng: &mut Rng) -> Vec<u8> {
    let mut v = Vec::new();
    let ident = b"Location /tmp/x, system Linux";
    v.extend(varint(ident.len() as u64));
    v.extend_from_slice(ident);
    for _ in 0..2 {
        v.extend(stat(rng));
        v.extend(id(rng));
    }
    v.extend(be32(rng.below(8) as u32));
    v.extend_from_slice(b".gitignore\0");
    if rng.chance(1, 8) {
        v.extend(varint(0));
        v.push(0);
        return v;
    }
    let mut dirs = Vec::new();
    let mut count = 0;
    untr_dir(rng, 0, &mut count, &mut dirs);
    v.extend(varint(count as u64));
    v.extend(dirs);
    let pick = |rng: &mut Rng| -> Vec<u32> { (0..count).filter(|_| rng.chance(1, 2)).collect() };
    let valid = pick(rng);
    let check_only = pick(rng);
    let hash_valid = pick(rng);
    v.extend(ewah_of_bits(count, &valid));
    v.extend(ewah_of_bits(count, &check_only));
    v.extend(ewah_of_bits(count, &hash_valid));
    for _ in &valid {
        v.extend(stat(rng));
    }
    for _ in &hash_valid {
        v.extend(rng.bytes(20));
    }
    v.push(0);
    v
}

fn tree_ext(rng: &mut Rng, depth: u32, name: &[u8], out: &mut Vec<u8>) {
    out.extend_from_slice(name);
    out.push(0);
    let n = if rng.chance(1, 6) { -1 } else { rng.range(0, 30) };
    let subs = if depth < 3 { rng.below(3) } else { 0 };
    out.extend(format!("{n} {subs}\n").into_bytes());
    if n >= 0 {
        out.extend(id(rng));
    }
    for i in 0..subs {
        let nm = format!("d{i}");
        tree_ext(rng, depth + 1, nm.as_bytes(), out);
    }
}

fn ext(sig: &[u8; 4], data: &[u8]) -> Vec<u8> {
    let mut v = sig.to_vec();
    v.extend(be32(data.len() as u32));
    v.extend_from_slice(data);
    v
}

fn sha1(chunks: &[&[u8]]) -> Vec<u8> {
    let mut h = gix_features::hash::hasher(gix_hash::Kind::Sha1);
    for c in chunks {
        h.update(c);
    }
    h.digest().to_vec()
}

/// a well-formed index file (v2/v3/v4) with a random selection of extensions
pub fn index(rng: &mut Rng) -> Vec<u8> {
    let version = *rng.pick(&[2u32, 2, 3, 4]);
    let n = rng.below(6) as usize;
    let mut names: Vec<Vec<u8>> = (0..n)
        .map(|i| {
            let mut p = format!("d{}/", i / 2).into_bytes();
            p.extend(rng.word(b"abc", 1, 6));
            p.push(b'0' + i as u8);
            p
        })
        .collect();
    names.sort();
    let mut v = b"DIRC".to_vec();
    v.extend(be32(version));
    v.extend(be32(n as u32));
    let mut offsets = Vec::new();
    let mut prev: Vec<u8> = Vec::new();
    for (i, name) in names.iter().enumerate() {
        if i % 2 == 0 {
            offsets.push((v.len() as u32, 0u32));
            prev.clear(); // IEOT blocks restart prefix compression
        }
        offsets.last_mut().expect("pushed").1 += 1;
        let start = v.len();
        v.extend(stat(rng)); // ctime..size with mode inside: fix the mode field below
        let mode: u32 = *rng.pick(&[0o100644, 0o100755, 0o120000, 0o160000, 0o040000]);
        v[start + 24..start + 28].copy_from_slice(&be32(mode));
        v.extend(id(rng));
        let extended = version >= 3 && rng.chance(1, 3);
        let mut flags = (name.len().min(0xfff)) as u16 | ((rng.below(4) as u16) << 12);
        if extended {
            flags |= 0x4000;
        }
        v.extend(flags.to_be_bytes());
        if extended {
            v.extend((*rng.pick(&[0x2000u16, 0x4000, 0x6000])).to_be_bytes());
        }
        if version == 4 {
            let common = prev.iter().zip(name.iter()).take_while(|(a, b)| a == b).count();
            v.extend(varint((prev.len() - common) as u64));
            v.extend_from_slice(&name[common..]);
            v.push(0);
            prev = name.clone();
        } else {
            v.extend_from_slice(name);
            let len = v.len() - start;
            let padded = (len + 8) & !7;
            v.resize(start + padded, 0);
        }
    }
    let ext_start = v.len();
    let mut exts: Vec<Vec<u8>> = Vec::new();
    if rng.chance(1, 2) {
        let mut t = Vec::new();
        tree_ext(rng, 0, b"", &mut t);
        exts.push(ext(b"TREE", &t));
    }
    if rng.chance(1, 3) {
        let mut r = Vec::new();
        r.extend_from_slice(b"conflict\0");
        r.extend_from_slice(b"100644\0" as &[u8]);
        r.extend_from_slice(b"0\0");
        r.extend_from_slice(b"100755\0");
        r.extend(id(rng));
        r.extend(id(rng));
        exts.push(ext(b"REUC", &r));
    }
    if rng.chance(1, 2) {
        exts.push(ext(b"UNTR", &untr(rng)));
    }
    if rng.chance(1, 4) {
        let mut f = Vec::new();
        if rng.chance(1, 2) {
            f.extend(be32(1));
            f.extend(be64(rng.next()));
        } else {
            f.extend(be32(2));
            f.extend_from_slice(b"token\0");
        }
        let bm = ewah_of_bits(n as u32, &(0..n as u32).filter(|_| rng.chance(1, 2)).collect::<Vec<_>>());
        f.extend(be32(bm.len() as u32));
        f.extend(bm);
        exts.push(ext(b"FSMN", &f));
    }
    if rng.chance(1, 6) {
        exts.push(ext(b"sdir", b""));
    }
    if rng.chance(1, 8) {
        let mut l = id(rng);
        if rng.chance(1, 2) {
            l.extend(ewah_of_bits(4, &[1]));
            l.extend(ewah_of_bits(4, &[2]));
        }
        exts.push(ext(b"link", &l));
    }
    if rng.chance(1, 8) {
        exts.push(ext(b"ZZZZ", &rng.bytes(5)));
    }
    let with_ieot = rng.chance(1, 2) && !offsets.is_empty();
    if with_ieot {
        let mut t = be32(1).to_vec();
        for (o, c) in &offsets {
            t.extend(be32(*o));
            t.extend(be32(*c));
        }
        exts.push(ext(b"IEOT", &t));
    }
    for e in &exts {
        v.extend_from_slice(e);
    }
    if with_ieot || rng.chance(1, 2) {
        let mut parts: Vec<Vec<u8>> = Vec::new();
        for e in &exts {
            parts.push(e[..8].to_vec());
        }
        let refs: Vec<&[u8]> = parts.iter().map(|p| p.as_slice()).collect();
        let mut d = be32(ext_start as u32).to_vec();
        d.extend(sha1(&refs));
        v.extend(ext(b"EOIE", &d));
    }
    v.extend(if rng.chance(1, 2) { vec![0u8; 20] } else { rng.bytes(20) });
    v
}

/// a well-formed commit-graph file with n commits
pub fn cgraph(rng: &mut Rng) -> Vec<u8> {
    let n = rng.below(5) as u32;
    let with_edges = rng.chance(1, 3);
    let with_base = rng.chance(1, 6);
    let nchunks = 3 + with_edges as u8 + with_base as u8;
    let mut ids: Vec<Vec<u8>> = (0..n).map(|_| rng.bytes(20)).collect();
    ids.sort();
    let mut fan = [0u32; 256];
    for i in &ids {
        for f in fan.iter_mut().skip(i[0] as usize) {
            *f += 1;
        }
    }
    let mut chunks: Vec<(&[u8; 4], Vec<u8>)> = Vec::new();
    chunks.push((b"OIDF", fan.iter().flat_map(|f| be32(*f)).collect()));
    chunks.push((b"OIDL", ids.concat()));
    let mut cdat = Vec::new();
    for i in 0..n {
        cdat.extend(rng.bytes(20));
        cdat.extend(be32(if i > 0 { i - 1 } else { 0x7000_0000 }));
        cdat.extend(be32(if with_edges && i == n - 1 { 0x8000_0000 } else { 0x7000_0000 }));
        cdat.extend(be64(((i as u64 + 1) << 34) | 1_700_000_000));
    }
    chunks.push((b"CDAT", cdat));
    if with_edges {
        chunks.push((b"EDGE", [be32(0), be32(0x8000_0000)].concat()));
    }
    if with_base {
        chunks.push((b"BASE", rng.bytes(20)));
    }
    // git writes OIDF, OIDL, CDAT, …; any order is a valid file, and OIDF last makes its size check matter
    if rng.chance(1, 3) {
        let i = rng.below(chunks.len() as u64) as usize;
        let j = rng.below(chunks.len() as u64) as usize;
        chunks.swap(i, j);
    }
    if rng.chance(1, 6) {
        let last = chunks.len() - 1;
        chunks.swap(0, last);
    }
    let mut v = b"CGPH".to_vec();
    v.extend([1, 1, nchunks, with_base as u8]);
    let mut ofs = (8 + (chunks.len() + 1) * 12) as u64;
    for (k, d) in &chunks {
        v.extend_from_slice(*k);
        v.extend(be64(ofs));
        ofs += d.len() as u64;
    }
    v.extend([0u8; 4]);
    v.extend(be64(ofs));
    for (_, d) in &chunks {
        v.extend_from_slice(d);
    }
    v.extend(rng.bytes(20));
    v
}

/// a well-formed multi-pack index
pub fn midx(rng: &mut Rng) -> Vec<u8> {
    let n = rng.below(5) as u32;
    let npacks = 1 + rng.below(3) as u32;
    let with_large = rng.chance(1, 3);
    let mut ids: Vec<Vec<u8>> = (0..n).map(|_| rng.bytes(20)).collect();
    ids.sort();
    let mut fan = [0u32; 256];
    for i in &ids {
        for f in fan.iter_mut().skip(i[0] as usize) {
            *f += 1;
        }
    }
    let mut pnam = Vec::new();
    for i in 0..npacks {
        pnam.extend(format!("pack-{i}.idx").into_bytes());
        pnam.push(0);
    }
    while pnam.len() % 4 != 0 {
        pnam.push(0);
    }
    let mut chunks: Vec<(&[u8; 4], Vec<u8>)> = Vec::new();
    chunks.push((b"PNAM", pnam));
    chunks.push((b"OIDF", fan.iter().flat_map(|f| be32(*f)).collect()));
    chunks.push((b"OIDL", ids.concat()));
    let mut ooff = Vec::new();
    for i in 0..n {
        ooff.extend(be32(rng.below(npacks as u64) as u32));
        ooff.extend(be32(if with_large && i == 0 { 0x8000_0000 } else { 12 + i * 100 }));
    }
    chunks.push((b"OOFF", ooff));
    if with_large {
        chunks.push((b"LOFF", be64(1 << 33).to_vec()));
    }
    let mut v = b"MIDX".to_vec();
    v.extend([1, 1, chunks.len() as u8, 0]);
    v.extend(be32(npacks));
    let mut ofs = (12 + (chunks.len() + 1) * 12) as u64;
    for (k, d) in &chunks {
        v.extend_from_slice(*k);
        v.extend(be64(ofs));
        ofs += d.len() as u64;
    }
    v.extend([0u8; 4]);
    v.extend(be64(ofs));
    for (_, d) in &chunks {
        v.extend_from_slice(d);
    }
    v.extend(rng.bytes(20));
    v
}

/// a chunk-file table of contents at offset 8 (data, toc_offset, num_chunks)
pub fn chunk_toc(rng: &mut Rng) -> (Vec<u8>, usize, u32) {
    let n = 1 + rng.below(4) as usize;
    let toc = *rng.pick(&[0usize, 8, 12]);
    let mut v = rng.bytes(toc);
    let mut ofs = (toc + (n + 1) * 12) as u64;
    let mut sizes = Vec::new();
    for i in 0..n {
        v.extend_from_slice(&[b'A' + i as u8, b'B', b'C', b'D']);
        v.extend(be64(ofs));
        let s = rng.below(6);
        sizes.push(s);
        ofs += s;
    }
    v.extend([0u8; 4]);
    v.extend(be64(ofs));
    let extra = rng.below(3) as usize;
    v.extend(rng.bytes(sizes.iter().sum::<u64>() as usize + extra));
    (v, toc, n as u32)
}

pub fn ewah(rng: &mut Rng) -> Vec<u8> {
    let num_bits = *rng.pick(&[0u32, 1, 63, 64, 65, 128, 200, 1000]);
    let bits: Vec<u32> = match rng.below(4) {
        0 => (0..num_bits).collect(),
        1 => vec![],
        2 => (0..num_bits).filter(|b| (b / 64) % 3 != 1).collect(),
        _ => (0..num_bits).filter(|_| rng.chance(1, 3)).collect(),
    };
    let mut v = ewah_of_bits(num_bits, &bits);
    if rng.chance(1, 3) {
        let n = rng.below(9) as usize;
        v.extend(rng.bytes(n));
    }
    v
}

/// hand-written valid samples; binary formats are built
pub fn seed(entry: &str, rng: &mut Rng) -> Vec<u8> {
    let s: Vec<Vec<u8>> = match entry {
        "obj-commit" => vec![
            format!("tree {H3}\nparent {H1}\nparent {H2}\nauthor A U Thor <a@b.c> 1700000000 +0100\ncommitter C <c@d.e> 1700000001 -0830\nencoding ISO-8859-1\ngpgsig -----BEGIN PGP SIGNATURE-----\n \n abc\n -----END PGP SIGNATURE-----\nmergetag object {H1}\n type commit\n\nsubject\n\nbody\n").into_bytes(),
            format!("tree {H3}\nauthor a <a> 0 +0000\ncommitter a <a> 0 +0000\n\n").into_bytes(),
        ],
        "obj-tag" => vec![
            format!("object {H1}\ntype commit\ntag v1.0\ntagger T <t@x> 1700000000 +0000\n\nmsg\n-----BEGIN PGP SIGNATURE-----\nabc\n-----END PGP SIGNATURE-----\n").into_bytes(),
            format!("object {H2}\ntype tree\ntag x\n").into_bytes(),
        ],
        "obj-tree" => {
            let mut t = Vec::new();
            for (m, n) in [("100644", "a"), ("40000", "dir"), ("120000", "l"), ("160000", "sub"), ("100755", "x y")] {
                t.extend(format!("{m} {n}\0").into_bytes());
                t.extend(id(rng));
            }
            vec![t, vec![]]
        }
        "obj-blob" => vec![b"hello".to_vec()],
        "obj-loose" => vec![
            b"blob 5\0hello".to_vec(),
            format!("commit 100\0tree {H3}\nauthor a <a> 0 +0000\ncommitter a <a> 0 +0000\n\n").into_bytes(),
            format!("tag 70\0object {H2}\ntype tree\ntag x\n").into_bytes(),
            b"tree 0\0".to_vec(),
        ],
        "loosehdr" => vec![
            b"blob 5\0".to_vec(),
            b"commit 18446744073709551615\0x".to_vec(),
            b"tree 0\0".to_vec(),
            b"tag 12\0".to_vec(),
        ],
        "packed" => vec![
            format!("# pack-refs with: peeled fully-peeled sorted \n{H1} refs/heads/main\n{H2} refs/tags/v1\n^{H3}\n").into_bytes(),
            format!("{H1} refs/heads/a\r\n{H2} refs/heads/b\r\n").into_bytes(),
            format!("{H2} refs/heads/z\n{H1} refs/heads/a\n").into_bytes(),
        ],
        "lref" => vec![
            format!("{H1}\n").into_bytes(),
            format!("{H2}").into_bytes(),
            b"ref: refs/heads/main\n".to_vec(),
            b"ref:    refs/x\r\n".to_vec(),
            format!("{H2}\r\ntrailing").into_bytes(),
        ],
        "reflog" => vec![
            format!("{H1} {H2} A U <a@b> 1700000000 +0000\tcommit: msg\n{H2} {H3} B <b@c> 1700000001 -0100\tcheckout: moving\n").into_bytes(),
            format!("{H1} {H2} A <a@b> 1700000000 +0000\n").into_bytes(),
            format!("{H1} {H2} A <a@b> 1700000000 +0000\tcommit (amend): x > y\r\n").into_bytes(),
        ],
        "index" | "index-mt" => vec![index(rng)],
        "untr" => vec![untr(rng)],
        "ewah" => vec![ewah(rng)],
        "config" => vec![
            b"[core]\n\tbare = false\n\teditor = \"vi \\\"x\\\"\" ; c\n[remote \"origin\"]\n\turl = a\\\n b # c\n[a.b]\nk\n[include]\n\tpath = x\n".to_vec(),
            b"# c\n[s \"sub\\\\sec\\\"\"]\r\n  k = v\\n\\t\\b \r\n  k2=\n".to_vec(),
            b"\xef\xbb\xbf[a]\nb=c\n".to_vec(),
        ],
        "pktline" | "pktread" => vec![
            pkts(&[b"hello\n", b"FLUSH", b"world", b"DELIM", b"x", b"END"]),
            pkts(&[b"\x01data", b"\x02progress\n", b"\x03error", b"FLUSH"]),
            pkts(&[b"ERR failure\n"]),
            pkts(&[b"\x01PACK", b"\x02", b"\x01more", b"FLUSH"]),
        ],
        "refs-v1" => vec![
            pkts(&[
                format!("{H1} HEAD\0multi_ack thin-pack side-band-64k symref=HEAD:refs/heads/main agent=git/2.39\n").as_bytes(),
                format!("{H1} refs/heads/main\n").as_bytes(),
                format!("{H2} refs/tags/v1\n").as_bytes(),
                format!("{H3} refs/tags/v1^{{}}\n").as_bytes(),
                b"FLUSH",
            ]),
            pkts(&[format!("{} capabilities^{{}}\0agent=x\n", "0".repeat(40)).as_bytes(), b"FLUSH"]),
            pkts(&[
                format!("{H1} refs/heads/a\0symref=refs/heads/a:refs/heads/b object-format=sha1\n").as_bytes(),
                format!("shallow {H2}\n").as_bytes(),
                b"FLUSH",
            ]),
        ],
        "refs-v2" => vec![
            pkts(&[
                format!("{H1} HEAD symref-target:refs/heads/main\n").as_bytes(),
                format!("{H2} refs/tags/v peeled:{H3}\n").as_bytes(),
                format!("{H2} refs/heads/main\n").as_bytes(),
                b"unborn HEAD symref-target:refs/heads/x\n",
                b"FLUSH",
            ]),
            pkts(&[format!("{H1} refs/tags/t symref-target:refs/tags/u peeled:{H2}\n").as_bytes(), b"FLUSH"]),
        ],
        "fetch-v1" => vec![
            pkts(&[
                format!("shallow {H1}\n").as_bytes(),
                format!("unshallow {H2}\n").as_bytes(),
                b"FLUSH",
                format!("ACK {H1} continue\n").as_bytes(),
                format!("ACK {H2} common\n").as_bytes(),
                format!("ACK {H2} ready\n").as_bytes(),
                b"NAK\n",
                format!("ACK {H1}\n").as_bytes(),
                b"\x01PACK\0\0\0\x02\0\0\0\0",
            ]),
            pkts(&[b"NAK\n", b"PACK"]),
            pkts(&[b"ERR no\n"]),
        ],
        "fetch-v2" => vec![
            pkts(&[
                b"acknowledgments\n",
                format!("ACK {H1}\n").as_bytes(),
                b"ready\n",
                b"DELIM",
                b"shallow-info\n",
                format!("shallow {H1}\n").as_bytes(),
                format!("unshallow {H2}\n").as_bytes(),
                b"DELIM",
                b"wanted-refs\n",
                format!("{H2} refs/heads/x\n").as_bytes(),
                b"DELIM",
                b"packfile\n",
                b"\x01PACK",
                b"FLUSH",
            ]),
            pkts(&[b"acknowledgments\n", b"NAK\n", b"FLUSH"]),
            pkts(&[b"packfile\n", b"\x02progress", b"FLUSH"]),
        ],
        "url" => [
            "https://user:pw@host.xz:8080/path/to/repo.git/", "ssh://git@host/~user/x", "git@host.xz:path/repo",
            "file:///tmp/x", "/abs/path", "../rel", "C:\\x", "[::1]:repo", "ssh://[::1]:22/x", "http://h/%7Euser",
            "git://host.xz/~u/r", "user@host:~/x", "file://C:/x", "ssh://-oProxyCommand=x/p", "a:b", "ext::sh -c x",
        ]
        .iter()
        .map(|s| s.as_bytes().to_vec())
        .collect(),
        "refspec" => [
            "+refs/heads/*:refs/remotes/origin/*", "^refs/heads/x", ":", "HEAD", "refs/heads/a:refs/heads/b", "@", "+:",
            "a*b:c*d", "refs/tags/v1:refs/tags/v1", ":refs/heads/del", "^*", "1111111111111111111111111111111111111111:refs/x",
        ]
        .iter()
        .map(|s| s.as_bytes().to_vec())
        .collect(),
        "revspec" => [
            "HEAD~3^2", "@{-1}", "main@{upstream}", "v1.0^{commit}", "a..b", "a...b", ":/fix", "HEAD^{/regex}", ":2:path",
            "abc1234", "HEAD@{2 days ago}", "@{1}", "^a", "r^@", "r^!", "r^-2", "v1-3-gabcdef0", "HEAD:path", "@{push}",
            "HEAD^{/!-neg}", "r^{}", "@", "main@{1979-02-26 18:30:00}", "HEAD^0~0", ":/!!bang", "a^{tag}^{tree}",
        ]
        .iter()
        .map(|s| s.as_bytes().to_vec())
        .collect(),
        "pathspec" => [
            ":(top,icase,attr:a=b !c -d)x/*.rs", ":!x", ":/", ":^*.o", "a/b", ":(glob)**/x", ":(literal)*", ":(exclude,attr:x)",
            ":(attr:a=b\\,c)p", ":/!x", ":(,top,)a", ":", "::a", ":(prefix:3)abc",
        ]
        .iter()
        .map(|s| s.as_bytes().to_vec())
        .collect(),
        "attrs" => vec![
            b"*.txt text=auto eol=lf -diff !merge\n[attr]binary -diff -merge -text\n\"a b\" x\n# c\n!neg x\n\\!lit y\n".to_vec(),
            b"\xef\xbb\xbf* a\r\n\"q\\\"\\101\" b=c\n".to_vec(),
        ],
        "ignore" => vec![b"# c\n*.o\n!keep.o\n/dir/\nfoo\\ \n\\#x\n a[bc]?\n**/x\ntrail  \n\r\n".to_vec()],
        "mailmap" => vec![
            b"Proper Name <commit@email.xx>\n<proper@email.xx> <commit@email.xx>\nProper <p@e> <c@e>\nP <p@e> C <c@e>\n# c\n\n".to_vec(),
        ],
        "date" => [
            "1700000000 +0100", "2023-01-02T03:04:05Z", "Thu, 18 Aug 2022 12:45:06 +0800", "2 weeks ago", "now", "@1234",
            "2022-08-17 22:04:58 +0200", "1979-02-26 18:30:00", "1234567890", "Thu Sep 04 2022 10:45:06 -0400",
            "99999999999 hours ago", "-1 +0000", "1700000000 -9999", "3 yesterdays",
        ]
        .iter()
        .map(|s| s.as_bytes().to_vec())
        .collect(),
        "quote" => vec![
            b"\"a\\tb\\n\\303\\244\\\"\\\\\"".to_vec(),
            b"\"\\a\\b\\f\\v\\r\"rest".to_vec(),
            b"plain".to_vec(),
            b"\"\\377\"".to_vec(),
        ],
        "cred" => vec![
            b"protocol=https\nhost=example.com\npath=a/b\nusername=u\npassword=p\nurl=https://h/p\nquit=1\n".to_vec(),
            b"url=ssh://u@h:22/x\n\n".to_vec(),
        ],
        "cgraph" => vec![cgraph(rng)],
        "midx" => vec![midx(rng)],
        "chunk" => vec![chunk_toc(rng).0],
        "tagname" | "refname" | "sanitize" => [
            "refs/heads/main", "v1.0", "a/b.lock", "..", "a..b", "@{", "/", ".", "-", "a//b", "HEAD", "@", "a/.b", "a.",
            "a b", "a~", "a^:", "*", "refs/heads/\u{7f}", "a\\b", "MERGE_HEAD", "a/", "/a", ".lock", "a@{b",
        ]
        .iter()
        .map(|s| s.as_bytes().to_vec())
        .collect(),
        _ => vec![vec![]],
    };
    s[rng.below(s.len() as u64) as usize].clone()
}

const EXTREME_NUMS: &[&str] = &[
    "0", "1", "-1", "255", "256", "65535", "65536", "2147483647", "2147483648", "4294967295", "4294967296",
    "9223372036854775807", "9223372036854775808", "18446744073709551615", "18446744073709551616",
    "99999999999999999999999999", "-9223372036854775808", "-9223372036854775809", "00", "+1",
];
const SPECIAL: &[u8] = b"\0\n\r \t\xff\"\\/:@^~{}()[]*?!#=<>-+.,;%'\x7f\x80\x01";
const PKT_PREFIXES: &[&str] = &[
    "fff0", "ffff", "fff1", "fff4", "fff5", "0004", "0005", "0003", "0001", "0002", "0000", "FFFF", " fff", "00g0", "8000",
    "7fff", "ffef", "0006",
];

fn is_binary_entry(entry: &str) -> bool {
    matches!(entry, "index" | "index-mt" | "untr" | "ewah" | "cgraph" | "midx" | "chunk" | "obj-tree")
}

/// one structure-aware mutation step
pub fn mutate(entry: &str, mut s: Vec<u8>, rng: &mut Rng) -> Vec<u8> {
    let len = s.len();
    let pos = |rng: &mut Rng, n: usize| if n == 0 { 0 } else { rng.below(n as u64) as usize };
    match rng.below(12) {
        0 => {
            for _ in 0..1 + rng.below(3) {
                if !s.is_empty() {
                    let i = pos(rng, s.len());
                    s[i] ^= 1 << rng.below(8);
                }
            }
        }
        1 => s.truncate(pos(rng, len + 1)),
        2 => {
            let i = pos(rng, len + 1);
            let n = 1 + rng.below(4) as usize;
            let ins = rng.bytes(n);
            s.splice(i..i, ins);
        }
        3 => {
            if len > 0 {
                let i = pos(rng, len);
                let j = (i + 1 + rng.below(8) as usize).min(len);
                s.drain(i..j);
            }
        }
        4 => {
            if len > 0 {
                let i = pos(rng, len);
                let j = (i + 1 + rng.below(24) as usize).min(len);
                let dup = s[i..j].to_vec();
                let reps = 1 + rng.below(3);
                for _ in 0..reps {
                    s.splice(j..j, dup.clone());
                }
            }
        }
        5 => {
            // a decimal run becomes an extreme number
            let starts: Vec<usize> = (0..len)
                .filter(|&i| s[i].is_ascii_digit() && (i == 0 || !s[i - 1].is_ascii_digit()))
                .collect();
            if !starts.is_empty() {
                let i = *rng.pick(&starts);
                let mut j = i;
                while j < len && s[j].is_ascii_digit() {
                    j += 1;
                }
                s.splice(i..j, rng.pick(EXTREME_NUMS).bytes());
            } else if !s.is_empty() {
                let i = pos(rng, len);
                s[i] = *rng.pick(SPECIAL);
            }
        }
        6 => {
            if !s.is_empty() {
                let i = pos(rng, len);
                s[i] = *rng.pick(SPECIAL);
            }
        }
        7 => {
            let i = pos(rng, len + 1);
            s.insert(i, *rng.pick(SPECIAL));
        }
        8 => {
            // a big-endian u32/u64 becomes extreme (binary formats), or a hex length prefix (packet lines)
            if matches!(entry, "pktline" | "pktread" | "refs-v1" | "refs-v2" | "fetch-v1" | "fetch-v2") {
                // find packet starts by walking the valid prefix structure
                let mut starts = vec![];
                let mut i = 0;
                while i + 4 <= s.len() {
                    starts.push(i);
                    let l = std::str::from_utf8(&s[i..i + 4]).ok().and_then(|h| usize::from_str_radix(h, 16).ok()).unwrap_or(4);
                    i += l.max(4);
                }
                if !starts.is_empty() {
                    let i = *rng.pick(&starts);
                    s[i..i + 4].copy_from_slice(rng.pick(PKT_PREFIXES).as_bytes());
                }
            } else if len >= 4 {
                let wide = is_binary_entry(entry) && len >= 8 && rng.chance(1, 3);
                let w = if wide { 8 } else { 4 };
                let i = (pos(rng, len - w + 1) / 4) * 4;
                let i = i.min(len - w);
                let v: u64 = *rng.pick(&[
                    0,
                    1,
                    0xffff_ffff,
                    0x7fff_ffff,
                    0x8000_0000,
                    len as u64,
                    len as u64 + 1,
                    (len as u64).wrapping_sub(1),
                    len as u64 - (len as u64).min(20),
                    0xffff_ffff_ffff_ffff,
                    0x8000_0000_0000_0000,
                    0x0000_0001_0000_0000,
                    2,
                    64,
                ]);
                if wide {
                    s[i..i + 8].copy_from_slice(&v.to_be_bytes());
                } else {
                    s[i..i + 4].copy_from_slice(&(v as u32).to_be_bytes());
                }
            }
        }
        9 => {
            // splice with another sample
            let other = seed(entry, rng);
            let i = pos(rng, len + 1);
            let j = pos(rng, other.len() + 1);
            s.truncate(i);
            s.extend_from_slice(&other[j..]);
        }
        10 => {
            // a varint-looking continuation run (offset varints overflow at the 10th/11th byte)
            let i = pos(rng, len + 1);
            let n = *rng.pick(&[1usize, 8, 9, 10, 11, 12, 20]);
            let mut run = vec![0xffu8; n];
            if rng.chance(1, 2) {
                run.push(0x7f);
            }
            s.splice(i..i, run);
        }
        _ => {
            // empty component: drop everything between two separators
            let seps: Vec<usize> = (0..len).filter(|&i| b"\n\0 :/@".contains(&s[i])).collect();
            if seps.len() >= 2 {
                let a = pos(rng, seps.len() - 1);
                s.drain(seps[a] + 1..seps[a + 1]);
            }
        }
    }
    s
}

/// inputs that are not derived from a sample
pub fn wild(entry: &str, rng: &mut Rng) -> Vec<u8> {
    match rng.below(6) {
        0 => { let n = rng.below(80) as usize; rng.bytes(n) }
        1 => {
            // over the alphabet of a sample
            let s = seed(entry, rng);
            if s.is_empty() {
                return s;
            }
            let n = rng.below(60) as usize;
            (0..n).map(|_| *rng.pick(&s)).collect()
        }
        2 => {
            // deep nesting / long repetition of one token
            let tok: &[u8] = *rng.pick(&[
                b"^" as &[u8], b"~", b"(", b":(", b"^{", b"@{", b"[", b"\\", b"\"", b"\xff", b"0", b"/", b"a/", b"../", b"%",
                b"\0", b"\n", b"ref: ", b"0004", b"\x80",
            ]);
            let n = *rng.pick(&[1usize, 2, 100, 1000, 5000]);
            tok.repeat(n)
        }
        3 => rng.word(SPECIAL, 0, 12),
        4 => vec![],
        _ => {
            let mut s = seed(entry, rng);
            let big = *rng.pick(&[255usize, 256, 4095, 4096, 65516, 65520]);
            let fill = *rng.pick(b"a/0 \n");
            let at = if s.is_empty() { 0 } else { rng.below(s.len() as u64 + 1) as usize };
            s.splice(at..at, std::iter::repeat(fill).take(big));
            s
        }
    }
}
