//! C06 harness: untrusted bytes never crash a parser.
//!
//! Modelled operations (the extracted Coq model predicts the transcript):
//!   ewah <bytes> <limit>          gix_bitmap::ewah::decode + Vec::for_each_set_bit (callback stops at the limit-th call)
//!   lref <bytes>                  gix_ref::file::loose::Reference::try_from_path
//!   chunk <data> <toc> <n>        gix_chunk::file::Index::from_bytes
//!   cgraph <bytes>                gix_commitgraph::File::at
//! Fuzzed operations (no model; impl prints `fz`, prop() runs the parser and requires no panic / hang):
//!   fz <entry> <bytes> [<aux>]    every parser entry point of the property's anchors, see entries.rs
mod entries;
mod seeds;

use bstr::ByteSlice;
use gixv_common::*;

fn runs(seen: &[usize]) -> String {
    if seen.is_empty() {
        return "-".into();
    }
    let mut out: Vec<String> = Vec::new();
    let mut start = seen[0];
    let mut len = 1usize;
    for w in seen.windows(2) {
        if w[1] == w[0].wrapping_add(1) {
            len += 1;
        } else {
            out.push(format!("{start}+{len}"));
            start = w[1];
            len = 1;
        }
    }
    out.push(format!("{start}+{len}"));
    out.join(",")
}

fn chunk_err(e: &gix_chunk::file::decode::Error) -> &'static str {
    use gix_chunk::file::decode::Error as E;
    match e {
        E::EarlySentinelValue => "EarlySentinel",
        E::MissingSentinelValue { .. } => "MissingSentinel",
        E::ChunkSizeOutOfBounds { .. } => "OutOfBounds",
        E::NonIncrementalChunkOffsets => "NonIncremental",
        E::DuplicateChunk { .. } => "Duplicate",
        E::TocTooSmall { .. } => "TocTooSmall",
        E::Empty => "Empty",
    }
}

fn lref_line(d: &[u8]) -> String {
    use gix_ref::file::loose::reference::decode::Error as E;
    let name: gix_ref::FullName = "refs/heads/main".try_into().expect("valid");
    match gix_ref::file::loose::Reference::try_from_path(name, d) {
        Ok(r) => match r.target {
            gix_ref::Target::Object(id) => format!("id {}", id.to_hex()),
            gix_ref::Target::Symbolic(n) => format!("sym {}", hexs(n.as_bstr())),
        },
        Err(E::Parse { .. }) => "err parse".into(),
        Err(E::RefnameValidation { path, .. }) => format!("sym {}", hexs(&path)),
    }
}

fn cgraph_line(d: &[u8]) -> String {
    use gix_commitgraph::file::Error as E;
    let sc = entries::Scratch::new("graph-0000000000000000000000000000000000000000.graph", d);
    match gix_commitgraph::File::at(&sc.0) {
        Ok(f) => format!("ok n={} base={}", f.num_commits(), f.base_graph_count()),
        Err(e) => match e {
            E::BaseGraphMismatch { from_header, from_chunk } => format!("err BaseMismatch {from_header} {from_chunk}"),
            E::CommitCountMismatch {
                chunk2_id,
                chunk1_commits,
                chunk2_commits,
                ..
            } => format!("err CountMismatch {} {chunk1_commits} {chunk2_commits}", hexs(&chunk2_id)),
            E::Corrupt(_) => "err Corrupt".into(),
            E::Io { .. } => "err Io".into(),
            E::Trailer(_) => "err Trailer".into(),
            E::UnsupportedHashVersion(v) => format!("err Hash {v}"),
            E::UnsupportedVersion(v) => format!("err Version {v}"),
            E::ChunkFileDecode(e) => format!("err Chunk {}", chunk_err(&e)),
            E::MissingChunk(e) => format!("err Missing {}", hexs(&e.kind)),
            E::InvalidChunkSize { id, .. } => format!("err Size {}", hexs(&id)),
        },
    }
}

fn chunk_line(d: &[u8], toc: usize, n: u32) -> String {
    match gix_chunk::file::Index::from_bytes(d, toc, n) {
        Ok(idx) => {
            let mut parts = Vec::new();
            for i in 0..n as usize {
                let k: [u8; 4] = d[toc + 12 * i..toc + 12 * i + 4].try_into().expect("4 bytes");
                let r = idx.offset_by_id(k).expect("present");
                parts.push(format!("{}:{}-{}", hexs(&k), r.start, r.end));
            }
            format!("ok {} hi={}", parts.join(","), idx.highest_offset())
        }
        Err(e) => format!("err {}", chunk_err(&e)),
    }
}

fn imp(c: &Case) -> String {
    match f_str(c, 0) {
        b"ewah" => match entries::ewah_run(f_str(c, 1), f_u64(c, 2)) {
            Ok((num_bits, rest, some, seen)) => format!(
                "ok {num_bits} {rest} {} {} {}",
                if some { "some" } else { "none" },
                seen.len(),
                runs(&seen)
            ),
            Err(()) => "err".into(),
        },
        b"lref" => lref_line(f_str(c, 1)),
        b"chunk" => chunk_line(f_str(c, 1), f_u64(c, 2) as usize, f_u64(c, 3) as u32),
        b"cgraph" => cgraph_line(f_str(c, 1)),
        b"fz" => "fz".into(),
        _ => "?".into(),
    }
}

fn guarded(class: &str, f: impl FnOnce() -> Verdict) -> Verdict {
    match std::panic::catch_unwind(std::panic::AssertUnwindSafe(f)) {
        Ok(v) => v,
        Err(e) => {
            let msg = e
                .downcast_ref::<String>()
                .cloned()
                .or_else(|| e.downcast_ref::<&str>().map(|s| s.to_string()))
                .unwrap_or_default();
            Verdict::fail(format!("panic-{class}"), format!("the parser panicked: {}", msg.replace('\n', " ")))
        }
    }
}

fn prop(c: &Case) -> Verdict {
    match f_str(c, 0) {
        b"ewah" => guarded("ewah", || {
            let limit = f_u64(c, 2);
            match entries::ewah_run(f_str(c, 1), limit) {
                Err(()) => {
                    // the only error is a truncated buffer: independent length computation
                    let d = f_str(c, 1);
                    let short = d.len() < 8 || {
                        let len = u32::from_be_bytes(d[4..8].try_into().expect("4")) as u64;
                        (d.len() as u64) < 8 + len * 8 + 4
                    };
                    if short {
                        Verdict::ok(false, "ewah-truncated")
                    } else {
                        Verdict::fail("ewah-rejected", "a complete bitmap was rejected")
                    }
                }
                Ok((num_bits, _rest, some, seen)) => {
                    if let Some(i) = seen.iter().find(|i| **i >= num_bits) {
                        return Verdict::fail(
                            "ewah-bit-out-of-range",
                            format!("bit {i} reported for a bitmap of {num_bits} bits"),
                        );
                    }
                    if seen.windows(2).any(|w| w[0] >= w[1]) {
                        return Verdict::fail("ewah-order", "bit positions are not strictly increasing");
                    }
                    if seen.len() as u64 > limit.max(1) {
                        return Verdict::fail("ewah-stop", "the iteration went on after the callback returned None");
                    }
                    // reference: expand the words naively (bounded by num_bits) and compare the reported prefix
                    let d = f_str(c, 1);
                    let nwords = u32::from_be_bytes(d[4..8].try_into().expect("4")) as usize;
                    let words: Vec<u64> = (0..nwords)
                        .map(|i| u64::from_be_bytes(d[8 + 8 * i..16 + 8 * i].try_into().expect("8")))
                        .collect();
                    let mut expect = Vec::new();
                    let mut pos = 0u128;
                    let mut i = 0;
                    let mut corrupt = false;
                    'outer: while i < words.len() {
                        let w = words[i];
                        i += 1;
                        let run = (((w >> 1) & 0xffff_ffff) as u128) * 64;
                        if w & 1 == 1 {
                            let end = pos + run;
                            let stop = end.min(num_bits as u128);
                            let mut p = pos;
                            while p < stop {
                                expect.push(p as usize);
                                p += 1;
                                if expect.len() as u64 >= limit.max(1) {
                                    break 'outer;
                                }
                            }
                            if end > num_bits as u128 && run > 0 && pos.max(num_bits as u128) < end {
                                corrupt = true;
                                break;
                            }
                        }
                        pos += run;
                        for _ in 0..(w >> 33) {
                            if i >= words.len() {
                                corrupt = true;
                                break 'outer;
                            }
                            let lit = words[i];
                            i += 1;
                            for b in 0..64 {
                                if lit & (1 << b) != 0 {
                                    if pos + b >= num_bits as u128 {
                                        corrupt = true;
                                        break 'outer;
                                    }
                                    expect.push((pos + b) as usize);
                                    if expect.len() as u64 >= limit.max(1) {
                                        break 'outer;
                                    }
                                }
                            }
                            pos += 64;
                        }
                    }
                    if expect != seen {
                        return Verdict::fail(
                            "ewah-bits",
                            format!("reported {} bits, the naive expansion has {}", seen.len(), expect.len()),
                        );
                    }
                    let stopped = seen.len() as u64 >= limit.max(1);
                    if !stopped && some == corrupt {
                        return Verdict::fail(
                            "ewah-result",
                            format!("returned {} for a {} bitmap", if some { "Some" } else { "None" }, if corrupt { "corrupt" } else { "well-formed" }),
                        );
                    }
                    Verdict::ok(!seen.is_empty() || corrupt, if corrupt { "ewah-corrupt" } else { "ewah-ok" })
                }
            }
        }),
        b"lref" => guarded("lref", || {
            let d = f_str(c, 1);
            let line = lref_line(d);
            // independent reading of the format with plain slice operations
            let expect = if let Some(rest) = d.strip_prefix(b"ref: ") {
                let rest = rest.trim_start_with(|c| c == ' ');
                let end = rest.iter().position(|b| *b == b'\r' || *b == b'\n').unwrap_or(rest.len());
                format!("sym {}", hexs(&rest[..end]))
            } else if d.len() >= 40 && d[..40].iter().all(|b| b.is_ascii_digit() || (b'a'..=b'f').contains(b)) {
                format!("id {}", d[..40].as_bstr())
            } else {
                "err parse".into()
            };
            if line != expect {
                return Verdict::fail("lref-value", format!("got {line}, expected {expect}"));
            }
            // a symbolic target is accepted iff its name validates
            if let Some(hexpath) = line.strip_prefix("sym ") {
                let path = unhex(if hexpath.is_empty() { "-" } else { hexpath });
                let name: gix_ref::FullName = "refs/heads/main".try_into().expect("valid");
                let ok = gix_ref::file::loose::Reference::try_from_path(name, d).is_ok();
                if ok != gix_validate::reference::name(path.as_bstr()).is_ok() {
                    return Verdict::fail("lref-validation", "symbolic target accepted without being a valid name, or vice versa");
                }
            }
            Verdict::ok(line != "err parse", if line.starts_with("err") { "lref-err" } else { "lref-ok" })
        }),
        b"chunk" => {
            let d = f_str(c, 1);
            let toc = f_u64(c, 2) as usize;
            if toc > d.len() {
                return Verdict::ok(false, "chunk-toc-outside-caller-contract");
            }
            guarded("chunk", || {
                let n = f_u64(c, 3) as u32;
                let line = chunk_line(d, toc, n);
                if let Some(rest) = line.strip_prefix("ok ") {
                    // accepted tables describe ranges inside the file, in file order
                    let mut last = 0u64;
                    for part in rest.split(' ').next().unwrap_or("").split(',') {
                        let (_, r) = part.split_once(':').expect("k:range");
                        let (s, e) = r.split_once('-').expect("s-e");
                        let (s, e): (u64, u64) = (s.parse().expect("num"), e.parse().expect("num"));
                        if s > e || e > d.len() as u64 || s < last {
                            return Verdict::fail("chunk-range", format!("accepted chunk range {s}..{e} in a file of {}", d.len()));
                        }
                        last = e;
                    }
                    Verdict::ok(true, "chunk-ok")
                } else {
                    Verdict::ok(n > 0, "chunk-err")
                }
            })
        }
        b"cgraph" => guarded("cgraph", || {
            let d = f_str(c, 1);
            let line = cgraph_line(d);
            if line.starts_with("ok") {
                // an accepted file has the mandatory chunks with the sizes the accessors rely on:
                // independent reading of the table of contents
                let n = d[6] as usize;
                let mut size = std::collections::BTreeMap::new();
                for i in 0..n {
                    let e = &d[8 + 12 * i..8 + 12 * (i + 1) + 12];
                    let start = u64::from_be_bytes(e[4..12].try_into().expect("8"));
                    let end = u64::from_be_bytes(e[16..24].try_into().expect("8"));
                    size.entry(e[..4].to_vec()).or_insert((start, end.wrapping_sub(start)));
                }
                let fan = size.get(&b"OIDF"[..]).copied();
                let oidl = size.get(&b"OIDL"[..]).copied();
                let cdat = size.get(&b"CDAT"[..]).copied();
                let good = match (fan, oidl, cdat) {
                    (Some((fs, 1024)), Some((_, l)), Some((_, cd))) if fs as usize + 1024 <= d.len() => {
                        let total = u32::from_be_bytes(d[fs as usize + 1020..fs as usize + 1024].try_into().expect("4")) as u64;
                        l == total * 20 && cd == total * 36
                    }
                    _ => false,
                };
                if !good {
                    return Verdict::fail("cgraph-accepted-invalid", format!("accepted with chunk sizes {fan:?} {oidl:?} {cdat:?}"));
                }
            }
            Verdict::ok(true, if line.starts_with("ok") { "cgraph-ok" } else { "cgraph-err" })
        }),
        b"fz" => {
            let entry = String::from_utf8_lossy(f_str(c, 1)).into_owned();
            let e2 = entry.clone();
            guarded(&entry, move || {
                let ok = entries::run(&e2, f_str(c, 2), f_str(c, 3));
                Verdict::ok(true, format!("fz-{e2}-{}", if ok { "ok" } else { "err" }))
            })
        }
        _ => Verdict::ok(false, "unknown-op"),
    }
}

fn fz_case(entry: &str, data: Vec<u8>, rng: &mut Rng) -> Case {
    vec![tag("fz"), tag(entry), data, rng.bytes(2)]
}

fn gen_input(entry: &str, rng: &mut Rng) -> Vec<u8> {
    match rng.below(10) {
        0 => seeds::seed(entry, rng),
        1 | 2 => seeds::wild(entry, rng),
        _ => {
            let mut s = seeds::seed(entry, rng);
            for _ in 0..1 + rng.below(3) {
                s = seeds::mutate(entry, s, rng);
            }
            s
        }
    }
}

fn gen_ewah(rng: &mut Rng) -> Case {
    use seeds::{ewah_bytes, rlw};
    let limit = *rng.pick(&[1u64, 2, 5, 64, 1000, 100_000, 100_000, 100_000]);
    let d = match rng.below(8) {
        0 | 1 => seeds::ewah(rng),
        2 => {
            // hand-made words around num_bits
            let num_bits = *rng.pick(&[0u32, 1, 63, 64, 65, 127, 128, 129, 640, 0xffff_ffff]);
            let n = rng.below(4) as usize;
            let mut words = Vec::new();
            for _ in 0..n {
                let lits = rng.below(3);
                words.push(rlw(rng.chance(1, 2), rng.below(4), lits));
                let present = if rng.chance(1, 5) { rng.below(3) } else { lits };
                for _ in 0..present {
                    words.push(match rng.below(4) {
                        0 => 0,
                        1 => u64::MAX,
                        2 => 1 << rng.below(64),
                        _ => rng.next(),
                    });
                }
            }
            ewah_bytes(num_bits, &words, rng.below(3) as u32)
        }
        3 => {
            // huge runs (the literal-overrun and the spinning inputs of the unfixed code)
            let num_bits = *rng.pick(&[0u32, 64, 100, 0xffff_ffff]);
            let words = vec![
                rlw(rng.chance(1, 2), *rng.pick(&[0xffff_ffffu64, 0x8000_0000, 0x0400_0000, 2]), rng.below(2)),
                rng.next(),
                rlw(rng.chance(1, 2), 0xffff_ffff, 0x7fff_ffff),
            ];
            let n = rng.below(4) as usize;
            ewah_bytes(num_bits, &words[..n.min(3)], 0)
        }
        4 => {
            // many maximal unset runs: the bit position overflows usize only after 2^26 words; a short version
            let words: Vec<u64> = (0..rng.below(6)).map(|_| rlw(false, 0xffff_ffff, 0)).collect();
            ewah_bytes(*rng.pick(&[0u32, 7, 0xffff_ffff]), &words, 0)
        }
        5 => { let n = rng.below(40) as usize; rng.bytes(n) }
        _ => {
            let mut s = seeds::ewah(rng);
            for _ in 0..1 + rng.below(2) {
                s = seeds::mutate("ewah", s, rng);
            }
            s
        }
    };
    vec![tag("ewah"), d, num(limit)]
}

fn gen_chunk(rng: &mut Rng) -> Case {
    let (mut d, toc, n) = seeds::chunk_toc(rng);
    let mut toc = toc;
    let mut n = n;
    if rng.chance(2, 3) {
        match rng.below(8) {
            0 => n += 1,
            1 => n = n.saturating_sub(1),
            2 => toc = (toc + rng.below(14) as usize).min(d.len() + 1),
            3 => {
                // an offset becomes extreme or goes backwards
                let i = toc + 4 + 12 * rng.below(n as u64 + 1) as usize;
                if i + 8 <= d.len() {
                    let v: u64 = *rng.pick(&[0, 1, d.len() as u64, d.len() as u64 + 1, u64::MAX, 1 << 32, toc as u64]);
                    d[i..i + 8].copy_from_slice(&v.to_be_bytes());
                }
            }
            4 => {
                // duplicate kind / early sentinel
                let i = toc + 12 * rng.below(n as u64 + 1) as usize;
                if i + 4 <= d.len() {
                    let k: [u8; 4] = *rng.pick(&[[0u8; 4], *b"ABCD", *b"BBCD"]);
                    d[i..i + 4].copy_from_slice(&k);
                }
            }
            5 => d.truncate(rng.below(d.len() as u64 + 1) as usize),
            6 => n = *rng.pick(&[0u32, 255, 256, 0xffff_ffff]),
            _ => d = seeds::mutate("chunk", d, rng),
        }
    }
    vec![tag("chunk"), d, num(toc), num(n)]
}

fn gen_cgraph(rng: &mut Rng) -> Case {
    let mut d = seeds::cgraph(rng);
    if rng.chance(3, 4) {
        match rng.below(8) {
            0 => {
                // header bytes
                let i = rng.below(8) as usize;
                d[i] = *rng.pick(&[0u8, 1, 2, 3, 4, 5, 6, 255]);
            }
            1 => {
                // a chunk id changes (missing / duplicate / sentinel)
                let n = d[6] as usize;
                let i = 8 + 12 * rng.below(n as u64 + 1) as usize;
                let k: [u8; 4] = *rng.pick(&[*b"OIDF", *b"OIDL", *b"CDAT", *b"EDGE", *b"BASE", *b"XXXX", [0u8; 4]]);
                d[i..i + 4].copy_from_slice(&k);
            }
            2 => {
                // an offset moves by a few bytes (size checks) or far
                let n = d[6] as usize;
                let i = 8 + 4 + 12 * rng.below(n as u64 + 1) as usize;
                let old = u64::from_be_bytes(d[i..i + 8].try_into().expect("8"));
                let v = match rng.below(6) {
                    0 => old + 1,
                    1 => old.wrapping_sub(1),
                    2 => old + 20,
                    3 => old.wrapping_sub(36),
                    4 => d.len() as u64,
                    _ => *rng.pick(&[0, d.len() as u64 + 1, u64::MAX]),
                };
                d[i..i + 8].copy_from_slice(&v.to_be_bytes());
            }
            3 => {
                // fan[255] disagrees
                let n = d[6] as usize;
                let fan = 8 + (n + 1) * 12;
                if fan + 1024 <= d.len() {
                    let v = *rng.pick(&[0u32, 1, 5, u32::MAX]);
                    d[fan + 1020..fan + 1024].copy_from_slice(&v.to_be_bytes());
                }
            }
            4 => {
                let l = d.len();
                match rng.below(3) {
                    0 => d.truncate(l - rng.below(22).min(l as u64) as usize),
                    1 => { let n = 1 + rng.below(3) as usize; d.extend(rng.bytes(n)) }
                    _ => d.truncate(rng.below(l as u64 + 1) as usize),
                }
            }
            5 => d[6] = *rng.pick(&[0u8, 1, 2, 3, 4, 5, 6, 90, 255]),
            _ => {
                for _ in 0..1 + rng.below(2) {
                    d = seeds::mutate("cgraph", d, rng);
                }
            }
        }
    }
    vec![tag("cgraph"), d]
}

fn gen_lref(rng: &mut Rng) -> Case {
    let d = match rng.below(6) {
        0 => seeds::seed("lref", rng),
        1 => {
            // hex runs of every length around 40
            let n = *rng.pick(&[0usize, 1, 39, 40, 41, 64, 80]);
            let mut v = rng.word(b"0123456789abcdef", n, n);
            if rng.chance(1, 4) && !v.is_empty() {
                let i = rng.below(v.len() as u64) as usize;
                v[i] = *rng.pick(b"gA F\n");
            }
            v.extend_from_slice(*rng.pick(&[b"" as &[u8], b"\n", b"\r\n", b"\r", b"\n\n", b" x"]));
            v
        }
        2 => {
            let mut v = rng.pick(&[b"ref: " as &[u8], b"ref:", b"ref:  ", b"ref: \n", b"Ref: ", b"ref: \r"]).to_vec();
            v.extend(rng.word(b"refs/hadmin.@{~^: -\n\r", 0, 14));
            v
        }
        3 => seeds::wild("lref", rng),
        _ => {
            let mut s = seeds::seed("lref", rng);
            for _ in 0..1 + rng.below(2) {
                s = seeds::mutate("lref", s, rng);
            }
            s
        }
    };
    vec![tag("lref"), d]
}

/// an index with a valid EOIE and an IEOT whose offsets or counts are off (the threaded reader uses them)
fn gen_index_ieot(rng: &mut Rng) -> Case {
    let mut d = seeds::index(rng);
    let mut pos = d.windows(4).position(|w| w == b"IEOT");
    for _ in 0..20 {
        if pos.is_some() {
            break;
        }
        d = seeds::index(rng);
        pos = d.windows(4).position(|w| w == b"IEOT");
    }
    if let Some(p) = pos {
        let size = u32::from_be_bytes(d[p + 4..p + 8].try_into().expect("4")) as usize;
        let rows = size.saturating_sub(4) / 8;
        if rows > 0 && p + 8 + size <= d.len() {
            let row = p + 12 + 8 * rng.below(rows as u64) as usize;
            let len = d.len() as u32;
            if rng.chance(3, 4) {
                let v = *rng.pick(&[0u32, 11, 12, 13, len, len + 1, len - 20, u32::MAX, p as u32, p as u32 + 1]);
                d[row..row + 4].copy_from_slice(&v.to_be_bytes());
            } else {
                let v = *rng.pick(&[0u32, 1, 1000, u32::MAX, 0x8000_0000]);
                d[row + 4..row + 8].copy_from_slice(&v.to_be_bytes());
            }
        }
    }
    vec![tag("fz"), tag(if rng.chance(4, 5) { "index-mt" } else { "index" }), d, rng.bytes(2)]
}

fn gen(rng: &mut Rng, n: usize) -> Vec<Case> {
    let mut out: Vec<Case> = Vec::new();
    // boundary block: every entry point on the empty input, on each of its samples, and on a few fixed shapes
    for e in entries::ENTRIES {
        out.push(vec![tag("fz"), tag(e), vec![], vec![0, 0]]);
        for _ in 0..3 {
            let s = seeds::seed(e, rng);
            out.push(fz_case(e, s, rng));
        }
    }
    for _ in 0..20 {
        out.push(gen_index_ieot(rng));
        out.push(gen_ewah(rng));
        out.push(gen_lref(rng));
        out.push(gen_chunk(rng));
        out.push(gen_cgraph(rng));
    }
    while out.len() < n {
        match rng.below(20) {
            0..=3 => out.push(gen_ewah(rng)),
            4 | 5 => out.push(gen_lref(rng)),
            6 | 7 => out.push(gen_chunk(rng)),
            8 | 9 => out.push(gen_cgraph(rng)),
            10 => out.push(gen_index_ieot(rng)),
            _ => {
                let e = *rng.pick(entries::ENTRIES);
                let d = gen_input(e, rng);
                out.push(fz_case(e, d, rng));
            }
        }
    }
    out.truncate(n.max(1));
    out
}

fn main() {
    main_with(Harness {
        gen,
        imp,
        prop,
        git: None,
        deadline: std::time::Duration::from_secs(60),
    });
}
