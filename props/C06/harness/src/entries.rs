//! The parser entry points of C06's anchors, each callable on arbitrary bytes.
//! `run(entry, data, aux)` returns `true` if the parser accepted the input (for the class histogram);
//! panics propagate to the caller (prop() catches them and reports `panic-<entry>`).
use bstr::ByteSlice;
use std::io::Read;

pub const ENTRIES: &[&str] = &[
    "obj-commit", "obj-tree", "obj-tag", "obj-blob", "obj-loose", "loosehdr", "packed", "lref", "reflog", "index",
    "index-mt", "untr", "ewah", "config", "pktline", "pktread", "refs-v1", "refs-v2", "fetch-v1", "fetch-v2", "url",
    "refspec", "revspec", "pathspec", "attrs", "ignore", "mailmap", "date", "quote", "cred", "cgraph", "midx",
    "chunk", "tagname", "refname", "sanitize",
];

struct NoopDelegate {
    answer: bool,
    calls: usize,
}
impl NoopDelegate {
    fn r(&mut self) -> Option<()> {
        self.calls += 1;
        self.answer.then_some(())
    }
}
impl gix_revision::spec::parse::delegate::Revision for NoopDelegate {
    fn find_ref(&mut self, _name: &bstr::BStr) -> Option<()> {
        self.r()
    }
    fn disambiguate_prefix(
        &mut self,
        _prefix: gix_hash::Prefix,
        _hint: Option<gix_revision::spec::parse::delegate::PrefixHint<'_>>,
    ) -> Option<()> {
        self.r()
    }
    fn reflog(&mut self, _query: gix_revision::spec::parse::delegate::ReflogLookup) -> Option<()> {
        self.r()
    }
    fn nth_checked_out_branch(&mut self, _branch_no: usize) -> Option<()> {
        self.r()
    }
    fn sibling_branch(&mut self, _kind: gix_revision::spec::parse::delegate::SiblingBranch) -> Option<()> {
        self.r()
    }
}
impl gix_revision::spec::parse::delegate::Kind for NoopDelegate {
    fn kind(&mut self, _kind: gix_revision::spec::Kind) -> Option<()> {
        self.r()
    }
}
impl gix_revision::spec::parse::delegate::Navigate for NoopDelegate {
    fn traverse(&mut self, _kind: gix_revision::spec::parse::delegate::Traversal) -> Option<()> {
        self.r()
    }
    fn peel_until(&mut self, _kind: gix_revision::spec::parse::delegate::PeelTo<'_>) -> Option<()> {
        self.r()
    }
    fn find(&mut self, _regex: &bstr::BStr, _negated: bool) -> Option<()> {
        self.r()
    }
    fn index_lookup(&mut self, _path: &bstr::BStr, _stage: u8) -> Option<()> {
        self.r()
    }
}
impl gix_revision::spec::parse::Delegate for NoopDelegate {
    fn done(&mut self) {}
}

/// a file with the given content in a private scratch directory; removed on drop
pub struct Scratch(pub std::path::PathBuf);
impl Scratch {
    pub fn new(name: &str, data: &[u8]) -> Scratch {
        use std::sync::atomic::{AtomicU64, Ordering};
        static N: AtomicU64 = AtomicU64::new(0);
        let dir = std::env::temp_dir().join(format!(
            "gixv-c06-{}-{}",
            std::process::id(),
            N.fetch_add(1, Ordering::Relaxed)
        ));
        std::fs::create_dir_all(&dir).expect("scratch dir");
        let p = dir.join(name);
        std::fs::write(&p, data).expect("scratch file");
        Scratch(p)
    }
}
impl Drop for Scratch {
    fn drop(&mut self) {
        if let Some(d) = self.0.parent() {
            let _ = std::fs::remove_dir_all(d);
        }
    }
}

fn object(kind: gix_object::Kind, d: &[u8]) -> bool {
    let r = gix_object::ObjectRef::from_bytes(kind, d);
    match kind {
        gix_object::Kind::Commit => {
            for t in gix_object::CommitRefIter::from_bytes(d) {
                if t.is_err() {
                    break;
                }
            }
        }
        gix_object::Kind::Tag => {
            for t in gix_object::TagRefIter::from_bytes(d) {
                if t.is_err() {
                    break;
                }
            }
        }
        gix_object::Kind::Tree => {
            for t in gix_object::TreeRefIter::from_bytes(d) {
                if t.is_err() {
                    break;
                }
            }
        }
        gix_object::Kind::Blob => {}
    }
    if let (Ok(o), false) = (&r, kind == gix_object::Kind::Tree) {
        // what was parsed can be written again (trees: writing asserts sortedness, which is C03's subject)
        let mut out = Vec::new();
        use gix_object::WriteTo;
        let _ = o.write_to(&mut out);
    }
    r.is_ok()
}

fn index(d: &[u8], threads: usize) -> bool {
    let opts = gix_index::decode::Options {
        thread_limit: Some(threads),
        min_extension_block_in_bytes_for_threading: 0,
        expected_checksum: None,
    };
    gix_index::State::from_bytes(d, filetime::FileTime::from_unix_time(1_700_000_000, 0), gix_hash::Kind::Sha1, opts)
        .is_ok()
}

fn pkt_reader(d: &[u8], aux: &[u8]) -> bool {
    use gix_packetline::{PacketLineRef, StreamingPeekableIter};
    let delims: &[PacketLineRef<'static>] = match aux.first().copied().unwrap_or(0) % 3 {
        0 => &[PacketLineRef::Flush],
        1 => &[PacketLineRef::Flush, PacketLineRef::Delimiter, PacketLineRef::ResponseEnd],
        _ => &[],
    };
    let mut ok = true;
    let mut rd = StreamingPeekableIter::new(d, delims, aux.get(1).copied().unwrap_or(0) & 1 == 1);
    rd.fail_on_err_lines(aux.get(1).copied().unwrap_or(0) & 2 == 2);
    let mut n = 0;
    loop {
        n += 1;
        if n > 10_000 {
            break;
        }
        if n % 3 == 0 {
            let _ = rd.peek_line();
        }
        match rd.read_line() {
            Some(Ok(Ok(_))) => {}
            Some(_) => {
                ok = false;
                break;
            }
            None => {
                if rd.stopped_at().is_some() && n < 50 {
                    rd.reset();
                    continue;
                }
                break;
            }
        }
    }
    // the side-band reader over the same bytes
    let mut rd = StreamingPeekableIter::new(d, delims, false);
    let mut progress = |_is_err: bool, _text: &[u8]| gix_packetline::read::ProgressAction::Continue;
    let mut sb = rd.as_read_with_sidebands(&mut progress);
    let mut sink = Vec::new();
    ok &= sb.read_to_end(&mut sink).is_ok();
    drop(sb);
    let mut rd = StreamingPeekableIter::new(d, delims, false);
    let mut plain = rd.as_read();
    let mut line = String::new();
    for _ in 0..1000 {
        line.clear();
        match plain.read_line_to_string(&mut line) {
            Ok(0) | Err(_) => break,
            Ok(_) => {}
        }
    }
    ok
}

fn fetch_response(d: &[u8], aux: &[u8], version: gix_transport::Protocol) -> bool {
    use gix_packetline::{PacketLineRef, StreamingPeekableIter};
    let flags = aux.first().copied().unwrap_or(0);
    let mut rd = StreamingPeekableIter::new(d, &[PacketLineRef::Flush], false);
    let mut reader = rd.as_read_without_sidebands();
    let r = gix_protocol::fetch::Response::from_line_reader(version, &mut reader, flags & 1 == 1, flags & 2 == 2);
    if let Ok(r) = &r {
        let _ = r.acknowledgements().len() + r.shallow_updates().len();
        let _ = r.has_pack();
    }
    r.is_ok()
}

fn refs_v1(d: &[u8]) -> bool {
    use gix_packetline::{PacketLineRef, StreamingPeekableIter};
    // as in a handshake: the first line carries the capabilities behind a NUL
    let mut rd = StreamingPeekableIter::new(d, &[PacketLineRef::Flush], false);
    let caps = match rd.peek_line() {
        Some(Ok(Ok(line))) => {
            let first = line.as_text().map(|t| t.as_bstr().to_owned()).or_else(|| line.as_slice().map(|s| s.as_bstr().to_owned()));
            match first {
                Some(f) => gix_transport::client::Capabilities::from_bytes(&f).ok(),
                None => None,
            }
        }
        _ => None,
    };
    let mut reader = rd.as_read_without_sidebands::<fn(bool, &[u8]) -> gix_packetline::read::ProgressAction>();
    match caps {
        Some((caps, _delim)) => {
            gix_protocol::handshake::refs::from_v1_refs_received_as_part_of_handshake_and_capabilities(
                &mut reader,
                caps.iter(),
            )
            .is_ok()
        }
        None => {
            let empty = gix_transport::client::Capabilities::default();
            gix_protocol::handshake::refs::from_v1_refs_received_as_part_of_handshake_and_capabilities(
                &mut reader,
                empty.iter(),
            )
            .is_ok()
        }
    }
}

fn refs_v2(d: &[u8]) -> bool {
    use gix_packetline::{PacketLineRef, StreamingPeekableIter};
    let mut rd = StreamingPeekableIter::new(d, &[PacketLineRef::Flush], false);
    let mut reader = rd.as_read_without_sidebands::<fn(bool, &[u8]) -> gix_packetline::read::ProgressAction>();
    gix_protocol::handshake::refs::from_v2_refs(&mut reader).is_ok()
}

pub fn ewah_run(d: &[u8], limit: u64) -> Result<(usize, usize, bool, Vec<usize>), ()> {
    let (v, rest) = gix_bitmap::ewah::decode(d).map_err(|_| ())?;
    let mut seen = Vec::new();
    let r = v.for_each_set_bit(|i| {
        seen.push(i);
        ((seen.len() as u64) < limit).then_some(())
    });
    Ok((v.num_bits(), rest.len(), r.is_some(), seen))
}

pub fn run(entry: &str, d: &[u8], aux: &[u8]) -> bool {
    match entry {
        "obj-commit" => object(gix_object::Kind::Commit, d),
        "obj-tree" => object(gix_object::Kind::Tree, d),
        "obj-tag" => object(gix_object::Kind::Tag, d),
        "obj-blob" => object(gix_object::Kind::Blob, d),
        "obj-loose" => gix_object::ObjectRef::from_loose(d).is_ok(),
        "loosehdr" => gix_object::decode::loose_header(d).is_ok(),
        "packed" => {
            let mut ok = false;
            if let Ok(it) = gix_ref::packed::Iter::new(d) {
                ok = true;
                for r in it {
                    ok &= r.is_ok();
                }
            }
            let sc = Scratch::new("packed-refs", d);
            if let Ok(buf) = gix_ref::packed::Buffer::open(sc.0.clone(), 1 << 30) {
                let name: &[u8] = if aux.is_empty() { b"refs/heads/main" } else { aux };
                if let Ok(n) = <&gix_ref::PartialNameRef>::try_from(name.as_bstr()) {
                    let _ = buf.try_find(n);
                }
                if let Ok(it) = buf.iter() {
                    for _ in it {}
                }
            }
            ok
        }
        "lref" => {
            let name: gix_ref::FullName = "refs/heads/main".try_into().expect("valid");
            gix_ref::file::loose::Reference::try_from_path(name, d).is_ok()
        }
        "reflog" => {
            let mut ok = gix_ref::file::log::LineRef::from_bytes(d).is_ok();
            for l in gix_ref::file::log::iter::forward(d) {
                ok &= l.is_ok();
            }
            let mut buf = vec![0u8; 64 + (aux.first().copied().unwrap_or(0) as usize) * 8];
            if let Ok(it) = gix_ref::file::log::iter::reverse(std::io::Cursor::new(d), &mut buf) {
                for l in it.take(10_000) {
                    if l.is_err() {
                        break;
                    }
                }
            }
            ok
        }
        "index" => index(d, 1),
        "index-mt" => index(d, 3),
        "untr" => gix_index::extension::untracked_cache::decode(d, gix_hash::Kind::Sha1).is_some(),
        "ewah" => ewah_run(d, 100_000).is_ok(),
        "config" => {
            let a = gix_config::parse::Events::from_bytes(d, None).is_ok();
            let b = gix_config::File::from_bytes_no_includes(
                d,
                gix_config::file::Metadata::default(),
                gix_config::file::init::Options::default(),
            );
            if let Ok(f) = &b {
                let _ = f.to_bstring();
                let _ = f.string("core.bare");
                let _ = f.sections().count();
            }
            a
        }
        "pktline" => {
            let mut ok = gix_packetline::decode::all_at_once(d).is_ok();
            let mut rest = d;
            for _ in 0..10_000 {
                match gix_packetline::decode::streaming(rest) {
                    Ok(gix_packetline::decode::Stream::Complete { line, bytes_consumed }) => {
                        let _ = line.as_slice();
                        let _ = line.as_text().map(|t| t.as_bstr().len());
                        let _ = line.as_error();
                        let _ = line.decode_band();
                        if bytes_consumed == 0 || bytes_consumed > rest.len() {
                            panic!("streaming() consumed {bytes_consumed} of {}", rest.len());
                        }
                        rest = &rest[bytes_consumed..];
                    }
                    Ok(gix_packetline::decode::Stream::Incomplete { .. }) => break,
                    Err(_) => {
                        ok = false;
                        break;
                    }
                }
            }
            ok
        }
        "pktread" => pkt_reader(d, aux),
        "refs-v1" => refs_v1(d),
        "refs-v2" => refs_v2(d),
        "fetch-v1" => fetch_response(d, aux, gix_transport::Protocol::V1),
        "fetch-v2" => fetch_response(d, aux, gix_transport::Protocol::V2),
        "url" => {
            let r = gix_url::parse(d.as_bstr());
            if let Ok(u) = &r {
                let _ = u.to_bstring();
                let _ = u.host_as_argument();
                let _ = u.path_argument_safe();
            }
            r.is_ok()
        }
        "refspec" => {
            let a = gix_refspec::parse(d.as_bstr(), gix_refspec::parse::Operation::Fetch);
            let b = gix_refspec::parse(d.as_bstr(), gix_refspec::parse::Operation::Push);
            if let Ok(s) = &a {
                let _ = s.to_bstring();
                let _ = s.instruction();
            }
            if let Ok(s) = &b {
                let _ = s.to_bstring();
                let _ = s.instruction();
            }
            a.is_ok() || b.is_ok()
        }
        "revspec" => {
            let mut dg = NoopDelegate {
                answer: aux.first().copied().unwrap_or(1) & 1 == 1,
                calls: 0,
            };
            gix_revision::spec::parse(d.as_bstr(), &mut dg).is_ok()
        }
        "pathspec" => {
            let r = gix_pathspec::parse(d, gix_pathspec::Defaults::default());
            if let Ok(p) = &r {
                let _ = p.to_bstring();
            }
            r.is_ok()
        }
        "attrs" => {
            let mut ok = true;
            for l in gix_attributes::parse(d) {
                match l {
                    Ok((_kind, assignments, _line)) => {
                        for a in assignments {
                            ok &= a.is_ok();
                        }
                    }
                    Err(_) => ok = false,
                }
            }
            ok
        }
        "ignore" => {
            let n = gix_ignore::parse(d).count();
            n > 0
        }
        "mailmap" => {
            let mut ok = true;
            for l in gix_mailmap::parse(d) {
                ok &= l.is_ok();
            }
            let snap = gix_mailmap::Snapshot::from_bytes(d);
            let _ = snap.entries().len();
            ok
        }
        "date" => match std::str::from_utf8(d) {
            Ok(s) => {
                let now = std::time::SystemTime::UNIX_EPOCH + std::time::Duration::from_secs(1_700_000_000);
                let a = gix_date::parse(s, Some(now)).is_ok();
                let b = gix_date::parse(s, None).is_ok();
                a || b
            }
            Err(_) => false,
        },
        "quote" => gix_quote::ansi_c::undo(d.as_bstr()).is_ok(),
        "cred" => {
            let r = gix_credentials::protocol::Context::from_bytes(d);
            if let Ok(mut c) = r {
                let _ = c.to_bstring();
                let _ = c.destructure_url_in_place(aux.first().copied().unwrap_or(0) & 1 == 1);
                true
            } else {
                false
            }
        }
        "cgraph" => {
            let sc = Scratch::new("graph-0000000000000000000000000000000000000000.graph", d);
            match gix_commitgraph::File::at(&sc.0) {
                Ok(f) => {
                    let _ = f.num_commits();
                    let _ = f.base_graph_count();
                    let _ = f.checksum();
                    true
                }
                Err(_) => false,
            }
        }
        "midx" => {
            let sc = Scratch::new("multi-pack-index", d);
            match gix_pack::multi_index::File::at(&sc.0) {
                Ok(f) => {
                    let _ = f.num_objects();
                    let _ = f.index_names().len();
                    let _ = f.checksum();
                    true
                }
                Err(_) => false,
            }
        }
        "chunk" => {
            let toc = aux.first().copied().unwrap_or(8) as usize;
            let n = aux.get(1).copied().unwrap_or(3) as u32;
            if toc > d.len() {
                return false; // callers check the file size before; `data[toc_offset..]` is theirs to guard
            }
            gix_chunk::file::Index::from_bytes(d, toc, n).is_ok()
        }
        "tagname" => gix_validate::tag::name(d.as_bstr()).is_ok(),
        "refname" => {
            let a = gix_validate::reference::name(d.as_bstr()).is_ok();
            let b = gix_validate::reference::name_partial(d.as_bstr()).is_ok();
            a || b
        }
        "sanitize" => {
            let s = gix_validate::reference::name_partial_or_sanitize(d.as_bstr());
            // "always succeeds": the result is a valid partial name
            if gix_validate::reference::name_partial(s.as_bstr()).is_err() {
                panic!("sanitized name {:?} is not valid", s);
            }
            true
        }
        _ => false,
    }
}
