//! C09 harness: pack index (v2) and multi-pack index lookups agree with a linear scan.
//!
//! Case shapes (every field hex; numbers are decimal ASCII inside a field):
//!   idx  <entries> <packhash20> <ids> <prefixes>
//!   midx <k> (<mtime> <entries>){k} <ids> <prefixes>
//!   gitpack <blob>...                       real `git pack-objects` + `git index-pack`
//! <entries>  = concatenated 32-byte records  id(20) offset(be64) crc32(be32)
//! <ids>      = concatenated 20-byte ids to look up (every entry id is looked up as well)
//! <prefixes> = concatenated 21-byte records  id(20) hexlen(1)
use gix_hash::{ObjectId, Prefix};
use gixv_common::*;
use std::path::{Path, PathBuf};
use std::sync::atomic::{AtomicBool, AtomicU64, Ordering};

#[derive(Clone, Debug, PartialEq, Eq)]
struct Ent {
    id: [u8; 20],
    ofs: u64,
    crc: u32,
}

fn parse_entries(b: &[u8]) -> Vec<Ent> {
    b.chunks_exact(32)
        .map(|c| Ent {
            id: c[..20].try_into().unwrap(),
            ofs: u64::from_be_bytes(c[20..28].try_into().unwrap()),
            crc: u32::from_be_bytes(c[28..32].try_into().unwrap()),
        })
        .collect()
}
fn enc_entries(es: &[Ent]) -> Vec<u8> {
    let mut v = Vec::new();
    for e in es {
        v.extend_from_slice(&e.id);
        v.extend_from_slice(&e.ofs.to_be_bytes());
        v.extend_from_slice(&e.crc.to_be_bytes());
    }
    v
}
fn parse_ids(b: &[u8]) -> Vec<[u8; 20]> {
    b.chunks_exact(20).map(|c| c.try_into().unwrap()).collect()
}
fn parse_prefixes(b: &[u8]) -> Vec<([u8; 20], usize)> {
    b.chunks_exact(21).map(|c| (c[..20].try_into().unwrap(), c[20] as usize)).collect()
}
fn pad20(b: &[u8]) -> [u8; 20] {
    let mut o = [0u8; 20];
    let n = b.len().min(20);
    o[..n].copy_from_slice(&b[..n]);
    o
}

static COUNTER: AtomicU64 = AtomicU64::new(0);
struct TmpDir(PathBuf);
impl TmpDir {
    fn new() -> TmpDir {
        let p = std::env::temp_dir().join(format!(
            "gixv-c09-{}-{}",
            std::process::id(),
            COUNTER.fetch_add(1, Ordering::SeqCst)
        ));
        let _ = std::fs::remove_dir_all(&p);
        std::fs::create_dir_all(&p).expect("tmp dir");
        TmpDir(p)
    }
}
impl Drop for TmpDir {
    fn drop(&mut self) {
        let _ = std::fs::remove_dir_all(&self.0);
    }
}

/// gitoxide's index writer (`index::encode::write_to`) through the `gix_verif` hook.
fn write_idx(path: &Path, es: &[Ent], pack_hash: &[u8; 20]) -> std::io::Result<()> {
    let mut out = Vec::new();
    let entries: Vec<_> = es.iter().map(|e| (ObjectId::from_bytes_or_panic(&e.id), e.ofs, e.crc)).collect();
    gix_pack::index::File::verif_write_entries_to_stream(entries, &ObjectId::from_bytes_or_panic(pack_hash), &mut out)?;
    std::fs::write(path, out)
}

fn open_idx(path: &Path) -> Result<gix_pack::index::File, String> {
    gix_pack::index::File::at(path, gix_hash::Kind::Sha1).map_err(|e| match e {
        gix_pack::index::init::Error::Io { .. } => "Io".to_string(),
        gix_pack::index::init::Error::Corrupt { .. } => "Corrupt".to_string(),
        gix_pack::index::init::Error::UnsupportedVersion { .. } => "UnsupportedVersion".to_string(),
    })
}

#[derive(Clone, Debug, PartialEq, Eq)]
enum PRes {
    Invalid,
    Res { with: char, with_idx: u32, start: u32, end: u32, without: char, without_idx: u32 },
}

trait Lookups {
    fn lookup(&self, id: &gix_hash::oid) -> Option<u32>;
    fn lookup_prefix(&self, p: Prefix, c: Option<&mut std::ops::Range<u32>>) -> Option<Result<u32, ()>>;
}
impl Lookups for gix_pack::index::File {
    fn lookup(&self, id: &gix_hash::oid) -> Option<u32> {
        gix_pack::index::File::lookup(self, id)
    }
    fn lookup_prefix(&self, p: Prefix, c: Option<&mut std::ops::Range<u32>>) -> Option<Result<u32, ()>> {
        gix_pack::index::File::lookup_prefix(self, p, c)
    }
}
impl Lookups for gix_pack::multi_index::File {
    fn lookup(&self, id: &gix_hash::oid) -> Option<u32> {
        gix_pack::multi_index::File::lookup(self, id)
    }
    fn lookup_prefix(&self, p: Prefix, c: Option<&mut std::ops::Range<u32>>) -> Option<Result<u32, ()>> {
        gix_pack::multi_index::File::lookup_prefix(self, p, c)
    }
}

fn res_char(r: Option<Result<u32, ()>>) -> (char, u32) {
    match r {
        None => ('N', 0),
        Some(Ok(i)) => ('O', i),
        Some(Err(())) => ('A', 0),
    }
}

fn do_prefix(f: &dyn Lookups, id: &[u8; 20], len: usize) -> PRes {
    let oid = ObjectId::from_bytes_or_panic(id);
    let p = match Prefix::new(&oid, len) {
        Ok(p) => p,
        Err(_) => return PRes::Invalid,
    };
    let mut r = 7u32..5u32; // must be overwritten
    let (with, with_idx) = res_char(f.lookup_prefix(p, Some(&mut r)));
    let (without, without_idx) = res_char(f.lookup_prefix(p, None));
    PRes::Res { with, with_idx, start: r.start, end: r.end, without, without_idx }
}
fn show_pres(r: &PRes) -> String {
    match r {
        PRes::Invalid => "x".into(),
        PRes::Res { with, with_idx, start, end, without, without_idx } => {
            let a = if *with == 'O' { format!("O{with_idx}") } else { with.to_string() };
            let b = if *without == 'O' { format!("O{without_idx}") } else { without.to_string() };
            format!("{a}:{start}..{end}:{b}")
        }
    }
}

fn all_lookup_ids(packs: &[Vec<Ent>], extra: &[[u8; 20]]) -> Vec<[u8; 20]> {
    let mut v: Vec<[u8; 20]> = packs.iter().flat_map(|p| p.iter().map(|e| e.id)).collect();
    v.extend_from_slice(extra);
    v
}

struct IdxCase {
    entries: Vec<Ent>,
    pack_hash: [u8; 20],
    ids: Vec<[u8; 20]>,
    prefixes: Vec<([u8; 20], usize)>,
}
fn parse_idx_case(c: &Case) -> IdxCase {
    IdxCase {
        entries: parse_entries(f_str(c, 1)),
        pack_hash: pad20(f_str(c, 2)),
        ids: parse_ids(f_str(c, 3)),
        prefixes: parse_prefixes(f_str(c, 4)),
    }
}
struct MidxCase {
    packs: Vec<(u64, Vec<Ent>)>,
    ids: Vec<[u8; 20]>,
    prefixes: Vec<([u8; 20], usize)>,
}
fn parse_midx_case(c: &Case) -> MidxCase {
    let k = (f_u64(c, 1) as usize).min(64);
    let mut packs = Vec::new();
    for i in 0..k {
        packs.push((f_u64(c, 2 + 2 * i), parse_entries(f_str(c, 3 + 2 * i))));
    }
    MidxCase { packs, ids: parse_ids(f_str(c, 2 + 2 * k)), prefixes: parse_prefixes(f_str(c, 3 + 2 * k)) }
}

/// Observations of an opened pack index: (file bytes without the trailing index checksum,
/// lookup results `Some((index, offset, crc))`, prefix results)
struct IdxObs {
    body: Vec<u8>,
    num_objects: u32,
    lookups: Vec<Option<(u32, u64, u32)>>,
    oids_at: Vec<Option<[u8; 20]>>,
    prefixes: Vec<PRes>,
    iter: Vec<Ent>,
}
fn observe_idx(ic: &IdxCase) -> Result<IdxObs, String> {
    let dir = TmpDir::new();
    let path = dir.0.join("p.idx");
    write_idx(&path, &ic.entries, &ic.pack_hash).map_err(|_| "WriteIo".to_string())?;
    let data = std::fs::read(&path).map_err(|_| "Io".to_string())?;
    let f = open_idx(&path)?;
    let mut lookups = Vec::new();
    let mut oids_at = Vec::new();
    for id in all_lookup_ids(std::slice::from_ref(&ic.entries), &ic.ids) {
        let oid = ObjectId::from_bytes_or_panic(&id);
        match f.lookup(oid) {
            Some(i) => {
                lookups.push(Some((i, f.pack_offset_at_index(i), f.crc32_at_index(i).unwrap_or(0))));
                oids_at.push(Some(pad20(f.oid_at_index(i).as_bytes())));
            }
            None => {
                lookups.push(None);
                oids_at.push(None);
            }
        }
    }
    let prefixes = ic.prefixes.iter().map(|(id, len)| do_prefix(&f, id, *len)).collect();
    let iter = f
        .iter()
        .map(|e| Ent { id: pad20(e.oid.as_bytes()), ofs: e.pack_offset, crc: e.crc32.unwrap_or(0) })
        .collect();
    let n = data.len().saturating_sub(20);
    Ok(IdxObs { body: data[..n].to_vec(), num_objects: f.num_objects(), lookups, oids_at, prefixes, iter })
}

struct MidxObs {
    body: Vec<u8>,
    num_objects: u32,
    num_indices: u32,
    lookups: Vec<Option<(u32, u32, u64)>>, // index, pack id, offset
    oids_at: Vec<Option<[u8; 20]>>,
    prefixes: Vec<PRes>,
    iter: Vec<([u8; 20], u32, u64)>,
}
fn observe_midx(mc: &MidxCase) -> Result<MidxObs, String> {
    let dir = TmpDir::new();
    let mut paths = Vec::new();
    for (i, (mtime, es)) in mc.packs.iter().enumerate() {
        let path = dir.0.join(format!("p{i:02}.idx"));
        // the pack hash is not property relevant here
        write_idx(&path, es, &[i as u8; 20]).map_err(|_| "WriteIo".to_string())?;
        let fh = std::fs::OpenOptions::new().write(true).open(&path).map_err(|_| "Io".to_string())?;
        fh.set_modified(std::time::UNIX_EPOCH + std::time::Duration::from_secs(*mtime))
            .map_err(|_| "Mtime".to_string())?;
        drop(fh);
        paths.push(path);
    }
    // hand the paths over in reverse: the writer sorts them
    paths.reverse();
    let mpath = dir.0.join("multi-pack-index");
    let mut out = Vec::new();
    gix_pack::multi_index::File::write_from_index_paths(
        paths,
        &mut out,
        &mut gix_features::progress::Discard,
        &AtomicBool::new(false),
        gix_pack::multi_index::write::Options { object_hash: gix_hash::Kind::Sha1 },
    )
    .map_err(|e| match e {
        gix_pack::multi_index::write::Error::Io(_) => "WriteIo".to_string(),
        gix_pack::multi_index::write::Error::Interrupted => "Interrupted".to_string(),
        gix_pack::multi_index::write::Error::OpenIndex(_) => "OpenIndex".to_string(),
    })?;
    std::fs::write(&mpath, &out).map_err(|_| "Io".to_string())?;
    let f = gix_pack::multi_index::File::at(&mpath).map_err(|e| format!("Open {e:?}"))?;
    let packs: Vec<Vec<Ent>> = mc.packs.iter().map(|p| p.1.clone()).collect();
    let mut lookups = Vec::new();
    let mut oids_at = Vec::new();
    for id in all_lookup_ids(&packs, &mc.ids) {
        let oid = ObjectId::from_bytes_or_panic(&id);
        match f.lookup(oid) {
            Some(i) => {
                let (pid, ofs) = f.pack_id_and_pack_offset_at_index(i);
                lookups.push(Some((i, pid, ofs)));
                oids_at.push(Some(pad20(f.oid_at_index(i).as_bytes())));
            }
            None => {
                lookups.push(None);
                oids_at.push(None);
            }
        }
    }
    let prefixes = mc.prefixes.iter().map(|(id, len)| do_prefix(&f, id, *len)).collect();
    let iter = f.iter().map(|e| (pad20(e.oid.as_bytes()), e.pack_index, e.pack_offset)).collect();
    let n = out.len().saturating_sub(20);
    Ok(MidxObs {
        body: out[..n].to_vec(),
        num_objects: f.num_objects(),
        num_indices: f.num_indices(),
        lookups,
        oids_at,
        prefixes,
        iter,
    })
}

fn join<T>(v: &[T], f: impl Fn(&T) -> String) -> String {
    if v.is_empty() {
        return "-".into();
    }
    v.iter().map(f).collect::<Vec<_>>().join(",")
}

// ---------------------------------------------------------------------------------------------
// real git: pack-objects + index-pack
// ---------------------------------------------------------------------------------------------
fn git(dir: &Path, args: &[&str], stdin: &[u8]) -> Result<Vec<u8>, String> {
    use std::io::Write;
    use std::process::{Command, Stdio};
    let mut ch = Command::new("git")
        .args(args)
        .current_dir(dir)
        .env("GIT_CONFIG_NOSYSTEM", "1")
        .env("HOME", dir)
        .env("GIT_DIR", dir.join("r.git"))
        .stdin(Stdio::piped())
        .stdout(Stdio::piped())
        .stderr(Stdio::null())
        .spawn()
        .map_err(|e| format!("spawn {e}"))?;
    ch.stdin.take().unwrap().write_all(stdin).map_err(|e| format!("stdin {e}"))?;
    let o = ch.wait_with_output().map_err(|e| format!("wait {e}"))?;
    if !o.status.success() {
        return Err(format!("git {:?} failed", args));
    }
    Ok(o.stdout)
}

/// (git-written idx bytes, entries read back with gix, pack hash)
fn git_pack(blobs: &[Vec<u8>]) -> Result<(TmpDir, PathBuf), String> {
    let dir = TmpDir::new();
    let gd = dir.0.join("r.git");
    std::fs::create_dir_all(gd.join("objects")).map_err(|e| e.to_string())?;
    std::fs::create_dir_all(gd.join("refs")).map_err(|e| e.to_string())?;
    std::fs::write(gd.join("HEAD"), "ref: refs/heads/main\n").map_err(|e| e.to_string())?;
    let mut ids = Vec::new();
    for b in blobs {
        let o = git(&dir.0, &["hash-object", "-w", "--stdin"], b)?;
        ids.extend_from_slice(&o);
    }
    let o = git(&dir.0, &["pack-objects", "-q", "--index-version=2", "pk"], &ids)?;
    let name = String::from_utf8_lossy(&o).trim().to_string();
    // index-pack again, from the pack only, to a separate file
    let idx = dir.0.join("git.idx");
    git(
        &dir.0,
        &["index-pack", "--index-version=2", "-o", idx.to_str().unwrap(), &format!("pk-{name}.pack")],
        b"",
    )?;
    Ok((dir, idx))
}

fn gitpack_obs(c: &Case) -> Result<String, String> {
    let blobs: Vec<Vec<u8>> = c[1..].to_vec();
    let (dir, idx) = git_pack(&blobs)?;
    let git_bytes = std::fs::read(&idx).map_err(|e| e.to_string())?;
    let f = open_idx(&idx)?;
    let entries: Vec<Ent> =
        f.iter().map(|e| Ent { id: pad20(e.oid.as_bytes()), ofs: e.pack_offset, crc: e.crc32.unwrap_or(0) }).collect();
    let n = git_bytes.len();
    let pack_hash = pad20(&git_bytes[n - 40..n - 20]);
    // rewrite through gitoxide's writer, entries handed over in pack-offset order
    let mut by_ofs = entries.clone();
    by_ofs.sort_by_key(|e| e.ofs);
    let gix_idx = dir.0.join("gix.idx");
    write_idx(&gix_idx, &by_ofs, &pack_hash).map_err(|e| e.to_string())?;
    let gix_bytes = std::fs::read(&gix_idx).map_err(|e| e.to_string())?;
    if gix_bytes != git_bytes {
        return Err("index written by gitoxide differs from git index-pack's".into());
    }
    // lookups on the git-written file against a linear scan
    let mut distinct = blobs.clone();
    distinct.sort();
    distinct.dedup();
    if entries.len() != distinct.len() {
        return Err(format!("{} entries for {} distinct blobs", entries.len(), distinct.len()));
    }
    for (i, e) in entries.iter().enumerate() {
        let oid = ObjectId::from_bytes_or_panic(&e.id);
        if f.lookup(oid) != Some(i as u32) {
            return Err(format!("lookup of entry {i} failed"));
        }
        for len in [4usize, 7, 40] {
            let r = do_prefix(&f, &e.id, len);
            let want = scan_prefix(&entries.iter().map(|e| e.id).collect::<Vec<_>>(), &e.id, len);
            if r != want {
                return Err(format!("prefix {len} of entry {i}: {r:?} want {want:?}"));
            }
        }
        let mut other = e.id;
        other[19] ^= 1;
        if !entries.iter().any(|x| x.id == other) && f.lookup(ObjectId::from_bytes_or_panic(&other)).is_some() {
            return Err("absent id found".into());
        }
    }
    Ok(format!("gitpack same n={}", entries.len()))
}

// ---------------------------------------------------------------------------------------------
// impl: the transcript
// ---------------------------------------------------------------------------------------------
fn imp(c: &Case) -> String {
    match f_str(c, 0) {
        b"idx" => match observe_idx(&parse_idx_case(c)) {
            Err(e) => format!("err {e}"),
            Ok(o) => format!(
                "ok n={} L={} P={} F={}",
                o.num_objects,
                join(&o.lookups, |l| match l {
                    Some((i, ofs, crc)) => format!("{i}/{ofs}/{crc}"),
                    None => "n".into(),
                }),
                join(&o.prefixes, show_pres),
                hexs(&o.body)
            ),
        },
        b"midx" => match observe_midx(&parse_midx_case(c)) {
            Err(e) => format!("err {e}"),
            Ok(o) => format!(
                "ok n={} k={} L={} P={} F={}",
                o.num_objects,
                o.num_indices,
                join(&o.lookups, |l| match l {
                    Some((i, pid, ofs)) => format!("{i}/{pid}/{ofs}"),
                    None => "n".into(),
                }),
                join(&o.prefixes, show_pres),
                hexs(&o.body)
            ),
        },
        // the model cannot compute SHA-1: it says what must come out
        b"gitpack" => match gitpack_obs(c) {
            Ok(_) => "gitpack same".into(),
            Err(e) => format!("gitpack FAILED {e}"),
        },
        _ => "?".into(),
    }
}

// ---------------------------------------------------------------------------------------------
// prop: the property itself with a linear scan as oracle
// ---------------------------------------------------------------------------------------------
fn hex_of(id: &[u8; 20]) -> String {
    hexs(id)
}

/// stable insertion sort by id (what a sorted index must contain, duplicates in input order)
fn sorted_by_id(es: &[Ent]) -> Vec<Ent> {
    let mut v: Vec<Ent> = Vec::new();
    for e in es {
        let mut i = v.len();
        while i > 0 && v[i - 1].id > e.id {
            i -= 1;
        }
        v.insert(i, e.clone());
    }
    v
}

/// linear scan for a prefix given as the first `len` hex digits of `id`
fn scan_prefix(ids: &[[u8; 20]], id: &[u8; 20], len: usize) -> PRes {
    if !(4..=40).contains(&len) {
        return PRes::Invalid;
    }
    let want = &hex_of(id)[..len];
    let m: Vec<u32> =
        ids.iter().enumerate().filter(|(_, x)| hex_of(x).starts_with(want)).map(|(i, _)| i as u32).collect();
    match m.len() {
        0 => PRes::Res { with: 'N', with_idx: 0, start: 0, end: 0, without: 'N', without_idx: 0 },
        1 => PRes::Res { with: 'O', with_idx: m[0], start: m[0], end: m[0] + 1, without: 'O', without_idx: m[0] },
        _ => PRes::Res {
            with: 'A',
            with_idx: 0,
            start: m[0],
            end: m[m.len() - 1] + 1,
            without: 'A',
            without_idx: 0,
        },
    }
}

fn prop_idx(c: &Case) -> Verdict {
    let ic = parse_idx_case(c);
    let o = match observe_idx(&ic) {
        Ok(o) => o,
        Err(e) => return Verdict::fail("idx-unreadable", e),
    };
    let sorted = sorted_by_id(&ic.entries);
    let n = sorted.len();
    if o.num_objects as usize != n {
        return Verdict::fail("idx-count", format!("{} != {}", o.num_objects, n));
    }
    if o.iter != sorted {
        return Verdict::fail("idx-iter", "iteration does not yield the sorted entries");
    }
    // fan-out table, read from the file bytes
    for b in 0..256usize {
        let v = u32::from_be_bytes(o.body[8 + 4 * b..12 + 4 * b].try_into().unwrap());
        let want = sorted.iter().filter(|e| e.id[0] as usize <= b).count() as u32;
        if v != want {
            return Verdict::fail("idx-fanout", format!("fan[{b}]={v} want {want}"));
        }
    }
    let all = all_lookup_ids(std::slice::from_ref(&ic.entries), &ic.ids);
    let mut large = false;
    for (k, id) in all.iter().enumerate() {
        let pos: Vec<usize> = (0..n).filter(|i| &sorted[*i].id == id).collect();
        match o.lookups[k] {
            None => {
                if !pos.is_empty() {
                    return Verdict::fail("idx-lookup-missed", hex_of(id));
                }
            }
            Some((i, ofs, crc)) => {
                if !pos.contains(&(i as usize)) {
                    return Verdict::fail("idx-lookup-wrong-index", format!("{} -> {i}", hex_of(id)));
                }
                let e = &sorted[i as usize];
                if o.oids_at[k] != Some(*id) {
                    return Verdict::fail("idx-oid-at-index", hex_of(id));
                }
                if ofs != e.ofs {
                    return Verdict::fail("idx-offset", format!("{} -> {ofs} want {}", hex_of(id), e.ofs));
                }
                if crc != e.crc {
                    return Verdict::fail("idx-crc", format!("{} -> {crc} want {}", hex_of(id), e.crc));
                }
                large |= ofs > 0x7fff_ffff;
            }
        }
    }
    let ids: Vec<[u8; 20]> = sorted.iter().map(|e| e.id).collect();
    for (k, (id, len)) in ic.prefixes.iter().enumerate() {
        let want = scan_prefix(&ids, id, *len);
        if o.prefixes[k] != want {
            return Verdict::fail(
                "idx-prefix",
                format!("{}/{len}: {} want {}", hex_of(id), show_pres(&o.prefixes[k]), show_pres(&want)),
            );
        }
    }
    Verdict::ok(n > 0, if large { "idx-large-offsets" } else if n == 0 { "idx-empty" } else { "idx" })
}

fn prop_midx(c: &Case) -> Verdict {
    let mc = parse_midx_case(c);
    let o = match observe_midx(&mc) {
        Ok(o) => o,
        Err(e) => return Verdict::fail("midx-unreadable", e),
    };
    if o.num_indices as usize != mc.packs.len() {
        return Verdict::fail("midx-num-indices", "");
    }
    // expected content by linear scans: for each distinct id the copy in the pack with the newest
    // mtime, then the lowest pack id; inside one pack the first copy in (stable) id order
    let mut expect: Vec<([u8; 20], u32, u64)> = Vec::new();
    for (pi, (_, es)) in mc.packs.iter().enumerate() {
        for e in sorted_by_id(es) {
            if expect.iter().any(|x| x.0 == e.id) {
                continue;
            }
            let mut best: Option<(u64, u32, u64)> = None; // mtime, pack, offset
            for (pj, (mt, es2)) in mc.packs.iter().enumerate() {
                if let Some(e2) = sorted_by_id(es2).iter().find(|x| x.id == e.id) {
                    let better = match best {
                        None => true,
                        Some((bmt, _, _)) => *mt > bmt,
                    };
                    if better {
                        best = Some((*mt, pj as u32, e2.ofs));
                    }
                }
            }
            let (_, p, ofs) = best.unwrap();
            let _ = pi;
            expect.push((e.id, p, ofs));
        }
    }
    // sort expected by id
    let mut sorted: Vec<([u8; 20], u32, u64)> = Vec::new();
    for e in expect {
        let mut i = sorted.len();
        while i > 0 && sorted[i - 1].0 > e.0 {
            i -= 1;
        }
        sorted.insert(i, e);
    }
    let n = sorted.len();
    if o.num_objects as usize != n {
        return Verdict::fail("midx-count", format!("{} != {}", o.num_objects, n));
    }
    if o.iter != sorted {
        return Verdict::fail("midx-iter", "iteration does not yield the expected entries");
    }
    let packs: Vec<Vec<Ent>> = mc.packs.iter().map(|p| p.1.clone()).collect();
    let all = all_lookup_ids(&packs, &mc.ids);
    let mut large = false;
    for (k, id) in all.iter().enumerate() {
        let pos = (0..n).find(|i| &sorted[*i].0 == id);
        match (o.lookups[k], pos) {
            (None, None) => {}
            (None, Some(_)) => return Verdict::fail("midx-lookup-missed", hex_of(id)),
            (Some(_), None) => return Verdict::fail("midx-lookup-phantom", hex_of(id)),
            (Some((i, pid, ofs)), Some(w)) => {
                if i as usize != w {
                    return Verdict::fail("midx-lookup-wrong-index", format!("{} -> {i} want {w}", hex_of(id)));
                }
                if o.oids_at[k] != Some(*id) {
                    return Verdict::fail("midx-oid-at-index", hex_of(id));
                }
                if pid != sorted[w].1 {
                    return Verdict::fail("midx-pack-id", format!("{} -> {pid} want {}", hex_of(id), sorted[w].1));
                }
                if ofs != sorted[w].2 {
                    return Verdict::fail("midx-offset", format!("{} -> {ofs} want {}", hex_of(id), sorted[w].2));
                }
                large |= ofs > 0x7fff_ffff;
            }
        }
    }
    let ids: Vec<[u8; 20]> = sorted.iter().map(|e| e.0).collect();
    for (k, (id, len)) in mc.prefixes.iter().enumerate() {
        let want = scan_prefix(&ids, id, *len);
        if o.prefixes[k] != want {
            return Verdict::fail(
                "midx-prefix",
                format!("{}/{len}: {} want {}", hex_of(id), show_pres(&o.prefixes[k]), show_pres(&want)),
            );
        }
    }
    Verdict::ok(n > 0, if large { "midx-large-offsets" } else if n == 0 { "midx-empty" } else { "midx" })
}

fn prop(c: &Case) -> Verdict {
    match f_str(c, 0) {
        b"idx" => prop_idx(c),
        b"midx" => prop_midx(c),
        b"gitpack" => match gitpack_obs(c) {
            Ok(_) => Verdict::ok(true, "gitpack"),
            Err(e) => Verdict::fail("gitpack", e),
        },
        _ => Verdict::ok(false, "?"),
    }
}

// ---------------------------------------------------------------------------------------------
// git oracle: `git show-index` reads the index gitoxide wrote
// ---------------------------------------------------------------------------------------------
fn git_oracle(c: &Case) -> String {
    if f_str(c, 0) != b"idx" {
        return "-".into();
    }
    let ic = parse_idx_case(c);
    let dir = TmpDir::new();
    let path = dir.0.join("p.idx");
    if write_idx(&path, &ic.entries, &ic.pack_hash).is_err() {
        return "-".into();
    }
    let data = match std::fs::read(&path) {
        Ok(d) => d,
        Err(_) => return "-".into(),
    };
    match git(&dir.0, &["show-index"], &data) {
        Ok(out) => {
            // lines: "<offset> <hex id> (<crc hex>)"
            let text = String::from_utf8_lossy(&out);
            let items: Vec<String> = text
                .lines()
                .map(|l| {
                    let mut it = l.split(' ');
                    let ofs = it.next().unwrap_or("");
                    let id = it.next().unwrap_or("");
                    let crc = it.next().unwrap_or("").trim_matches(|c| c == '(' || c == ')');
                    format!("{ofs}/{id}/{}", u32::from_str_radix(crc, 16).map(|v| v.to_string()).unwrap_or("?".into()))
                })
                .collect();
            format!("show-index {}", if items.is_empty() { "-".to_string() } else { items.join(",") })
        }
        Err(e) => format!("show-index FAILED {e}"),
    }
}

// ---------------------------------------------------------------------------------------------
// gen
// ---------------------------------------------------------------------------------------------
const OFFSETS: &[u64] = &[
    0,
    12,
    0x7fff_fffe,
    0x7fff_ffff,
    0x8000_0000,
    0x8000_0001,
    0xffff_fffe,
    0xffff_ffff,
    0x1_0000_0000,
    0x1_0000_0001,
    0x7fff_ffff_ffff_ffff,
    0x8000_0000_0000_0000,
    0xffff_ffff_ffff_ffff,
];

fn gen_offset(rng: &mut Rng, style: u64) -> u64 {
    match style {
        0 => rng.below(1 << 20),                      // all small
        1 => *rng.pick(OFFSETS),                      // all boundary values
        2 => {
            if rng.chance(1, 3) {
                *rng.pick(OFFSETS)
            } else {
                rng.below(1 << 31)
            }
        }
        3 => 0x7fff_fff0 + rng.below(0x20),           // around 2^31
        4 => 0xffff_fff0 + rng.below(0x20),           // around 2^32
        _ => rng.next() >> rng.below(64),
    }
}

/// id sets: 0 random, 1 one bucket, 2 buckets 0x00 and 0xff, 3 long shared prefix, 4 tiny alphabet
fn gen_ids(rng: &mut Rng, style: u64, n: usize) -> Vec<[u8; 20]> {
    let base = pad20(&rng.bytes(20));
    let share = rng.range(1, 19) as usize;
    let bucket = *rng.pick(&[0x00u8, 0x01, 0x7f, 0x80, 0xfe, 0xff]);
    (0..n)
        .map(|_| {
            let mut id = pad20(&rng.bytes(20));
            match style {
                1 => id[0] = bucket,
                2 => id[0] = if rng.chance(1, 2) { 0x00 } else { 0xff },
                3 => {
                    id[..share].copy_from_slice(&base[..share]);
                    // differ in one nibble only, often
                    if rng.chance(1, 2) {
                        id = base;
                        let k = rng.range(share as i64, 19) as usize;
                        id[k] = rng.next() as u8;
                    }
                }
                4 => {
                    for b in id.iter_mut() {
                        *b = *rng.pick(&[0x00u8, 0x01, 0x10, 0xff]);
                    }
                    for b in id.iter_mut().skip(3) {
                        *b = 0;
                    }
                    id[19] = *rng.pick(&[0u8, 1]);
                }
                5 => {
                    // neighbouring buckets
                    id[0] = bucket.wrapping_add(rng.below(3) as u8).wrapping_sub(1);
                }
                _ => {}
            }
            id
        })
        .collect()
}

fn gen_entries(rng: &mut Rng, n: usize) -> Vec<Ent> {
    let style = rng.below(7);
    let ids = gen_ids(rng, style, n);
    let ostyle = rng.below(6);
    let dup = rng.chance(1, 10);
    let mut es: Vec<Ent> = ids
        .into_iter()
        .map(|id| Ent { id, ofs: gen_offset(rng, ostyle), crc: if rng.chance(1, 8) { *rng.pick(&[0, 1, 0x7fff_ffff, 0x8000_0000, 0xffff_ffff]) } else { rng.next() as u32 } })
        .collect();
    if dup && !es.is_empty() {
        let k = rng.below(es.len() as u64) as usize;
        let mut e = es[k].clone();
        e.ofs = gen_offset(rng, ostyle);
        e.crc = rng.next() as u32;
        es.push(e);
    }
    es
}

fn gen_queries(rng: &mut Rng, present: &[[u8; 20]]) -> (Vec<u8>, Vec<u8>) {
    let mut ids = Vec::new();
    let mut prefixes = Vec::new();
    let nq = rng.range(0, 6);
    for _ in 0..nq {
        let id = if present.is_empty() || rng.chance(1, 5) {
            pad20(&rng.bytes(20))
        } else {
            // near miss of a present id
            let mut id = *rng.pick(present);
            match rng.below(4) {
                0 => id[19] = id[19].wrapping_add(1),
                1 => id[19] = id[19].wrapping_sub(1),
                2 => {
                    let k = rng.below(20) as usize;
                    id[k] ^= 1 << rng.below(8);
                }
                _ => id[0] = id[0].wrapping_add(*rng.pick(&[1u8, 255])),
            }
            id
        };
        ids.extend_from_slice(&id);
    }
    let np = rng.range(1, 8);
    for _ in 0..np {
        let mut id = if present.is_empty() || rng.chance(1, 6) { pad20(&rng.bytes(20)) } else { *rng.pick(present) };
        let len = if rng.chance(1, 12) { rng.range(0, 44) as usize } else { rng.range(4, 40) as usize };
        if rng.chance(1, 3) {
            // disturb the nibble just inside / outside the prefix
            let k = if rng.chance(1, 2) { len } else { len.wrapping_sub(1) };
            if k < 40 {
                id[k / 2] ^= if k % 2 == 0 { 0x10 } else { 0x01 };
            }
        }
        prefixes.extend_from_slice(&id);
        prefixes.push(len as u8);
    }
    (ids, prefixes)
}

fn idx_case(es: &[Ent], pack_hash: &[u8], ids: Vec<u8>, prefixes: Vec<u8>) -> Case {
    vec![tag("idx"), enc_entries(es), pack_hash.to_vec(), ids, prefixes]
}

fn gen(rng: &mut Rng, n: usize) -> Vec<Case> {
    let mut out: Vec<Case> = Vec::new();
    // ---- boundary block
    // empty index
    out.push(idx_case(&[], &[0x11; 20], rng.bytes(20), {
        let mut p = rng.bytes(20);
        p.push(8);
        p
    }));
    // single entries in the first / last bucket, every boundary offset
    for (k, ofs) in OFFSETS.iter().enumerate() {
        let mut id = pad20(&rng.bytes(20));
        id[0] = if k % 2 == 0 { 0x00 } else { 0xff };
        let e = Ent { id, ofs: *ofs, crc: k as u32 };
        let mut p = id.to_vec();
        p.push(4 + (k as u8 * 3) % 37);
        out.push(idx_case(&[e], &rng.bytes(20), vec![], p));
    }
    // all boundary offsets in one index: several entries in the 64-bit table
    {
        let es: Vec<Ent> = OFFSETS
            .iter()
            .enumerate()
            .map(|(k, o)| Ent { id: pad20(&rng.bytes(20)), ofs: *o, crc: 0xffff_ffff - k as u32 })
            .collect();
        let present: Vec<[u8; 20]> = es.iter().map(|e| e.id).collect();
        let (ids, p) = gen_queries(rng, &present);
        out.push(idx_case(&es, &rng.bytes(20), ids, p));
    }
    // every prefix length against ids sharing a long prefix
    {
        let base = pad20(&rng.bytes(20));
        let mut es = Vec::new();
        for k in [19usize, 19, 10, 3] {
            let mut id = base;
            id[k] ^= 0x01;
            es.push(Ent { id, ofs: 100 + k as u64, crc: k as u32 });
            let mut id = base;
            id[k] ^= 0x10;
            es.push(Ent { id, ofs: 200 + k as u64, crc: k as u32 });
        }
        es.push(Ent { id: base, ofs: 1, crc: 1 });
        let mut p = Vec::new();
        for len in 0..=41u8 {
            p.extend_from_slice(&base);
            p.push(len);
        }
        out.push(idx_case(&es, &rng.bytes(20), vec![], p));
        // the same through a multi-pack index, split over two packs
        let (a, b) = es.split_at(4);
        let mut p2 = Vec::new();
        for len in 4..=40u8 {
            p2.extend_from_slice(&base);
            p2.push(len);
        }
        out.push(vec![tag("midx"), num(2), num(5), enc_entries(a), num(6), enc_entries(b), vec![], p2]);
    }
    // multi-pack index boundary: empty index inside, offsets on both sides of 2^31 without any above 2^32
    // (no large-offset chunk), and with one above (large-offset chunk present)
    for top in [0xffff_ffffu64, 0x1_0000_0000] {
        let es: Vec<Ent> = [0u64, 0x7fff_ffff, 0x8000_0000, 0xffff_fffe, top]
            .iter()
            .map(|o| Ent { id: pad20(&rng.bytes(20)), ofs: *o, crc: 0 })
            .collect();
        let one = vec![Ent { id: pad20(&rng.bytes(20)), ofs: 0x8000_0001, crc: 0 }];
        out.push(vec![tag("midx"), num(2), num(1), enc_entries(&es), num(1), enc_entries(&one), vec![], vec![]]);
    }
    // real git packs
    for k in 0..3usize {
        let mut c = vec![tag("gitpack")];
        for _ in 0..(1 + k * 7) {
            c.push(rng.word(b"ab\n", 0, 40));
        }
        out.push(c);
    }

    // ---- random mixture
    while out.len() < n {
        let r = rng.below(100);
        if r < 60 {
            let n_e = match rng.below(10) {
                0 => rng.range(0, 2) as usize,
                1..=6 => rng.range(2, 12) as usize,
                _ => rng.range(12, 40) as usize,
            };
            let es = gen_entries(rng, n_e);
            let present: Vec<[u8; 20]> = es.iter().map(|e| e.id).collect();
            let (ids, p) = gen_queries(rng, &present);
            out.push(idx_case(&es, &rng.bytes(20), ids, p));
        } else if r < 99 {
            let k = rng.range(1, 4) as usize;
            let mut c = vec![tag("midx"), num(k)];
            let mut present: Vec<[u8; 20]> = Vec::new();
            let same_mtime = rng.chance(1, 3);
            for _ in 0..k {
                let n_e = if rng.chance(1, 8) { 0 } else { rng.range(1, 10) as usize };
                let mut es = gen_entries(rng, n_e);
                // objects shared between packs
                if !present.is_empty() && rng.chance(1, 2) {
                    for _ in 0..rng.range(1, 3) {
                        let id = *rng.pick(&present);
                        es.push(Ent { id, ofs: gen_offset(rng, 2), crc: 0 });
                    }
                }
                present.extend(es.iter().map(|e| e.id));
                c.push(num(if same_mtime { 1000 } else { 1000 + rng.below(3) }));
                c.push(enc_entries(&es));
            }
            let (ids, p) = gen_queries(rng, &present);
            c.push(ids);
            c.push(p);
            out.push(c);
        } else if rng.chance(1, 4) {
            let mut c = vec![tag("gitpack")];
            for _ in 0..rng.range(1, 12) {
                c.push(rng.word(b"ab\n", 0, 12));
            }
            out.push(c);
        }
    }
    out.truncate(n.max(1));
    out
}

fn main() {
    main_with(Harness { gen, imp, prop, git: Some(git_oracle), deadline: std::time::Duration::from_secs(20) });
}
