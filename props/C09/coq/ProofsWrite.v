(* C09 — the writer side: sorting by id, the 32/64-bit offset split and its inverse, big-endian
   integers.  The offset theorems are at the level of the two offset TABLES (lists of numbers);
   the byte slicing that locates a table entry in the file is covered by the correspondence run. *)
From Coq Require Import Lia ZifyBool ZifyNat ZifyN Sorted Permutation.
From GixV.Base Require Import Bytes BytesFacts Outcome.
From GixV.C09 Require Import Model ProofsBisect ProofsOrder ProofsFanout.
Ltac Zify.zify_post_hook ::= Z.div_mod_to_equations.
Local Open Scope N_scope.

(* ---- sort_by ------------------------------------------------------------------------------------------ *)
Lemma insert_perm {A} (cmp : A -> A -> comparison) x : forall l, Permutation (x :: l) (insert_by cmp x l).
Proof.
  induction l as [|y r IH]; cbn [insert_by]; [apply Permutation_refl|].
  destruct (cmp x y); try apply Permutation_refl.
  eapply Permutation_trans; [apply perm_swap|]. apply perm_skip. exact IH.
Qed.

Lemma sort_perm {A} (cmp : A -> A -> comparison) : forall l, Permutation l (sort_by cmp l).
Proof.
  induction l as [|x l IH]; cbn; [constructor|].
  eapply Permutation_trans; [apply perm_skip; exact IH|]. apply insert_perm.
Qed.

Lemma insert_sorted x : forall l, sorted_ids (map eid l) -> sorted_ids (map eid (insert_by cmp_entry_id x l)).
Proof.
  unfold sorted_ids. induction l as [|y r IH]; intros Hs; cbn [insert_by map].
  - constructor; constructor.
  - inversion Hs as [|? ? Hr Hy]; subst.
    unfold cmp_entry_id at 1. destruct (bytes_cmp (eid x) (eid y)) eqn:E.
    + cbn [map]. constructor; [exact Hs|]. constructor.
      * unfold ble. rewrite E. discriminate.
      * apply bytes_cmp_eq_iff in E. rewrite E. exact Hy.
    + cbn [map]. constructor; [exact Hs|]. constructor.
      * unfold ble. rewrite E. discriminate.
      * eapply Forall_impl; [|exact Hy]. cbv beta. intros a Ha.
        eapply ble_trans; [|exact Ha]. unfold ble. rewrite E. discriminate.
    + cbn [map]. constructor; [apply IH; exact Hr|].
      apply Forall_forall. intros z Hz. apply in_map_iff in Hz. destruct Hz as [e [<- He]].
      apply (Permutation_in _ (Permutation_sym (insert_perm cmp_entry_id x r))) in He.
      destruct He as [<-|He].
      * unfold ble. rewrite (bytes_cmp_antisym (eid x) (eid y)), E. discriminate.
      * rewrite Forall_forall in Hy. apply Hy. apply in_map. exact He.
Qed.

(* the hook hands write_to a table sorted by id that holds exactly the given entries *)
Lemma L_sort_sorted : forall es,
  sorted_ids (map eid (sort_by cmp_entry_id es)) /\ Permutation es (sort_by cmp_entry_id es).
Proof.
  intros es. split; [|apply sort_perm].
  induction es as [|x l IH]; cbn; [constructor|]. apply insert_sorted. exact IH.
Qed.

(* ---- the 32/64-bit offset split and pack_offset_from_offset_v2 at table level --------------------------- *)
(* what the reader computes from entry i of the 32-bit table and the 64-bit table *)
Definition resolve (o32 o64 : list N) (i : nat) : N :=
  let v := nth i o32 0 in
  if HIGH_BIT <=? v then nth (N.to_nat (v - HIGH_BIT)) o64 0 else v.

Lemma split_offsets_spec : forall ofs n64 a b pre,
  split_offsets ofs n64 = Ok (a, b) -> N.of_nat (length pre) = n64 ->
  length a = length ofs /\
  (forall i, (i < length ofs)%nat -> resolve a (pre ++ b) i = nth i ofs 0) /\
  Forall (fun v => v < U32) a /\
  b = filter (fun o => LARGE_OFFSET_THRESHOLD <? o) ofs.
Proof.
  induction ofs as [|o r IH]; intros n64 a b pre H Hp; cbn [split_offsets] in H.
  - injection H as <- <-. repeat split; try constructor. intros; cbn in *; lia.
  - cbn [filter]. destruct (N.ltb_spec LARGE_OFFSET_THRESHOLD o) as [Hl|Hs].
    + destruct (N.ltb_spec n64 LARGE_OFFSET_THRESHOLD); [|discriminate].
      destruct (split_offsets r (n64 + 1)) as [[a' b']| | |] eqn:E; cbn [obind] in H; try discriminate.
      injection H as <- <-. cbn [fst snd].
      destruct (IH (n64 + 1) a' b' (pre ++ [o]) E) as [Hlen [Hres [Hu Hf]]].
      { rewrite app_length. cbn. lia. }
      split; [cbn; lia|]. split; [|split].
      * intros [|i] Hi.
        -- unfold resolve. cbn [nth]. unfold HIGH_BIT. destruct (N.leb_spec 2147483648 (n64 + 2147483648)); [|lia].
           replace (n64 + 2147483648 - 2147483648) with n64 by lia.
           rewrite app_nth2 by lia. replace (N.to_nat n64 - length pre)%nat with 0%nat by lia. reflexivity.
        -- cbn [length] in Hi. specialize (Hres i ltac:(lia)). unfold resolve in *. cbn [nth].
           rewrite <- app_assoc in Hres. exact Hres.
      * constructor; [unfold HIGH_BIT, U32, LARGE_OFFSET_THRESHOLD in *; lia|exact Hu].
      * f_equal. exact Hf.
    + destruct (split_offsets r n64) as [[a' b']| | |] eqn:E; cbn [obind] in H; try discriminate.
      injection H as <- <-. cbn [fst snd].
      destruct (IH n64 a' b' pre E Hp) as [Hlen [Hres [Hu Hf]]].
      split; [cbn; lia|]. split; [|split].
      * intros [|i] Hi.
        -- unfold resolve. cbn [nth]. unfold HIGH_BIT, LARGE_OFFSET_THRESHOLD in *.
           destruct (N.leb_spec 2147483648 o); [lia|reflexivity].
        -- cbn [length] in Hi. specialize (Hres i ltac:(lia)). unfold resolve in *. cbn [nth]. exact Hres.
      * constructor; [unfold U32, LARGE_OFFSET_THRESHOLD in *; lia|exact Hu].
      * exact Hf.
Qed.

(* the split never hits its assert while fewer than 2^31-1 offsets are large *)
Lemma split_offsets_ok : forall ofs n64,
  n64 + N.of_nat (length ofs) <= LARGE_OFFSET_THRESHOLD ->
  exists a b, split_offsets ofs n64 = Ok (a, b).
Proof.
  induction ofs as [|o r IH]; intros n64 H; cbn [split_offsets].
  - eauto.
  - cbn [length] in H. destruct (LARGE_OFFSET_THRESHOLD <? o).
    + destruct (N.ltb_spec n64 LARGE_OFFSET_THRESHOLD); [|lia].
      destruct (IH (n64 + 1)) as [a [b E]]; [lia|]. rewrite E. cbn [obind]. eauto.
    + destruct (IH n64) as [a [b E]]; [lia|]. rewrite E. cbn [obind]. eauto.
Qed.

Lemma L_offset_RT : forall ofs, N.of_nat (length ofs) <= LARGE_OFFSET_THRESHOLD ->
  exists o32 o64, split_offsets ofs 0 = Ok (o32, o64) /\
    length o32 = length ofs /\
    Forall (fun v => v < U32) o32 /\
    o64 = filter (fun o => LARGE_OFFSET_THRESHOLD <? o) ofs /\
    forall i, (i < length ofs)%nat -> resolve o32 o64 i = nth i ofs 0.
Proof.
  intros ofs H. destruct (split_offsets_ok ofs 0 ltac:(lia)) as [a [b E]].
  exists a, b. split; [exact E|].
  destruct (split_offsets_spec ofs 0 a b [] E eq_refl) as [Hl [Hr [Hu Hf]]].
  repeat split; assumption.
Qed.

(* ---- big-endian integers ------------------------------------------------------------------------------- *)
Lemma be_to_N_acc_app l : forall acc b, be_to_N_acc (l ++ [b]) acc = 256 * be_to_N_acc l acc + b2N b.
Proof. induction l as [|x l IH]; intros acc b; cbn [app be_to_N_acc]; [reflexivity|]. apply IH. Qed.

Lemma L_be_roundtrip : forall (k : nat) n, be_to_N (N_to_be k n) = n mod 256 ^ N.of_nat k /\
  length (N_to_be k n) = k.
Proof.
  induction k as [|k IH]; intros n.
  - cbn. split; [rewrite N.mod_1_r; reflexivity|reflexivity].
  - cbn [N_to_be]. destruct (IH (n / 256)) as [H1 H2]. split.
    + unfold be_to_N in *. rewrite be_to_N_acc_app, H1.
      assert (E : b2N (N2b n) = n mod 256).
      { unfold N2b, b2N. pose proof (N.mod_upper_bound n 256 ltac:(lia)) as Hb.
        destruct (Byte.of_N (n mod 256)) as [x|] eqn:Ex.
        - apply Byte.to_of_N in Ex. exact Ex.
        - apply Byte.of_N_None_iff in Ex. lia. }
      rewrite E. rewrite Nat2N.inj_succ, N.pow_succ_r'.
      assert (P : 0 < 256 ^ N.of_nat k) by (apply N.neq_0_lt_0, N.pow_nonzero; lia).
      rewrite (N.mod_mul_r n 256 (256 ^ N.of_nat k)) by lia. lia.
    + rewrite app_length, H2. cbn. lia.
Qed.

(* ---- what the index writer hook hands to the file: sorted table + its fan-out ------------------------- *)
Lemma L_written_tables : forall es,
  Forall (fun e => length (eid e) = 20%nat) es -> N.of_nat (length es) < U32 ->
  let s := sort_by cmp_entry_id es in
  sorted_ids (map eid s) /\ all20 (map eid s) /\ Permutation es s /\
  exists fan, fanout (map (fun e => first_byte (eid e)) s) = Ok fan /\ fan_of (map eid s) fan.
Proof.
  intros es H20 Hu s. destruct (L_sort_sorted es) as [Hs Hp]. fold s in Hs, Hp.
  assert (Ha : all20 (map eid s)).
  { unfold all20. apply Forall_forall. intros x Hx. apply in_map_iff in Hx. destruct Hx as [e [<- He]].
    rewrite Forall_forall in H20. apply H20. apply (Permutation_in _ (Permutation_sym Hp)). exact He. }
  split; [exact Hs|]. split; [exact Ha|]. split; [exact Hp|].
  destruct (L_fanout_fan_of (map eid s) Hs Ha) as [fan [Hf Hfo]].
  - rewrite map_length. rewrite <- (Permutation_length Hp). exact Hu.
  - exists fan. split; [|exact Hfo]. rewrite <- Hf. f_equal. rewrite map_map. reflexivity.
Qed.
