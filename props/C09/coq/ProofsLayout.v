(* C09 — byte layout of the written v2 index: opening the written bytes yields the writer's fan-out
   table and object count, and oid_at_index slices entry i of the id table out of the file. *)
From Coq Require Import Lia ZifyBool ZifyNat ZifyN Sorted Permutation.
From GixV.Base Require Import Bytes BytesFacts Outcome.
From GixV.C09 Require Import Model ProofsBisect ProofsOrder ProofsLookup ProofsFanout ProofsWrite.
Ltac Zify.zify_post_hook ::= Z.div_mod_to_equations.
Local Open Scope N_scope.

Lemma slice_mid (a b c : bytes) s n : s + n <= len b ->
  slice (a ++ b ++ c) (len a + s) n = Ok (firstn (N.to_nat n) (skipn (N.to_nat s) b)).
Proof.
  intros H. unfold slice, len in *. rewrite !app_length.
  destruct (N.leb_spec (N.of_nat (length a) + s + n) (N.of_nat (length a + (length b + length c)))); [|lia].
  f_equal.
  replace (N.to_nat (N.of_nat (length a) + s)) with (length a + N.to_nat s)%nat by lia.
  rewrite skipn_app. rewrite skipn_all2 by lia. cbn [app].
  replace (length a + N.to_nat s - length a)%nat with (N.to_nat s) by lia.
  rewrite skipn_app. rewrite firstn_app.
  rewrite skipn_length.
  replace (N.to_nat n - (length b - N.to_nat s))%nat with 0%nat by lia.
  cbn [firstn]. rewrite app_nil_r. reflexivity.
Qed.

Lemma concat_map_length {A} (f : A -> bytes) (k : nat) l :
  (forall x, length (f x) = k) -> length (concat_map f l) = (k * length l)%nat.
Proof.
  intros H. unfold concat_map. induction l as [|x l IH]; cbn [map concat length]; [lia|].
  rewrite app_length, H, IH. lia.
Qed.

Lemma concat_map_nth {A} (f : A -> bytes) (k : nat) (d : A) :
  (forall x, length (f x) = k) -> forall l (i : nat), (i < length l)%nat ->
  firstn k (skipn (i * k) (concat_map f l)) = f (nth i l d).
Proof.
  intros H. unfold concat_map. induction l as [|x l IH]; intros i Hi; cbn [length] in Hi; [lia|].
  cbn [map concat]. destruct i as [|i].
  - cbn [Nat.mul skipn nth]. rewrite firstn_app, <- (H x), firstn_all, Nat.sub_diag. cbn [firstn].
    apply app_nil_r.
  - cbn [nth]. replace (S i * k)%nat with (length (f x) + i * k)%nat by (rewrite H; lia).
    rewrite skipn_app, skipn_all2 by lia. cbn [app].
    replace (length (f x) + i * k - length (f x))%nat with (i * k)%nat by lia.
    apply IH. lia.
Qed.

Lemma chunks_concat {A} (f : A -> bytes) (k : nat) :
  (forall x, length (f x) = k) -> forall l rest, chunks k (length l) (concat_map f l ++ rest) = map f l.
Proof.
  intros H. unfold concat_map. induction l as [|x l IH]; intros rest; cbn [length chunks map concat]; [reflexivity|].
  rewrite <- app_assoc. rewrite firstn_app, (firstn_all2 (f x)) by (rewrite H; lia).
  rewrite (H x), Nat.sub_diag. cbn [firstn]. rewrite app_nil_r.
  rewrite skipn_app, (skipn_all2 (f x)) by (rewrite H; lia). rewrite (H x), Nat.sub_diag. cbn [skipn app].
  f_equal. apply IH.
Qed.

Lemma be32_len n : length (be32 n) = 4%nat.
Proof. apply (L_be_roundtrip 4 n). Qed.
Lemma be64_len n : length (be64 n) = 8%nat.
Proof. apply (L_be_roundtrip 8 n). Qed.
Lemma be32_rt n : n < U32 -> be_to_N (be32 n) = n.
Proof.
  intros H. unfold be32. rewrite (proj1 (L_be_roundtrip 4 n)). apply N.mod_small.
  change (256 ^ N.of_nat 4) with 4294967296. exact H.
Qed.

(* the table the file is written from: entries sorted by id *)
Theorem L_index_layout : forall es ph,
  Forall (fun e => length (eid e) = 20%nat) es -> N.of_nat (length es) <= LARGE_OFFSET_THRESHOLD ->
  length ph = 20%nat ->
  let ids := map eid (sort_by cmp_entry_id es) in
  exists data f,
    index_write es ph = Ok data /\ index_at data = Ok f /\
    inum f = N.of_nat (length ids) /\ fan_of ids (ifan f) /\
    forall i, i < N.of_nat (length ids) -> oid_at_index f i = Ok (nth (N.to_nat i) ids []).
Proof.
  intros es ph H20 Hn Hph ids.
  assert (Hu : N.of_nat (length es) < U32) by (unfold LARGE_OFFSET_THRESHOLD, U32 in *; lia).
  destruct (L_written_tables es H20 Hu) as [Hs [Ha [Hp [fan [Hfan Hfo]]]]].
  set (s := sort_by cmp_entry_id es) in *. fold ids in Hs, Ha, Hfo.
  assert (Ls : length s = length es) by (symmetry; apply Permutation_length; exact Hp).
  assert (Lids : length ids = length es) by (unfold ids; rewrite map_length; exact Ls).
  destruct (L_offset_RT (map eofs s)) as [o32 [o64 [Hsplit [Lo32 _]]]].
  { rewrite map_length, Ls. exact Hn. }
  unfold index_write, write_v2_body. fold s.
  destruct (N.leb_spec U32 (N.of_nat (length s))); [lia|].
  rewrite Hfan. cbn [obind]. rewrite Hsplit. cbn [obind fst snd].
  set (fanb := concat_map be32 fan).
  set (idb := concat_map eid s).
  set (rest := concat_map (fun e => be32 (ecrc e)) s ++ concat_map be32 o32 ++ concat_map be64 o64 ++ ph).
  destruct Hfo as [Lfan Hcnt].
  assert (Lfanb : length fanb = 1024%nat).
  { unfold fanb. rewrite (concat_map_length be32 4) by apply be32_len. rewrite Lfan. reflexivity. }
  assert (Lidb : length idb = (20 * length es)%nat).
  { unfold idb. unfold concat_map. rewrite <- (map_map eid (fun x => x)). fold ids.
    change (concat (map (fun x => x) ids)) with (concat_map (fun x : bytes => x) ids).
    assert (E : forall l, all20 l -> length (concat_map (fun x : bytes => x) l) = (20 * length l)%nat).
    { unfold concat_map. induction 1 as [|x l Hx _ IH]; cbn [map concat length]; [lia|].
      rewrite app_length, Hx, IH. lia. }
    rewrite (E ids Ha), Lids. reflexivity. }
  set (data := (V2_SIGNATURE ++ be32 2 ++ fanb ++ idb ++ rest) ++ checksum_placeholder).
  assert (Ldata : 1064 <= len data).
  { unfold data, len, rest, checksum_placeholder. rewrite !app_length, Lfanb, be32_len, repeat_length, Hph.
    cbn [length V2_SIGNATURE]. lia. }
  assert (Edata : data = (V2_SIGNATURE ++ be32 2 ++ fanb) ++ idb ++ (rest ++ checksum_placeholder)).
  { unfold data. rewrite <- !app_assoc. reflexivity. }
  assert (Fan_small : Forall (fun v => v < U32) fan).
  { apply Forall_forall. intros v Hv. destruct (In_nth _ _ 0 Hv) as [j [Hj <-]].
    replace j with (N.to_nat (N.of_nat j)) by lia. rewrite Hcnt by lia.
    pose proof (cnt_le_length (N.of_nat j) (fbs_of ids)) as Hc.
    assert (Lf : length (fbs_of ids) = length es) by (unfold fbs_of; rewrite map_length; exact Lids).
    rewrite Lf in Hc. eapply N.le_lt_trans; [exact Hc|exact Hu]. }
  assert (Efan : map be_to_N (chunks 4 256 (skipn 8 data)) = fan).
  { unfold data. rewrite <- !app_assoc. cbn [V2_SIGNATURE app]. change (be32 2) with [x00; x00; x00; x02].
    cbn [app skipn]. unfold fanb. rewrite <- Lfan. rewrite (chunks_concat be32 4) by apply be32_len.
    rewrite map_map. rewrite <- (map_id fan) at 2. apply map_ext_in. intros v Hv.
    rewrite Forall_forall in Fan_small. apply be32_rt. apply Fan_small. exact Hv. }
  exists data. eexists. split; [reflexivity|].
  unfold index_at. fold data.
  destruct (N.ltb_spec (len data) (1024 + 40)); [lia|].
  assert (Esig : bytes_eqb (firstn 4 data) V2_SIGNATURE = true).
  { unfold data. rewrite <- !app_assoc. reflexivity. }
  rewrite Esig.
  assert (Ever : be_to_N (firstn 4 (skipn 4 data)) = 2).
  { unfold data. rewrite <- !app_assoc. reflexivity. }
  rewrite Ever. cbn [N.eqb Pos.eqb].
  unfold read_fan.
  assert (L8 : 1024 <= len (skipn 8 data)) by (unfold len in *; rewrite skipn_length; lia).
  destruct (N.ltb_spec (len (skipn 8 data)) 1024); [lia|]. cbn [obind].
  rewrite Efan.
  assert (Enum : nth 255 fan 0 = N.of_nat (length ids)).
  { change 255%nat with (N.to_nat 255). rewrite Hcnt by lia.
    rewrite cnt_all_le; [unfold fbs_of; rewrite map_length; reflexivity|].
    apply Forall_forall. intros v Hv. unfold fbs_of in Hv. apply in_map_iff in Hv. destruct Hv as [x [<- _]].
    pose proof (b2N_lt (first_byte x)). lia. }
  split; [reflexivity|]. cbn [inum ifan idata]. split; [exact Enum|]. split; [split; assumption|].
  intros i Hi. unfold oid_at_index. cbn [idata]. rewrite Edata.
  assert (Lpre : len (V2_SIGNATURE ++ be32 2 ++ fanb) = V2_HEADER_SIZE).
  { unfold len. rewrite !app_length, Lfanb, be32_len. reflexivity. }
  rewrite <- Lpre. rewrite slice_mid.
  - f_equal. replace (N.to_nat (i * 20)) with (N.to_nat i * 20)%nat by lia.
    unfold idb. unfold concat_map. rewrite <- (map_map eid (fun x => x)). fold ids.
    change (concat (map (fun x => x) ids)) with (concat_map (fun x : bytes => x) ids).
    clear -Ha Hi. revert i Hi. unfold concat_map.
    induction Ha as [|x l Hx _ IH]; intros i Hi; cbn [length] in Hi; [lia|].
    cbn [map concat]. destruct (N.to_nat i) as [|j] eqn:Ej.
    + cbn [Nat.mul skipn nth]. change (N.to_nat 20) with 20%nat.
      rewrite firstn_app, <- Hx, firstn_all, Nat.sub_diag. cbn [firstn]. apply app_nil_r.
    + cbn [nth]. replace (S j * 20)%nat with (length x + j * 20)%nat by lia.
      rewrite skipn_app, skipn_all2 by lia. cbn [app].
      replace (length x + j * 20 - length x)%nat with (j * 20)%nat by lia.
      specialize (IH (N.of_nat j) ltac:(lia)). rewrite Nat2N.id in IH. exact IH.
  - unfold len. rewrite Lidb. lia.
Qed.

(* lookups on the bytes of a written index file *)
Theorem L_index_file_lookups : forall es ph,
  Forall (fun e => length (eid e) = 20%nat) es -> N.of_nat (length es) <= LARGE_OFFSET_THRESHOLD ->
  length ph = 20%nat ->
  let ids := map eid (sort_by cmp_entry_id es) in
  exists data f,
    index_write es ph = Ok data /\ index_at data = Ok f /\ inum f = N.of_nat (length es) /\
    (forall id, exists r, index_lookup f id = Ok r /\
       match r with
       | Some m => m < N.of_nat (length es) /\ nth (N.to_nat m) ids [] = id
       | None => ~ In id (map eid es)
       end) /\
    (forall p cands, (4 <= plen p <= 40)%nat -> length (pbytes p) = 20%nat ->
       exists a b, a <= b /\ b <= N.of_nat (length es) /\
         (forall i, i < N.of_nat (length es) -> (cmp_oid p (nth (N.to_nat i) ids []) = Eq <-> a <= i < b)) /\
         index_lookup_prefix cands f p =
         Ok (if a <? b
             then (if 1 <? b - a then PAmbiguous else POk a, if cands then Some (a, b) else None)
             else (PNone, if cands then Some (0, 0) else None))).
Proof.
  intros es ph H20 Hn Hph ids.
  destruct (L_index_layout es ph H20 Hn Hph) as [data [f [Hw [Hat [Hnum [Hfan Hoid]]]]]].
  fold ids in Hnum, Hfan, Hoid.
  assert (Hu : N.of_nat (length es) < U32) by (unfold LARGE_OFFSET_THRESHOLD, U32 in *; lia).
  destruct (L_written_tables es H20 Hu) as [Hs [Ha [Hp _]]]. fold ids in Hs, Ha.
  assert (Lids : length ids = length es).
  { unfold ids. rewrite map_length. symmetry. apply Permutation_length. exact Hp. }
  assert (Hh : N.of_nat (length ids) <= HIGH_BIT) by (rewrite Lids; unfold LARGE_OFFSET_THRESHOLD, HIGH_BIT in *; lia).
  exists data, f. split; [exact Hw|]. split; [exact Hat|]. split; [rewrite Hnum, Lids; reflexivity|]. split.
  - intros id. unfold index_lookup.
    destruct (L_lookup ids (ifan f) (oid_at_index f) Hs Ha Hh Hfan Hoid id) as [r [Hr Hspec]].
    exists r. split; [exact Hr|]. destruct r as [m|].
    + rewrite <- Lids. exact Hspec.
    + intros Hin. apply Hspec. unfold ids.
      apply (Permutation_in _ (Permutation_map eid Hp)). exact Hin.
  - intros p cands Hpl Hpb. unfold index_lookup_prefix. rewrite Hnum.
    destruct (L_lookup_prefix ids (ifan f) (oid_at_index f) Hs Ha Hh Hfan Hoid p cands Hpl Hpb)
      as [a [b [Hab [Hbn [Hint Hres]]]]].
    exists a, b. rewrite <- Lids. split; [exact Hab|]. split; [exact Hbn|]. split; [exact Hint|exact Hres].
Qed.
