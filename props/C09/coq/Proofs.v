From GixV.Base Require Import Bytes BytesFacts Outcome.
From GixV.C09 Require Import Model.
