(* C09 — multi-pack index, chunk level: the OOFF chunk written by chunk::offsets::write and the LOFF
   chunk written by chunk::large_offsets::write, read back with the rule of
   pack_id_and_pack_offset_at_index (positions relative to the chunk starts), give the pack id and the
   pack offset of every entry. *)
From Coq Require Import Lia ZifyBool ZifyNat ZifyN.
From GixV.Base Require Import Bytes BytesFacts Outcome.
From GixV.C09 Require Import Model ProofsBisect ProofsOrder ProofsLookup ProofsFanout ProofsWrite ProofsLayout ProofsOffsets.
Ltac Zify.zify_post_hook ::= Z.div_mod_to_equations.
Local Open Scope N_scope.

Lemma firstn_app_exact {A} (n : nat) (a b : list A) : length a = n -> firstn n (a ++ b) = a.
Proof. intros <-. rewrite firstn_app, firstn_all, Nat.sub_diag. cbn [firstn]. apply app_nil_r. Qed.

Lemma skipn_app_exact {A} (n : nat) (a b : list A) : length a = n -> skipn n (a ++ b) = b.
Proof. intros <-. rewrite skipn_app, skipn_all, Nat.sub_diag. reflexivity. Qed.

Lemma skipn_add_app {A} (a t : list A) (k m : nat) : length a = k -> skipn (k + m) (a ++ t) = skipn m t.
Proof.
  intros H. rewrite skipn_app, skipn_all2 by lia. cbn [app]. f_equal. lia.
Qed.

(* the reader's rule, relative to the two chunks *)
Definition midx_read (large : bool) (ooff loff : bytes) (i : nat) : N * N :=
  let p := be_to_N (firstn 4 (skipn (8 * i) ooff)) in
  let v := be_to_N (firstn 4 (skipn (8 * i + 4) ooff)) in
  (p, if (HIGH_BIT <=? v) && large
      then be_to_N (firstn 8 (skipn (N.to_nat ((v - HIGH_BIT) * 8)) loff))
      else v).

Definition mdflt : mentry := {| mid_ := []; mpack := 0; mofs := 0; mmtime := 0 |}.

Lemma loff_cons e r : loff_chunk (e :: r) =
  (if LARGE_OFFSET_THRESHOLD <? mofs e then be64 (mofs e) else []) ++ loff_chunk r.
Proof.
  unfold loff_chunk, concat_map. cbn [filter]. destruct (LARGE_OFFSET_THRESHOLD <? mofs e); reflexivity.
Qed.

Lemma ooff_spec : forall es large k preb,
  (large = true -> N.of_nat (length preb) = 8 * k) ->
  (large = false -> Forall (fun e => mofs e < U32) es) ->
  Forall (fun e => mofs e < U64 /\ mpack e < U32) es ->
  k + N.of_nat (length es) <= LARGE_OFFSET_THRESHOLD ->
  exists out, ooff_chunk large es k = Ok out /\ length out = (8 * length es)%nat /\
    forall i, (i < length es)%nat ->
      midx_read large out (preb ++ loff_chunk es) i = (mpack (nth i es mdflt), mofs (nth i es mdflt)).
Proof.
  induction es as [|e r IH]; intros large k preb Hpre Hsmall Hrange Hk.
  - exists []. split; [reflexivity|]. split; [reflexivity|]. intros i Hi. cbn in Hi. lia.
  - cbn [length] in Hk. inversion Hrange as [|? ? [Ho Hp] Hr]; subst.
    assert (Hsmall' : large = false -> Forall (fun e => mofs e < U32) r).
    { intros L. specialize (Hsmall L). inversion Hsmall; assumption. }
    cbn [ooff_chunk]. rewrite loff_cons.
    assert (Step : forall x t (loff : bytes),
      length t = (8 * length r)%nat ->
      be_to_N (be32 x) = x ->
      (if (HIGH_BIT <=? x) && large then be_to_N (firstn 8 (skipn (N.to_nat ((x - HIGH_BIT) * 8)) loff)) else x) = mofs e ->
      (forall i, (i < length r)%nat -> midx_read large t loff i = (mpack (nth i r mdflt), mofs (nth i r mdflt))) ->
      length (be32 (mpack e) ++ be32 x ++ t) = (8 * length (e :: r))%nat /\
      forall i, (i < length (e :: r))%nat ->
        midx_read large (be32 (mpack e) ++ be32 x ++ t) loff i = (mpack (nth i (e :: r) mdflt), mofs (nth i (e :: r) mdflt))).
    { intros x t loff Lt Hx Hv Ht. split.
      - rewrite !app_length, !be32_len, Lt. cbn [length]. lia.
      - intros [|i] Hi.
        + unfold midx_read. replace (8 * 0 + 4)%nat with 4%nat by lia. replace (8 * 0)%nat with 0%nat by lia.
          cbn [nth]. change (skipn 0 (be32 (mpack e) ++ be32 x ++ t)) with (be32 (mpack e) ++ be32 x ++ t).
          rewrite (firstn_app_exact 4) by apply be32_len.
          rewrite (skipn_app_exact 4) by apply be32_len.
          rewrite (firstn_app_exact 4) by apply be32_len.
          rewrite be32_rt by exact Hp. rewrite Hx, Hv. reflexivity.
        + cbn [length] in Hi. cbn [nth]. rewrite <- (Ht i ltac:(lia)). unfold midx_read.
          rewrite app_assoc.
          assert (L8 : length (be32 (mpack e) ++ be32 x) = 8%nat) by (rewrite app_length, !be32_len; reflexivity).
          replace (8 * S i)%nat with (8 + 8 * i)%nat by lia.
          replace (8 + 8 * i + 4)%nat with (8 + (8 * i + 4))%nat by lia.
          rewrite !(skipn_add_app _ _ _ _ L8). reflexivity. }
    destruct large.
    + destruct (N.ltb_spec LARGE_OFFSET_THRESHOLD (mofs e)) as [Hl|Hs].
      * destruct (IH true (k + 1) (preb ++ be64 (mofs e))) as [t [Ht [Lt Hread]]]; try assumption.
        { intros _. specialize (Hpre eq_refl). rewrite app_length, be64_len. lia. }
        { lia. }
        rewrite Ht. cbn [obind]. eexists. split; [reflexivity|].
        rewrite <- app_assoc in Hread.
        apply Step; try assumption.
        -- apply be32_rt. unfold HIGH_BIT, U32, LARGE_OFFSET_THRESHOLD in *. lia.
        -- unfold HIGH_BIT. destruct (N.leb_spec 2147483648 (k + 2147483648)); [|lia]. cbn [andb].
           replace (k + 2147483648 - 2147483648) with k by lia.
           specialize (Hpre eq_refl). replace (N.to_nat (k * 8)) with (length preb) by lia.
           rewrite (skipn_app_exact (length preb)) by reflexivity.
           rewrite (firstn_app_exact 8) by apply be64_len. apply be64_rt. exact Ho.
      * destruct (IH true k preb) as [t [Ht [Lt Hread]]]; try assumption.
        { lia. }
        rewrite Ht. cbn [obind]. eexists. split; [reflexivity|]. cbn [app].
        apply Step; try assumption.
        -- apply be32_rt. unfold U32, LARGE_OFFSET_THRESHOLD in *. lia.
        -- unfold HIGH_BIT, LARGE_OFFSET_THRESHOLD in *. destruct (N.leb_spec 2147483648 (mofs e)); [lia|]. reflexivity.
    + pose proof (Hsmall eq_refl) as Hsm. inversion Hsm as [|? ? He32 Hr32]; subst.
      destruct (N.ltb_spec (mofs e) U32); [|lia].
      destruct (IH false k (preb ++ (if LARGE_OFFSET_THRESHOLD <? mofs e then be64 (mofs e) else []))) as [t [Ht [Lt Hread]]];
        try assumption.
      { intros; discriminate. }
      { lia. }
      rewrite Ht. cbn [obind]. eexists. split; [reflexivity|].
      rewrite <- app_assoc in Hread.
      apply Step; try assumption.
      -- apply be32_rt. exact He32.
      -- rewrite Bool.andb_false_r. reflexivity.
Qed.

Lemma needs_large_false es : needs_large es = false -> Forall (fun e => mofs e < U32) es.
Proof.
  unfold needs_large. induction es as [|e r IH]; intros H; [constructor|]. cbn [existsb] in H.
  apply Bool.orb_false_iff in H. destruct H as [H1 H2]. constructor; [|apply IH; exact H2].
  unfold U32 in *. destruct (N.ltb_spec (4294967296 - 1) (mofs e)); [discriminate|lia].
Qed.

(* the chunks written for any entry list (large-offset chunk used exactly when some offset exceeds
   u32::MAX) read back to every entry's pack id and pack offset *)
Theorem L_midx_offsets_chunk_RT : forall es,
  Forall (fun e => mofs e < U64 /\ mpack e < U32) es ->
  N.of_nat (length es) <= LARGE_OFFSET_THRESHOLD ->
  exists ooff, ooff_chunk (needs_large es) es 0 = Ok ooff /\ length ooff = (8 * length es)%nat /\
    forall i, (i < length es)%nat ->
      midx_read (needs_large es) ooff (loff_chunk es) i = (mpack (nth i es mdflt), mofs (nth i es mdflt)).
Proof.
  intros es Hr Hn.
  destruct (ooff_spec es (needs_large es) 0 []) as [out [Ho [Hl Hread]]].
  - intros _. reflexivity.
  - apply needs_large_false.
  - exact Hr.
  - lia.
  - exists out. split; [exact Ho|]. split; [exact Hl|]. exact Hread.
Qed.
