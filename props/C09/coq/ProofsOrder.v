(* C09 — order facts: bytes_cmp is a total order, Prefix::cmp_oid is monotone in the candidate,
   a table sorted by id is sorted by first byte, and the fan-out counts delimit the buckets. *)
From Coq Require Import Lia ZifyBool ZifyNat ZifyN Sorted.
From GixV.Base Require Import Bytes BytesFacts Outcome.
From GixV.C09 Require Import Model ProofsBisect.
Ltac Zify.zify_post_hook ::= Z.div_mod_to_equations.
Local Open Scope N_scope.

(* ---- bytes_cmp: transitivity ---------------------------------------------------------------------- *)
Lemma bytes_cmp_trans a : forall b c x, bytes_cmp a b = x -> bytes_cmp b c = x -> bytes_cmp a c = x.
Proof.
  induction a as [|a0 a IH]; intros [|b0 b] [|c0 c] x; cbn [bytes_cmp]; try congruence.
  destruct (N.compare_spec (b2N a0) (b2N b0)), (N.compare_spec (b2N b0) (b2N c0)),
           (N.compare_spec (b2N a0) (b2N c0)); try lia; intros; subst; try congruence; eauto.
Qed.

Definition ble (a b : bytes) : Prop := bytes_cmp a b <> Gt.

Lemma ble_refl a : ble a a.
Proof. unfold ble. rewrite bytes_cmp_refl. discriminate. Qed.

Lemma lt_le_trans x a b : bytes_cmp x a = Lt -> ble a b -> bytes_cmp x b = Lt.
Proof.
  unfold ble. intros H1 H2. destruct (bytes_cmp a b) eqn:E; [| |congruence].
  - apply bytes_cmp_eq_iff in E. subst. exact H1.
  - eapply bytes_cmp_trans; eassumption.
Qed.

Lemma le_lt_trans a b x : ble a b -> bytes_cmp b x = Lt -> bytes_cmp a x = Lt.
Proof.
  unfold ble. intros H1 H2. destruct (bytes_cmp a b) eqn:E; [| |congruence].
  - apply bytes_cmp_eq_iff in E. subst. exact H2.
  - eapply bytes_cmp_trans; eassumption.
Qed.

Lemma gt_le x a b : bytes_cmp x b = Gt -> ble a b -> bytes_cmp x a = Gt.
Proof.
  intros H1 H2. rewrite (bytes_cmp_antisym b x) in H1.
  assert (bytes_cmp b x = Lt) by (destruct (bytes_cmp b x); cbn in H1; congruence).
  rewrite (bytes_cmp_antisym a x). rewrite (le_lt_trans a b x H2 H). reflexivity.
Qed.

Lemma ble_trans a b c : ble a b -> ble b c -> ble a c.
Proof.
  intros H1 H2. unfold ble. intros G.
  pose proof (gt_le a b c G H2) as G'. apply H1. exact G'.
Qed.

Lemma ble_total a b : ble a b \/ ble b a.
Proof.
  unfold ble. rewrite (bytes_cmp_antisym a b). destruct (bytes_cmp a b); cbn [CompOpp];
    [left; discriminate | left; discriminate | right; discriminate].
Qed.

(* ---- tables sorted by id ---------------------------------------------------------------------------- *)
Definition sorted_ids (ids : list bytes) : Prop := StronglySorted ble ids.
Definition all20 (ids : list bytes) : Prop := Forall (fun x => length x = 20%nat) ids.

Lemma sorted_nth ids : sorted_ids ids -> forall i j, (i <= j < length ids)%nat ->
  ble (nth i ids []) (nth j ids []).
Proof.
  induction 1 as [|x l Hs IH Hf]; intros i j Hij; cbn [length] in Hij; [lia|].
  destruct i as [|i], j as [|j]; cbn [nth]; try lia.
  - apply ble_refl.
  - rewrite Forall_forall in Hf. apply Hf, nth_In. lia.
  - apply IH. lia.
Qed.

Lemma mono_full_id ids id : sorted_ids ids ->
  mono (fun i => bytes_cmp id (nth (N.to_nat i) ids [])) 0 (N.of_nat (length ids)).
Proof.
  intros Hs i j H0 Hij Hj. cbv beta.
  assert (L : ble (nth (N.to_nat i) ids []) (nth (N.to_nat j) ids [])) by (apply sorted_nth; [assumption|lia]).
  split; intros H.
  - eapply lt_le_trans; eassumption.
  - eapply gt_le; eassumption.
Qed.

(* ---- Prefix::cmp_oid is monotone in the candidate -------------------------------------------------- *)
Lemma and_f0_mono : forall x y, b2N x <= b2N y -> b2N (and_f0 x) <= b2N (and_f0 y).
Proof.
  intros x y H.
  pose proof (forall_bytes2 (fun x y => implb (b2N x <=? b2N y) (b2N (and_f0 x) <=? b2N (and_f0 y)))) as F.
  cbv beta in F. specialize (F ltac:(vm_compute; reflexivity) x y).
  destruct (N.leb_spec (b2N x) (b2N y)); [|lia]. cbn [implb] in F.
  destruct (N.leb_spec (b2N (and_f0 x)) (b2N (and_f0 y))); [assumption|discriminate].
Qed.

Lemma cmp_split (k : nat) x y : length x = length y ->
  bytes_cmp x y = BytesFacts.cmp_then (bytes_cmp (firstn k x) (firstn k y)) (bytes_cmp (skipn k x) (skipn k y)).
Proof.
  intros Hl. rewrite <- (firstn_skipn k x) at 1. rewrite <- (firstn_skipn k y) at 1.
  apply bytes_cmp_app. rewrite !firstn_length, Hl. reflexivity.
Qed.

Lemma ble_firstn (k : nat) x y : length x = length y -> ble x y -> ble (firstn k x) (firstn k y).
Proof.
  intros Hl H. unfold ble in *. rewrite (cmp_split k x y Hl) in H.
  destruct (bytes_cmp (firstn k x) (firstn k y)); cbn in H; congruence.
Qed.

Lemma ble_nth (k : nat) x y : length x = length y -> (k < length x)%nat -> ble x y ->
  firstn k x = firstn k y -> b2N (nth k x x00) <= b2N (nth k y x00).
Proof.
  intros Hl Hk H E. unfold ble in H. rewrite (cmp_split k x y Hl) in H.
  rewrite E, bytes_cmp_refl in H. cbn in H.
  assert (Hx : exists r, skipn k x = nth k x x00 :: r).
  { clear -Hk. revert x Hk. induction k as [|k IH]; intros [|a x] Hk; cbn in *; try lia; eauto. apply IH; lia. }
  assert (Hy : exists r, skipn k y = nth k y x00 :: r).
  { rewrite Hl in Hk. clear -Hk. revert y Hk. induction k as [|k IH]; intros [|a y] Hk; cbn in *; try lia; eauto. apply IH; lia. }
  destruct Hx as [rx Hx], Hy as [ry Hy]. rewrite Hx, Hy in H. cbn [bytes_cmp] in H.
  destruct (N.compare_spec (b2N (nth k x x00)) (b2N (nth k y x00))); try lia. congruence.
Qed.

Lemma cmp_oid_mono p x y : length x = 20%nat -> length y = 20%nat -> (plen p <= 40)%nat -> ble x y ->
  (cmp_oid p x = Lt -> cmp_oid p y = Lt) /\ (cmp_oid p y = Gt -> cmp_oid p x = Gt).
Proof.
  intros Lx Ly Hp Hle. unfold cmp_oid.
  set (k := Nat.div (plen p) 2).
  assert (Lxy : length x = length y) by congruence.
  pose proof (ble_firstn k x y Lxy Hle) as Hf.
  set (P := firstn k (pbytes p)) in *.
  destruct (Nat.odd (plen p)) eqn:Hodd.
  - assert (Hk : (k < 20)%nat).
    { unfold k. rewrite <- Nat.negb_even in Hodd.
      destruct (Nat.even (plen p)) eqn:Ev; [discriminate|].
      assert (plen p <> 40)%nat by (intros E; rewrite E in Ev; discriminate).
      apply Nat.div_lt_upper_bound; lia. }
    set (pk := b2N (nth k (pbytes p) x00)).
    split; intros H.
    + destruct (bytes_cmp P (firstn k x)) eqn:E1; cbn [cmp_then] in H; try discriminate.
      * apply bytes_cmp_eq_iff in E1.
        destruct (bytes_cmp P (firstn k y)) eqn:E2; cbn [cmp_then].
        -- apply bytes_cmp_eq_iff in E2.
           assert (b2N (nth k x x00) <= b2N (nth k y x00)) by (apply ble_nth; try lia; congruence).
           pose proof (and_f0_mono _ _ H0).
           apply N.compare_lt_iff in H. apply N.compare_lt_iff. eapply N.lt_le_trans; eassumption.
        -- reflexivity.
        -- exfalso. rewrite E1 in E2. apply Hf. exact E2.
      * rewrite (lt_le_trans _ _ _ E1 Hf). reflexivity.
    + destruct (bytes_cmp P (firstn k y)) eqn:E2; cbn [cmp_then] in H; try discriminate.
      * apply bytes_cmp_eq_iff in E2.
        destruct (bytes_cmp P (firstn k x)) eqn:E1; cbn [cmp_then].
        -- apply bytes_cmp_eq_iff in E1.
           assert (b2N (nth k x x00) <= b2N (nth k y x00)) by (apply ble_nth; try lia; congruence).
           pose proof (and_f0_mono _ _ H0).
           apply N.compare_gt_iff in H. apply N.compare_gt_iff. eapply N.le_lt_trans; eassumption.
        -- exfalso. rewrite E2 in E1. unfold ble in Hf.
           rewrite (bytes_cmp_antisym (firstn k y) (firstn k x)), E1 in Hf. cbn in Hf. congruence.
        -- reflexivity.
      * rewrite (gt_le _ _ _ E2 Hf). reflexivity.
  - split; intros H.
    + destruct (bytes_cmp P (firstn k x)) eqn:E1; cbn [cmp_then] in H; try discriminate.
      rewrite (lt_le_trans _ _ _ E1 Hf). reflexivity.
    + destruct (bytes_cmp P (firstn k y)) eqn:E2; cbn [cmp_then] in H; try discriminate.
      rewrite (gt_le _ _ _ E2 Hf). reflexivity.
Qed.

Lemma mono_prefix ids p : sorted_ids ids -> all20 ids -> (plen p <= 40)%nat ->
  mono (fun i => cmp_oid p (nth (N.to_nat i) ids [])) 0 (N.of_nat (length ids)).
Proof.
  intros Hs Ha Hp i j H0 Hij Hj. cbv beta.
  unfold all20 in Ha. rewrite Forall_forall in Ha.
  apply cmp_oid_mono; try assumption.
  - apply Ha, nth_In. lia.
  - apply Ha, nth_In. lia.
  - apply sorted_nth; [assumption|lia].
Qed.

(* an equal candidate shares the first byte with the prefix (hex_len >= 4 means two whole bytes) *)
Lemma cmp_oid_eq_first_byte p x : (2 <= plen p)%nat -> pbytes p <> [] -> x <> [] ->
  cmp_oid p x = Eq -> first_byte x = first_byte (pbytes p).
Proof.
  intros Hp Hn Hx H. unfold cmp_oid in H.
  destruct (bytes_cmp (firstn (Nat.div (plen p) 2) (pbytes p)) (firstn (Nat.div (plen p) 2) x)) eqn:E;
    cbn [cmp_then] in H; try discriminate.
  apply bytes_cmp_eq_iff in E.
  assert (1 <= Nat.div (plen p) 2)%nat by (apply Nat.div_le_lower_bound; lia).
  destruct (Nat.div (plen p) 2) as [|k]; [lia|].
  destruct (pbytes p) as [|a r]; [congruence|]. destruct x as [|b s]; [congruence|].
  cbn in E. injection E as -> _. reflexivity.
Qed.

(* ---- the equal entries of a monotone sequence form an interval -------------------------------------- *)
Lemma mono_interval : forall (n : nat) (c : N -> comparison), mono c 0 (N.of_nat n) ->
  exists a b, a <= b /\ b <= N.of_nat n /\ forall i, i < N.of_nat n -> (c i = Eq <-> a <= i < b).
Proof.
  induction n as [|n IH]; intros c Hm.
  - exists 0, 0. split; [lia|]. split; [lia|]. intros i Hi. lia.
  - destruct (IH c) as [a [b [Hab [Hbn Hi]]]].
    { eapply mono_sub; [exact Hm|lia|lia]. }
    destruct (c (N.of_nat n)) eqn:Hc.
    + (* Eq at the top *)
      destruct (N.ltb_spec a b) as [Hlt|Hge].
      * assert (Eb : b = N.of_nat n).
        { destruct (N.eqb_spec b (N.of_nat n)) as [|Nb]; [assumption|exfalso].
          assert (Hb1 : c (b - 1) = Eq) by (apply Hi; lia).
          destruct (c b) eqn:Cb.
          - apply Hi in Cb; lia.
          - destruct (Hm b (N.of_nat n)) as [A _]; try lia. rewrite (A Cb) in Hc. discriminate.
          - destruct (Hm (b - 1) b) as [_ A]; try lia. rewrite (A Cb) in Hb1. discriminate. }
        exists a, (N.of_nat n + 1). split; [lia|]. split; [lia|]. intros i Hlt'. split; intros H1.
        -- destruct (N.eqb_spec i (N.of_nat n)) as [|Ni]; [lia|]. apply Hi in H1; lia.
        -- destruct (N.eqb_spec i (N.of_nat n)) as [|Ni]; [subst; assumption|]. apply Hi; lia.
      * exists (N.of_nat n), (N.of_nat n + 1). split; [lia|]. split; [lia|]. intros i Hlt'. split; intros H1.
        -- destruct (N.eqb_spec i (N.of_nat n)) as [|Ni]; [lia|]. apply Hi in H1; lia.
        -- replace i with (N.of_nat n) by lia. assumption.
    + (* Lt at the top: nothing changes *)
      exists a, b. split; [lia|]. split; [lia|]. intros i Hlt'. split; intros H1.
      * destruct (N.eqb_spec i (N.of_nat n)) as [|Ni]; [subst; congruence|]. apply Hi in H1; lia.
      * apply Hi; lia.
    + (* Gt at the top: everything is Gt *)
      exists 0, 0. split; [lia|]. split; [lia|]. intros i Hlt'. split; intros H1; [|lia].
      destruct (Hm i (N.of_nat n)) as [_ A]; try lia. rewrite (A Hc) in H1. discriminate.
Qed.

(* ---- fan-out counts ------------------------------------------------------------------------------------ *)
(* number of values <= b *)
Definition cnt (b : N) (fbs : list N) : N := N.of_nat (length (filter (fun v => v <=? b) fbs)).

Lemma cnt_all_gt b fbs : Forall (fun v => b < v) fbs -> cnt b fbs = 0.
Proof.
  unfold cnt. induction 1 as [|v l Hv _ IH]; [reflexivity|]. cbn [filter].
  destruct (N.leb_spec v b); [lia|]. exact IH.
Qed.

Lemma cnt_le_length b fbs : cnt b fbs <= N.of_nat (length fbs).
Proof.
  unfold cnt. induction fbs as [|v l IH]; [cbn; lia|]. cbn [filter length].
  destruct (v <=? b); cbn [length]; lia.
Qed.

Lemma cnt_mono b b' fbs : b <= b' -> cnt b fbs <= cnt b' fbs.
Proof.
  intros H. unfold cnt. induction fbs as [|v l IH]; [cbn; lia|]. cbn [filter].
  destruct (N.leb_spec v b), (N.leb_spec v b'); cbn [length]; lia.
Qed.

Lemma cnt_nth fbs : StronglySorted N.le fbs -> forall b (i : nat), (i < length fbs)%nat ->
  (N.of_nat i < cnt b fbs <-> nth i fbs 0 <= b).
Proof.
  induction 1 as [|x l Hs IH Hf]; intros b i Hi; cbn [length] in Hi; [lia|].
  unfold cnt. cbn [filter]. destruct (N.leb_spec x b) as [Hx|Hx].
  - cbn [length]. destruct i as [|i]; cbn [nth]; [lia|].
    specialize (IH b i ltac:(lia)). unfold cnt in IH. lia.
  - assert (Z : cnt b l = 0).
    { apply cnt_all_gt. rewrite Forall_forall in *. intros v Hv. specialize (Hf v Hv). lia. }
    unfold cnt in Z. rewrite Z. destruct i as [|i]; cbn [nth]; [lia|].
    rewrite Forall_forall in Hf. assert (x <= nth i l 0) by (apply Hf, nth_In; lia). lia.
Qed.

Definition fbs_of (ids : list bytes) : list N := map (fun x => b2N (first_byte x)) ids.

Lemma ble_first_byte x y : x <> [] -> y <> [] -> ble x y -> b2N (first_byte x) <= b2N (first_byte y).
Proof.
  destruct x as [|a x], y as [|b y]; try congruence. intros _ _ H. unfold ble in H. cbn in *.
  destruct (N.compare_spec (b2N a) (b2N b)); try lia. congruence.
Qed.

Lemma sorted_fbs ids : sorted_ids ids -> all20 ids -> StronglySorted N.le (fbs_of ids).
Proof.
  induction 1 as [|x l Hs IH Hf]; intros Ha; [constructor|].
  inversion Ha as [|? ? Hx Hl]; subst. cbn. constructor; [apply IH; assumption|].
  rewrite Forall_forall in *. intros v Hv. apply in_map_iff in Hv. destruct Hv as [y [<- Hy]].
  apply ble_first_byte.
  - intros ->; discriminate.
  - specialize (Hl y Hy). intros ->; discriminate.
  - apply Hf, Hy.
Qed.

(* the table the reader finds: 256 values, value b = number of ids whose first byte is <= b *)
Definition fan_of (ids : list bytes) (fan : list N) : Prop :=
  length fan = 256%nat /\ forall b, b < 256 -> nth (N.to_nat b) fan 0 = cnt b (fbs_of ids).

Lemma fan_bounds_bucket ids fan fb : sorted_ids ids -> all20 ids -> fan_of ids fan ->
  let '(lo, hi) := fan_bounds fan fb in
  lo <= hi /\ hi <= N.of_nat (length ids) /\
  forall i, i < N.of_nat (length ids) ->
    (lo <= i < hi <-> first_byte (nth (N.to_nat i) ids []) = fb).
Proof.
  intros Hs Ha [Hl Hfan]. unfold fan_bounds.
  pose proof (b2N_lt fb) as Hb.
  pose proof (sorted_fbs ids Hs Ha) as Sf.
  assert (Lf : length (fbs_of ids) = length ids) by (unfold fbs_of; apply map_length).
  assert (Hnth : forall i, (i < length ids)%nat -> nth i (fbs_of ids) 0 = b2N (first_byte (nth i ids []))).
  { intros i Hi. unfold fbs_of. rewrite (nth_indep _ 0 (b2N (first_byte []))) by (rewrite map_length; lia).
    apply (List.map_nth (fun x => b2N (first_byte x))). }
  rewrite (Hfan (b2N fb) Hb).
  destruct (N.eqb_spec (b2N fb) 0) as [Z|Z].
  - split; [lia|]. split; [rewrite <- Lf; apply cnt_le_length|].
    intros i Hi.
    pose proof (cnt_nth _ Sf (b2N fb) (N.to_nat i) ltac:(lia)) as C1.
    rewrite N2Nat.id, Hnth in C1 by lia. split.
    + intros H. apply b2N_inj. lia.
    + intros <-. lia.
  - rewrite (Hfan (b2N fb - 1)) by lia.
    split; [apply cnt_mono; lia|]. split; [rewrite <- Lf; apply cnt_le_length|].
    intros i Hi.
    pose proof (cnt_nth _ Sf (b2N fb) (N.to_nat i) ltac:(lia)) as C1.
    pose proof (cnt_nth _ Sf (b2N fb - 1) (N.to_nat i) ltac:(lia)) as C2.
    rewrite N2Nat.id, Hnth in C1, C2 by lia. split.
    + intros H. apply b2N_inj. lia.
    + intros <-. lia.
Qed.
