(* C09 — executable model of gix-pack's pack index (v2) and multi-pack index: writer and lookups.
   Sources (pinned tree + the fix named in findings.txt):
     gix-pack/src/index/encode.rs       fanout, write_to (v2 layout, 32/64-bit offset split)
     gix-pack/src/index/write/mod.rs    the `gix_verif` hook: sort by id, then write_to
     gix-pack/src/index/init.rs         File::at (v2 header, read_fan)
     gix-pack/src/index/access.rs       oid_at_index, crc32_at_index, pack_offset_at_index, iter_v2,
                                        lookup, lookup_prefix (with and without candidate range)
     gix-pack/src/multi_index/write.rs  write_from_index_paths (collect, sort, dedup, header, TOC)
     gix-pack/src/multi_index/chunk.rs  index_names, fanout, lookup, offsets, large_offsets writers
     gix-pack/src/multi_index/init.rs   File::at reduced to: header, table of contents, chunk validation
     gix-pack/src/multi_index/access.rs oid_at_index, lookup, lookup_prefix, pack_id_and_pack_offset_at_index
     gix-hash/src/prefix.rs             Prefix::new, cmp_oid (same definitions as props/C05)
   Conventions: object ids are 20 bytes (Kind::Sha1).  usize is 64 bit.  u32 values are [N] below 2^32;
   [x | HIGH_BIT], [x & HIGH_BIT == HIGH_BIT], [x ^ HIGH_BIT] on u32 are written arithmetically
   (x + 2^31 for x < 2^31, 2^31 <= x, x - 2^31 for 2^31 <= x).  The trailing index/multi-index checksum
   (SHA-1 of everything before it) is never read by the modelled functions; the model writes 20 zero
   bytes there and the transcripts leave those 20 bytes out.  NO proofs in this file. *)
From GixV.Base Require Import Bytes Outcome.
Local Open Scope N_scope.

Inductive err := Corrupt | UnsupportedVersion | NotV2 | BadChunks.

Definition U32 : N := 4294967296.
Definition LARGE_OFFSET_THRESHOLD : N := 2147483647.   (* 0x7fff_ffff *)
Definition HIGH_BIT : N := 2147483648.                 (* 0x8000_0000 *)
Definition V2_SIGNATURE : bytes := [xff; x74; x4f; x63].   (* "\xfftOc" *)
Definition V2_HEADER_SIZE : N := 1032.                 (* 4 + 4 + 256 * 4 *)

Definition len (l : bytes) : N := N.of_nat (length l).

(* ---- big endian integers: u32::to_be_bytes / from_be_bytes, u64 likewise ---------------------- *)
Fixpoint be_to_N_acc (l : bytes) (acc : N) : N :=
  match l with
  | [] => acc
  | b :: r => be_to_N_acc r (256 * acc + b2N b)
  end.
Definition be_to_N (l : bytes) : N := be_to_N_acc l 0.

(* the low [k] bytes of n, most significant first *)
Fixpoint N_to_be (k : nat) (n : N) : bytes :=
  match k with
  | O => []
  | S k' => N_to_be k' (n / 256) ++ [N2b n]
  end.
Definition be32 (n : N) : bytes := N_to_be 4 n.
Definition be64 (n : N) : bytes := N_to_be 8 n.

(* ---- slices: &data[start..][..n]  (panics when out of bounds) ------------------------------- *)
Definition slice (data : bytes) (start n : N) : outcome bytes err :=
  if start + n <=? len data
  then Ok (firstn (N.to_nat n) (skipn (N.to_nat start) data))
  else Panic.

(* chunks_exact(k) over a slice whose length is a multiple of k (fuel = number of chunks) *)
Fixpoint chunks (k : nat) (count : nat) (l : bytes) : list bytes :=
  match count with
  | O => []
  | S c => firstn k l :: chunks k c (skipn k l)
  end.

(* [lo, lo+1, ..., lo+count-1] *)
Definition N_range (lo : N) (count : nat) : list N := map (fun i => lo + N.of_nat i) (seq 0 count).

Fixpoint mapM {A B} (f : A -> outcome B err) (l : list A) : outcome (list B) err :=
  match l with
  | [] => Ok []
  | x :: r => obind (f x) (fun y => obind (mapM f r) (fun ys => Ok (y :: ys)))
  end.

(* ---- entries ------------------------------------------------------------------------------------ *)
Record entry := { eid : bytes; eofs : N; ecrc : N }.

(* stable insertion sort: Vec::sort_by / sort_by_key are stable *)
Fixpoint insert_by {A} (cmp : A -> A -> comparison) (x : A) (l : list A) : list A :=
  match l with
  | [] => [x]
  | y :: r => match cmp x y with
              | Gt => y :: insert_by cmp x r
              | _ => x :: y :: r
              end
  end.
Definition sort_by {A} (cmp : A -> A -> comparison) (l : list A) : list A :=
  fold_right (insert_by cmp) [] l.

Definition cmp_entry_id (a b : entry) : comparison := bytes_cmp (eid a) (eid b).

Definition first_byte (id : bytes) : byte := hd x00 id.

(* ---- encode::fanout ------------------------------------------------------------------------------
   The Rust loop walks byte = 0..=255 with an enumerated iterator over the first bytes; [l] is the
   not yet consumed part of that iterator INCLUDING the element held in idx_and_entry, [idx] its
   enumeration index, [ub] is upper_bound, [elen] is entries_len (iter.len() as u32). *)
Fixpoint drop_eq (b : byte) (l : bytes) : bytes :=
  match l with
  | x :: r => if beqb x b then drop_eq b r else l
  | [] => []
  end.

Fixpoint fanout_loop (k : nat) (elen idx ub : N) (l : bytes) : outcome (list N) err :=
  match k with
  | O => Ok []
  | S k' =>
      let b := 255 - N.of_nat k' in
      match l with
      | [] => obind (fanout_loop k' elen idx ub l) (fun rest => Ok (elen :: rest))
      | f :: _ =>
          match N.compare (b2N f) b with
          | Lt => Panic                                 (* unreachable!("ids should be ordered…") *)
          | Gt => obind (fanout_loop k' elen idx ub l) (fun rest => Ok (ub :: rest))
          | Eq =>
              if b =? 255 then obind (fanout_loop k' elen idx ub l) (fun rest => Ok (elen :: rest))
              else
                let l' := drop_eq f l in                (* iter.find(|(_, fb)| *fb != byte) *)
                let idx' := idx + (len l - len l') in
                let ub' := match l' with [] => elen | _ => idx' mod U32 end in
                obind (fanout_loop k' elen idx' ub' l') (fun rest => Ok (ub' :: rest))
          end
      end
  end.
Definition fanout (first_bytes : bytes) : outcome (list N) err :=
  fanout_loop 256 (len first_bytes mod U32) 0 0 first_bytes.

(* ---- encode::write_to: offsets ------------------------------------------------------------------- *)
(* returns (32-bit table, 64-bit table); [n64] = offsets64.len() so far *)
Fixpoint split_offsets (ofs : list N) (n64 : N) : outcome (list N * list N) err :=
  match ofs with
  | [] => Ok ([], [])
  | o :: r =>
      if LARGE_OFFSET_THRESHOLD <? o then
        if n64 <? LARGE_OFFSET_THRESHOLD            (* assert!(offsets64.len() < LARGE_OFFSET_THRESHOLD) *)
        then obind (split_offsets r (n64 + 1)) (fun p => Ok ((n64 + HIGH_BIT) :: fst p, o :: snd p))
        else Panic
      else obind (split_offsets r n64) (fun p => Ok (o :: fst p, snd p))
  end.

Definition concat_map {A} (f : A -> bytes) (l : list A) : bytes := concat (map f l).

(* everything write_to emits before the index checksum; entries must already be sorted by id *)
Definition write_v2_body (es : list entry) (pack_hash : bytes) : outcome bytes err :=
  if U32 <=? N.of_nat (length es) then Panic      (* assert!(entries.len() <= u32::MAX) *)
  else
    obind (fanout (map (fun e => first_byte (eid e)) es)) (fun fan =>
    obind (split_offsets (map eofs es) 0) (fun p =>
      Ok (V2_SIGNATURE ++ be32 2
          ++ concat_map be32 fan
          ++ concat_map eid es
          ++ concat_map (fun e => be32 (ecrc e)) es
          ++ concat_map be32 (fst p)
          ++ concat_map be64 (snd p)
          ++ pack_hash))).

Definition checksum_placeholder : bytes := repeat x00 20.

(* the gix_verif hook: sort_by_key(id) then write_to *)
Definition index_write (es : list entry) (pack_hash : bytes) : outcome bytes err :=
  obind (write_v2_body (sort_by cmp_entry_id es) pack_hash) (fun b => Ok (b ++ checksum_placeholder)).

(* ---- index::File::at (v2) ------------------------------------------------------------------------ *)
Record ifile := { idata : bytes; ifan : list N; inum : N }.

Definition read_fan (d : bytes) : outcome (list N) err :=
  if len d <? 1024 then Panic                            (* assert!(d.len() >= FAN_LEN * N32_SIZE) *)
  else Ok (map be_to_N (chunks 4 256 d)).

Definition index_at (data : bytes) : outcome ifile err :=
  if len data <? 1024 + 40 then Err Corrupt
  else if bytes_eqb (firstn 4 data) V2_SIGNATURE then
    if be_to_N (firstn 4 (skipn 4 data)) =? 2 then
      obind (read_fan (skipn 8 data)) (fun fan =>
        Ok {| idata := data; ifan := fan; inum := nth 255 fan 0 |})
    else Err UnsupportedVersion
  else Err NotV2.                                        (* version 1 files are not modelled *)

Definition offset_crc32_v2 (f : ifile) : N := V2_HEADER_SIZE + inum f * 20.
Definition offset_pack_offset_v2 (f : ifile) : N := offset_crc32_v2 f + inum f * 4.
Definition offset_pack_offset64_v2 (f : ifile) : N := offset_pack_offset_v2 f + inum f * 4.

Definition oid_at_index (f : ifile) (i : N) : outcome bytes err :=
  slice (idata f) (V2_HEADER_SIZE + i * 20) 20.

Definition crc32_at_index (f : ifile) (i : N) : outcome N err :=
  obind (slice (idata f) (offset_crc32_v2 f + i * 4) 4) (fun s => Ok (be_to_N s)).

Definition pack_offset_from_offset_v2 (f : ifile) (ofs32 : N) : outcome N err :=
  if HIGH_BIT <=? ofs32 then
    obind (slice (idata f) (offset_pack_offset64_v2 f + (ofs32 - HIGH_BIT) * 8) 8) (fun s => Ok (be_to_N s))
  else Ok ofs32.

Definition pack_offset_at_index (f : ifile) (i : N) : outcome N err :=
  obind (slice (idata f) (offset_pack_offset_v2 f + i * 4) 4) (fun s =>
    pack_offset_from_offset_v2 f (be_to_N s)).

(* iter_v2, expressed through the per-index accessors *)
Definition index_iter (f : ifile) : outcome (list entry) err :=
  mapM (fun i => obind (oid_at_index f i) (fun id =>
                 obind (pack_offset_at_index f i) (fun o =>
                 obind (crc32_at_index f i) (fun c => Ok {| eid := id; eofs := o; ecrc := c |}))))
       (N_range 0 (N.to_nat (inum f))).

(* ---- access::lookup (shared by index::File and multi_index::File) -------------------------------- *)
(* while lower < upper { mid = (lower + upper) / 2 … }  in u32 arithmetic, debug build *)
Fixpoint bisect (fuel : nat) (cmp_at : N -> outcome comparison err) (lo hi : N)
  : outcome (option N) err :=
  match fuel with
  | O => OutOfFuel
  | S fuel' =>
      if lo <? hi then
        if U32 <=? lo + hi then Panic                    (* attempt to add with overflow *)
        else
          let mid := (lo + hi) / 2 in
          obind (cmp_at mid) (fun c =>
            match c with
            | Lt => bisect fuel' cmp_at lo mid
            | Eq => Ok (Some mid)
            | Gt => bisect fuel' cmp_at (mid + 1) hi
            end)
      else Ok None
  end.

Definition BISECT_FUEL : nat := 34.

Definition fan_bounds (fan : list N) (fb : byte) : N * N :=
  let b := b2N fb in
  (if b =? 0 then 0 else nth (N.to_nat (b - 1)) fan 0, nth (N.to_nat b) fan 0).

Definition lookup (fan : list N) (oid_at : N -> outcome bytes err) (id : bytes) : outcome (option N) err :=
  let '(lo, hi) := fan_bounds fan (first_byte id) in
  bisect BISECT_FUEL (fun mid => obind (oid_at mid) (fun o => Ok (bytes_cmp id o))) lo hi.

(* ---- gix_hash::Prefix (as in props/C05) ----------------------------------------------------------- *)
Record prefix := { pbytes : bytes; plen : nat }.
Definition and_f0 (b : byte) : byte := N2b (16 * hi_nibble b).
Fixpoint map_nth {A} (n : nat) (f : A -> A) (l : list A) : list A :=
  match l, n with
  | [], _ => []
  | x :: r, O => f x :: r
  | x :: r, S n' => x :: map_nth n' f r
  end.
Definition prefix_new (id : bytes) (hex_len : nat) : option prefix :=
  if Nat.ltb (2 * length id) hex_len then None
  else if Nat.ltb hex_len 4 then None
  else
    let copy_len := Nat.div (hex_len + 1) 2 in
    let b := firstn copy_len id ++ repeat x00 (length id - copy_len) in
    let b := if Nat.odd hex_len then map_nth (Nat.div hex_len 2) and_f0 b else b in
    Some {| pbytes := b; plen := hex_len |}.
Definition cmp_then (c1 c2 : comparison) : comparison :=
  match c1 with Eq => c2 | _ => c1 end.
Definition cmp_oid (p : prefix) (cand : bytes) : comparison :=
  let common := Nat.div (plen p) 2 in
  cmp_then (bytes_cmp (firstn common (pbytes p)) (firstn common cand))
    (if Nat.odd (plen p)
     then N.compare (b2N (nth common (pbytes p) x00)) (b2N (and_f0 (nth common cand x00)))
     else Eq).

(* ---- access::lookup_prefix ------------------------------------------------------------------------ *)
Inductive pres := PNone | POk (i : N) | PAmbiguous.

(* iter.take_while(|i| cmp(i) == Equal).last() *)
Fixpoint take_while_last (cmp_at : N -> outcome comparison err) (idxs : list N) (last : option N)
  : outcome (option N) err :=
  match idxs with
  | [] => Ok last
  | i :: r => obind (cmp_at i) (fun c =>
                match c with
                | Eq => take_while_last cmp_at r (Some i)
                | _ => Ok last
                end)
  end.

(* what happens when the bisection hits an Equal entry at [mid] *)
Definition on_equal (cands : bool) (cmp_at : N -> outcome comparison err) (num mid : N)
  : outcome (pres * option (N * N)) err :=
  if cands then
    obind (take_while_last cmp_at (rev (N_range 0 (N.to_nat mid))) None) (fun first_past =>
    obind (take_while_last cmp_at (N_range (mid + 1) (N.to_nat (num - (mid + 1)))) None) (fun last_future =>
      let r := match first_past, last_future with
               | Some first, Some last => (first, last + 1)
               | Some first, None => (first, mid + 1)
               | None, Some last => (mid, last + 1)
               | None, None => (mid, mid + 1)
               end in
      Ok (if 1 <? snd r - fst r then PAmbiguous else POk mid, Some r)))
  else
    let next := mid + 1 in
    obind (if next <? num then obind (cmp_at next) (fun c => Ok (match c with Eq => true | _ => false end))
           else Ok false) (fun amb_next =>
      if amb_next then Ok (PAmbiguous, None)
      else
        obind (if negb (mid =? 0) then obind (cmp_at (mid - 1)) (fun c => Ok (match c with Eq => true | _ => false end))
               else Ok false) (fun amb_prev =>
          if amb_prev then Ok (PAmbiguous, None) else Ok (POk mid, None))).

Fixpoint bisect_prefix (fuel : nat) (cands : bool) (cmp_at : N -> outcome comparison err) (num lo hi : N)
  : outcome (pres * option (N * N)) err :=
  match fuel with
  | O => OutOfFuel
  | S fuel' =>
      if lo <? hi then
        if U32 <=? lo + hi then Panic
        else
          let mid := (lo + hi) / 2 in
          obind (cmp_at mid) (fun c =>
            match c with
            | Lt => bisect_prefix fuel' cands cmp_at num lo mid
            | Eq => on_equal cands cmp_at num mid
            | Gt => bisect_prefix fuel' cands cmp_at num (mid + 1) hi
            end)
      else Ok (PNone, if cands then Some (0, 0) else None)
  end.

Definition lookup_prefix (cands : bool) (fan : list N) (oid_at : N -> outcome bytes err) (num : N) (p : prefix)
  : outcome (pres * option (N * N)) err :=
  let '(lo, hi) := fan_bounds fan (first_byte (pbytes p)) in
  bisect_prefix BISECT_FUEL cands (fun i => obind (oid_at i) (fun o => Ok (cmp_oid p o))) num lo hi.

Definition index_lookup (f : ifile) (id : bytes) := lookup (ifan f) (oid_at_index f) id.
Definition index_lookup_prefix (cands : bool) (f : ifile) (p : prefix) :=
  lookup_prefix cands (ifan f) (oid_at_index f) (inum f) p.

(* ---- multi-pack index: writer --------------------------------------------------------------------- *)
Record mentry := { mid_ : bytes; mpack : N; mofs : N; mmtime : N }.

(* l.id.cmp(&r.id).then_with(|| l.index_mtime.cmp(&r.index_mtime).reverse()).then_with(|| l.pack_index.cmp(&r.pack_index)) *)
Definition cmp_mentry (a b : mentry) : comparison :=
  cmp_then (bytes_cmp (mid_ a) (mid_ b))
    (cmp_then (CompOpp (N.compare (mmtime a) (mmtime b))) (N.compare (mpack a) (mpack b))).

(* Vec::dedup_by_key(|e| e.id): drops an element equal (by key) to the last retained one *)
Fixpoint dedup_go (prev : bytes) (l : list mentry) : list mentry :=
  match l with
  | [] => []
  | y :: r => if bytes_eqb prev (mid_ y) then dedup_go prev r else y :: dedup_go (mid_ y) r
  end.
Definition dedup_by_id (l : list mentry) : list mentry :=
  match l with
  | [] => []
  | x :: r => x :: dedup_go (mid_ x) r
  end.

(* an input pack index: the mtime of the .idx file and its entries *)
Definition pack_in : Type := N * list entry.

(* entries of pack [index_id]: written by the index writer, opened, iterated *)
Definition collect_one (index_id : N) (p : pack_in) : outcome (list mentry) err :=
  obind (index_write (snd p) (repeat (N2b index_id) 20)) (fun data =>
  obind (index_at data) (fun f =>
  obind (index_iter f) (fun es =>
    Ok (map (fun e => {| mid_ := eid e; mpack := index_id; mofs := eofs e; mmtime := fst p |}) es)))).

Fixpoint collect (index_id : N) (ps : list pack_in) : outcome (list mentry) err :=
  match ps with
  | [] => Ok []
  | p :: r => obind (collect_one index_id p) (fun a => obind (collect (index_id + 1) r) (fun b => Ok (a ++ b)))
  end.

(* the harness names the index files p00.idx, p01.idx, … *)
Definition index_name (i : N) : bytes :=
  bs "p" ++ [N2b (48 + i / 10); N2b (48 + i mod 10)] ++ bs ".idx".

(* chunk::index_names::write and storage_size *)
Definition pnam_chunk (k : nat) : bytes :=
  let raw := concat_map (fun i => index_name i ++ [x00]) (N_range 0 k) in
  let needed := 4 - (len raw mod 4) in
  if needed <? 4 then raw ++ repeat x00 (N.to_nat needed) else raw.

(* chunk::large_offsets::num_large_offsets *)
Definition count_large (es : list mentry) : N :=
  len (map (fun _ => x00) (filter (fun e => LARGE_OFFSET_THRESHOLD <? mofs e) es)).
Definition needs_large (es : list mentry) : bool :=
  existsb (fun e => (U32 - 1) <? mofs e) es.

(* chunk::offsets::write *)
Fixpoint ooff_chunk (large_needed : bool) (es : list mentry) (num_large : N) : outcome bytes err :=
  match es with
  | [] => Ok []
  | e :: r =>
      if large_needed then
        if LARGE_OFFSET_THRESHOLD <? mofs e
        then obind (ooff_chunk large_needed r (num_large + 1)) (fun t =>
               Ok (be32 (mpack e) ++ be32 (num_large + HIGH_BIT) ++ t))
        else obind (ooff_chunk large_needed r num_large) (fun t => Ok (be32 (mpack e) ++ be32 (mofs e) ++ t))
      else
        if mofs e <? U32                                  (* try_into().expect("…fits u32") *)
        then obind (ooff_chunk large_needed r num_large) (fun t => Ok (be32 (mpack e) ++ be32 (mofs e) ++ t))
        else Panic
  end.

(* chunk::large_offsets::write *)
Definition loff_chunk (es : list mentry) : bytes :=
  concat_map (fun e => be64 (mofs e)) (filter (fun e => LARGE_OFFSET_THRESHOLD <? mofs e) es).

Definition MIDX_HEADER_LEN : N := 12.

(* table of contents (gix-chunk Index::into_write): (id, size) in plan order *)
Fixpoint toc_bytes (chunks : list (bytes * N)) (ofs : N) : bytes :=
  match chunks with
  | [] => [x00; x00; x00; x00] ++ be64 ofs                (* sentinel *)
  | (id, size) :: r => id ++ be64 ofs ++ toc_bytes r (ofs + size)
  end.

(* everything before the trailing checksum *)
Definition midx_write_body (ps : list pack_in) : outcome bytes err :=
  obind (collect 0 ps) (fun all =>
    let es := dedup_by_id (sort_by cmp_mentry all) in
    let k := length ps in
    let large := needs_large es in
    obind (fanout (map (fun e => first_byte (mid_ e)) es)) (fun fan =>
    obind (ooff_chunk large es 0) (fun ooff =>
      let pnam := pnam_chunk k in
      let oidf := concat_map be32 fan in
      let oidl := concat_map mid_ es in
      let loff := loff_chunk es in
      let plan := [(bs "PNAM", len pnam); (bs "OIDF", 1024); (bs "OIDL", len oidl); (bs "OOFF", len ooff)]
                  ++ (if large then [(bs "LOFF", 8 * count_large es)] else []) in
      let nchunks := N.of_nat (length plan) in
      Ok (bs "MIDX" ++ [x01; x01; N2b nchunks; x00] ++ be32 (N.of_nat k)
          ++ toc_bytes plan (MIDX_HEADER_LEN + 12 * (nchunks + 1))
          ++ pnam ++ oidf ++ oidl ++ ooff ++ (if large then loff else []))))).

Definition midx_write (ps : list pack_in) : outcome bytes err :=
  obind (midx_write_body ps) (fun b => Ok (b ++ checksum_placeholder)).

(* ---- multi-pack index: File::at, reduced ------------------------------------------------------------
   Header fields, the table of contents (gix-chunk Index::from_bytes, without its error taxonomy:
   every rejection is BadChunks) and the per-chunk validations of init.rs.  The PNAM chunk is not parsed. *)
Record mfile := { mdata : bytes; mfan : list N; mnum : N; mnum_indices : N;
                  lookup_ofs : N; offsets_ofs : N; large_offsets_ofs : option N }.

(* find chunk [id] among [count] TOC entries starting at [pos]: Some (start, end) *)
Fixpoint toc_find (data : bytes) (id : bytes) (count : nat) (pos : N) : option (N * N) :=
  match count with
  | O => None
  | S c =>
      let e := firstn 12 (skipn (N.to_nat pos) data) in
      let nxt := firstn 12 (skipn (N.to_nat (pos + 12)) data) in
      if bytes_eqb (firstn 4 e) id
      then Some (be_to_N (skipn 4 e), be_to_N (skipn 4 nxt))
      else toc_find data id c (pos + 12)
  end.

(* all TOC offsets within the file and not decreasing *)
Fixpoint toc_ok (data : bytes) (count : nat) (pos : N) : bool :=
  match count with
  | O => bytes_eqb (firstn 4 (skipn (N.to_nat pos) data)) [x00; x00; x00; x00]
  | S c =>
      let e := firstn 12 (skipn (N.to_nat pos) data) in
      let nxt := firstn 12 (skipn (N.to_nat (pos + 12)) data) in
      let o := be_to_N (skipn 4 e) in
      let n := be_to_N (skipn 4 nxt) in
      negb (bytes_eqb (firstn 4 e) [x00; x00; x00; x00])
      && (o <=? len data) && (n <=? len data) && (o <=? n) && toc_ok data c (pos + 12)
  end.

Definition midx_at (data : bytes) : outcome mfile err :=
  if len data <? 12 + 60 + 1024 + 20 then Err Corrupt
  else if negb (bytes_eqb (firstn 4 data) (bs "MIDX")) then Err Corrupt
  else if negb (b2N (nth 4 data x00) =? 1) then Err UnsupportedVersion
  else if negb (b2N (nth 5 data x00) =? 1) then Err UnsupportedVersion
  else
    let nchunks := N.to_nat (b2N (nth 6 data x00)) in
    let num_indices := be_to_N (firstn 4 (skipn 8 data)) in
    if (nchunks =? 0)%nat then Err BadChunks
    else if len data - 12 <? 12 * (N.of_nat nchunks + 1) then Err BadChunks
    else if negb (toc_ok data nchunks 12) then Err BadChunks
    else
      match toc_find data (bs "PNAM") nchunks 12, toc_find data (bs "OIDF") nchunks 12,
            toc_find data (bs "OIDL") nchunks 12, toc_find data (bs "OOFF") nchunks 12 with
      | Some _, Some (fs, fe), Some (ls, le), Some (os, oe) =>
          if negb (fe - fs =? 1024) then Err BadChunks
          else
            let fan := map be_to_N (chunks 4 256 (skipn (N.to_nat fs) data)) in
            let num := nth 255 fan 0 in
            if negb ((le - ls) / 20 =? num) then Err BadChunks          (* lookup::is_valid *)
            else if negb ((oe - os) / 8 =? num) then Err BadChunks      (* offsets::is_valid (fixed form) *)
            else
              match toc_find data (bs "LOFF") nchunks 12 with
              | Some (s, e) =>
                  if negb ((e - s) mod 8 =? 0) then Err BadChunks
                  else Ok {| mdata := data; mfan := fan; mnum := num; mnum_indices := num_indices;
                             lookup_ofs := ls; offsets_ofs := os; large_offsets_ofs := Some s |}
              | None => Ok {| mdata := data; mfan := fan; mnum := num; mnum_indices := num_indices;
                              lookup_ofs := ls; offsets_ofs := os; large_offsets_ofs := None |}
              end
      | _, _, _, _ => Err BadChunks
      end.

Definition midx_oid_at_index (f : mfile) (i : N) : outcome bytes err :=
  if i <? mnum f                                   (* debug_assert!(index < self.num_objects) *)
  then slice (mdata f) (lookup_ofs f + i * 20) 20
  else Panic.

Definition midx_pack_id_and_offset_at_index (f : mfile) (i : N) : outcome (N * N) err :=
  let start := offsets_ofs f + i * 8 in
  obind (slice (mdata f) start 4) (fun p =>
  obind (slice (mdata f) (start + 4) 4) (fun o =>
    let ofs32 := be_to_N o in
    if HIGH_BIT <=? ofs32 then
      match large_offsets_ofs f with
      | Some l => obind (slice (mdata f) (l + (ofs32 - HIGH_BIT) * 8) 8) (fun s => Ok (be_to_N p, be_to_N s))
      | None => Ok (be_to_N p, ofs32)
      end
    else Ok (be_to_N p, ofs32))).

Definition midx_lookup (f : mfile) (id : bytes) := lookup (mfan f) (midx_oid_at_index f) id.
Definition midx_lookup_prefix (cands : bool) (f : mfile) (p : prefix) :=
  lookup_prefix cands (mfan f) (midx_oid_at_index f) (mnum f) p.
