(* C09 — transcript printer: the same observable line the Rust harness prints for a case.
   cases:  idx <entries> <packhash> <ids> <prefixes>
           midx <k> (<mtime> <entries>){k} <ids> <prefixes>
           gitpack <blob>…                 (no model: SHA-1 of the blobs is needed; must print "gitpack same")
   entries = 32-byte records id(20) offset(be64) crc(be32); ids = 20-byte records;
   prefixes = 21-byte records id(20) hexlen(1) *)
From GixV.Base Require Import Bytes Outcome.
From GixV.C09 Require Import Model.
Local Open Scope N_scope.

Definition err_name (e : err) : bytes :=
  match e with
  | Corrupt => bs "Corrupt" | UnsupportedVersion => bs "UnsupportedVersion"
  | NotV2 => bs "NotV2" | BadChunks => bs "Open"
  end.

Fixpoint records (k : nat) (fuel : nat) (l : bytes) : list bytes :=
  match fuel with
  | O => []
  | S f => if Nat.ltb (length l) k then [] else firstn k l :: records k f (skipn k l)
  end.
Definition recs (k : nat) (l : bytes) : list bytes := records k (length l) l.

Definition pad20 (b : bytes) : bytes := firstn 20 b ++ repeat x00 (20 - length b).

Definition parse_entries (b : bytes) : list entry :=
  map (fun r => {| eid := firstn 20 r; eofs := be_to_N (firstn 8 (skipn 20 r)); ecrc := be_to_N (skipn 28 r) |})
      (recs 32 b).
Definition parse_prefixes (b : bytes) : list (bytes * nat) :=
  map (fun r => (firstn 20 r, N.to_nat (b2N (nth 20 r x00)))) (recs 21 b).

Fixpoint join_comma (ls : list bytes) : bytes :=
  match ls with
  | [] => []
  | [x] => x
  | x :: r => x ++ bs "," ++ join_comma r
  end.
Definition join_or_dash (ls : list bytes) : bytes :=
  match ls with [] => bs "-" | _ => join_comma ls end.

Definition dec := N_to_dec.

Definition show_res (r : pres) : bytes :=
  match r with PNone => bs "N" | POk i => bs "O" ++ dec i | PAmbiguous => bs "A" end.

(* one prefix query: with candidates, then without *)
Definition show_prefix_query (lp : bool -> prefix -> outcome (pres * option (N * N)) err) (q : bytes * nat)
  : outcome bytes err :=
  match prefix_new (fst q) (snd q) with
  | None => Ok (bs "x")
  | Some p =>
      obind (lp true p) (fun a =>
      obind (lp false p) (fun b =>
        let r := match snd a with Some r => r | None => (7, 5) end in
        Ok (show_res (fst a) ++ bs ":" ++ dec (fst r) ++ bs ".." ++ dec (snd r) ++ bs ":" ++ show_res (fst b))))
  end.

Definition show {A} (f : A -> bytes) (o : outcome A err) : bytes :=
  match o with
  | Ok a => f a
  | Err e => bs "err " ++ err_name e
  | Panic => bs "PANIC"
  | OutOfFuel => bs "HANG"
  end.

Definition drop_last20 (b : bytes) : bytes := firstn (length b - 20) b.

Definition run_idx (fs : list bytes) : bytes :=
  let es := parse_entries (nth_field 1 fs) in
  let ph := pad20 (nth_field 2 fs) in
  let ids := map eid es ++ recs 20 (nth_field 3 fs) in
  let qs := parse_prefixes (nth_field 4 fs) in
  show (fun x => x)
    (obind (index_write es ph) (fun data =>
     obind (index_at data) (fun f =>
     obind (mapM (fun id =>
              obind (index_lookup f id) (fun r =>
                match r with
                | None => Ok (bs "n")
                | Some i =>
                    obind (pack_offset_at_index f i) (fun o =>
                    obind (crc32_at_index f i) (fun c =>
                    obind (oid_at_index f i) (fun _ =>
                      Ok (dec i ++ bs "/" ++ dec o ++ bs "/" ++ dec c))))
                end)) ids) (fun ls =>
     obind (mapM (show_prefix_query (fun c p => index_lookup_prefix c f p)) qs) (fun ps =>
     obind (index_iter f) (fun _ =>
       Ok (bs "ok n=" ++ dec (inum f) ++ bs " L=" ++ join_or_dash ls ++ bs " P=" ++ join_or_dash ps
           ++ bs " F=" ++ hex_encode (drop_last20 data)))))))).

Fixpoint parse_packs (k : nat) (i : nat) (fs : list bytes) : list pack_in :=
  match k with
  | O => []
  | S k' => (field_N i fs, parse_entries (nth_field (i + 1) fs)) :: parse_packs k' (i + 2) fs
  end.

Definition run_midx (fs : list bytes) : bytes :=
  let k := Nat.min (N.to_nat (field_N 1 fs)) 64 in
  let ps := parse_packs k 2 fs in
  let ids := concat (map (fun p => map eid (snd p)) ps) ++ recs 20 (nth_field (2 + 2 * k) fs) in
  let qs := parse_prefixes (nth_field (3 + 2 * k) fs) in
  show (fun x => x)
    (obind (midx_write ps) (fun data =>
     obind (midx_at data) (fun f =>
     obind (mapM (fun id =>
              obind (midx_lookup f id) (fun r =>
                match r with
                | None => Ok (bs "n")
                | Some i =>
                    obind (midx_pack_id_and_offset_at_index f i) (fun po =>
                    obind (midx_oid_at_index f i) (fun _ =>
                      Ok (dec i ++ bs "/" ++ dec (fst po) ++ bs "/" ++ dec (snd po))))
                end)) ids) (fun ls =>
     obind (mapM (show_prefix_query (fun c p => midx_lookup_prefix c f p)) qs) (fun ps' =>
     obind (mapM (fun i => obind (midx_pack_id_and_offset_at_index f i) (fun _ => midx_oid_at_index f i))
                 (N_range 0 (N.to_nat (mnum f)))) (fun _ =>
       Ok (bs "ok n=" ++ dec (mnum f) ++ bs " k=" ++ dec (mnum_indices f)
           ++ bs " L=" ++ join_or_dash ls ++ bs " P=" ++ join_or_dash ps'
           ++ bs " F=" ++ hex_encode (drop_last20 data)))))))).

Definition run_model (fs : list bytes) : bytes :=
  let op := nth_field 0 fs in
  if bytes_eqb op (bs "idx") then run_idx fs
  else if bytes_eqb op (bs "midx") then run_midx fs
  else if bytes_eqb op (bs "gitpack") then bs "gitpack same"
  else bs "?".

(* what `git show-index` must print for the index written from the entries: the sorted entries *)
Definition run_spec (fs : list bytes) : bytes :=
  if bytes_eqb (nth_field 0 fs) (bs "idx") then
    let es := sort_by cmp_entry_id (parse_entries (nth_field 1 fs)) in
    bs "show-index " ++ join_or_dash
      (map (fun e => dec (eofs e) ++ bs "/" ++ hex_encode (eid e) ++ bs "/" ++ dec (ecrc e)) es)
  else bs "-".

Definition run (fs : list bytes) : bytes :=
  match fs with
  | mode :: rest => if bytes_eqb mode (bs "spec") then run_spec rest else run_model rest
  | [] => bs "?"
  end.
