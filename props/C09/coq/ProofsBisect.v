(* C09 — the bisections of access.rs against an abstract comparison sequence.
   [c i] is the comparison of the needle with the entry at index i; on a sorted table it is
   Gt … Gt Eq … Eq Lt … Lt ("monotone").  Everything here is independent of bytes and files. *)
From Coq Require Import Lia ZifyBool ZifyNat ZifyN.
From GixV.Base Require Import Bytes BytesFacts Outcome.
From GixV.C09 Require Import Model.
Ltac Zify.zify_post_hook ::= Z.div_mod_to_equations.
Local Open Scope N_scope.

Definition mono (c : N -> comparison) (lo hi : N) : Prop :=
  forall i j, lo <= i -> i <= j -> j < hi -> (c i = Lt -> c j = Lt) /\ (c j = Gt -> c i = Gt).

Lemma mono_sub c lo hi lo' hi' : mono c lo hi -> lo <= lo' -> hi' <= hi -> mono c lo' hi'.
Proof. intros M A B i j H1 H2 H3. apply M; lia. Qed.

Section Bisect.
  Variable cmp_at : N -> outcome comparison err.
  Variable c : N -> comparison.

  (* ---- lookup ---- *)
  Lemma bisect_spec : forall fuel lo hi,
    hi - lo < 2 ^ N.of_nat fuel -> hi <= HIGH_BIT ->
    (forall i, lo <= i < hi -> cmp_at i = Ok (c i)) -> mono c lo hi ->
    exists r, bisect (S fuel) cmp_at lo hi = Ok r /\
      match r with
      | Some m => lo <= m < hi /\ c m = Eq
      | None => forall i, lo <= i < hi -> c i <> Eq
      end.
  Proof.
    induction fuel as [|fuel IH]; intros lo hi Hsz Hhi Hok Hm.
    - cbn [N.of_nat] in Hsz. change (2 ^ 0) with 1 in Hsz.
      cbn [bisect]. destruct (N.ltb_spec lo hi); [lia|].
      exists None. split; [reflexivity|]. intros; lia.
    - rewrite Nat2N.inj_succ, N.pow_succ_r' in Hsz.
      remember (S fuel) as sf. cbn [bisect]. subst sf.
      destruct (N.ltb_spec lo hi) as [Hlt|Hge].
      2:{ exists None. split; [reflexivity|]. intros; lia. }
      unfold HIGH_BIT in Hhi. unfold U32.
      destruct (N.leb_spec 4294967296 (lo + hi)); [lia|].
      set (mid := (lo + hi) / 2).
      assert (Hmid : lo <= mid < hi) by (unfold mid; lia).
      rewrite (Hok mid Hmid). cbn [obind].
      destruct (c mid) eqn:Hc.
      + exists (Some mid). split; [reflexivity|]. split; assumption.
      + destruct (IH lo mid) as [r [Hr Hs]].
        * unfold mid; lia.
        * unfold HIGH_BIT; lia.
        * intros; apply Hok; lia.
        * eapply mono_sub; [exact Hm|lia|lia].
        * exists r. split; [exact Hr|]. destruct r as [m|].
          -- destruct Hs; split; [lia|assumption].
          -- intros i Hi. destruct (N.ltb_spec i mid).
             ++ apply Hs; lia.
             ++ destruct (Hm mid i) as [A _]; try lia. rewrite (A Hc). discriminate.
      + destruct (IH (mid + 1) hi) as [r [Hr Hs]].
        * unfold mid; lia.
        * unfold HIGH_BIT; lia.
        * intros; apply Hok; lia.
        * eapply mono_sub; [exact Hm|lia|lia].
        * exists r. split; [exact Hr|]. destruct r as [m|].
          -- destruct Hs; split; [lia|assumption].
          -- intros i Hi. destruct (N.ltb_spec mid i).
             ++ apply Hs; lia.
             ++ destruct (Hm i mid) as [_ A]; try lia. rewrite (A Hc). discriminate.
  Qed.

  (* the overflowing case: with more than 2^31 objects the sum of the bounds can exceed u32 *)
  Lemma bisect_overflow : forall fuel lo hi, lo < hi -> U32 <= lo + hi ->
    bisect (S fuel) cmp_at lo hi = Panic.
  Proof.
    intros fuel lo hi H1 H2. cbn [bisect].
    destruct (N.ltb_spec lo hi); [|lia]. destruct (N.leb_spec U32 (lo + hi)); [reflexivity|lia].
  Qed.

  (* ---- the neighbour scans of lookup_prefix ---- *)
  Variable num a b : N.
  Hypothesis Hok : forall i, i < num -> cmp_at i = Ok (c i).
  Hypothesis Hint : forall i, i < num -> (c i = Eq <-> a <= i < b).
  Hypothesis Hb : b <= num.

  Lemma N_range_S lo k : N_range lo (S k) = N_range lo k ++ [lo + N.of_nat k].
  Proof. unfold N_range. rewrite seq_S, map_app. reflexivity. Qed.

  Lemma N_range_cons lo k : N_range lo (S k) = lo :: N_range (lo + 1) k.
  Proof.
    unfold N_range. cbn [seq map]. f_equal; [lia|].
    rewrite <- seq_shift, map_map. apply map_ext. intros; lia.
  Qed.

  Lemma scan_down : forall (x : nat) (L : option N), a <= N.of_nat x -> N.of_nat x <= b ->
    take_while_last cmp_at (rev (N_range 0 x)) L =
    Ok (if a <? N.of_nat x then Some a else L).
  Proof.
    induction x as [|x IH]; intros L Ha Hx.
    - cbn. destruct (N.ltb_spec a 0); [lia|reflexivity].
    - rewrite N_range_S, rev_app_distr. cbn [rev app take_while_last].
      rewrite N.add_0_l. rewrite Hok by lia. cbn [obind].
      destruct (N.ltb_spec a (N.of_nat (S x))) as [Hlt|Hge].
      + assert (E : c (N.of_nat x) = Eq) by (apply Hint; lia). rewrite E.
        rewrite IH by lia.
        destruct (N.ltb_spec a (N.of_nat x)); [reflexivity|]. f_equal. f_equal. lia.
      + (* a = S x: the entry below is not equal *)
        destruct (c (N.of_nat x)) eqn:E; try reflexivity.
        apply Hint in E; lia.
  Qed.

  Lemma scan_up : forall (k : nat) (x : N) (L : option N), x + N.of_nat k = num -> a <= x ->
    x <= b ->
    take_while_last cmp_at (N_range x k) L =
    Ok (if x <? b then Some (b - 1) else L).
  Proof.
    induction k as [|k IH]; intros x L Hn Ha Hx.
    - cbn. destruct (N.ltb_spec x b); [lia|reflexivity].
    - rewrite N_range_cons. cbn [take_while_last]. rewrite Hok by lia. cbn [obind].
      destruct (N.ltb_spec x b) as [Hlt|Hge].
      + assert (E : c x = Eq) by (apply Hint; lia). rewrite E.
        rewrite IH; try lia.
        destruct (N.ltb_spec (x + 1) b); [reflexivity|]. f_equal. f_equal. lia.
      + destruct (c x) eqn:E; try reflexivity. apply Hint in E; lia.
  Qed.

  Lemma on_equal_spec : forall cands mid, a <= mid < b ->
    on_equal cands cmp_at num mid =
    Ok (if 1 <? b - a then PAmbiguous else POk a, if cands then Some (a, b) else None).
  Proof.
    intros cands mid Hmid. unfold on_equal. destruct cands.
    - pose proof (scan_down (N.to_nat mid) None) as D. rewrite N2Nat.id in D.
      rewrite D by lia. cbn [obind].
      rewrite (scan_up (N.to_nat (num - (mid + 1))) (mid + 1) None) by lia. cbn [obind].
      destruct (N.ltb_spec a mid), (N.ltb_spec (mid + 1) b); cbn [fst snd].
      + replace (b - 1 + 1) with b by lia.
        destruct (N.ltb_spec 1 (b - a)); [reflexivity|lia].
      + destruct (N.ltb_spec 1 (mid + 1 - a)), (N.ltb_spec 1 (b - a)); try lia.
        replace (mid + 1) with b by lia. reflexivity.
      + replace (b - 1 + 1) with b by lia. replace mid with a by lia.
        destruct (N.ltb_spec 1 (b - a)); [reflexivity|lia].
      + replace mid with a by lia. replace (a + 1) with b by lia.
        destruct (N.ltb_spec 1 (b - a)), (N.ltb_spec 1 (b - a)); try lia. reflexivity.
    - destruct (N.ltb_spec (mid + 1) num) as [Hn|Hn].
      + rewrite Hok by lia. cbn [obind].
        destruct (c (mid + 1)) eqn:E.
        * apply Hint in E; [|lia]. destruct (N.ltb_spec 1 (b - a)); [reflexivity|lia].
        * assert (~ (a <= mid + 1 < b)) by (rewrite <- Hint by lia; congruence).
          destruct (N.eqb_spec mid 0) as [Z|Z]; cbn [negb obind].
          -- destruct (N.ltb_spec 1 (b - a)); [lia|]. f_equal. f_equal. f_equal. lia.
          -- rewrite Hok by lia. cbn [obind]. destruct (c (mid - 1)) eqn:E'.
             ++ apply Hint in E'; [|lia]. destruct (N.ltb_spec 1 (b - a)); [reflexivity|lia].
             ++ assert (~ (a <= mid - 1 < b)) by (rewrite <- Hint by lia; congruence).
                destruct (N.ltb_spec 1 (b - a)); [lia|]. f_equal. f_equal. f_equal. lia.
             ++ assert (~ (a <= mid - 1 < b)) by (rewrite <- Hint by lia; congruence).
                destruct (N.ltb_spec 1 (b - a)); [lia|]. f_equal. f_equal. f_equal. lia.
        * assert (~ (a <= mid + 1 < b)) by (rewrite <- Hint by lia; congruence).
          destruct (N.eqb_spec mid 0) as [Z|Z]; cbn [negb obind].
          -- destruct (N.ltb_spec 1 (b - a)); [lia|]. f_equal. f_equal. f_equal. lia.
          -- rewrite Hok by lia. cbn [obind]. destruct (c (mid - 1)) eqn:E'.
             ++ apply Hint in E'; [|lia]. destruct (N.ltb_spec 1 (b - a)); [reflexivity|lia].
             ++ assert (~ (a <= mid - 1 < b)) by (rewrite <- Hint by lia; congruence).
                destruct (N.ltb_spec 1 (b - a)); [lia|]. f_equal. f_equal. f_equal. lia.
             ++ assert (~ (a <= mid - 1 < b)) by (rewrite <- Hint by lia; congruence).
                destruct (N.ltb_spec 1 (b - a)); [lia|]. f_equal. f_equal. f_equal. lia.
      + cbn [obind].
        destruct (N.eqb_spec mid 0) as [Z|Z]; cbn [negb obind].
        * destruct (N.ltb_spec 1 (b - a)); [lia|]. f_equal. f_equal. f_equal. lia.
        * rewrite Hok by lia. cbn [obind]. destruct (c (mid - 1)) eqn:E'.
          -- apply Hint in E'; [|lia]. destruct (N.ltb_spec 1 (b - a)); [reflexivity|lia].
          -- assert (~ (a <= mid - 1 < b)) by (rewrite <- Hint by lia; congruence).
             destruct (N.ltb_spec 1 (b - a)); [lia|]. f_equal. f_equal. f_equal. lia.
          -- assert (~ (a <= mid - 1 < b)) by (rewrite <- Hint by lia; congruence).
             destruct (N.ltb_spec 1 (b - a)); [lia|]. f_equal. f_equal. f_equal. lia.
  Qed.

  (* ---- lookup_prefix: bisection inside [lo, hi), a bucket that holds every equal entry ---- *)
  Lemma bisect_prefix_spec : forall fuel cands lo hi,
    hi - lo < 2 ^ N.of_nat fuel -> hi <= HIGH_BIT -> hi <= num ->
    mono c lo hi ->
    (a < b -> lo <= a /\ b <= hi) ->
    bisect_prefix (S fuel) cands cmp_at num lo hi =
    Ok (if a <? b then (if 1 <? b - a then PAmbiguous else POk a, if cands then Some (a, b) else None)
        else (PNone, if cands then Some (0, 0) else None)).
  Proof.
    induction fuel as [|fuel IH]; intros cands lo hi Hsz Hhi Hnum Hm Hin.
    - cbn [N.of_nat] in Hsz. change (2 ^ 0) with 1 in Hsz.
      cbn [bisect_prefix]. destruct (N.ltb_spec lo hi); [lia|].
      destruct (N.ltb_spec a b); [lia|reflexivity].
    - rewrite Nat2N.inj_succ, N.pow_succ_r' in Hsz.
      remember (S fuel) as sf. cbn [bisect_prefix]. subst sf.
      destruct (N.ltb_spec lo hi) as [Hlt|Hge].
      2:{ destruct (N.ltb_spec a b); [lia|reflexivity]. }
      unfold HIGH_BIT in Hhi. unfold U32.
      destruct (N.leb_spec 4294967296 (lo + hi)); [lia|].
      set (mid := (lo + hi) / 2).
      assert (Hmid : lo <= mid < hi) by (unfold mid; lia).
      rewrite Hok by lia. cbn [obind].
      destruct (c mid) eqn:Hc.
      + assert (a <= mid < b) by (apply Hint; [lia|assumption]).
        rewrite on_equal_spec by assumption.
        destruct (N.ltb_spec a b); [reflexivity|lia].
      + apply IH.
        * unfold mid; lia.
        * unfold HIGH_BIT; lia.
        * lia.
        * eapply mono_sub; [exact Hm|lia|lia].
        * intros Hab. destruct (Hin Hab). split; [lia|].
          (* every index from mid on compares Lt, so b <= mid *)
          destruct (N.leb_spec b mid); [assumption|].
          destruct (Hm mid (b - 1)) as [A _]; try lia.
          assert (E : c (b - 1) = Eq) by (apply Hint; lia). rewrite (A Hc) in E. discriminate.
      + apply IH.
        * unfold mid; lia.
        * unfold HIGH_BIT; lia.
        * lia.
        * eapply mono_sub; [exact Hm|lia|lia].
        * intros Hab. destruct (Hin Hab). split; [|lia].
          destruct (N.leb_spec (mid + 1) a); [assumption|].
          destruct (Hm a mid) as [_ A]; try lia.
          assert (E : c a = Eq) by (apply Hint; lia). rewrite (A Hc) in E. discriminate.
  Qed.
End Bisect.
