(* C09 — byte level: pack_offset_at_index and crc32_at_index on the file written by the index writer
   return the offset / crc32 written for the i-th entry in id order (32-bit and 64-bit offset tables). *)
From Coq Require Import Lia ZifyBool ZifyNat ZifyN Sorted Permutation.
From GixV.Base Require Import Bytes BytesFacts Outcome.
From GixV.C09 Require Import Model ProofsBisect ProofsOrder ProofsLookup ProofsFanout ProofsWrite ProofsLayout.
Ltac Zify.zify_post_hook ::= Z.div_mod_to_equations.
Local Open Scope N_scope.

Definition U64 : N := 18446744073709551616.

Lemma be64_rt n : n < U64 -> be_to_N (be64 n) = n.
Proof.
  intros H. unfold be64. rewrite (proj1 (L_be_roundtrip 8 n)). apply N.mod_small.
  change (256 ^ N.of_nat 8) with 18446744073709551616. exact H.
Qed.

(* a high-bit entry of the 32-bit table indexes inside the 64-bit table *)
Lemma split_offsets_idx : forall ofs n64 a b, split_offsets ofs n64 = Ok (a, b) ->
  Forall (fun v => HIGH_BIT <= v -> n64 <= v - HIGH_BIT /\ v - HIGH_BIT < n64 + N.of_nat (length b)) a.
Proof.
  induction ofs as [|o r IH]; intros n64 a b H; cbn [split_offsets] in H.
  - injection H as <- <-. constructor.
  - destruct (N.ltb_spec LARGE_OFFSET_THRESHOLD o) as [Hl|Hs].
    + destruct (N.ltb_spec n64 LARGE_OFFSET_THRESHOLD); [|discriminate].
      destruct (split_offsets r (n64 + 1)) as [[a' b']| | |] eqn:E; cbn [obind] in H; try discriminate.
      injection H as <- <-. cbn [fst snd]. constructor.
      * intros _. cbn [length]. lia.
      * eapply Forall_impl; [|exact (IH _ _ _ E)]. cbv beta. intros v Hv Hh. specialize (Hv Hh).
        cbn [length]. lia.
    + destruct (split_offsets r n64) as [[a' b']| | |] eqn:E; cbn [obind] in H; try discriminate.
      injection H as <- <-. cbn [fst snd]. constructor.
      * unfold HIGH_BIT, LARGE_OFFSET_THRESHOLD in *. intros; lia.
      * exact (IH _ _ _ E).
Qed.

Definition dflt : entry := {| eid := []; eofs := 0; ecrc := 0 |}.

Theorem L_index_offsets_crcs : forall es ph,
  Forall (fun e => length (eid e) = 20%nat) es -> N.of_nat (length es) <= LARGE_OFFSET_THRESHOLD ->
  length ph = 20%nat ->
  Forall (fun e => eofs e < U64 /\ ecrc e < U32) es ->
  let s := sort_by cmp_entry_id es in
  exists data f,
    index_write es ph = Ok data /\ index_at data = Ok f /\ inum f = N.of_nat (length es) /\
    forall i, i < N.of_nat (length es) ->
      pack_offset_at_index f i = Ok (eofs (nth (N.to_nat i) s dflt)) /\
      crc32_at_index f i = Ok (ecrc (nth (N.to_nat i) s dflt)).
Proof.
  intros es ph H20 Hn Hph Hrange s.
  set (ids := map eid s).
  assert (Hu : N.of_nat (length es) < U32) by (unfold LARGE_OFFSET_THRESHOLD, U32 in *; lia).
  destruct (L_written_tables es H20 Hu) as [Hs [Ha [Hp [fan [Hfan Hfo]]]]].
  fold s in Hs, Ha, Hp, Hfan, Hfo. fold ids in Hs, Ha, Hfo.
  assert (Ls : length s = length es) by (symmetry; apply Permutation_length; exact Hp).
  assert (Lids : length ids = length es) by (unfold ids; rewrite map_length; exact Ls).
  assert (Hrange_s : Forall (fun e => eofs e < U64 /\ ecrc e < U32) s).
  { apply Forall_forall. intros e He. rewrite Forall_forall in Hrange. apply Hrange.
    apply (Permutation_in _ (Permutation_sym Hp)). exact He. }
  destruct (L_offset_RT (map eofs s)) as [o32 [o64 [Hsplit [Lo32 [Ho32u [Ho64 Hres]]]]]].
  { rewrite map_length, Ls. exact Hn. }
  pose proof (split_offsets_idx _ _ _ _ Hsplit) as Hidx.
  unfold index_write, write_v2_body. fold s.
  destruct (N.leb_spec U32 (N.of_nat (length s))); [lia|].
  rewrite Hfan. cbn [obind]. rewrite Hsplit. cbn [obind fst snd].
  set (fanb := concat_map be32 fan).
  set (idb := concat_map eid s).
  set (crcb := concat_map (fun e => be32 (ecrc e)) s).
  set (o32b := concat_map be32 o32).
  set (o64b := concat_map be64 o64).
  destruct Hfo as [Lfan Hcnt].
  assert (Lfanb : length fanb = 1024%nat).
  { unfold fanb. rewrite (concat_map_length be32 4) by apply be32_len. rewrite Lfan. reflexivity. }
  assert (Lidb : length idb = (20 * length es)%nat).
  { unfold idb. unfold concat_map. rewrite <- (map_map eid (fun x => x)). fold ids.
    change (concat (map (fun x => x) ids)) with (concat_map (fun x : bytes => x) ids).
    assert (E : forall l, all20 l -> length (concat_map (fun x : bytes => x) l) = (20 * length l)%nat).
    { unfold concat_map. induction 1 as [|x l Hx _ IH]; cbn [map concat length]; [lia|].
      rewrite app_length, Hx, IH. lia. }
    rewrite (E ids Ha), Lids. reflexivity. }
  assert (Lcrcb : length crcb = (4 * length es)%nat).
  { unfold crcb. rewrite (concat_map_length _ 4) by (intros; apply be32_len). rewrite Ls. reflexivity. }
  assert (Lo32b : length o32b = (4 * length es)%nat).
  { unfold o32b. rewrite (concat_map_length _ 4) by (intros; apply be32_len).
    rewrite Lo32, map_length, Ls. reflexivity. }
  assert (Lo64b : length o64b = (8 * length o64)%nat).
  { unfold o64b. apply concat_map_length. intros; apply be64_len. }
  set (data := (V2_SIGNATURE ++ be32 2 ++ fanb ++ idb ++ crcb ++ o32b ++ o64b ++ ph) ++ checksum_placeholder).
  assert (Ldata : 1064 <= len data).
  { unfold data, len, checksum_placeholder. rewrite !app_length, Lfanb, be32_len, repeat_length, Hph.
    cbn [length V2_SIGNATURE]. lia. }
  assert (Fan_small : Forall (fun v => v < U32) fan).
  { apply Forall_forall. intros v Hv. destruct (In_nth _ _ 0 Hv) as [j [Hj <-]].
    replace j with (N.to_nat (N.of_nat j)) by lia. rewrite Hcnt by lia.
    pose proof (cnt_le_length (N.of_nat j) (fbs_of ids)) as Hc.
    assert (Lf : length (fbs_of ids) = length es) by (unfold fbs_of; rewrite map_length; exact Lids).
    rewrite Lf in Hc. eapply N.le_lt_trans; [exact Hc|exact Hu]. }
  assert (Efan : map be_to_N (chunks 4 256 (skipn 8 data)) = fan).
  { unfold data. rewrite <- !app_assoc. cbn [V2_SIGNATURE app]. change (be32 2) with [x00; x00; x00; x02].
    cbn [app skipn]. unfold fanb. rewrite <- Lfan. rewrite (chunks_concat be32 4) by apply be32_len.
    rewrite map_map. rewrite <- (map_id fan) at 2. apply map_ext_in. intros v Hv.
    rewrite Forall_forall in Fan_small. apply be32_rt. apply Fan_small. exact Hv. }
  assert (Enum : nth 255 fan 0 = N.of_nat (length es)).
  { change 255%nat with (N.to_nat 255). rewrite Hcnt by lia.
    rewrite cnt_all_le; [unfold fbs_of; rewrite map_length, Lids; reflexivity|].
    apply Forall_forall. intros v Hv. unfold fbs_of in Hv. apply in_map_iff in Hv. destruct Hv as [x [<- _]].
    pose proof (b2N_lt (first_byte x)). lia. }
  exists data, {| idata := data; ifan := fan; inum := N.of_nat (length es) |}.
  split; [reflexivity|]. split.
  { unfold index_at.
    destruct (N.ltb_spec (len data) (1024 + 40)); [lia|].
    assert (Esig : bytes_eqb (firstn 4 data) V2_SIGNATURE = true).
    { unfold data. rewrite <- !app_assoc. reflexivity. }
    rewrite Esig.
    assert (Ever : be_to_N (firstn 4 (skipn 4 data)) = 2).
    { unfold data. rewrite <- !app_assoc. reflexivity. }
    rewrite Ever. cbn [N.eqb Pos.eqb].
    unfold read_fan.
    assert (L8 : 1024 <= len (skipn 8 data)) by (unfold len in *; rewrite skipn_length; lia).
    destruct (N.ltb_spec (len (skipn 8 data)) 1024); [lia|]. cbn [obind].
    rewrite Efan, Enum. reflexivity. }
  split; [reflexivity|].
  intros i Hi.
  set (n := N.of_nat (length es)) in *.
  set (f := {| idata := data; ifan := fan; inum := n |}).
  (* three views of the file: around the crc table, the 32-bit table, the 64-bit table *)
  set (P1 := V2_SIGNATURE ++ be32 2 ++ fanb ++ idb).
  assert (E1 : data = P1 ++ crcb ++ (o32b ++ o64b ++ ph ++ checksum_placeholder)).
  { unfold data, P1. rewrite <- !app_assoc. reflexivity. }
  assert (LP1 : len P1 = V2_HEADER_SIZE + n * 20).
  { unfold P1, len, V2_HEADER_SIZE, n. rewrite !app_length, Lfanb, Lidb, be32_len. cbn [length V2_SIGNATURE]. lia. }
  set (P2 := P1 ++ crcb).
  assert (E2 : data = P2 ++ o32b ++ (o64b ++ ph ++ checksum_placeholder)).
  { rewrite E1. unfold P2. rewrite <- !app_assoc. reflexivity. }
  assert (LP2 : len P2 = V2_HEADER_SIZE + n * 20 + n * 4).
  { unfold P2, len in *. rewrite app_length, Lcrcb. unfold n. lia. }
  set (P3 := P2 ++ o32b).
  assert (E3 : data = P3 ++ o64b ++ (ph ++ checksum_placeholder)).
  { rewrite E2. unfold P3. rewrite <- !app_assoc. reflexivity. }
  assert (LP3 : len P3 = V2_HEADER_SIZE + n * 20 + n * 4 + n * 4).
  { unfold P3, len in *. rewrite app_length, Lo32b. unfold n. lia. }
  assert (Hi' : (N.to_nat i < length s)%nat) by (unfold n in Hi; lia).
  assert (Hent : eofs (nth (N.to_nat i) s dflt) < U64 /\ ecrc (nth (N.to_nat i) s dflt) < U32).
  { rewrite Forall_forall in Hrange_s. apply Hrange_s. apply nth_In. exact Hi'. }
  split.
  - (* offset *)
    unfold pack_offset_at_index, offset_pack_offset_v2, offset_crc32_v2. cbn [idata inum f].
    rewrite E2 at 1. rewrite <- LP2. rewrite slice_mid by (unfold len; rewrite Lo32b; unfold n in Hi; lia).
    cbn [obind]. replace (N.to_nat (i * 4)) with (N.to_nat i * 4)%nat by lia. change (N.to_nat 4) with 4%nat.
    unfold o32b. rewrite (concat_map_nth be32 4 0) by (try apply be32_len; rewrite Lo32, map_length; exact Hi').
    set (v := nth (N.to_nat i) o32 0).
    assert (Hv : v < U32).
    { rewrite Forall_forall in Ho32u. apply Ho32u. apply nth_In. rewrite Lo32, map_length. exact Hi'. }
    rewrite be32_rt by exact Hv.
    pose proof (Hres (N.to_nat i) ltac:(rewrite map_length; exact Hi')) as R. unfold resolve in R. fold v in R.
    assert (Eofs : nth (N.to_nat i) (map eofs s) 0 = eofs (nth (N.to_nat i) s dflt)).
    { change 0 with (eofs dflt). apply List.map_nth. }
    rewrite Eofs in R.
    unfold pack_offset_from_offset_v2, offset_pack_offset64_v2, offset_pack_offset_v2, offset_crc32_v2.
    cbn [idata inum f].
    destruct (N.leb_spec HIGH_BIT v) as [Hh|Hh].
    + assert (Hk : v - HIGH_BIT < N.of_nat (length o64)).
      { rewrite Forall_forall in Hidx. specialize (Hidx v ltac:(apply nth_In; rewrite Lo32, map_length; exact Hi') Hh). lia. }
      rewrite E3 at 1. rewrite <- LP3. rewrite slice_mid by (unfold len; rewrite Lo64b; lia).
      cbn [obind]. replace (N.to_nat ((v - HIGH_BIT) * 8)) with (N.to_nat (v - HIGH_BIT) * 8)%nat by lia.
      change (N.to_nat 8) with 8%nat.
      unfold o64b. rewrite (concat_map_nth be64 8 0) by (try apply be64_len; lia).
      rewrite R. rewrite be64_rt by (apply Hent). reflexivity.
    + rewrite R. reflexivity.
  - (* crc *)
    unfold crc32_at_index, offset_crc32_v2. cbn [idata inum f].
    rewrite E1 at 1. rewrite <- LP1. rewrite slice_mid by (unfold len; rewrite Lcrcb; unfold n in Hi; lia).
    cbn [obind]. replace (N.to_nat (i * 4)) with (N.to_nat i * 4)%nat by lia. change (N.to_nat 4) with 4%nat.
    unfold crcb. rewrite (concat_map_nth (fun e => be32 (ecrc e)) 4 dflt) by (try (intros; apply be32_len); exact Hi').
    rewrite be32_rt by (apply Hent). reflexivity.
Qed.

(* lookup id -> the offset and crc32 of exactly that object *)
Theorem L_index_lookup_entry : forall es ph,
  Forall (fun e => length (eid e) = 20%nat) es -> N.of_nat (length es) <= LARGE_OFFSET_THRESHOLD ->
  length ph = 20%nat ->
  Forall (fun e => eofs e < U64 /\ ecrc e < U32) es ->
  exists data f,
    index_write es ph = Ok data /\ index_at data = Ok f /\
    forall id, exists r, index_lookup f id = Ok r /\
      match r with
      | Some m => exists e, In e es /\ eid e = id /\
                    oid_at_index f m = Ok id /\
                    pack_offset_at_index f m = Ok (eofs e) /\ crc32_at_index f m = Ok (ecrc e)
      | None => ~ In id (map eid es)
      end.
Proof.
  intros es ph H20 Hn Hph Hrange.
  destruct (L_index_offsets_crcs es ph H20 Hn Hph Hrange) as [data [f [Hw [Hat [Hnum Hoc]]]]].
  destruct (L_index_file_lookups es ph H20 Hn Hph) as [data' [f' [Hw' [Hat' [_ [Hl _]]]]]].
  destruct (L_index_layout es ph H20 Hn Hph) as [data2 [f2 [Hw2 [Hat2 [_ [_ Hoid]]]]]].
  rewrite Hw in Hw', Hw2. apply Ok_inj in Hw'. apply Ok_inj in Hw2. subst data' data2.
  rewrite Hat in Hat', Hat2. apply Ok_inj in Hat'. apply Ok_inj in Hat2. subst f' f2.
  assert (Hp : Permutation es (sort_by cmp_entry_id es)) by apply L_sort_sorted.
  exists data, f. split; [exact Hw|]. split; [exact Hat|].
  intros id. destruct (Hl id) as [r [Hr Hspec]]. exists r. split; [exact Hr|].
  destruct r as [m|]; [|exact Hspec].
  destruct Hspec as [Hm Hid].
  set (s := sort_by cmp_entry_id es) in *.
  assert (Hm' : (N.to_nat m < length s)%nat) by (rewrite <- (Permutation_length Hp); lia).
  exists (nth (N.to_nat m) s dflt).
  assert (Eid : eid (nth (N.to_nat m) s dflt) = id).
  { rewrite <- Hid. change (@nil byte) with (eid dflt). symmetry. apply List.map_nth. }
  split; [apply (Permutation_in _ (Permutation_sym Hp)), nth_In; exact Hm'|].
  split; [exact Eid|].
  split.
  - rewrite Hoid by (rewrite map_length, <- (Permutation_length Hp); exact Hm). f_equal. exact Hid.
  - apply Hoc. exact Hm.
Qed.
