(* C09 — encode::fanout computes the fan-out counts of a list of first bytes sorted ascending,
   without reaching its unreachable!(). *)
From Coq Require Import Lia ZifyBool ZifyNat ZifyN Sorted.
From GixV.Base Require Import Bytes BytesFacts Outcome.
From GixV.C09 Require Import Model ProofsBisect ProofsOrder.
Ltac Zify.zify_post_hook ::= Z.div_mod_to_equations.
Local Open Scope N_scope.

Definition vals (l : bytes) : list N := map b2N l.

Lemma cnt_app b l1 l2 : cnt b (l1 ++ l2) = cnt b l1 + cnt b l2.
Proof. unfold cnt. rewrite filter_app, app_length. lia. Qed.

Lemma cnt_all_le b l : Forall (fun v => v <= b) l -> cnt b l = N.of_nat (length l).
Proof.
  unfold cnt. induction 1 as [|v l Hv _ IH]; [reflexivity|]. cbn [filter].
  destruct (N.leb_spec v b); [|lia]. cbn [length]. lia.
Qed.

Lemma Forall_weaken (P Q : N -> Prop) l : (forall v, P v -> Q v) -> Forall P l -> Forall Q l.
Proof. intros H F. eapply Forall_impl; eassumption. Qed.

Lemma drop_eq_split f : forall l, exists m,
  l = repeat f m ++ drop_eq f l /\ (forall x r, drop_eq f l = x :: r -> x <> f).
Proof.
  induction l as [|x r [m [E H]]].
  - exists 0%nat. split; [reflexivity|]. cbn. discriminate.
  - cbn [drop_eq]. destruct (beqb x f) eqn:B.
    + apply beqb_eq in B. subst x. exists (S m). split; [cbn [repeat app]; f_equal; exact E|exact H].
    + exists 0%nat. split; [reflexivity|]. intros y s Ey. injection Ey as <- _.
      intros ->. rewrite (proj2 (beqb_eq f f) eq_refl) in B. discriminate.
Qed.

Lemma sorted_app_r (l1 l2 : list N) : StronglySorted N.le (l1 ++ l2) -> StronglySorted N.le l2.
Proof.
  induction l1 as [|x l1 IH]; intros H; [exact H|]. cbn in H. inversion H; subst. apply IH. assumption.
Qed.

Lemma sorted_head_le x (l : list N) : StronglySorted N.le (x :: l) -> Forall (fun v => x <= v) (x :: l).
Proof. intros H. inversion H; subst. constructor; [lia|assumption]. Qed.

Lemma fanout_loop_spec : forall (k : nat) (pre l : bytes) (elen idx ub : N),
  (k <= 256)%nat ->
  elen = N.of_nat (length (pre ++ l)) -> elen < U32 ->
  idx = N.of_nat (length pre) ->
  Forall (fun v => v < 256 - N.of_nat k) (vals pre) ->
  Forall (fun v => 256 - N.of_nat k <= v) (vals l) ->
  StronglySorted N.le (vals l) ->
  (l <> [] -> ub = idx) ->
  exists out, fanout_loop k elen idx ub l = Ok out /\ length out = k /\
    forall j, (j < k)%nat -> nth j out 0 = cnt (256 - N.of_nat k + N.of_nat j) (vals (pre ++ l)).
Proof.
  induction k as [|k IH]; intros pre l elen idx ub Hk He Hu Hi Hpre Hl Hs Hub.
  - exists []. split; [reflexivity|]. split; [reflexivity|]. intros; lia.
  - cbn [fanout_loop]. set (b := 255 - N.of_nat k).
    assert (Eb : 256 - N.of_nat (S k) = b) by (unfold b; lia). rewrite Eb in *.
    assert (Eb1 : 256 - N.of_nat k = b + 1) by (unfold b; lia).
    assert (Cpre : cnt b (vals pre) = N.of_nat (length pre)).
    { unfold vals. rewrite <- (map_length b2N pre). apply cnt_all_le.
      eapply Forall_weaken; [|exact Hpre]. cbv beta. intros; lia. }
    destruct l as [|f r].
    + assert (A2 : Forall (fun v => v < 256 - N.of_nat k) (vals pre)).
      { rewrite Eb1. eapply Forall_weaken; [|exact Hpre]. cbv beta. intros; lia. }
      destruct (IH pre [] elen idx ub ltac:(lia) He Hu Hi A2 ltac:(constructor) ltac:(constructor) Hub)
        as [out [Ho [Hlen Hn]]].
      * rewrite Ho. cbn [obind]. exists (elen :: out). split; [reflexivity|]. split; [cbn; lia|].
        intros [|j] Hj; cbn [nth].
        -- rewrite N.add_0_r. unfold vals. rewrite map_app, cnt_app. cbn [map]. fold (vals pre).
           rewrite Cpre. unfold cnt. cbn. rewrite He, app_nil_r. lia.
        -- rewrite Hn by lia. f_equal. lia.
    + cbn [vals map] in Hl, Hs. pose proof (Forall_inv Hl) as Hf. cbv beta in Hf.
      pose proof (sorted_head_le _ _ Hs) as Hge.
      assert (Ub : ub = idx) by (apply Hub; discriminate).
      destruct (N.compare_spec (b2N f) b) as [Ef|Lf|Gf]; [| lia |].
      * (* first byte equals the current byte *)
        destruct (N.eqb_spec b 255) as [E255|N255].
        -- assert (k = 0%nat) by (unfold b in E255; lia). subst k. cbn [fanout_loop obind].
           exists [elen]. split; [reflexivity|]. split; [reflexivity|].
           intros j Hj. assert (j = 0%nat) by lia. subst j. cbn [nth]. rewrite N.add_0_r.
           rewrite He. unfold vals. rewrite <- (map_length b2N (pre ++ f :: r)). symmetry. apply cnt_all_le.
           apply Forall_forall. intros v Hv. apply in_map_iff in Hv. destruct Hv as [x [<- _]].
           pose proof (b2N_lt x). lia.
        -- destruct (drop_eq_split f (f :: r)) as [m [El Hne]].
           set (l' := drop_eq f (f :: r)) in *.
           assert (Elen : len (f :: r) - len l' = N.of_nat m).
           { unfold len. rewrite El at 1. rewrite app_length, repeat_length. lia. }
           rewrite Elen.
           assert (Efbs : pre ++ f :: r = (pre ++ repeat f m) ++ l') by (rewrite <- app_assoc, <- El; reflexivity).
           assert (Hs' : StronglySorted N.le (vals l')).
           { change (b2N f :: map b2N r) with (vals (f :: r)) in Hs. rewrite El in Hs.
             unfold vals in Hs. rewrite map_app in Hs. apply sorted_app_r in Hs. exact Hs. }
           assert (Hl' : Forall (fun v => b + 1 <= v) (vals l')).
           { destruct l' as [|x s] eqn:E'; [constructor|].
             assert (Hx : b2N x <> b2N f) by (intros E0; apply b2N_inj in E0; exact (Hne x s eq_refl E0)).
             assert (Hin : In (b2N x) (vals (f :: r))).
             { rewrite El. unfold vals. rewrite map_app. apply in_or_app. right. cbn. left. reflexivity. }
             assert (b <= b2N x).
             { change (b2N f :: map b2N r) with (vals (f :: r)) in Hge. rewrite Forall_forall in Hge.
               specialize (Hge _ Hin). lia. }
             pose proof (sorted_head_le _ _ Hs') as G. cbn [vals map] in G |- *.
             eapply Forall_weaken; [|exact G]. cbv beta. intros; lia. }
           set (idx' := idx + N.of_nat m).
           assert (Hidx' : idx' = N.of_nat (length (pre ++ repeat f m))).
           { unfold idx'. rewrite app_length, repeat_length. lia. }
           set (ub' := match l' with [] => elen | _ :: _ => idx' mod U32 end).
           assert (Hub' : ub' = idx').
           { unfold ub'. destruct l' as [|x s] eqn:E'.
             - rewrite He, Efbs, app_nil_r. exact (eq_sym Hidx').
             - apply N.mod_small. rewrite Hidx'. rewrite He, Efbs in Hu. rewrite app_length in Hu.
               rewrite app_length. rewrite app_length in Hu. lia. }
           assert (A1 : elen = N.of_nat (length ((pre ++ repeat f m) ++ l'))) by (rewrite <- Efbs; exact He).
           assert (A2 : Forall (fun v => v < 256 - N.of_nat k) (vals (pre ++ repeat f m))).
           { rewrite Eb1. unfold vals. rewrite map_app. apply Forall_app. split.
             - eapply Forall_weaken; [|exact Hpre]. cbv beta. intros; lia.
             - apply Forall_forall. intros v Hv. apply in_map_iff in Hv. destruct Hv as [x [<- Hx]].
               apply repeat_spec in Hx. subst x. lia. }
           assert (A3 : Forall (fun v => 256 - N.of_nat k <= v) (vals l')) by (rewrite Eb1; exact Hl').
           destruct (IH (pre ++ repeat f m) l' elen idx' ub' ltac:(lia) A1 Hu Hidx' A2 A3 Hs' (fun _ => Hub'))
             as [out [Ho [Hlen Hn]]].
           fold l'. fold idx'. fold ub'. rewrite Ho. cbn [obind].
              exists (ub' :: out). split; [reflexivity|]. split; [cbn; lia|].
              intros [|j] Hj; cbn [nth].
              ** rewrite N.add_0_r, Hub'. rewrite Efbs. unfold vals. rewrite !map_app, !cnt_app.
                 fold (vals pre). rewrite Cpre.
                 rewrite (cnt_all_gt b (map b2N l')).
                 2:{ eapply Forall_weaken; [|exact Hl']. cbv beta. intros; lia. }
                 rewrite (cnt_all_le b (map b2N (repeat f m))).
                 2:{ apply Forall_forall. intros v Hv. apply in_map_iff in Hv. destruct Hv as [x [<- Hx]].
                     apply repeat_spec in Hx. subst x. lia. }
                 rewrite map_length, repeat_length. unfold idx'. lia.
              ** rewrite Hn by lia. rewrite <- Efbs. f_equal. lia.
      * (* first byte is ahead of the current byte: emit upper_bound *)
        assert (A2 : Forall (fun v => v < 256 - N.of_nat k) (vals pre)).
        { rewrite Eb1. eapply Forall_weaken; [|exact Hpre]. cbv beta. intros; lia. }
        assert (A3 : Forall (fun v => 256 - N.of_nat k <= v) (vals (f :: r))).
        { rewrite Eb1. cbn [vals map]. eapply Forall_weaken; [|exact Hge]. cbv beta. intros; lia. }
        destruct (IH pre (f :: r) elen idx ub ltac:(lia) He Hu Hi A2 A3 Hs Hub) as [out [Ho [Hlen Hn]]].
        -- rewrite Ho. cbn [obind]. exists (ub :: out). split; [reflexivity|]. split; [cbn; lia|].
           intros [|j] Hj; cbn [nth].
           ++ rewrite N.add_0_r. unfold vals. rewrite map_app, cnt_app. fold (vals pre). rewrite Cpre.
              rewrite (cnt_all_gt b (map b2N (f :: r))).
              2:{ cbn [map]. eapply Forall_weaken; [|exact Hge]. cbv beta. intros; lia. }
              lia.
           ++ rewrite Hn by lia. f_equal. lia.
Qed.

(* fanout on first bytes in ascending order: 256 counts, never the unreachable!() *)
Lemma L_fanout_counts : forall fbs : bytes,
  StronglySorted N.le (vals fbs) -> N.of_nat (length fbs) < U32 ->
  exists fan, fanout fbs = Ok fan /\ length fan = 256%nat /\
    forall b, b < 256 -> nth (N.to_nat b) fan 0 = cnt b (vals fbs).
Proof.
  intros fbs Hs Hu. unfold fanout.
  destruct (fanout_loop_spec 256 [] fbs (len fbs mod U32) 0 0) as [out [Ho [Hlen Hn]]].
  - lia.
  - unfold len. cbn [app]. apply N.mod_small. exact Hu.
  - apply N.mod_lt. unfold U32. lia.
  - reflexivity.
  - constructor.
  - apply Forall_forall. intros v _. lia.
  - exact Hs.
  - reflexivity.
  - exists out. split; [exact Ho|]. split; [exact Hlen|]. intros b Hb.
    rewrite (Hn (N.to_nat b)) by lia. cbn [app]. f_equal. lia.
Qed.

(* the table written for ids sorted by id is the table the lookups assume *)
Lemma L_fanout_fan_of : forall ids, sorted_ids ids -> all20 ids -> N.of_nat (length ids) < U32 ->
  exists fan, fanout (map first_byte ids) = Ok fan /\ fan_of ids fan.
Proof.
  intros ids Hs Ha Hu.
  assert (E : vals (map first_byte ids) = fbs_of ids) by (unfold vals, fbs_of; rewrite map_map; reflexivity).
  destruct (L_fanout_counts (map first_byte ids)) as [fan [Hf [Hl Hn]]].
  - rewrite E. apply sorted_fbs; assumption.
  - rewrite map_length. exact Hu.
  - exists fan. split; [exact Hf|]. split; [exact Hl|]. intros b Hb. rewrite Hn by exact Hb. rewrite E. reflexivity.
Qed.
