(* C09 — multi-pack index, table level: the entry table write_from_index_paths builds from the
   collected entries (stable sort by (id, mtime descending, pack index), dedup_by_key(id)) is sorted
   by id, holds exactly the collected ids, only collected entries, and gets the fan-out table that the
   lookup theorems assume. *)
From Coq Require Import Lia ZifyBool ZifyNat ZifyN Sorted Permutation.
From GixV.Base Require Import Bytes BytesFacts Outcome.
From GixV.C09 Require Import Model ProofsBisect ProofsOrder ProofsLookup ProofsFanout ProofsWrite.
Ltac Zify.zify_post_hook ::= Z.div_mod_to_equations.
Local Open Scope N_scope.

Lemma cmp_mentry_not_gt a b : cmp_mentry a b <> Gt -> ble (mid_ a) (mid_ b).
Proof.
  unfold cmp_mentry, ble. destruct (bytes_cmp (mid_ a) (mid_ b)); cbn [cmp_then]; congruence.
Qed.

Lemma cmp_mentry_gt a b : cmp_mentry a b = Gt -> ble (mid_ b) (mid_ a).
Proof.
  unfold cmp_mentry, ble. rewrite (bytes_cmp_antisym (mid_ a) (mid_ b)).
  destruct (bytes_cmp (mid_ a) (mid_ b)); cbn [cmp_then CompOpp]; congruence.
Qed.

Lemma insert_sorted_m x : forall l, sorted_ids (map mid_ l) -> sorted_ids (map mid_ (insert_by cmp_mentry x l)).
Proof.
  unfold sorted_ids. induction l as [|y r IH]; intros Hs; cbn [insert_by map].
  - constructor; constructor.
  - inversion Hs as [|? ? Hr Hy]; subst.
    destruct (cmp_mentry x y) eqn:E.
    + assert (L : ble (mid_ x) (mid_ y)) by (apply cmp_mentry_not_gt; congruence).
      cbn [map]. constructor; [exact Hs|]. constructor; [exact L|].
      eapply Forall_impl; [|exact Hy]. cbv beta. intros a Ha. eapply ble_trans; eassumption.
    + assert (L : ble (mid_ x) (mid_ y)) by (apply cmp_mentry_not_gt; congruence).
      cbn [map]. constructor; [exact Hs|]. constructor; [exact L|].
      eapply Forall_impl; [|exact Hy]. cbv beta. intros a Ha. eapply ble_trans; eassumption.
    + cbn [map]. constructor; [apply IH; exact Hr|].
      apply Forall_forall. intros z Hz. apply in_map_iff in Hz. destruct Hz as [e [<- He]].
      apply (Permutation_in _ (Permutation_sym (insert_perm cmp_mentry x r))) in He.
      destruct He as [<-|He].
      * apply cmp_mentry_gt. exact E.
      * rewrite Forall_forall in Hy. apply Hy. apply in_map. exact He.
Qed.

Lemma sort_sorted_m : forall l, sorted_ids (map mid_ (sort_by cmp_mentry l)).
Proof. induction l as [|x l IH]; cbn; [constructor|]. apply insert_sorted_m. exact IH. Qed.

Lemma dedup_go_sub prev : forall l e, In e (dedup_go prev l) -> In e l.
Proof.
  intros l. revert prev. induction l as [|y r IH]; intros prev e H; cbn [dedup_go] in H; [exact H|].
  destruct (bytes_eqb prev (mid_ y)).
  - right. eapply IH. exact H.
  - destruct H as [<-|H]; [left; reflexivity|right; eapply IH; exact H].
Qed.

Lemma dedup_go_sorted : forall l prev, sorted_ids (map mid_ l) -> sorted_ids (map mid_ (dedup_go prev l)).
Proof.
  unfold sorted_ids. induction l as [|y r IH]; intros prev Hs; cbn [dedup_go]; [constructor|].
  inversion Hs as [|? ? Hr Hy]; subst.
  destruct (bytes_eqb prev (mid_ y)); [apply IH; exact Hr|].
  cbn [map]. constructor; [apply IH; exact Hr|].
  apply Forall_forall. intros z Hz. apply in_map_iff in Hz. destruct Hz as [e [<- He]].
  apply dedup_go_sub in He. rewrite Forall_forall in Hy. apply Hy. apply in_map. exact He.
Qed.

Lemma dedup_go_ids : forall l prev id, In id (map mid_ l) -> id = prev \/ In id (map mid_ (dedup_go prev l)).
Proof.
  induction l as [|y r IH]; intros prev id H; cbn [map] in H; [contradiction|]. cbn [dedup_go].
  destruct (bytes_eqb prev (mid_ y)) eqn:E.
  - apply bytes_eqb_eq in E. destruct H as [<-|H]; [left; symmetry; exact E|]. apply IH. exact H.
  - cbn [map]. destruct H as [<-|H]; [right; left; reflexivity|].
    destruct (IH (mid_ y) id H) as [->|H']; [right; left; reflexivity|right; right; exact H'].
Qed.

Lemma dedup_sub l e : In e (dedup_by_id l) -> In e l.
Proof.
  destruct l as [|x r]; cbn [dedup_by_id]; [auto|]. intros [<-|H]; [left; reflexivity|].
  right. eapply dedup_go_sub. exact H.
Qed.

Lemma dedup_sorted l : sorted_ids (map mid_ l) -> sorted_ids (map mid_ (dedup_by_id l)).
Proof.
  unfold sorted_ids. destruct l as [|x r]; cbn [dedup_by_id]; [auto|]. intros Hs.
  inversion Hs as [|? ? Hr Hy]; subst. cbn [map]. constructor; [apply dedup_go_sorted; exact Hr|].
  apply Forall_forall. intros z Hz. apply in_map_iff in Hz. destruct Hz as [e [<- He]].
  apply dedup_go_sub in He. rewrite Forall_forall in Hy. apply Hy. apply in_map. exact He.
Qed.

Lemma dedup_ids l id : In id (map mid_ l) <-> In id (map mid_ (dedup_by_id l)).
Proof.
  split.
  - destruct l as [|x r]; cbn [dedup_by_id map]; [auto|]. intros [<-|H]; [left; reflexivity|].
    destruct (dedup_go_ids r (mid_ x) id H) as [->|H']; [left; reflexivity|right; exact H'].
  - intros H. apply in_map_iff in H. destruct H as [e [<- He]]. apply in_map. apply dedup_sub. exact He.
Qed.

Lemma dedup_go_len : forall l prev, (length (dedup_go prev l) <= length l)%nat.
Proof.
  induction l as [|y r IH]; intros prev; cbn [dedup_go length]; [lia|].
  destruct (bytes_eqb prev (mid_ y)); cbn [length]; [specialize (IH prev)|specialize (IH (mid_ y))]; lia.
Qed.

Lemma dedup_len l : (length (dedup_by_id l) <= length l)%nat.
Proof. destruct l as [|x r]; cbn [dedup_by_id length]; [lia|]. pose proof (dedup_go_len r (mid_ x)). lia. Qed.

Theorem L_midx_table : forall all,
  Forall (fun e => length (mid_ e) = 20%nat) all -> N.of_nat (length all) < U32 ->
  let es := dedup_by_id (sort_by cmp_mentry all) in
  sorted_ids (map mid_ es) /\ all20 (map mid_ es) /\
  (forall id, In id (map mid_ es) <-> In id (map mid_ all)) /\
  (forall e, In e es -> In e all) /\
  exists fan, fanout (map (fun e => first_byte (mid_ e)) es) = Ok fan /\ fan_of (map mid_ es) fan.
Proof.
  intros all H20 Hu es.
  pose proof (sort_perm cmp_mentry all) as Hp.
  assert (Hsub : forall e, In e es -> In e all).
  { intros e He. apply dedup_sub in He. apply (Permutation_in _ (Permutation_sym Hp)). exact He. }
  assert (Hs : sorted_ids (map mid_ es)) by (apply dedup_sorted, sort_sorted_m).
  assert (Ha : all20 (map mid_ es)).
  { unfold all20. apply Forall_forall. intros x Hx. apply in_map_iff in Hx. destruct Hx as [e [<- He]].
    rewrite Forall_forall in H20. apply H20. apply Hsub. exact He. }
  split; [exact Hs|]. split; [exact Ha|]. split; [|split; [exact Hsub|]].
  - intros id. unfold es. rewrite <- dedup_ids. split; intros H.
    + apply (Permutation_in _ (Permutation_sym (Permutation_map mid_ Hp))). exact H.
    + apply (Permutation_in _ (Permutation_map mid_ Hp)). exact H.
  - assert (Hlen : (length es <= length all)%nat).
    { unfold es. pose proof (dedup_len (sort_by cmp_mentry all)) as D. rewrite <- (Permutation_length Hp) in D. exact D. }
    destruct (L_fanout_fan_of (map mid_ es) Hs Ha) as [fan [Hf Hfo]].
    + rewrite map_length. lia.
    + exists fan. split; [|exact Hfo]. rewrite <- Hf. f_equal. rewrite map_map. reflexivity.
Qed.
