(* C09 — Pack and multi-pack index lookups agree with a linear scan.
   Only statements here; every proof is [exact <lemma of Proofs*.v>].
   Model: Model.v.  [sorted_ids ids]: the table is sorted by id (bytes_cmp, duplicates allowed);
   [all20 ids]: ids are 20 bytes; [fan_of ids fan]: fan has 256 entries, entry b is the number of
   ids whose first byte is <= b; [oid_at] is the accessor of a well-formed file (entry i of the table).
   HIGH_BIT = 2^31: the side condition on the object count under which `(lower + upper) / 2` cannot
   overflow u32. *)
From Coq Require Import Sorted.
From GixV.Base Require Import Bytes BytesFacts Outcome.
From Coq Require Import Permutation.
From GixV.C09 Require Import Model ProofsBisect ProofsOrder ProofsLookup ProofsFanout ProofsWrite ProofsLayout ProofsOffsets ProofsMidxOffsets ProofsMidxTable ProofsMidxDedup.
Local Open Scope N_scope.

(* a full-id lookup finds an id exactly when it is present, and the index it returns holds that id;
   it never panics or runs out of fuel (34 iterations suffice) *)
Theorem lookup_iff_in : forall ids fan oid_at,
  sorted_ids ids -> all20 ids -> N.of_nat (length ids) <= HIGH_BIT -> fan_of ids fan ->
  (forall i, i < N.of_nat (length ids) -> oid_at i = Ok (nth (N.to_nat i) ids [])) ->
  forall id, exists r, lookup fan oid_at id = Ok r /\
    match r with
    | Some m => m < N.of_nat (length ids) /\ nth (N.to_nat m) ids [] = id
    | None => ~ In id ids
    end.
Proof. exact L_lookup. Qed.

(* a prefix lookup is the linear scan: the entries matching the prefix are exactly the indices
   a <= i < b; the result is None when there is none, Ok(a) when there is one, ambiguous otherwise;
   the candidate range is a..b (0..0 when nothing matches); with and without candidates alike *)
Theorem lookup_prefix_is_scan : forall ids fan oid_at,
  sorted_ids ids -> all20 ids -> N.of_nat (length ids) <= HIGH_BIT -> fan_of ids fan ->
  (forall i, i < N.of_nat (length ids) -> oid_at i = Ok (nth (N.to_nat i) ids [])) ->
  forall p cands, (4 <= plen p <= 40)%nat -> length (pbytes p) = 20%nat ->
  exists a b, a <= b /\ b <= N.of_nat (length ids) /\
    (forall i, i < N.of_nat (length ids) -> (cmp_oid p (nth (N.to_nat i) ids []) = Eq <-> a <= i < b)) /\
    lookup_prefix cands fan oid_at (N.of_nat (length ids)) p =
    Ok (if a <? b
        then (if 1 <? b - a then PAmbiguous else POk a, if cands then Some (a, b) else None)
        else (PNone, if cands then Some (0, 0) else None)).
Proof. exact L_lookup_prefix. Qed.

(* the overflowing case: once lower + upper reaches 2^32 (possible only above 2^31 objects)
   a debug build panics in the bisection *)
Theorem bisect_overflow_panics : forall cmp_at fuel lo hi, lo < hi -> U32 <= lo + hi ->
  bisect (S fuel) cmp_at lo hi = Panic.
Proof. exact L_bisect_overflow. Qed.

(* fan-out table construction: for first bytes in ascending order encode::fanout returns 256 values,
   value b = number of first bytes <= b, and never reaches its unreachable!() *)
Theorem fanout_counts : forall fbs : bytes,
  StronglySorted N.le (vals fbs) -> N.of_nat (length fbs) < U32 ->
  exists fan, fanout fbs = Ok fan /\ length fan = 256%nat /\
    forall b, b < 256 -> nth (N.to_nat b) fan 0 = cnt b (vals fbs).
Proof. exact L_fanout_counts. Qed.

(* the index writer (hook: stable sort by id, then write_to) works on a table that is sorted by id,
   holds exactly the given entries, and gets the fan-out table that the two lookup theorems assume *)
Theorem written_tables : forall es,
  Forall (fun e => length (eid e) = 20%nat) es -> N.of_nat (length es) < U32 ->
  let s := sort_by cmp_entry_id es in
  sorted_ids (map eid s) /\ all20 (map eid s) /\ Permutation es s /\
  exists fan, fanout (map (fun e => first_byte (eid e)) s) = Ok fan /\ fan_of (map eid s) fan.
Proof. exact L_written_tables. Qed.

(* offsets round-trip across 0x7fff_ffff and 0xffff_ffff (table level): write_to's split yields a
   32-bit table of u32 values and a 64-bit table holding exactly the offsets above 0x7fff_ffff in
   order; the reader's rule (high bit set -> index into the 64-bit table) returns every offset;
   the assert in the split cannot fire below 2^31-1 entries *)
Theorem offset_RT : forall ofs, N.of_nat (length ofs) <= LARGE_OFFSET_THRESHOLD ->
  exists o32 o64, split_offsets ofs 0 = Ok (o32, o64) /\
    length o32 = length ofs /\
    Forall (fun v => v < U32) o32 /\
    o64 = filter (fun o => LARGE_OFFSET_THRESHOLD <? o) ofs /\
    forall i, (i < length ofs)%nat -> resolve o32 o64 i = nth i ofs 0.
Proof. exact L_offset_RT. Qed.

(* u32/u64 big-endian encoding reads back (values below 256^k are preserved) *)
Theorem be_roundtrip : forall (k : nat) n,
  be_to_N (N_to_be k n) = n mod 256 ^ N.of_nat k /\ length (N_to_be k n) = k.
Proof. exact L_be_roundtrip. Qed.

(* byte level, pack index: for every entry list with 20-byte ids (fewer than 2^31 entries) and pack hash,
   the file written by gitoxide's index writer opens, reports the object count, and on ITS BYTES a full-id
   lookup finds an id exactly when it is among the written ids (returning an index that holds it), and a
   prefix lookup is the linear scan over the sorted ids (matching interval a..b, None/unique/ambiguous,
   candidate range), with and without candidates *)
Theorem index_file_lookups : forall es ph,
  Forall (fun e => length (eid e) = 20%nat) es -> N.of_nat (length es) <= LARGE_OFFSET_THRESHOLD ->
  length ph = 20%nat ->
  let ids := map eid (sort_by cmp_entry_id es) in
  exists data f,
    index_write es ph = Ok data /\ index_at data = Ok f /\ inum f = N.of_nat (length es) /\
    (forall id, exists r, index_lookup f id = Ok r /\
       match r with
       | Some m => m < N.of_nat (length es) /\ nth (N.to_nat m) ids [] = id
       | None => ~ In id (map eid es)
       end) /\
    (forall p cands, (4 <= plen p <= 40)%nat -> length (pbytes p) = 20%nat ->
       exists a b, a <= b /\ b <= N.of_nat (length es) /\
         (forall i, i < N.of_nat (length es) -> (cmp_oid p (nth (N.to_nat i) ids []) = Eq <-> a <= i < b)) /\
         index_lookup_prefix cands f p =
         Ok (if a <? b
             then (if 1 <? b - a then PAmbiguous else POk a, if cands then Some (a, b) else None)
             else (PNone, if cands then Some (0, 0) else None))).
Proof. exact L_index_file_lookups. Qed.

(* byte level, pack index: on the file written by the index writer, pack_offset_at_index i and
   crc32_at_index i return the offset (any u64: 32-bit table, or high bit + 64-bit table, across 2^31
   and 2^32) and the crc32 that were written for the i-th entry in id order; no panic *)
Theorem index_file_offsets_and_crcs : forall es ph,
  Forall (fun e => length (eid e) = 20%nat) es -> N.of_nat (length es) <= LARGE_OFFSET_THRESHOLD ->
  length ph = 20%nat ->
  Forall (fun e => eofs e < U64 /\ ecrc e < U32) es ->
  let s := sort_by cmp_entry_id es in
  exists data f,
    index_write es ph = Ok data /\ index_at data = Ok f /\ inum f = N.of_nat (length es) /\
    forall i, i < N.of_nat (length es) ->
      pack_offset_at_index f i = Ok (eofs (nth (N.to_nat i) s dflt)) /\
      crc32_at_index f i = Ok (ecrc (nth (N.to_nat i) s dflt)).
Proof. exact L_index_offsets_crcs. Qed.

(* the composed statement: on the written file a full-id lookup returns None exactly for ids that were
   not written, and otherwise an index whose id, offset and crc32 are those of one written entry with
   that id (id, recorded offset and CRC of exactly that object) *)
Theorem index_file_lookup_entry : forall es ph,
  Forall (fun e => length (eid e) = 20%nat) es -> N.of_nat (length es) <= LARGE_OFFSET_THRESHOLD ->
  length ph = 20%nat ->
  Forall (fun e => eofs e < U64 /\ ecrc e < U32) es ->
  exists data f,
    index_write es ph = Ok data /\ index_at data = Ok f /\
    forall id, exists r, index_lookup f id = Ok r /\
      match r with
      | Some m => exists e, In e es /\ eid e = id /\
                    oid_at_index f m = Ok id /\
                    pack_offset_at_index f m = Ok (eofs e) /\ crc32_at_index f m = Ok (ecrc e)
      | None => ~ In id (map eid es)
      end.
Proof. exact L_index_lookup_entry. Qed.

(* multi-pack index, chunk level: for any entry list (pack ids u32, offsets u64, fewer than 2^31 entries)
   the OOFF chunk (chunk::offsets::write) and the LOFF chunk (chunk::large_offsets::write; in use exactly
   when some offset exceeds u32::MAX) read back, with the rule of pack_id_and_pack_offset_at_index applied
   relative to the chunk starts ([midx_read]), to every entry's pack id and pack offset; the writer's
   expect()/asserts cannot fire *)
Theorem midx_offsets_chunk_RT : forall es,
  Forall (fun e => mofs e < U64 /\ mpack e < U32) es ->
  N.of_nat (length es) <= LARGE_OFFSET_THRESHOLD ->
  exists ooff, ooff_chunk (needs_large es) es 0 = Ok ooff /\ length ooff = (8 * length es)%nat /\
    forall i, (i < length es)%nat ->
      midx_read (needs_large es) ooff (loff_chunk es) i = (mpack (nth i es mdflt), mofs (nth i es mdflt)).
Proof. exact L_midx_offsets_chunk_RT. Qed.

(* multi-pack index, table level: the entry table built from the collected entries of all input indices
   (stable sort by (id, mtime descending, pack index), then dedup by id) is sorted by id, holds exactly
   the collected ids and only collected entries, and its fan-out is what lookup_iff_in and
   lookup_prefix_is_scan assume - so those two theorems apply to the multi-pack index's table *)
Theorem midx_table : forall all,
  Forall (fun e => length (mid_ e) = 20%nat) all -> N.of_nat (length all) < U32 ->
  let es := dedup_by_id (sort_by cmp_mentry all) in
  sorted_ids (map mid_ es) /\ all20 (map mid_ es) /\
  (forall id, In id (map mid_ es) <-> In id (map mid_ all)) /\
  (forall e, In e es -> In e all) /\
  exists fan, fanout (map (fun e => first_byte (mid_ e)) es) = Ok fan /\ fan_of (map mid_ es) fan.
Proof. exact L_midx_table. Qed.

(* multi-pack index, pack assignment: the copy of an id that survives sort + dedup is a collected entry
   and, among all collected entries with that id, the one from the index file with the newest mtime,
   ties going to the lowest pack index *)
Theorem midx_dedup_newest : forall all e,
  In e (dedup_by_id (sort_by cmp_mentry all)) ->
  In e all /\ forall e', In e' all -> mid_ e' = mid_ e ->
    mmtime e' <= mmtime e /\ (mmtime e' = mmtime e -> mpack e <= mpack e').
Proof. exact L_midx_dedup_newest. Qed.

(* non-vacuity, and one byte-level instance end to end: three entries (one offset in the 64-bit
   table), written, opened, looked up by id and by prefix *)
Example written_index_example :
  let id (a b : byte) := a :: b :: repeat x00 18 in
  let es := [ {| eid := id xff x01; eofs := 4294967301; ecrc := 7 |};
              {| eid := id x00 x10; eofs := 12; ecrc := 8 |};
              {| eid := id xff x00; eofs := 2147483647; ecrc := 9 |} ] in
  exists data f p,
    index_write es (repeat x11 20) = Ok data /\ index_at data = Ok f /\ inum f = 3 /\
    index_lookup f (id xff x01) = Ok (Some 2) /\ pack_offset_at_index f 2 = Ok 4294967301 /\
    crc32_at_index f 2 = Ok 7 /\ index_lookup f (id xff x02) = Ok None /\
    prefix_new (id xff x00) 4 = Some p /\
    index_lookup_prefix true f p = Ok (POk 1, Some (1, 2)) /\
    sorted_ids (map eid (sort_by cmp_entry_id es)) /\ N.of_nat (length es) <= HIGH_BIT.
Proof.
  eexists. eexists. eexists.
  split; [vm_compute; reflexivity|]. split; [vm_compute; reflexivity|].
  split; [vm_compute; reflexivity|]. split; [vm_compute; reflexivity|].
  split; [vm_compute; reflexivity|]. split; [vm_compute; reflexivity|].
  split; [vm_compute; reflexivity|]. split; [vm_compute; reflexivity|].
  split; [vm_compute; reflexivity|]. split; [apply L_sort_sorted|]. vm_compute. discriminate.
Qed.
