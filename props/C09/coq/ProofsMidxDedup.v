(* C09 — multi-pack index, table level: WHICH copy of an id survives sort + dedup_by_key: the entry that
   is smallest in the sort order (newest index mtime, then lowest pack index) among all collected
   entries with that id. *)
From Coq Require Import Lia ZifyBool ZifyNat ZifyN Sorted Permutation.
From GixV.Base Require Import Bytes BytesFacts Outcome.
From GixV.C09 Require Import Model ProofsBisect ProofsOrder ProofsLookup ProofsFanout ProofsWrite ProofsMidxTable.
Ltac Zify.zify_post_hook ::= Z.div_mod_to_equations.
Local Open Scope N_scope.

Definition le_m (a b : mentry) : Prop := cmp_mentry a b <> Gt.

Lemma cmp_then_opp c1 c2 : CompOpp (cmp_then c1 c2) = cmp_then (CompOpp c1) (CompOpp c2).
Proof. destruct c1; reflexivity. Qed.

Lemma cmp_mentry_antisym a b : cmp_mentry b a = CompOpp (cmp_mentry a b).
Proof.
  unfold cmp_mentry. rewrite !cmp_then_opp. rewrite (bytes_cmp_antisym (mid_ a) (mid_ b)).
  rewrite (N.compare_antisym (mmtime a) (mmtime b)), (N.compare_antisym (mpack a) (mpack b)).
  reflexivity.
Qed.

Lemma le_m_refl a : le_m a a.
Proof.
  unfold le_m, cmp_mentry. rewrite bytes_cmp_refl, !N.compare_refl. cbn. discriminate.
Qed.

(* the numeric tie-break (mtime descending, then pack index) *)
Definition tie (a b : mentry) : comparison :=
  cmp_then (CompOpp (N.compare (mmtime a) (mmtime b))) (N.compare (mpack a) (mpack b)).

Lemma tie_trans a b c : tie a b <> Gt -> tie b c <> Gt -> tie a c <> Gt.
Proof.
  unfold tie.
  destruct (N.compare_spec (mmtime a) (mmtime b)), (N.compare_spec (mmtime b) (mmtime c)),
           (N.compare_spec (mmtime a) (mmtime c)); cbn [CompOpp cmp_then]; try lia; try congruence;
  destruct (N.compare_spec (mpack a) (mpack b)), (N.compare_spec (mpack b) (mpack c)),
           (N.compare_spec (mpack a) (mpack c)); try lia; congruence.
Qed.

Lemma le_m_trans a b c : le_m a b -> le_m b c -> le_m a c.
Proof.
  unfold le_m, cmp_mentry. fold (tie a b) (tie b c) (tie a c). intros H1 H2.
  destruct (bytes_cmp (mid_ a) (mid_ b)) eqn:Eab; cbn [cmp_then] in H1; [| |congruence].
  - apply bytes_cmp_eq_iff in Eab. rewrite Eab.
    destruct (bytes_cmp (mid_ b) (mid_ c)) eqn:Ebc; cbn [cmp_then] in H2 |- *; try congruence.
    apply tie_trans with b; assumption.
  - destruct (bytes_cmp (mid_ b) (mid_ c)) eqn:Ebc; cbn [cmp_then] in H2; [| |congruence].
    + apply bytes_cmp_eq_iff in Ebc. rewrite <- Ebc, Eab. cbn. discriminate.
    + rewrite (bytes_cmp_trans _ _ _ _ Eab Ebc). cbn. discriminate.
Qed.

Lemma insert_sorted_le x : forall l, StronglySorted le_m l -> StronglySorted le_m (insert_by cmp_mentry x l).
Proof.
  induction l as [|y r IH]; intros Hs; cbn [insert_by].
  - constructor; constructor.
  - inversion Hs as [|? ? Hr Hy]; subst.
    destruct (cmp_mentry x y) eqn:E.
    + assert (L : le_m x y) by (unfold le_m; congruence).
      constructor; [exact Hs|]. constructor; [exact L|].
      eapply Forall_impl; [|exact Hy]. cbv beta. intros a Ha. eapply le_m_trans; eassumption.
    + assert (L : le_m x y) by (unfold le_m; congruence).
      constructor; [exact Hs|]. constructor; [exact L|].
      eapply Forall_impl; [|exact Hy]. cbv beta. intros a Ha. eapply le_m_trans; eassumption.
    + constructor; [apply IH; exact Hr|].
      apply Forall_forall. intros z Hz.
      apply (Permutation_in _ (Permutation_sym (insert_perm cmp_mentry x r))) in Hz.
      destruct Hz as [<-|Hz].
      * unfold le_m. rewrite (cmp_mentry_antisym x y), E. cbn. discriminate.
      * rewrite Forall_forall in Hy. apply Hy. exact Hz.
Qed.

Lemma sort_sorted_le : forall l, StronglySorted le_m (sort_by cmp_mentry l).
Proof. induction l as [|x l IH]; cbn; [constructor|]. apply insert_sorted_le. exact IH. Qed.

Lemma ble_antisym a b : ble a b -> ble b a -> a = b.
Proof.
  unfold ble. intros H1 H2. rewrite (bytes_cmp_antisym a b) in H2.
  destruct (bytes_cmp a b) eqn:E; cbn in H2; try congruence. apply bytes_cmp_eq_iff. exact E.
Qed.

(* a kept element is the first one with its id *)
Lemma dedup_go_first : forall l prev e,
  sorted_ids (map mid_ l) -> Forall (fun z => ble prev (mid_ z)) l -> In e (dedup_go prev l) ->
  exists l1 l2, l = l1 ++ e :: l2 /\ Forall (fun z => mid_ z <> mid_ e) l1 /\ mid_ e <> prev.
Proof.
  unfold sorted_ids. induction l as [|y r IH]; intros prev e Hs Hp H; cbn [dedup_go] in H; [contradiction|].
  cbn [map] in Hs. inversion Hs as [|? ? Hr Hy]; subst. inversion Hp as [|? ? Hpy Hpr]; subst.
  assert (Hyr : Forall (fun z => ble (mid_ y) (mid_ z)) r).
  { apply Forall_forall. intros z Hz. rewrite Forall_forall in Hy. apply Hy. apply in_map. exact Hz. }
  destruct (bytes_eqb prev (mid_ y)) eqn:E.
  - apply bytes_eqb_eq in E. destruct (IH prev e Hr Hpr H) as [l1 [l2 [El [Hl Hne]]]].
    exists (y :: l1), l2. split; [rewrite El; reflexivity|]. split; [|exact Hne].
    constructor; [rewrite <- E; congruence|exact Hl].
  - assert (Eny : prev <> mid_ y).
    { intros E'. rewrite E' in E. rewrite (proj2 (bytes_eqb_eq (mid_ y) (mid_ y)) eq_refl) in E. discriminate. }
    destruct H as [<-|H].
    + exists [], r. split; [reflexivity|]. split; [constructor|congruence].
    + destruct (IH (mid_ y) e Hr Hyr H) as [l1 [l2 [El [Hl Hne]]]].
      exists (y :: l1), l2. split; [rewrite El; reflexivity|]. split.
      * constructor; [congruence|exact Hl].
      * intros Ee. apply Eny. apply ble_antisym; [exact Hpy|].
        rewrite <- Ee. rewrite Forall_forall in Hyr. apply Hyr. rewrite El. apply in_or_app. right. left. reflexivity.
Qed.

Lemma sorted_after {A} (R : A -> A -> Prop) l1 e l2 : StronglySorted R (l1 ++ e :: l2) -> Forall (R e) l2.
Proof.
  induction l1 as [|a l1 IH]; intros H; cbn [app] in H; inversion H; subst; [assumption|]. apply IH. assumption.
Qed.

Theorem L_midx_dedup_best : forall all e,
  In e (dedup_by_id (sort_by cmp_mentry all)) ->
  In e all /\ forall e', In e' all -> mid_ e' = mid_ e -> cmp_mentry e e' <> Gt.
Proof.
  intros all e He.
  pose proof (sort_perm cmp_mentry all) as Hp.
  set (l := sort_by cmp_mentry all) in *.
  split; [apply (Permutation_in _ (Permutation_sym Hp)), dedup_sub; exact He|].
  intros e' He' Hid. apply (Permutation_in _ Hp) in He'.
  pose proof (sort_sorted_le all) as Hle. fold l in Hle.
  pose proof (sort_sorted_m all) as Hsid. fold l in Hsid.
  assert (Split : exists l1 l2, l = l1 ++ e :: l2 /\ Forall (fun z => mid_ z <> mid_ e) l1).
  { destruct l as [|x r]; cbn [dedup_by_id] in He; [contradiction|].
    destruct He as [<-|He]; [exists [], r; split; [reflexivity|constructor]|].
    unfold sorted_ids in Hsid. cbn [map] in Hsid. inversion Hsid as [|? ? Hr Hx]; subst.
    assert (Hxr : Forall (fun z => ble (mid_ x) (mid_ z)) r).
    { apply Forall_forall. intros z Hz. rewrite Forall_forall in Hx. apply Hx. apply in_map. exact Hz. }
    destruct (dedup_go_first r (mid_ x) e Hr Hxr He) as [l1 [l2 [El [Hl Hne]]]].
    exists (x :: l1), l2. split; [rewrite El; reflexivity|]. constructor; [congruence|exact Hl]. }
  destruct Split as [l1 [l2 [El Hl]]]. rewrite El in He', Hle.
  apply in_app_or in He'. destruct He' as [H1|[<-|H2]].
  - rewrite Forall_forall in Hl. exfalso. exact (Hl e' H1 Hid).
  - apply le_m_refl.
  - pose proof (sorted_after le_m l1 e l2 Hle) as F. rewrite Forall_forall in F. apply F. exact H2.
Qed.

(* in plain terms: newest mtime wins, ties go to the lowest pack index *)
Theorem L_midx_dedup_newest : forall all e,
  In e (dedup_by_id (sort_by cmp_mentry all)) ->
  In e all /\ forall e', In e' all -> mid_ e' = mid_ e ->
    mmtime e' <= mmtime e /\ (mmtime e' = mmtime e -> mpack e <= mpack e').
Proof.
  intros all e He. destruct (L_midx_dedup_best all e He) as [Hin Hbest]. split; [exact Hin|].
  intros e' He' Hid. specialize (Hbest e' He' Hid). unfold cmp_mentry in Hbest.
  rewrite Hid, bytes_cmp_refl in Hbest. cbn [cmp_then] in Hbest.
  destruct (N.compare_spec (mmtime e) (mmtime e')), (N.compare_spec (mpack e) (mpack e'));
    cbn [CompOpp cmp_then] in Hbest; try congruence; lia.
Qed.
