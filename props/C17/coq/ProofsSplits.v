(* C17 — extend_with_splits_of_symbolic_refs: five rounds at most, and the shape of the edit vector it
   leaves behind (every parent index points to an earlier edit). *)
From Coq Require Import List NArith Bool Arith Lia.
From GixV.Base Require Import Bytes Outcome.
From GixV.C17 Require Import Model ProofsLists.
Import ListNotations.

Definition is_dn_u (u : refedit) : bool :=
  match re_change u with Delete PMustNotExist _ => true | _ => false end.
Definition dn_ok (dn : bool) (u : refedit) : Prop := is_dn_u u = true -> dn = true.
Definition unlocked (e : edit) : Prop := lock e = false.
Definition noderef (e : edit) : Prop := re_deref (upd e) = false.

Lemma split_one_spec st eid e e' news dn :
  split_one st eid e = (e', news) ->
  parent_index e' = parent_index e /\ lock e' = lock e /\ noderef e'
  /\ (dn_ok dn (upd e) -> dn_ok dn (upd e') /\ Forall (fun n => dn_ok dn (upd n)) news)
  /\ Forall (fun n => parent_index n = Some eid /\ lock n = false) news
  /\ length news <= 1.
Proof.
  unfold split_one, noderef, dn_ok, is_dn_u. intros H.
  destruct e as [u lk pi lp]. cbn [upd lock parent_index] in *.
  destruct u as [n c d]. cbn [re_deref re_name re_change] in *.
  destruct d; cbn [negb] in H.
  - destruct (assoc n (loose st)) as [[referent|o]|]; [destruct c as [log expected new|previous mode]|..];
      injection H as <- <-; cbn; repeat split; auto; try lia; try (intros; discriminate);
      repeat constructor; cbn; auto; try (intros; discriminate).
  - injection H as <- <-. cbn. repeat split; auto.
Qed.

Lemma split_pass_spec st dn : forall es eid es' news,
  split_pass st eid es = (es', news) ->
  map parent_index es' = map parent_index es
  /\ (Forall unlocked es -> Forall unlocked es')
  /\ Forall noderef es'
  /\ (Forall (fun e => dn_ok dn (upd e)) es ->
      Forall (fun e => dn_ok dn (upd e)) es' /\ Forall (fun e => dn_ok dn (upd e)) news)
  /\ Forall (fun n => (exists j, parent_index n = Some j /\ eid <= j < eid + length es) /\ lock n = false) news
  /\ length news <= length es.
Proof.
  induction es as [|e r IH]; intros eid es' news H; cbn [split_pass] in H.
  - injection H as <- <-. repeat split; auto.
  - destruct (split_one st eid e) as [e' n1] eqn:E1.
    destruct (split_pass st (S eid) r) as [r' n2] eqn:E2.
    injection H as <- <-.
    destruct (split_one_spec _ _ _ _ _ dn E1) as (Hp & Hl & Hd & Hdn & Hn & Hlen).
    destruct (IH _ _ _ E2) as (IHp & IHl & IHd & IHdn & IHn & IHlen).
    repeat split.
    + cbn [map]. now rewrite Hp, IHp.
    + intros Hu. inversion Hu; subst. constructor; [unfold unlocked in *; congruence|auto].
    + constructor; auto.
    + inversion H; subst. destruct (Hdn H2). destruct (IHdn H3). constructor; auto.
    + inversion H; subst. destruct (Hdn H2). destruct (IHdn H3). apply Forall_app; auto.
    + apply Forall_app. split.
      * eapply Forall_impl; [|exact Hn]. cbn. intros n [Ha Hb]. split; auto. exists eid. split; auto. cbn [length]. lia.
      * eapply Forall_impl; [|exact IHn]. cbn. intros n [[j [Ha Hb]] Hc]. split; auto. exists j. split; auto.
        cbn [length]. lia.
    + rewrite app_length. cbn [length]. lia.
Qed.

Record sinv (dn : bool) (n0 round first : nat) (es : list edit) : Prop := mkSinv {
  s_first : first <= length es;
  s_len : length es - first <= n0;
  s_first_bound : first <= (round - 1) * n0;
  s_below : below 0 (map parent_index es);
  s_locks : Forall unlocked es;
  s_dn : Forall (fun e => dn_ok dn (upd e)) es;
  s_deref : Forall noderef (firstn first es) }.

Record split_result (dn : bool) (n0 : nat) (es : list edit) : Prop := mkSplitResult {
  r_len : length es <= 5 * n0;
  r_below : below 0 (map parent_index es);
  r_locks : Forall unlocked es;
  r_dn : Forall (fun e => dn_ok dn (upd e)) es;
  r_deref : Forall noderef es }.

Lemma splits_loop_spec dn n0 st : forall fuel es first round,
  1 <= round <= 5 -> 6 - round <= fuel -> sinv dn n0 round first es ->
  match splits_loop fuel st es first round with
  | Ok es' => split_result dn n0 es'
  | Err _ => True
  | Panic => False
  | OutOfFuel => False
  end.
Proof.
  induction fuel as [|f IH]; intros es first round Hr Hf I; [lia|].
  destruct I as [I1 I2 I3 I4 I5 I6 I7].
  cbn [splits_loop].
  destruct (Nat.ltb (length es) first) eqn:El; [apply Nat.ltb_lt in El; lia|].
  destruct (split_pass st first (skipn first es)) as [tail' news] eqn:Ep.
  destruct (split_pass_spec st dn _ _ _ _ Ep) as (Hp & Hl & Hd & Hdn & Hn & Hlen).
  rewrite skipn_length in Hn, Hlen.
  assert (Hes : map parent_index (firstn first es ++ tail') = map parent_index es).
  { rewrite map_app, Hp, <- map_app, firstn_skipn. reflexivity. }
  assert (Hlen' : length (firstn first es ++ tail') = length es).
  { rewrite <- (map_length parent_index), Hes, map_length. reflexivity. }
  assert (Hsplit : Forall unlocked (firstn first es) /\ Forall unlocked (skipn first es)).
  { apply Forall_app. rewrite firstn_skipn. exact I5. }
  assert (Hsplitd : Forall (fun e => dn_ok dn (upd e)) (firstn first es)
                    /\ Forall (fun e => dn_ok dn (upd e)) (skipn first es)).
  { apply Forall_app. rewrite firstn_skipn. exact I6. }
  destruct Hsplit as [Hu1 Hu2]. destruct Hsplitd as [Hd1 Hd2].
  destruct (Hdn Hd2) as [Hdt Hdnews].
  assert (Hlocks' : Forall unlocked (firstn first es ++ tail')) by (apply Forall_app; auto).
  assert (Hdn' : Forall (fun e => dn_ok dn (upd e)) (firstn first es ++ tail')) by (apply Forall_app; auto).
  assert (Hderef' : Forall noderef (firstn first es ++ tail')) by (apply Forall_app; auto).
  destruct news as [|n news'].
  - constructor; auto; try (rewrite Hes; exact I4). rewrite Hlen'. nia.
  - destruct (Nat.eqb round 5) eqn:E5; [exact I|].
    apply Nat.eqb_neq in E5.
    apply IH; [lia|lia|].
    set (news := n :: news') in *.
    pose proof (app_length (firstn first es ++ tail') news) as Hal.
    assert (Hnl : length news <= length es - first) by exact Hlen.
    constructor.
    + lia.
    + lia.
    + rewrite Hlen'. nia.
    + rewrite map_app. apply below_app. split; [rewrite Hes; exact I4|].
      rewrite map_length, Hlen'. cbn [Nat.add]. apply below_Forall.
      apply Forall_map. eapply Forall_impl; [|exact Hn]. cbn.
      intros e [[j [Hj Hr']] _] j' Hj'. rewrite Hj in Hj'. injection Hj' as <-. lia.
    + apply Forall_app. split; auto. eapply Forall_impl; [|exact Hn]. cbn. intros e [_ L]. exact L.
    + apply Forall_app. split; auto.
    + rewrite firstn_app, firstn_all, Nat.sub_diag. cbn [firstn]. rewrite app_nil_r. exact Hderef'.
Qed.

Definition fresh (edits : list refedit) : list edit := map (fun u => mkEdit u false None None) edits.

Lemma pre_process_spec dn st fuel edits :
  5 <= fuel -> Forall (dn_ok dn) edits ->
  match pre_process fuel st (fresh edits) with
  | Ok es' => split_result dn (length edits) es'
  | Err _ => True
  | Panic => False
  | OutOfFuel => False
  end.
Proof.
  intros Hf Hdn. unfold pre_process.
  pose proof (splits_loop_spec dn (length edits) st fuel (fresh edits) 0 1) as S.
  destruct (splits_loop fuel st (fresh edits) 0 1) as [es'| | |]; cbn [obind].
  - destruct (has_dup (map name_of es')); [exact I|].
    apply S; [lia|lia|].
    unfold fresh. constructor; cbn [firstn]; rewrite ?map_length; try lia; auto.
    + rewrite map_map. cbn [parent_index]. apply below_all_none. apply Forall_map.
      apply Forall_forall. reflexivity.
    + apply Forall_map. apply Forall_forall. reflexivity.
    + apply Forall_map. cbn [upd]. exact Hdn.
  - exact I.
  - apply S; [lia|lia|].
    unfold fresh. constructor; cbn [firstn]; rewrite ?map_length; try lia; auto.
    + rewrite map_map. cbn [parent_index]. apply below_all_none. apply Forall_map.
      apply Forall_forall. reflexivity.
    + apply Forall_map. apply Forall_forall. reflexivity.
    + apply Forall_map. cbn [upd]. exact Hdn.
  - apply S; [lia|lia|].
    unfold fresh. constructor; cbn [firstn]; rewrite ?map_length; try lia; auto.
    + rewrite map_map. cbn [parent_index]. apply below_all_none. apply Forall_map.
      apply Forall_forall. reflexivity.
    + apply Forall_map. apply Forall_forall. reflexivity.
    + apply Forall_map. cbn [upd]. exact Hdn.
Qed.
