(* C17 — prepare_inner: the two parent-chain loops terminate because parents precede their children;
   the whole preparation returns for every store, lock set and edit list. *)
From Coq Require Import List NArith Bool Arith Lia.
From GixV.Base Require Import Bytes Outcome.
From GixV.C17 Require Import Model ProofsLists ProofsBackoff ProofsSplits.
Import ListNotations.

(* ---- lock_ref_and_apply_change ---- *)

Lemma acquire_or_err_cases fuel draws st mode n :
  ms_of mode + 2 <= fuel ->
  acquire_or_err fuel draws st mode n = (if mem n (held st) then Err (ELockAcquire bogus) else Ok true).
Proof.
  intros Hf. unfold acquire_or_err. rewrite acquire_returns by exact Hf. cbn [obind].
  destruct (mem n (held st)); reflexivity.
Qed.

Lemma lock_ref_and_apply_change_spec dn fuel draws st mode pbuf e g d :
  ms_of mode + 2 <= fuel -> lock e = false -> dn_ok dn (upd e) ->
  match lock_ref_and_apply_change fuel draws st mode pbuf e g d with
  | Ok e' => parent_index e' = parent_index e /\ leaf_prev e' = leaf_prev e
             /\ re_name (upd e') = re_name (upd e) /\ re_deref (upd e') = re_deref (upd e)
             /\ dn_ok dn (upd e')
             /\ (is_delete (re_change (upd e')) = is_delete (re_change (upd e)))
             /\ (forall l x n, re_change (upd e') = Update l x n ->
                   exists x0, re_change (upd e) = Update l x0 n)
             /\ (forall x l, re_change (upd e') = Delete x l -> exists x0, re_change (upd e) = Delete x0 l)
  | Err _ => True
  | Panic => dn = true
  | OutOfFuel => False
  end.
Proof.
  intros Hf Hl Hdn. unfold lock_ref_and_apply_change. rewrite Hl.
  rewrite !acquire_or_err_cases by exact Hf.
  unfold dn_ok, is_dn_u in *.
  destruct e as [u lk pi lp]. destruct u as [n c dr]. cbn [upd re_name re_change re_deref parent_index leaf_prev lock] in *.
  destruct c as [log expected new|expected log].
  - destruct g; cbn [obind].
    + destruct expected as [| | |p|p], (existing_ref st pbuf n) as [a|]; cbn [obind];
        repeat match goal with
               | |- context [target_eqb ?x ?y] => destruct (target_eqb x y); cbn [obind]
               | |- context [new_would_change_existing ?x ?y] => destruct (new_would_change_existing x y) as [[] []]; cbn [obind andb orb negb]
               | |- context [is_sym ?x] => destruct (is_sym x); cbn [obind andb orb negb]
               | |- context [negb d] => destruct d; cbn [obind andb orb negb]
               | |- context [mem ?x ?y] => destruct (mem x y); cbn [obind]
               end;
        auto; cbn [upd re_name re_change re_deref parent_index leaf_prev is_delete];
        repeat split; auto; try (intros; discriminate);
        try (intros ? ? ? E; injection E as <- <- <-; eexists; reflexivity).
    + destruct (mem n (held st)); cbn [obind]; auto.
      destruct expected as [| | |p|p], (existing_ref st pbuf n) as [a|]; cbn [obind];
        repeat match goal with
               | |- context [target_eqb ?x ?y] => destruct (target_eqb x y); cbn [obind]
               | |- context [new_would_change_existing ?x ?y] => destruct (new_would_change_existing x y) as [[] []]; cbn [obind andb orb negb]
               | |- context [is_sym ?x] => destruct (is_sym x); cbn [obind andb orb negb]
               | |- context [negb d] => destruct d; cbn [obind andb orb negb]
               end;
        auto; cbn [upd re_name re_change re_deref parent_index leaf_prev is_delete];
        repeat split; auto; try (intros; discriminate);
        try (intros ? ? ? E; injection E as <- <- <-; eexists; reflexivity).
  - assert (G : forall lk0 : bool,
      match
        (checked <- match expected, existing_ref st pbuf n with
                   | PMustNotExist, _ => Panic
                   | PExisting _, None | PAny, None => Ok tt
                   | PMustExist, Some _ | PAny, Some _ => Ok tt
                   | PMustExist, None | PMatch _, None => Err EDeleteReferenceMustExist
                   | PMatch previous, Some actual | PExisting previous, Some actual =>
                       if target_eqb previous actual then Ok tt else Err EReferenceOutOfDate
                   end ;;
         let expected' := match existing_ref st pbuf n with Some t => PMatch t | None => expected end in
         Ok (mkEdit (mkRefEdit n (Delete expected' log) dr) lk0 pi lp))%outcome
      with
      | Ok e' => parent_index e' = pi /\ leaf_prev e' = lp
             /\ re_name (upd e') = n /\ re_deref (upd e') = dr
             /\ (match re_change (upd e') with Delete PMustNotExist _ => true | _ => false end = true -> dn = true)
             /\ (is_delete (re_change (upd e')) = true)
             /\ (forall l x n0, re_change (upd e') = Update l x n0 ->
                   exists x0, Delete expected log = Update l x0 n0)
             /\ (forall x l, re_change (upd e') = Delete x l -> exists x0, Delete expected log = Delete x0 l)
      | Err _ => True
      | Panic => dn = true
      | OutOfFuel => False
      end).
    { intros lk0.
      destruct expected as [| | |p|p], (existing_ref st pbuf n) as [a|]; cbn [obind];
        repeat match goal with
               | |- context [target_eqb ?x ?y] => destruct (target_eqb x y); cbn [obind]
               end;
        auto; cbn [upd re_name re_change re_deref parent_index leaf_prev is_delete];
        repeat split; auto; try (intros; discriminate);
        try (intros ? ? E; injection E as <- <-; eexists; reflexivity). }
    destruct g; cbn [obind].
    + apply G.
    + destruct (mem n (held st)); cbn [obind]; auto. apply G.
Qed.

(* ---- the two loops over the parent chain ---- *)

Lemma walk_name_returns : forall fuel us cursor name,
  below 0 (map parent_index us) ->
  match cursor with Some c => c < length us /\ c + 2 <= fuel | None => 1 <= fuel end ->
  exists n, walk_name fuel us cursor name = Ok n.
Proof.
  induction fuel as [|f IH]; intros us cursor name Hb Hc.
  - destruct cursor; lia.
  - cbn [walk_name]. destruct cursor as [c|]; [|eexists; reflexivity].
    destruct Hc as [Hlt Hf].
    destruct (nth_error us c) as [parent|] eqn:En; [|apply nth_error_None in En; lia].
    assert (Hnext : match parent_index parent with Some p => p < length us /\ p + 2 <= f | None => 1 <= f end).
    { destruct (parent_index parent) as [p|] eqn:Ep; [|lia].
      assert (p < 0 + c).
      { eapply below_nth; [exact Hb|]. rewrite nth_error_map, En. cbn. now rewrite Ep. }
      lia. }
    destruct (parent_index parent) eqn:Ep; apply IH; auto.
Qed.

Lemma leaf_loop_returns oid : forall fuel us cursor,
  below 0 (map parent_index us) ->
  match cursor with Some c => c < length us /\ c + 2 <= fuel | None => 1 <= fuel end ->
  exists us', leaf_loop fuel us cursor oid = Ok us'
              /\ map parent_index us' = map parent_index us
              /\ map upd us' = map upd us /\ map lock us' = map lock us.
Proof.
  induction fuel as [|f IH]; intros us cursor Hb Hc.
  - destruct cursor; lia.
  - cbn [leaf_loop]. destruct cursor as [c|]; [|eexists; repeat split; reflexivity].
    destruct Hc as [Hlt Hf].
    destruct (nth_error us c) as [parent|] eqn:En; [|apply nth_error_None in En; lia].
    assert (Ep : map parent_index (set_nth c (set_leaf parent oid) us) = map parent_index us)
      by (eapply map_set_nth_same; [exact En|reflexivity]).
    assert (Eu : map upd (set_nth c (set_leaf parent oid) us) = map upd us)
      by (eapply map_set_nth_same; [exact En|reflexivity]).
    assert (El : map lock (set_nth c (set_leaf parent oid) us) = map lock us)
      by (eapply map_set_nth_same; [exact En|reflexivity]).
    destruct (IH (set_nth c (set_leaf parent oid) us) (parent_index parent)) as [us' [H1 [H2 [H3 H4]]]].
    + rewrite Ep. exact Hb.
    + rewrite length_set_nth. destruct (parent_index parent) as [p|] eqn:Epp; [|lia].
      assert (p < 0 + c).
      { eapply below_nth; [exact Hb|]. rewrite nth_error_map, En. cbn. now rewrite Epp. }
      lia.
    + exists us'. rewrite H1, H2, H3, H4, Ep, Eu, El. repeat split; reflexivity.
Qed.

(* ---- the loop over all edits ---- *)

Record ainv (dn : bool) (cid : nat) (us : list edit) : Prop := mkAinv {
  a_below : below 0 (map parent_index us);
  a_locks : Forall (fun b => b = false) (skipn cid (map lock us));
  a_dn : Forall (dn_ok dn) (map upd us) }.

(* what the finished loop preserves of the edit vector *)
Definition same_shape (us us' : list edit) : Prop :=
  map parent_index us' = map parent_index us
  /\ map (fun e => re_name (upd e)) us' = map (fun e => re_name (upd e)) us
  /\ map (fun e => re_deref (upd e)) us' = map (fun e => re_deref (upd e)) us
  /\ Forall2 (fun e e' => match re_change (upd e') with
                          | Update l _ n => exists x0, re_change (upd e) = Update l x0 n
                          | Delete _ l => exists x0, re_change (upd e) = Delete x0 l
                          end) us us'.

Lemma same_shape_refl us : same_shape us us.
Proof.
  repeat split; auto. induction us; constructor; auto.
  destruct (re_change (upd a)); eexists; reflexivity.
Qed.
Lemma same_shape_trans a b c : same_shape a b -> same_shape b c -> same_shape a c.
Proof.
  intros (A1 & A2 & A3 & A4) (B1 & B2 & B3 & B4). repeat split; try congruence.
  clear - A4 B4. revert c B4.
  induction A4 as [|x y l l2 Hxy A4 IH]; intros c B4;
    inversion B4 as [|y2 z l3 l4 Hyz B5]; subst; constructor; auto.
  destruct (re_change (upd z)).
  - destruct Hyz as [x0 Hyz]. rewrite Hyz in Hxy. exact Hxy.
  - destruct Hyz as [x0 Hyz]. rewrite Hyz in Hxy. exact Hxy.
Qed.

Lemma Forall2_set_nth {A} (R : A -> A -> Prop) : forall n (l : list A) x y,
  (forall a, R a a) -> nth_error l n = Some x -> R x y -> Forall2 R l (set_nth n y l).
Proof.
  induction n; destruct l; cbn; intros x y Hr Hn Hxy; try discriminate.
  - injection Hn as ->. constructor; auto. clear - Hr. induction l; constructor; auto.
  - constructor; auto. eapply IHn; eauto.
Qed.

Lemma Forall2_impl' {A B} (R R' : A -> B -> Prop) : forall l l',
  (forall a b, R a b -> R' a b) -> Forall2 R l l' -> Forall2 R' l l'.
Proof. intros l l' H F. induction F; constructor; auto. Qed.

Lemma Forall2_map_eq {A B} (f : A -> B) : forall l l', map f l' = map f l -> Forall2 (fun a b => f b = f a) l l'.
Proof.
  induction l; destruct l'; cbn; intros H; try discriminate; constructor.
  - now injection H.
  - apply IHl. now injection H.
Qed.

Lemma apply_all_spec dn fuel draws st mode pbuf g d : forall n cid us,
  cid + n = length us -> ainv dn cid us ->
  length us + 2 <= fuel -> ms_of mode + 2 <= fuel ->
  match apply_all n cid fuel draws st mode pbuf g d us with
  | Ok us' => same_shape us us'
  | Err _ => True
  | Panic => dn = true
  | OutOfFuel => False
  end.
Proof.
  induction n as [|n IH]; intros cid us Hlen I Hfu Hfm; cbn [apply_all].
  - apply same_shape_refl.
  - destruct I as [Ib Il Id].
    destruct (nth_error us cid) as [change|] eqn:En; [|apply nth_error_None in En; lia].
    assert (Hlock : lock change = false).
    { assert (En' : nth_error (map lock us) cid = Some (lock change)) by (rewrite nth_error_map, En; reflexivity).
      rewrite (skipn_nth_error _ _ _ En') in Il. now inversion Il. }
    assert (Hdn : dn_ok dn (upd change)).
    { rewrite Forall_forall in Id. apply Id. apply in_map. eapply nth_error_In. exact En. }
    pose proof (lock_ref_and_apply_change_spec dn fuel draws st mode pbuf change g (d && packable (name_of change)) Hfm Hlock Hdn) as S.
    assert (Hpar : match parent_index change with Some c => c < length us /\ c + 2 <= fuel | None => 1 <= fuel end).
    { destruct (parent_index change) as [p|] eqn:Ep; [|lia].
      assert (p < 0 + cid).
      { eapply below_nth; [exact Ib|]. rewrite nth_error_map, En. cbn. now rewrite Ep. }
      lia. }
    destruct (lock_ref_and_apply_change fuel draws st mode pbuf change g (d && packable (name_of change))) as [change'|e| |]; auto.
    + destruct S as (S1 & S2 & S3 & S4 & S5 & S6 & S7 & S8).
      set (us1 := set_nth cid change' us).
      assert (E1 : map parent_index us1 = map parent_index us) by (eapply map_set_nth_same; eauto).
      assert (Sh1 : same_shape us us1).
      { repeat split; auto.
        - eapply (map_set_nth_same (fun e => re_name (upd e))); eauto.
        - eapply (map_set_nth_same (fun e => re_deref (upd e))); eauto.
        - eapply Forall2_set_nth; [|exact En|].
          + intros a. destruct (re_change (upd a)); eexists; reflexivity.
          + destruct (re_change (upd change')) eqn:Ec.
            * eapply S7; reflexivity.
            * eapply S8; reflexivity. }
      assert (I1 : ainv dn (S cid) us1).
      { constructor.
        - rewrite E1. exact Ib.
        - unfold us1. rewrite map_set_nth, skipn_S_set_nth.
          assert (En' : nth_error (map lock us) cid = Some (lock change)) by (rewrite nth_error_map, En; reflexivity).
          rewrite (skipn_nth_error _ _ _ En') in Il. now inversion Il.
        - unfold us1. rewrite map_set_nth. apply Forall_set_nth; auto. }
      assert (Hleaf : exists us2, match previous_oid (re_change (upd change')), parent_index change' with
                                  | Some oid, Some parent_idx => leaf_loop fuel us1 (Some parent_idx) oid
                                  | _, _ => Ok us1
                                  end = Ok us2
                                  /\ map parent_index us2 = map parent_index us1
                                  /\ map upd us2 = map upd us1 /\ map lock us2 = map lock us1).
      { destruct (previous_oid (re_change (upd change'))) as [oid|]; [|exists us1; auto].
        destruct (parent_index change') as [p|] eqn:Ep; [|exists us1; auto].
        apply leaf_loop_returns.
        - rewrite E1. exact Ib.
        - unfold us1. rewrite length_set_nth. assert (Ep2 : parent_index change = Some p) by congruence. rewrite Ep2 in Hpar. exact Hpar. }
      destruct Hleaf as [us2 [Hl2 [P2 [U2 L2]]]]. rewrite Hl2. cbn [obind].
      assert (Sh2 : same_shape us1 us2).
      { repeat split; auto.
        - rewrite <- !(map_map upd re_name). now rewrite U2.
        - rewrite <- !(map_map upd re_deref). now rewrite U2.
        - apply Forall2_map_eq in U2. eapply Forall2_impl'; [|exact U2]. cbn. intros a b ->.
          destruct (re_change (upd a)); eexists; reflexivity. }
      specialize (IH (S cid) us2).
      assert (Hlen2 : length us2 = length us).
      { rewrite <- (map_length parent_index us2), P2, E1, map_length. reflexivity. }
      destruct (apply_all n (S cid) fuel draws st mode pbuf g d us2) as [us'| | |] eqn:Ea.
      * eapply same_shape_trans; [exact Sh1|]. eapply same_shape_trans; [exact Sh2|].
        apply IH; try lia. destruct I1 as [J1 J2 J3]. constructor; [rewrite P2|rewrite L2|rewrite U2]; auto.
      * exact I.
      * apply IH; try lia. destruct I1 as [J1 J2 J3]. constructor; [rewrite P2|rewrite L2|rewrite U2]; auto.
      * apply IH; try lia. destruct I1 as [J1 J2 J3]. constructor; [rewrite P2|rewrite L2|rewrite U2]; auto.
    + destruct e; auto.
      destruct (walk_name_returns fuel us (parent_index change) (name_of change) Ib Hpar) as [nm Hn].
      rewrite Hn. exact I.
Qed.
