(* C17 — list helpers: set_nth, the "every parent index is below its own index" predicate. *)
From Coq Require Import List Bool Arith Lia.
From GixV.Base Require Import Bytes Outcome.
From GixV.C17 Require Import Model.
Import ListNotations.

(* what "returns" means: no exhaustion of fuel; a panic only where the flag allows one *)
Definition safe {A E} (dn : bool) (o : outcome A E) : Prop :=
  match o with OutOfFuel => False | Panic => dn = true | _ => True end.
Definition returns {A E} (o : outcome A E) : Prop :=
  match o with Ok _ | Err _ => True | _ => False end.

Lemma safe_false_returns {A E} (o : outcome A E) : safe false o -> returns o.
Proof. destruct o; cbn; auto. discriminate. Qed.

Lemma safe_bind {A B E} dn (o : outcome A E) (f : A -> outcome B E) :
  safe dn o -> (forall a, o = Ok a -> safe dn (f a)) -> safe dn (obind o f).
Proof. destruct o; cbn; auto. Qed.

Lemma length_set_nth {A} (x : A) : forall n l, length (set_nth n x l) = length l.
Proof. induction n; destruct l; cbn; auto. Qed.
Lemma map_set_nth {A B} (f : A -> B) (x : A) : forall n l, map f (set_nth n x l) = set_nth n (f x) (map f l).
Proof. induction n; destruct l; cbn; auto. now rewrite IHn. Qed.
Lemma set_nth_same {A} : forall n (l : list A) x, nth_error l n = Some x -> set_nth n x l = l.
Proof.
  induction n; destruct l; cbn; intros x H; try discriminate; auto.
  - now injection H as ->.
  - now rewrite IHn.
Qed.
Lemma skipn_S_set_nth {A} (x : A) : forall n l, skipn (S n) (set_nth n x l) = skipn (S n) l.
Proof. induction n; destruct l; cbn; auto. apply IHn. Qed.
Lemma firstn_set_nth {A} (x : A) : forall n l, firstn n (set_nth n x l) = firstn n l.
Proof. induction n; destruct l; cbn; auto. now rewrite IHn. Qed.
Lemma Forall_set_nth {A} (P : A -> Prop) (x : A) : forall n l, Forall P l -> P x -> Forall P (set_nth n x l).
Proof.
  induction n; destruct l; cbn; intros Hl Hx; auto; inversion Hl; subst; constructor; auto.
Qed.
Lemma skipn_nth_error {A} : forall n (l : list A) x, nth_error l n = Some x -> skipn n l = x :: skipn (S n) l.
Proof.
  induction n; destruct l; cbn; intros x H; try discriminate.
  - now injection H as ->.
  - now apply IHn.
Qed.
Lemma map_set_nth_same {A B} (f : A -> B) n (l : list A) x y :
  nth_error l n = Some x -> f y = f x -> map f (set_nth n y l) = map f l.
Proof.
  intros H E. rewrite map_set_nth, E. apply set_nth_same. now rewrite nth_error_map, H.
Qed.

(* [below b l]: the element at position i of l, if it is Some j, has j < b + i *)
Fixpoint below (base : nat) (l : list (option nat)) : Prop :=
  match l with
  | [] => True
  | p :: r => match p with Some j => j < base | None => True end /\ below (S base) r
  end.
Lemma below_app : forall l1 b l2, below b (l1 ++ l2) <-> below b l1 /\ below (b + length l1) l2.
Proof.
  induction l1 as [|p r IH]; intros b l2; cbn [app below length].
  - rewrite Nat.add_0_r. tauto.
  - rewrite IH. replace (S b + length r) with (b + S (length r)) by lia. tauto.
Qed.
Lemma below_nth : forall l b i p, below b l -> nth_error l i = Some (Some p) -> p < b + i.
Proof.
  induction l as [|q r IH]; intros b i p Hb Hn; destruct i; cbn in *; try discriminate.
  - injection Hn as ->. destruct Hb. lia.
  - destruct Hb as [_ Hb]. specialize (IH _ _ _ Hb Hn). lia.
Qed.
Lemma below_Forall : forall l b, Forall (fun o => forall j, o = Some j -> j < b) l -> below b l.
Proof.
  induction l as [|q r IH]; intros b H; cbn; auto. inversion H; subst. split.
  - destruct q; auto.
  - apply IH. eapply Forall_impl; [|eassumption]. cbn. intros o Ho j Hj. specialize (Ho j Hj). lia.
Qed.
Lemma below_all_none : forall l b, Forall (fun o => o = @None nat) l -> below b l.
Proof.
  intros. apply below_Forall. eapply Forall_impl; [|eassumption]. cbn. intros o -> j Hj. discriminate.
Qed.
