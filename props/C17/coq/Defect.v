(* C17 — the parent-chain walk as it was before the repair (gix-ref prepare.rs at the pinned commit):
   the cursor is only advanced when the parent has a parent itself, so reaching a root edit spins. *)
From Coq Require Import List NArith Bool Arith Lia.
From GixV.Base Require Import Bytes Outcome.
From GixV.C17 Require Import Model.
Import ListNotations.

Fixpoint walk_name_before_fix (fuel : nat) (updates : list edit) (cursor : option nat) (ref_name : bytes)
  : outcome bytes err :=
  match fuel with
  | O => OutOfFuel
  | S f =>
      match cursor with
      | None => Ok ref_name
      | Some parent_idx =>
          match nth_error updates parent_idx with
          | None => Panic
          | Some parent =>
              match parent_index parent with
              | None => walk_name_before_fix f updates cursor (name_of parent)       (* cursor not cleared *)
              | Some _ => walk_name_before_fix f updates (parent_index parent) ref_name
              end
          end
      end
  end.

(* whenever the walk starts at all (the failing edit is a split edit whose chain is well-formed), it never ends *)
Lemma walk_before_fix_spins_at_root : forall fuel us c root name,
  nth_error us c = Some root -> parent_index root = None ->
  walk_name_before_fix fuel us (Some c) name = OutOfFuel.
Proof.
  induction fuel as [|f IH]; intros us c root name Hn Hp; cbn [walk_name_before_fix]; [reflexivity|].
  rewrite Hn, Hp. eapply IH; eauto.
Qed.
