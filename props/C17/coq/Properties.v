(* C17 — Reference transactions terminate under lock contention: the theorems. *)
From Coq Require Import List NArith Bool Arith Lia.
From GixV.Base Require Import Bytes Outcome.
From GixV.C17 Require Import Model ProofsLists ProofsBackoff ProofsSplits ProofsPrepare ProofsCommit Defect.
Import ListNotations.

(* ---------------------------------------------------------------- gix-utils back-off, gix-lock *)

(* `until_no_remaining(time)` yields at most time+1 waits, each at least 1 ms, for every transform that
   maps positive to positive (identity, and `randomize` with any sequence of random draws) *)
Theorem backoff_schedule_finite : forall tr time fuel,
  tr_pos tr -> N.to_nat time + 2 <= fuel ->
  exists l, schedule fuel tr time = Ok l /\ length l <= N.to_nat time + 1 /\ Forall (fun d => (1 <= d)%N) l.
Proof.
  intros tr time fuel Htr Hf. destruct (schedule_returns tr time fuel Htr Hf) as [l [H [_ Hp]]].
  exists l. split; [exact H|]. split; [eapply schedule_length; eauto|exact Hp].
Qed.

Theorem randomize_keeps_waits_positive : forall draws, tr_pos (fun k => randomize (clamp_draw (draws k))).
Proof. exact random_tr_pos. Qed.

(* the waits add up to no more than the budget plus one maximal (randomised) wait *)
Theorem backoff_total_sleep_bounded : forall draws time fuel l,
  schedule fuel (fun k => randomize (clamp_draw (draws k))) time = Ok l -> (sumN l <= time + 1250)%N.
Proof. intros. eapply schedule_sum; [apply random_tr_le|eassumption]. Qed.

(* lock_with_mode returns whatever the other party does with the lock file (try_lock is arbitrary):
   bounded number of attempts, bounded sleep *)
Theorem lock_with_mode_terminates : forall fuel draws mode try_lock,
  ms_of mode + 2 <= fuel ->
  exists r, lock_with_mode fuel draws mode try_lock = Ok r
            /\ (forall n, fst r = PermanentlyLocked n -> n <= ms_of mode + 2)
            /\ (snd r <= match mode with Immediately => 0 | Backoff ms => ms + 1250 end)%N.
Proof. exact lock_with_mode_returns. Qed.

(* ---------------------------------------------------------------- gix-ref: the loops of prepare *)

(* splitting symbolic refs gives up after five rounds: fuel 5 is enough for every store and edit list *)
Theorem splits_terminate : forall st edits fuel,
  5 <= fuel -> returns (pre_process fuel st (fresh edits)).
Proof.
  intros st edits fuel Hf.
  pose proof (pre_process_spec (dn_of edits) st fuel edits Hf (dn_of_ok edits)) as S.
  destruct (pre_process fuel st (fresh edits)); cbn; auto.
Qed.

(* after splitting, every parent index points to an earlier edit — the reason both walks end *)
Theorem parents_precede_children : forall st edits fuel es,
  5 <= fuel -> pre_process fuel st (fresh edits) = Ok es ->
  (forall i e p, nth_error es i = Some e -> parent_index e = Some p -> p < i)
  /\ length es <= 5 * length edits.
Proof.
  intros st edits fuel es Hf H.
  pose proof (pre_process_spec (dn_of edits) st fuel edits Hf (dn_of_ok edits)) as S. rewrite H in S.
  destruct S as [R1 R2 _ _ _]. split; [|exact R1].
  intros i e p Hn Hp. change i with (0 + i). eapply below_nth; [exact R2|].
  rewrite nth_error_map, Hn. cbn. now rewrite Hp.
Qed.

(* the error-path walk (as repaired) and the leaf-oid propagation end within cursor+2 steps *)
Theorem walk_name_terminates : forall fuel us c name,
  below 0 (map parent_index us) -> c < length us -> c + 2 <= fuel ->
  exists n, walk_name fuel us (Some c) name = Ok n.
Proof. intros. apply walk_name_returns; auto. Qed.

Theorem leaf_loop_terminates : forall oid fuel us c,
  below 0 (map parent_index us) -> c < length us -> c + 2 <= fuel ->
  exists us', leaf_loop fuel us (Some c) oid = Ok us' /\ map upd us' = map upd us /\ map lock us' = map lock us.
Proof.
  intros oid fuel us c Hb Hc Hf.
  destruct (leaf_loop_returns oid fuel us (Some c) Hb (conj Hc Hf)) as [us' [H [_ [H2 H3]]]].
  exists us'. auto.
Qed.

(* the walk as it was at the pinned commit never ends once it reaches a root edit *)
Theorem walk_before_fix_diverges : forall fuel us c root name,
  nth_error us c = Some root -> parent_index root = None ->
  walk_name_before_fix fuel us (Some c) name = OutOfFuel.
Proof. exact walk_before_fix_spins_at_root. Qed.

(* ---------------------------------------------------------------- gix-ref: prepare and commit *)

(* prepare never runs out of fuel: for every store, every set of held locks, every edit list, both
   fail modes, all three packed-refs modes and every sequence of random draws *)
Theorem prepare_terminates : forall fuel draws st pmode rf pf edits,
  fuel_bound st rf pf edits <= fuel ->
  prepare_inner fuel draws st pmode rf pf edits <> OutOfFuel.
Proof.
  intros fuel draws st pmode rf pf edits Hf E.
  pose proof (prepare_inner_spec fuel draws st pmode rf pf edits Hf) as S. rewrite E in S. exact S.
Qed.

(* the only panic is the documented invalid input: a deletion with PreviousValue::MustNotExist *)
Theorem prepare_panics_only_on_invalid_delete : forall fuel draws st pmode rf pf edits,
  fuel_bound st rf pf edits <= fuel ->
  prepare_inner fuel draws st pmode rf pf edits = Panic -> dn_of edits = true.
Proof.
  intros fuel draws st pmode rf pf edits Hf E.
  pose proof (prepare_inner_spec fuel draws st pmode rf pf edits Hf) as S. rewrite E in S. exact S.
Qed.

Theorem prepare_returns : forall fuel draws st pmode rf pf edits,
  dn_of edits = false -> fuel_bound st rf pf edits <= fuel ->
  returns (prepare_inner fuel draws st pmode rf pf edits).
Proof.
  intros fuel draws st pmode rf pf edits Hd Hf.
  pose proof (prepare_inner_spec fuel draws st pmode rf pf edits Hf) as S.
  destruct (prepare_inner fuel draws st pmode rf pf edits); cbn; auto. congruence.
Qed.

(* prepare followed by commit returns: success or an error, never a hang, never a panic *)
Theorem transaction_returns : forall fuel draws st pmode rf pf edits,
  dn_of edits = false -> fuel_bound st rf pf edits <= fuel ->
  match prepare_inner fuel draws st pmode rf pf edits with
  | Ok p => returns (commit_inner fuel st pmode p)
  | o => returns o
  end.
Proof.
  intros fuel draws st pmode rf pf edits Hd Hf.
  pose proof (prepare_inner_spec fuel draws st pmode rf pf edits Hf) as S.
  destruct (prepare_inner fuel draws st pmode rf pf edits) as [p| | |]; cbn; auto; try congruence.
  eapply commit_inner_returns; [exact S|]. unfold fuel_bound in Hf. lia.
Qed.

(* commit of anything prepare produced returns, also for inputs outside the documented domain *)
Theorem commit_terminates : forall fuel draws st pmode rf pf edits p,
  fuel_bound st rf pf edits <= fuel ->
  prepare_inner fuel draws st pmode rf pf edits = Ok p ->
  returns (commit_inner fuel st pmode p).
Proof.
  intros fuel draws st pmode rf pf edits p Hf E.
  pose proof (prepare_inner_spec fuel draws st pmode rf pf edits Hf) as S. rewrite E in S.
  eapply commit_inner_returns; [exact S|]. unfold fuel_bound in Hf. lia.
Qed.

(* ---------------------------------------------------------------- non-vacuity *)

Definition witness_store : store :=
  mkStore [(bs "HEAD", Sym (bs "refs/heads/main")); (bs "refs/heads/main", Obj x31)] None [bs "refs/heads/main"].
Definition witness_edits : list refedit :=
  [mkRefEdit (bs "HEAD") (Update AndRef PAny (Obj x32)) true].

(* the input that used to hang: now an error naming HEAD *)
Example witness_is_valid : dn_of witness_edits = false.
Proof. reflexivity. Qed.
Example witness_now_fails_cleanly :
  prepare_inner (fuel_bound witness_store Immediately Immediately witness_edits) (fun _ => 0%N)
                witness_store DeletionsOnly Immediately Immediately witness_edits
  = Err (ELockAcquire (bs "HEAD")).
Proof. vm_compute. reflexivity. Qed.
Example witness_hung_before_fix :
  walk_name_before_fix 1000
    [mkEdit (mkRefEdit (bs "HEAD") (Update LogOnly PAny (Obj x32)) false) false None None;
     mkEdit (mkRefEdit (bs "refs/heads/main") (Update AndRef PAny (Obj x32)) false) false (Some 0) None]
    (Some 0) (bs "refs/heads/main") = OutOfFuel.
Proof. vm_compute. reflexivity. Qed.
Example identity_transform_is_positive : tr_pos (fun _ b => b).
Proof. exact identity_tr_pos. Qed.
Example backoff_schedule_example : schedule 12 (fun _ b => b) 10 = Ok [1; 4; 9]%N.
Proof. vm_compute. reflexivity. Qed.
(* the documented invalid input does panic, in the model as in the code *)
Example invalid_delete_panics :
  prepare_inner 100 (fun _ => 0%N) (mkStore [] None []) DeletionsOnly Immediately Immediately
                [mkRefEdit (bs "refs/heads/a") (Delete PMustNotExist AndRef) false] = Panic.
Proof. vm_compute. reflexivity. Qed.
(* a transaction that succeeds and commits: HEAD -> main updated through the symbolic ref *)
Example free_transaction_commits :
  let st := mkStore (loose witness_store) None [] in
  match prepare_inner 20 (fun _ => 0%N) st DeletionsOnly Immediately Immediately witness_edits with
  | Ok p => match commit_inner 20 st DeletionsOnly p with
            | Ok (_, l, _) => assoc (bs "refs/heads/main") l = Some (Obj x32)
            | _ => False
            end
  | _ => False
  end.
Proof. vm_compute. reflexivity. Qed.
