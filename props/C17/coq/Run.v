(* C17 — transcript printer: parses a case the way the Rust harness does, runs the model, prints the
   same observable line. *)
From Coq Require Import List NArith Bool Arith.
From GixV.Base Require Import Bytes Outcome.
From GixV.C17 Require Import Model.
Import ListNotations.

(* ------------------------------------------------------------------ parsing *)

Fixpoint split_on (sep : byte) (l : bytes) (cur : bytes) : list bytes :=
  match l with
  | [] => [rev cur]
  | b :: r => if beqb b sep then rev cur :: split_on sep r [] else split_on sep r (b :: cur)
  end.
Definition split (sep : byte) (l : bytes) : list bytes :=
  match l with [] => [] | _ => split_on sep l [] end.

Definition comma : byte := x2c.
Definition colon : byte := x3a.
Definition slash : byte := x2f.
Definition at_sign : byte := x40.

Definition is_empty (l : bytes) : bool := match l with [] => true | _ => false end.
Definition name_char (b : byte) : bool :=
  let n := b2N b in
  (N.leb 48 n && N.leb n 57) || (N.leb 65 n && N.leb n 90) || (N.leb 97 n && N.leb n 122)
  || N.eqb n 95 || N.eqb n 47.
(* the names of the model: all-caps pseudo refs, or refs/… over [A-Za-z0-9_/] without empty components *)
Definition nice_name (n : bytes) : bool :=
  if is_empty n then false
  else if is_pseudo_ref n then true
  else starts_with (bs "refs/") n && forallb name_char n
       && forallb (fun c => negb (is_empty c)) (split slash n)
       (* no `refs/X` or `refs/<cat>/X…` with an all-caps X: those are the short-name (DWIM) candidates of
          the pseudo ref X in `find_one_with_verified_input` / `packed::Buffer::try_find` *)
       && negb (is_pseudo_ref (nth 1 (split slash n) (bs "x")))
       && negb (is_pseudo_ref (nth 2 (split slash n) (bs "x"))).

Definition is_hex_char (b : byte) : bool :=
  let n := b2N b in (N.leb 48 n && N.leb n 57) || (N.leb 97 n && N.leb n 102).

Definition parse_target (t : bytes) : option target :=
  match t with
  | b :: r => if beqb b at_sign then (if nice_name r then Some (Sym r) else None)
              else if is_empty r && is_hex_char b then Some (Obj b) else None
  | [] => None
  end.
Definition parse_prev (t : bytes) : option prev :=
  match t with
  | [x41] => Some PAny
  | [x45] => Some PMustExist
  | [x4e] => Some PMustNotExist
  | x4d :: r => option_map PMatch (parse_target r)
  | x58 :: r => option_map PExisting (parse_target r)
  | _ => None
  end.
Definition parse_log (t : bytes) : option logmode :=
  match t with
  | [x52] => Some AndRef
  | [x4c] => Some LogOnly
  | _ => None
  end.
Definition parse_edit (e : bytes) : option refedit :=
  match split colon e with
  | [n; d; k; ex; nw; lg] =>
      if negb (nice_name n) then None
      else
        match (match d with [x30] => Some false | [x31] => Some true | _ => None end),
              parse_prev ex, parse_log lg with
        | Some deref, Some expected, Some log =>
            match k with
            | [x55] => match parse_target nw with
                       | Some new => Some (mkRefEdit n (Update log expected new) deref)
                       | None => None
                       end
            | [x44] => match nw with
                       | [x2d] => Some (mkRefEdit n (Delete expected log) deref)
                       | _ => None
                       end
            | _ => None
            end
        | _, _, _ => None
        end
  | _ => None
  end.

Fixpoint all_some {A} (l : list (option A)) : option (list A) :=
  match l with
  | [] => Some []
  | Some a :: r => option_map (cons a) (all_some r)
  | None :: _ => None
  end.

Definition parse_loose_entry (e : bytes) : option (bytes * target) :=
  match split colon e with
  | [n; t] => if nice_name n then option_map (fun t' => (n, t')) (parse_target t) else None
  | _ => None
  end.
Definition parse_packed_entry (e : bytes) : option (bytes * byte) :=
  match split colon e with
  | [n; [c]] => if nice_name n && starts_with (bs "refs/") n && is_hex_char c then Some (n, c) else None
  | _ => None
  end.
Definition parse_packed (f : bytes) : option (option (list (bytes * byte))) :=
  match f with
  | [] => Some None
  | x3d :: r => option_map Some (all_some (map parse_packed_entry (split comma r)))
  | _ => None
  end.
Definition parse_lock (l : bytes) : option bytes :=
  if bytes_eqb l packed_lock_name || nice_name l then Some l else None.

Fixpoint strictly_ascending (l : list bytes) : bool :=
  match l with
  | a :: ((b :: _) as r) => match bytes_cmp a b with Lt => strictly_ascending r | _ => false end
  | _ => true
  end.

(* no name is a directory of another one *)
Definition dir_conflict (names : list bytes) : bool :=
  existsb (fun a => existsb (fun b => starts_with (a ++ [slash]) b) names) names.
Definition target_names (t : target) : list bytes := match t with Sym n => [n] | Obj _ => [] end.
Definition prev_names (p : prev) : list bytes :=
  match p with PMatch t | PExisting t => target_names t | _ => [] end.
Definition edit_names (e : refedit) : list bytes :=
  re_name e :: match re_change e with
               | Update _ ex nw => prev_names ex ++ target_names nw
               | Delete ex _ => prev_names ex
               end.

Record txn_case := mkCase {
  c_ref_fail : fail_mode; c_packed_fail : fail_mode; c_pmode : packed_mode;
  c_store : store; c_edits : list refedit; c_commit : bool }.

Definition fail_of (ms : N) : fail_mode := if N.eqb ms 0 then Immediately else Backoff ms.

Definition parse_case (fs : list bytes) : option txn_case :=
  let rf := field_N 1 fs in
  let pf := field_N 2 fs in
  if N.ltb 50 rf || N.ltb 50 pf then None
  else
    match (match nth_field 3 fs with
           | [x30] => Some DeletionsOnly | [x31] => Some DeletionsAndUpdates
           | [x32] => Some DeletionsAndUpdatesRemoveLoose | _ => None end),
          all_some (map parse_loose_entry (split comma (nth_field 4 fs))),
          parse_packed (nth_field 5 fs),
          all_some (map parse_lock (split comma (nth_field 6 fs))),
          all_some (map parse_edit (split comma (nth_field 7 fs))) with
    | Some pm, Some lo, Some pk, Some lk, Some es =>
        let pk_names := match pk with Some p => map fst p | None => [] end in
        let all_names := map fst lo ++ concat (map (fun e => target_names (snd e)) lo) ++ pk_names
                         ++ filter (fun l => negb (bytes_eqb l packed_lock_name)) lk
                         ++ concat (map edit_names es) in
        if has_dup (map fst lo) || has_dup lk || negb (strictly_ascending pk_names) || dir_conflict all_names
        then None
        else Some (mkCase (fail_of rf) (fail_of pf) pm (mkStore lo pk lk) es
                          (bytes_eqb (nth_field 8 fs) (bs "1")))
    | _, _, _, _, _ => None
    end.

(* ------------------------------------------------------------------ printing *)

Fixpoint insert_by_key {A} (k : bytes) (v : A) (l : list (bytes * A)) : list (bytes * A) :=
  match l with
  | [] => [(k, v)]
  | (k', v') :: r => match bytes_cmp k k' with
                     | Lt => (k, v) :: l
                     | _ => (k', v') :: insert_by_key k v r
                     end
  end.
Definition sort_by_key {A} (l : list (bytes * A)) : list (bytes * A) :=
  fold_left (fun acc kv => insert_by_key (fst kv) (snd kv) acc) l [].

Fixpoint join (sep : byte) (ls : list bytes) : bytes :=
  match ls with
  | [] => []
  | [x] => x
  | x :: r => x ++ sep :: join sep r
  end.
Definition list_text (ls : list bytes) : bytes :=
  match ls with [] => bs "-" | _ => join comma ls end.

Definition target_text (t : target) : bytes :=
  match t with Sym n => at_sign :: n | Obj c => [c] end.
Definition prev_text (p : prev) : bytes :=
  match p with
  | PAny => bs "A" | PMustExist => bs "E" | PMustNotExist => bs "N"
  | PMatch t => bs "M" ++ target_text t
  | PExisting t => bs "X" ++ target_text t
  end.
Definition log_text (l : logmode) : bytes := match l with AndRef => bs "R" | LogOnly => bs "L" end.
Definition edit_text (e : refedit) : bytes :=
  let '(k, ex, nw, lg) :=
    match re_change e with
    | Update log expected new => (bs "U", prev_text expected, target_text new, log_text log)
    | Delete expected log => (bs "D", prev_text expected, bs "-", log_text log)
    end in
  join colon [re_name e; bool_to_bytes (re_deref e); k; ex; nw; lg].

Definition err_text (e : err) : bytes :=
  match e with
  | EPacked => bs "Packed"
  | EPackedTransactionAcquire => bs "PackedTransactionAcquire"
  | EPackedTransactionPrepare => bs "PackedTransactionPrepare"
  | EPackedFind => bs "PackedFind"
  | EPreprocessingFailed => bs "PreprocessingFailed"
  | ELockAcquire n => bs "LockAcquire " ++ n
  | EIo => bs "Io"
  | EDeleteReferenceMustExist => bs "DeleteReferenceMustExist"
  | EMustNotExist => bs "MustNotExist"
  | EMustExist => bs "MustExist"
  | EReferenceOutOfDate => bs "ReferenceOutOfDate"
  | EReferenceDecode => bs "ReferenceDecode"
  end.
Definition commit_err_text (e : commit_err) : bytes :=
  match e with
  | CPackedTransactionCommit => bs "PackedTransactionCommit"
  | CLockCommit => bs "LockCommit"
  | CDeleteReference => bs "DeleteReference"
  end.

Definition sorted_names (l : list bytes) : list bytes :=
  map fst (sort_by_key (map (fun n => (n, tt)) l)).
Definition loose_text (l : list (bytes * target)) : bytes :=
  list_text (map (fun kv => fst kv ++ colon :: target_text (snd kv)) (sort_by_key l)).
Definition packed_text (p : option (list (bytes * byte))) : bytes :=
  match p with
  | None => bs "~"
  | Some l => bs "=" ++ join comma (map (fun kv => fst kv ++ [colon; snd kv]) l)
  end.
Definition state_text (l : list (bytes * target)) (p : option (list (bytes * byte))) (k : list bytes) : bytes :=
  bs " S:" ++ loose_text l ++ bs "|" ++ packed_text p ++ bs " K:" ++ list_text (sorted_names k).

Definition draws0 : nat -> N := fun _ => 0%N.

Definition run_txn (c : txn_case) : bytes :=
  let st := c_store c in
  let fuel := fuel_bound st (c_ref_fail c) (c_packed_fail c) (c_edits c) in
  match prepare_inner fuel draws0 st (c_pmode c) (c_ref_fail c) (c_packed_fail c) (c_edits c) with
  | Panic => bs "PANIC"
  | OutOfFuel => bs "HANG"
  | Err e => bs "P:err " ++ err_text e ++ state_text (loose st) (packed st) (held st)
  | Ok p =>
      let head := bs "P:ok " ++ list_text (map (fun e => edit_text (upd e)) (p_updates p))
                  ++ bs " L:" ++ list_text (sorted_names (locks_while_prepared st p)) in
      if c_commit c then
        match commit_inner fuel st (c_pmode c) p with
        | Panic => bs "PANIC"
        | OutOfFuel => bs "HANG"
        | Ok (_, l, pk) => head ++ bs " C:ok" ++ state_text l pk (held st)
        | Err e => bs "P:ok ? L:" ++ list_text (sorted_names (locks_while_prepared st p))
                   ++ bs " C:err " ++ commit_err_text e ++ bs " S:?"
        end
      else head ++ state_text (loose st) (packed st) (held st)
  end.

Definition run_backoff (ms : N) : bytes :=
  if N.ltb 100000 ms then bs "malformed"
  else
    match schedule (S (S (N.to_nat ms))) (fun _ b => b) ms with
    | Ok l => bs "sched " ++ list_text (map N_to_dec l)
    | Err _ => bs "err"
    | Panic => bs "PANIC"
    | OutOfFuel => bs "HANG"
    end.

Definition run_model (fs : list bytes) : bytes :=
  let op := nth_field 0 fs in
  if bytes_eqb op (bs "txn") then
    match parse_case fs with
    | Some c => run_txn c
    | None => bs "malformed"
    end
  else if bytes_eqb op (bs "backoff") then run_backoff (field_N 1 fs)
  else bs "?".

Definition run (fs : list bytes) : bytes :=
  match fs with
  | _mode :: rest => run_model rest
  | [] => bs "?"
  end.
