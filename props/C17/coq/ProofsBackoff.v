(* C17 — the back-off schedule is finite and lock acquisition terminates after a bounded number of
   attempts and a bounded sleep, for every transform/draw sequence and every behaviour of the other party. *)
From Coq Require Import List NArith ZArith Bool Arith Lia ZifyBool ZifyNat ZifyN.
From GixV.Base Require Import Bytes Outcome.
From GixV.C17 Require Import Model.
Import ListNotations.
Ltac Zify.zify_post_hook ::= Z.div_mod_to_equations.

Definition tr_pos (tr : nat -> N -> N) : Prop := forall k b, (1 <= b)%N -> (1 <= tr k b)%N.
Definition tr_le (tr : nat -> N -> N) (c : N) : Prop := forall k b, (b <= 1000)%N -> (tr k b <= c)%N.

Lemma randomize_pos r b : (1 <= b)%N -> (1 <= randomize r b)%N.
Proof.
  intros Hb. unfold randomize.
  destruct (N.eqb (N.div (r * b) 1000) 0) eqn:E.
  - exact Hb.
  - apply N.eqb_neq in E. lia.
Qed.

Lemma randomize_le r b : (b <= 1000)%N -> (randomize (clamp_draw r) b <= 1250)%N.
Proof.
  intros Hb. unfold randomize, clamp_draw.
  destruct (N.eqb (N.div ((750 + N.modulo r 501) * b) 1000) 0) eqn:E.
  - lia.
  - assert (N.modulo r 501 < 501)%N by (apply N.mod_lt; lia).
    apply N.div_le_upper_bound; [lia|]. nia.
Qed.

Lemma identity_tr_pos : tr_pos (fun _ b => b).
Proof. intros k b H. exact H. Qed.
Lemma random_tr_pos draws : tr_pos (fun k => randomize (clamp_draw (draws k))).
Proof. intros k b H. apply randomize_pos. exact H. Qed.
Lemma random_tr_le draws : tr_le (fun k => randomize (clamp_draw (draws k))) 1250.
Proof. intros k b H. apply randomize_le. exact H. Qed.

(* multiplier stays within 1..=1000 *)
Definition expo_ok (s : expo) : Prop := (1 <= multiplier s <= 1000)%N.
Lemma expo_default_ok : expo_ok expo_default.
Proof. unfold expo_ok, expo_default. cbn [multiplier]. lia. Qed.
Lemma expo_next_ok tr s : expo_ok s -> expo_ok (snd (expo_next tr s)).
Proof.
  unfold expo_ok, expo_next, max_multiplier. intros H.
  destruct (N.ltb 1000 (multiplier s + (2 * exponent s + 1))) eqn:E; cbn [snd multiplier].
  - lia.
  - apply N.ltb_ge in E. lia.
Qed.
Lemma expo_next_wait tr s : fst (expo_next tr s) = tr (multiplier s).
Proof.
  unfold expo_next. destruct (N.ltb max_multiplier _); reflexivity.
Qed.

Fixpoint sumN (l : list N) : N := match l with [] => 0%N | x :: r => (x + sumN r)%N end.

(* The closure state: either it already decided to stop, or the budget is not yet exceeded. *)
Lemma until_no_remaining_returns :
  forall fuel tr k s elapsed time (stop : bool),
    tr_pos tr -> expo_ok s ->
    (if stop return Prop then 1 <= fuel
     else (elapsed <= time)%N /\ N.to_nat (time - elapsed) + 2 <= fuel) ->
    exists l, until_no_remaining fuel tr k s elapsed time stop = Ok l
              /\ length l <= fuel - 1
              /\ Forall (fun d => (1 <= d)%N) l.
Proof.
  induction fuel as [|f IH]; intros tr k s elapsed time stop Htr Hs Hfuel.
  - destruct stop; lia.
  - cbn [until_no_remaining].
    destruct (expo_next (tr k) s) as [d s'] eqn:En.
    destruct stop.
    + exists []. split; [reflexivity|]. split; [cbn; lia|constructor].
    + destruct Hfuel as [Hle Hf].
      assert (Hd : (1 <= d)%N).
      { replace d with (fst (expo_next (tr k) s)) by (rewrite En; reflexivity).
        rewrite expo_next_wait. apply Htr. apply Hs. }
      assert (Hs' : expo_ok s').
      { replace s' with (snd (expo_next (tr k) s)) by (rewrite En; reflexivity).
        apply expo_next_ok. exact Hs. }
      destruct (IH tr (S k) s' (elapsed + d)%N time (N.ltb time (elapsed + d)) Htr Hs') as [l [Hl [Hlen Hall]]].
      { destruct (N.ltb time (elapsed + d)) eqn:E.
        - lia.
        - apply N.ltb_ge in E. split; [exact E|]. lia. }
      exists (d :: l). rewrite Hl. split; [reflexivity|]. split.
      * cbn [length]. destruct (N.ltb time (elapsed + d)) eqn:E.
        -- (* next call stops at once: l = [] *)
           destruct f as [|f']; [lia|]. cbn [until_no_remaining] in Hl.
           destruct (expo_next (tr (S k)) s'). injection Hl as <-. cbn. lia.
        -- lia.
      * constructor; assumption.
Qed.

(* total of the waits: the budget may be exceeded only by the last wait *)
Lemma until_no_remaining_sum :
  forall fuel tr k s elapsed time (stop : bool) c l,
    tr_le tr c -> expo_ok s ->
    until_no_remaining fuel tr k s elapsed time stop = Ok l ->
    (if stop return Prop then sumN l = 0%N
     else (elapsed <= time)%N -> (elapsed + sumN l <= time + c)%N).
Proof.
  induction fuel as [|f IH]; intros tr k s elapsed time stop c l Htr Hs Hrun.
  - discriminate.
  - cbn [until_no_remaining] in Hrun.
    destruct (expo_next (tr k) s) as [d s'] eqn:En.
    destruct stop.
    + injection Hrun as <-. reflexivity.
    + intros Hle.
      destruct (until_no_remaining f tr (S k) s' (elapsed + d) time (N.ltb time (elapsed + d))) as [l'| | |] eqn:Er;
        cbn [obind] in Hrun; try discriminate.
      injection Hrun as <-.
      assert (Hd : (d <= c)%N).
      { replace d with (fst (expo_next (tr k) s)) by (rewrite En; reflexivity).
        rewrite expo_next_wait. apply Htr. apply Hs. }
      assert (Hs' : expo_ok s').
      { replace s' with (snd (expo_next (tr k) s)) by (rewrite En; reflexivity).
        apply expo_next_ok. exact Hs. }
      specialize (IH tr (S k) s' (elapsed + d)%N time (N.ltb time (elapsed + d)) c l' Htr Hs' Er).
      cbn [sumN]. destruct (N.ltb time (elapsed + d)) eqn:E.
      * rewrite IH. lia.
      * apply N.ltb_ge in E. specialize (IH E). lia.
Qed.

Lemma schedule_returns tr time fuel :
  tr_pos tr -> N.to_nat time + 2 <= fuel ->
  exists l, schedule fuel tr time = Ok l /\ length l <= fuel - 1 /\ Forall (fun d => (1 <= d)%N) l.
Proof.
  intros Htr Hf. unfold schedule.
  apply until_no_remaining_returns; [exact Htr|exact expo_default_ok|].
  split; [lia|]. lia.
Qed.

Lemma schedule_length tr time fuel l :
  tr_pos tr -> schedule fuel tr time = Ok l -> length l <= N.to_nat time + 1.
Proof.
  intros Htr H.
  destruct (Nat.le_gt_cases (N.to_nat time + 2) fuel) as [Hle|Hgt].
  - (* the run with exactly the minimal fuel gives the same list *)
    assert (Hmono : forall f tr k s e t st l, until_no_remaining f tr k s e t st = Ok l ->
                     forall f', f <= f' -> until_no_remaining f' tr k s e t st = Ok l).
    { induction f as [|f IHf]; intros tr0 k s e t st l0 H0 f' Hf'; [discriminate|].
      destruct f' as [|f'']; [lia|]. cbn [until_no_remaining] in *.
      destruct (expo_next (tr0 k) s) as [d s']. destruct st; [exact H0|].
      destruct (until_no_remaining f tr0 (S k) s' (e + d) t (N.ltb t (e + d))) as [r| | |] eqn:Er;
        cbn [obind] in H0; try discriminate.
      rewrite (IHf _ _ _ _ _ _ _ Er f'') by lia. exact H0. }
    destruct (schedule_returns tr time (N.to_nat time + 2) Htr (Nat.le_refl _)) as [l' [Hl' [Hlen _]]].
    unfold schedule in *. rewrite (Hmono _ _ _ _ _ _ _ _ Hl' fuel Hle) in H. injection H as <-. lia.
  - (* little fuel: the list is shorter than the fuel *)
    assert (Hshort : forall f tr k s e t st l, until_no_remaining f tr k s e t st = Ok l -> length l <= f).
    { induction f as [|f IHf]; intros tr0 k s e t st l0 H0; [discriminate|].
      cbn [until_no_remaining] in H0. destruct (expo_next (tr0 k) s) as [d s']. destruct st.
      - injection H0 as <-. cbn. lia.
      - destruct (until_no_remaining f tr0 (S k) s' (e + d) t (N.ltb t (e + d))) as [r| | |] eqn:Er;
          cbn [obind] in H0; try discriminate.
        injection H0 as <-. cbn [length]. apply IHf in Er. lia. }
    apply Hshort in H. lia.
Qed.

Lemma schedule_sum tr time fuel c l :
  tr_le tr c -> schedule fuel tr time = Ok l -> (sumN l <= time + c)%N.
Proof.
  intros Htr H. unfold schedule in H.
  pose proof (until_no_remaining_sum _ _ _ _ _ _ _ c l Htr expo_default_ok H) as S.
  cbn beta iota in S. specialize (S (N.le_0_l _)). lia.
Qed.

(* ---- lock_loop / lock_with_mode ---- *)

Lemma lock_loop_attempts sched : forall k slept try_lock n z,
  lock_loop sched k slept try_lock = (PermanentlyLocked n, z) -> n = k + length sched + 1.
Proof.
  induction sched as [|w r IH]; intros k slept try_lock n z H; cbn [lock_loop] in H.
  - destruct (try_lock k); inversion H. cbn. lia.
  - destruct (try_lock k); try (inversion H; fail).
    apply IH in H. cbn [length]. lia.
Qed.

Lemma lock_loop_slept sched : forall k slept try_lock,
  (snd (lock_loop sched k slept try_lock) <= slept + sumN sched)%N.
Proof.
  induction sched as [|w r IH]; intros k slept try_lock; cbn [lock_loop sumN].
  - destruct (try_lock k); cbn [snd]; lia.
  - destruct (try_lock k); cbn [snd]; try lia.
    specialize (IH (S k) (slept + w)%N try_lock). lia.
Qed.

(* the lock is obtained exactly when some attempt within the schedule finds it free before an IO error *)
Lemma lock_loop_free_first sched k slept try_lock :
  try_lock k = Created -> fst (lock_loop sched k slept try_lock) = Locked.
Proof. intros H. destruct sched; cbn [lock_loop]; rewrite H; reflexivity. Qed.

Lemma lock_loop_always_held sched : forall k slept try_lock,
  (forall i, try_lock i = AlreadyExists) ->
  fst (lock_loop sched k slept try_lock) = PermanentlyLocked (k + length sched + 1).
Proof.
  induction sched as [|w r IH]; intros k slept try_lock H; cbn [lock_loop]; rewrite H.
  - cbn. f_equal. lia.
  - rewrite IH by exact H. cbn [length]. f_equal. lia.
Qed.

Lemma lock_with_mode_returns fuel draws mode try_lock :
  ms_of mode + 2 <= fuel ->
  exists r, lock_with_mode fuel draws mode try_lock = Ok r
            /\ (forall n, fst r = PermanentlyLocked n -> n <= ms_of mode + 2)
            /\ (snd r <= match mode with Immediately => 0 | Backoff ms => ms + 1250 end)%N.
Proof.
  intros Hf. destruct mode as [|ms]; cbn [lock_with_mode ms_of] in *.
  - eexists. split; [reflexivity|]. split.
    + intros n Hn. destruct (lock_loop [] 0 0%N try_lock) as [o z] eqn:E. cbn [fst] in Hn. subst o.
      apply lock_loop_attempts in E. cbn in E. lia.
    + pose proof (lock_loop_slept [] 0 0%N try_lock) as S. cbn [sumN] in S. lia.
  - destruct (schedule_returns _ ms fuel (random_tr_pos draws) Hf) as [l [Hl [_ _]]].
    rewrite Hl. cbn [obind]. eexists. split; [reflexivity|]. split.
    + intros n Hn. destruct (lock_loop l 0 0%N try_lock) as [o z] eqn:E. cbn [fst] in Hn. subst o.
      apply lock_loop_attempts in E.
      pose proof (schedule_length _ _ _ _ (random_tr_pos draws) Hl). lia.
    + pose proof (lock_loop_slept l 0 0%N try_lock) as S.
      pose proof (schedule_sum _ _ _ 1250%N _ (random_tr_le draws) Hl). lia.
Qed.

Lemma acquire_returns fuel draws st mode name :
  ms_of mode + 2 <= fuel ->
  acquire fuel draws st mode name = Ok (negb (mem name (held st))).
Proof.
  intros Hf. unfold acquire.
  destruct mode as [|ms]; cbn [lock_with_mode].
  - cbn [obind lock_loop]. destruct (mem name (held st)); reflexivity.
  - destruct (schedule_returns _ ms fuel (random_tr_pos draws) Hf) as [l [Hl _]].
    rewrite Hl. cbn [obind].
    destruct (mem name (held st)) eqn:E.
    + rewrite lock_loop_always_held by reflexivity. reflexivity.
    + rewrite lock_loop_free_first by reflexivity. reflexivity.
Qed.
