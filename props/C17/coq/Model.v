(* C17 — executable model of reference-transaction preparation and commit under lock contention.

   Follows, line by line where loops are concerned:
     gix-utils/src/backoff.rs                       Exponential::next, until_no_remaining, randomize
     gix-lock/src/acquire.rs                        lock_with_mode
     gix-ref/src/transaction/ext.rs                 extend_with_splits_of_symbolic_refs, assure_one_name_has_one_edit
     gix-ref/src/store/file/transaction/prepare.rs  prepare_inner, lock_ref_and_apply_change,
                                                    possibly_adjust_name_for_prefixes
     gix-ref/src/store/packed/transaction.rs        Transaction::prepare / commit (the merge loop)
     gix-ref/src/store/file/transaction/commit.rs   commit_inner
   Every `loop`/`while` of the source is a recursion on explicit fuel that returns [OutOfFuel] when it
   runs dry; `for` loops over a finished vector are structural.  No proofs in this file. *)
From Coq Require Import List NArith Bool Arith.
From GixV.Base Require Import Bytes Outcome.
Import ListNotations.
Local Open Scope outcome_scope.

(* ------------------------------------------------------------------ data *)

Inductive target := Sym (n : bytes) | Obj (c : byte).   (* Obj c: the object id whose hex form is c×40 *)
Definition target_eqb (a b : target) : bool :=
  match a, b with
  | Sym x, Sym y => bytes_eqb x y
  | Obj x, Obj y => beqb x y
  | _, _ => false
  end.
Definition is_sym (t : target) : bool := match t with Sym _ => true | Obj _ => false end.

Inductive prev := PAny | PMustExist | PMustNotExist | PMatch (t : target) | PExisting (t : target).
Inductive logmode := AndRef | LogOnly.
Definition logmode_eqb (a b : logmode) : bool :=
  match a, b with AndRef, AndRef | LogOnly, LogOnly => true | _, _ => false end.
Inductive change :=
| Update (log : logmode) (expected : prev) (new : target)
| Delete (expected : prev) (log : logmode).
Record refedit := mkRefEdit { re_name : bytes; re_change : change; re_deref : bool }.

(* store_impl::file::transaction::Edit *)
Record edit := mkEdit {
  upd : refedit;
  lock : bool;                     (* Option<gix_lock::Marker>: is a lock file of ours on disk *)
  parent_index : option nat;
  leaf_prev : option byte }.       (* leaf_referent_previous_oid *)

Inductive err :=
| EPacked | EPackedTransactionAcquire | EPackedTransactionPrepare | EPackedFind | EPreprocessingFailed
| ELockAcquire (full_name : bytes) | EIo | EDeleteReferenceMustExist | EMustNotExist | EMustExist
| EReferenceOutOfDate | EReferenceDecode.

(* the ref store as the transaction sees it; [held] are the `<name>.lock` files of another party
   (`packed-refs` stands for packed-refs.lock); they stay for the whole call *)
Record store := mkStore {
  loose : list (bytes * target);
  packed : option (list (bytes * byte));
  held : list bytes }.

Fixpoint assoc {A} (k : bytes) (l : list (bytes * A)) : option A :=
  match l with
  | [] => None
  | (k', v) :: r => if bytes_eqb k k' then Some v else assoc k r
  end.
Fixpoint remove_key {A} (k : bytes) (l : list (bytes * A)) : list (bytes * A) :=
  match l with
  | [] => []
  | (k', v) :: r => if bytes_eqb k k' then remove_key k r else (k', v) :: remove_key k r
  end.
Definition set_key {A} (k : bytes) (v : A) (l : list (bytes * A)) : list (bytes * A) :=
  remove_key k l ++ [(k, v)].
Fixpoint mem (k : bytes) (l : list bytes) : bool :=
  match l with [] => false | x :: r => bytes_eqb k x || mem k r end.
Fixpoint starts_with (p s : bytes) : bool :=
  match p, s with
  | [], _ => true
  | a :: p', b :: s' => beqb a b && starts_with p' s'
  | _ :: _, [] => false
  end.
Fixpoint set_nth {A} (n : nat) (x : A) (l : list A) : list A :=
  match n, l with
  | _, [] => []
  | O, _ :: r => x :: r
  | S n', y :: r => y :: set_nth n' x r
  end.

(* ------------------------------------------------------------------ gix-utils backoff *)

Record expo := mkExpo { multiplier : N; exponent : N }.
Definition expo_default : expo := mkExpo 1%N 1%N.
Definition max_multiplier : N := 1000%N.

(* fn randomize(backoff_ms) with the fastrand draw r (750..=1250) given explicitly *)
Definition randomize (r : N) (backoff_ms : N) : N :=
  let new_value := N.div (r * backoff_ms)%N 1000%N in
  if N.eqb new_value 0%N then backoff_ms else new_value.
Definition clamp_draw (r : N) : N := (750 + N.modulo r 501)%N.

(* Iterator::next of Exponential; [tr] is the transform (identity, or randomize with this call's draw) *)
Definition expo_next (tr : N -> N) (s : expo) : N * expo :=
  let wait := tr (multiplier s) in
  let m := (multiplier s + (2 * exponent s + 1))%N in
  if N.ltb max_multiplier m then (wait, mkExpo max_multiplier (exponent s))
  else (wait, mkExpo m (exponent s + 1)%N).

(* until_no_remaining(time): the take_while closure with its captured [elapsed], [stop_next_iteration];
   [tr k] is the transform used by the k-th call of next() *)
Fixpoint until_no_remaining (fuel : nat) (tr : nat -> N -> N) (k : nat) (s : expo)
         (elapsed time : N) (stop : bool) : outcome (list N) err :=
  match fuel with
  | O => OutOfFuel
  | S f =>
      let '(d, s') := expo_next (tr k) s in
      if stop then Ok []
      else
        let elapsed' := (elapsed + d)%N in
        rest <- until_no_remaining f tr (S k) s' elapsed' time (N.ltb time elapsed') ;;
        Ok (d :: rest)
  end.
Definition schedule (fuel : nat) (tr : nat -> N -> N) (time : N) : outcome (list N) err :=
  until_no_remaining fuel tr 0 expo_default 0%N time false.

(* ------------------------------------------------------------------ gix-lock lock_with_mode *)

Inductive fail_mode := Immediately | Backoff (ms : N).
Inductive try_result := Created | AlreadyExists | IoError.
Inductive lock_outcome := Locked | PermanentlyLocked (attempts : nat) | LockIo.

(* the `for wait in …` loop followed by the last attempt; [k] = attempts made so far;
   returns the outcome and the milliseconds slept *)
Fixpoint lock_loop (sched : list N) (k : nat) (slept : N) (try_lock : nat -> try_result) : lock_outcome * N :=
  match sched with
  | [] =>
      match try_lock k with
      | Created => (Locked, slept)
      | AlreadyExists => (PermanentlyLocked (S k), slept)
      | IoError => (LockIo, slept)
      end
  | wait :: rest =>
      match try_lock k with
      | Created => (Locked, slept)
      | AlreadyExists => lock_loop rest (S k) (slept + wait)%N try_lock       (* thread::sleep(wait); continue *)
      | IoError => (LockIo, slept)
      end
  end.
Definition lock_with_mode (fuel : nat) (draws : nat -> N) (mode : fail_mode) (try_lock : nat -> try_result)
  : outcome (lock_outcome * N) err :=
  match mode with
  | Immediately => Ok (lock_loop [] 0 0%N try_lock)
  | Backoff ms =>
      sched <- schedule fuel (fun k => randomize (clamp_draw (draws k))) ms ;;
      Ok (lock_loop sched 0 0%N try_lock)
  end.

(* acquiring `<name>.lock` while the other party's locks are [held st]: true = we hold it now *)
Definition acquire (fuel : nat) (draws : nat -> N) (st : store) (mode : fail_mode) (name : bytes)
  : outcome bool err :=
  r <- lock_with_mode fuel draws mode (fun _ => if mem name (held st) then AlreadyExists else Created) ;;
  match fst r with
  | Locked => Ok true
  | PermanentlyLocked _ => Ok false
  | LockIo => Ok false
  end.

(* ------------------------------------------------------------------ names *)

Definition is_upper_or_underscore (b : byte) : bool :=
  (N.leb 65 (b2N b) && N.leb (b2N b) 90)%N || N.eqb (b2N b) 95%N.
Definition is_pseudo_ref (n : bytes) : bool := forallb is_upper_or_underscore n.

(* possibly_adjust_name_for_prefixes on the names of this model (no `main-worktree/`, `worktrees/`):
   Tag | LocalBranch | RemoteBranch | Note -> the name; Bisect | Rewritten | WorktreePrivate | PseudoRef -> None;
   uncategorised -> the name *)
Definition adjust_name (n : bytes) : option bytes :=
  if starts_with (bs "refs/tags/") n || starts_with (bs "refs/heads/") n || starts_with (bs "refs/remotes/") n
  then Some n
  else if starts_with (bs "refs/notes/") n then Some n
  else if starts_with (bs "refs/bisect/") n || starts_with (bs "refs/worktree/") n
          || starts_with (bs "refs/rewritten/") n then None
  else if is_pseudo_ref n then None
  else Some n.

(* can the reference live in packed-refs at all (possibly_adjust_name_for_prefixes(..).is_some()) *)
Definition packable (n : bytes) : bool := match adjust_name n with Some _ => true | None => false end.

(* packed::Buffer::try_find through transform_full_name_for_lookup: pseudo refs and refs/worktree/ are never packed *)
Definition packed_lookup (p : list (bytes * byte)) (n : bytes) : option byte :=
  if starts_with (bs "refs/tags/") n || starts_with (bs "refs/heads/") n || starts_with (bs "refs/remotes/") n
  then assoc n p
  else if starts_with (bs "refs/worktree/") n then None
  else if starts_with (bs "refs/notes/") n || starts_with (bs "refs/bisect/") n
          || starts_with (bs "refs/rewritten/") n then assoc n p
  else if is_pseudo_ref n then None
  else assoc n p.

(* ------------------------------------------------------------------ pre_process *)

Definition name_of (e : edit) : bytes := re_name (upd e).
Definition set_upd (e : edit) (u : refedit) : edit := mkEdit u (lock e) (parent_index e) (leaf_prev e).

(* the body of the `for (eid, edit) in self[first..]` loop for one edit: the edit as left behind and
   the new edit pushed, if any *)
Definition split_one (st : store) (eid : nat) (e : edit) : edit * list edit :=
  let u := upd e in
  if negb (re_deref u) then (e, [])
  else
    match assoc (re_name u) (loose st) with
    | Some (Sym referent) =>
        match re_change u with
        | Delete previous mode =>
            (set_upd e (mkRefEdit (re_name u) (Delete previous LogOnly) false),
             [mkEdit (mkRefEdit referent (Delete previous mode) true) false (Some eid) None])
        | Update log expected new =>
            (set_upd e (mkRefEdit (re_name u) (Update LogOnly PAny new) false),
             [mkEdit (mkRefEdit referent (Update log expected new) true) false (Some eid) None])
        end
    | _ => (set_upd e (mkRefEdit (re_name u) (re_change u) false), [])
    end.
Fixpoint split_pass (st : store) (eid : nat) (es : list edit) : list edit * list edit :=
  match es with
  | [] => ([], [])
  | e :: rest =>
      let '(e', n1) := split_one st eid e in
      let '(rest', n2) := split_pass st (S eid) rest in
      (e' :: rest', n1 ++ n2)
  end.
(* extend_with_splits_of_symbolic_refs: the `loop` with `first` and `round` *)
Fixpoint splits_loop (fuel : nat) (st : store) (es : list edit) (first round : nat) : outcome (list edit) err :=
  match fuel with
  | O => OutOfFuel
  | S f =>
      if Nat.ltb (length es) first then Panic             (* self[first..] *)
      else
        let '(tail', new_edits) := split_pass st first (skipn first es) in
        let es' := firstn first es ++ tail' in
        match new_edits with
        | [] => Ok es'
        | _ :: _ =>
            if Nat.eqb round 5 then Err EPreprocessingFailed
            else splits_loop f st (es' ++ new_edits) (length es') (S round)
        end
  end.
(* assure_one_name_has_one_edit: sort the names, look for two equal neighbours *)
Fixpoint has_dup (names : list bytes) : bool :=
  match names with
  | [] => false
  | n :: r => mem n r || has_dup r
  end.
Definition pre_process (fuel : nat) (st : store) (es : list edit) : outcome (list edit) err :=
  es' <- splits_loop fuel st es 0 1 ;;
  if has_dup (map name_of es') then Err EPreprocessingFailed else Ok es'.

(* ------------------------------------------------------------------ lock_ref_and_apply_change *)

Definition existing_ref (st : store) (pbuf : option (list (bytes * byte))) (n : bytes) : option target :=
  match assoc n (loose st) with
  | Some t => Some t
  | None =>
      match pbuf with
      | Some p => option_map Obj (packed_lookup p n)
      | None => None
      end
  end.

Definition bogus : bytes := bs "borrowcheck".

Definition acquire_or_err (fuel : nat) (draws : nat -> N) (st : store) (mode : fail_mode) (n : bytes)
  : outcome bool err :=
  got <- acquire fuel draws st mode n ;;
  if got then Ok true else Err (ELockAcquire bogus).

Definition new_would_change_existing (new existing : target) : bool * bool :=
  match new, existing with
  | Obj n, Obj o => (negb (beqb o n), false)
  | Sym n, Sym o => (negb (bytes_eqb o n), true)
  | Obj _, _ => (true, false)
  | Sym _, _ => (true, true)
  end.

Definition lock_ref_and_apply_change (fuel : nat) (draws : nat -> N) (st : store) (mode : fail_mode)
           (pbuf : option (list (bytes * byte))) (e : edit) (has_global_lock direct : bool)
  : outcome edit err :=
  if lock e then Panic                                   (* assert!(change.lock.is_none()) *)
  else
    let u := upd e in
    let n := re_name u in
    let existing := existing_ref st pbuf n in
    match re_change u with
    | Delete expected log =>
        lk <- (if has_global_lock then Ok false else acquire_or_err fuel draws st mode n) ;;
        checked <- match expected, existing with
                   | PMustNotExist, _ => Panic            (* panic!("BUG: MustNotExist constraint makes no sense …") *)
                   | PExisting _, None | PAny, None => Ok tt
                   | PMustExist, Some _ | PAny, Some _ => Ok tt
                   | PMustExist, None | PMatch _, None => Err EDeleteReferenceMustExist
                   | PMatch previous, Some actual | PExisting previous, Some actual =>
                       if target_eqb previous actual then Ok tt else Err EReferenceOutOfDate
                   end ;;
        let expected' := match existing with Some t => PMatch t | None => expected end in
        Ok (mkEdit (mkRefEdit n (Delete expected' log) (re_deref u)) lk (parent_index e) (leaf_prev e))
    | Update log expected new =>
        lk0 <- (if has_global_lock then Ok false else acquire_or_err fuel draws st mode n) ;;
        checked <- match expected, existing with
                   | PAny, _ => Ok tt
                   | PMustExist, Some _ => Ok tt
                   | PMustNotExist, None | PExisting _, None => Ok tt
                   | PMustExist, None => Err EMustExist
                   | PMustNotExist, Some actual =>
                       if target_eqb actual new then Ok tt else Err EMustNotExist
                   | PMatch previous, Some actual | PExisting previous, Some actual =>
                       if target_eqb previous actual then Ok tt else Err EReferenceOutOfDate
                   | PMatch _, None => Err EMustExist
                   end ;;
        let '(is_effective, is_symbolic, expected') :=
          match existing with
          | Some t => let '(eff, sy) := new_would_change_existing new t in (eff, sy, PMatch t)
          | None => (true, is_sym new, expected)
          end in
        lk <- (if (is_effective && negb direct) || is_symbolic
               then (if lk0 then Ok true else acquire_or_err fuel draws st mode n)
               else Ok false) ;;
        Ok (mkEdit (mkRefEdit n (Update log expected' new) (re_deref u)) lk (parent_index e) (leaf_prev e))
    end.

(* ------------------------------------------------------------------ the two parent-chain loops *)

(* error path: `while let Some(parent_idx) = cursor { … }` naming the root edit of a split edit *)
Fixpoint walk_name (fuel : nat) (updates : list edit) (cursor : option nat) (ref_name : bytes)
  : outcome bytes err :=
  match fuel with
  | O => OutOfFuel
  | S f =>
      match cursor with
      | None => Ok ref_name
      | Some parent_idx =>
          match nth_error updates parent_idx with
          | None => Panic                                   (* updates[parent_idx] *)
          | Some parent =>
              match parent_index parent with
              | None => walk_name f updates (parent_index parent) (name_of parent)
              | Some _ => walk_name f updates (parent_index parent) ref_name
              end
          end
      end
  end.

Definition set_leaf (e : edit) (oid : byte) : edit := mkEdit (upd e) (lock e) (parent_index e) (Some oid).

(* `while let Some(parent) = parent_idx_cursor.take().map(|idx| &mut updates[idx]) { … }` *)
Fixpoint leaf_loop (fuel : nat) (updates : list edit) (cursor : option nat) (oid : byte)
  : outcome (list edit) err :=
  match fuel with
  | O => OutOfFuel
  | S f =>
      match cursor with
      | None => Ok updates
      | Some idx =>
          match nth_error updates idx with
          | None => Panic
          | Some parent => leaf_loop f (set_nth idx (set_leaf parent oid) updates) (parent_index parent) oid
          end
      end
  end.

(* Change::previous_value() restricted to the object case *)
Definition previous_oid (c : change) : option byte :=
  match c with
  | Update _ (PMatch (Obj o)) _ | Update _ (PExisting (Obj o)) _
  | Delete (PMatch (Obj o)) _ | Delete (PExisting (Obj o)) _ => Some o
  | _ => None
  end.

(* `for cid in 0..updates.len()`: [n] iterations left *)
Fixpoint apply_all (n cid : nat) (fuel : nat) (draws : nat -> N) (st : store) (mode : fail_mode)
         (pbuf : option (list (bytes * byte))) (has_global_lock direct : bool) (updates : list edit)
  : outcome (list edit) err :=
  match n with
  | O => Ok updates
  | S n' =>
      match nth_error updates cid with
      | None => Panic
      | Some change =>
          (* direct_to_packed_refs: the RemoveLooseSourceReference mode, and only for refs that can be packed;
             all others (like HEAD) remain loose references which have to be written *)
          match lock_ref_and_apply_change fuel draws st mode pbuf change has_global_lock
                  (direct && packable (name_of change)) with
          | Err (ELockAcquire _) =>
              full_name <- walk_name fuel updates (parent_index change) (name_of change) ;;
              Err (ELockAcquire full_name)
          | Err other => Err other
          | Panic => Panic
          | OutOfFuel => OutOfFuel
          | Ok change' =>
              let updates1 := set_nth cid change' updates in
              updates2 <- match previous_oid (re_change (upd change')), parent_index change' with
                          | Some oid, Some parent_idx => leaf_loop fuel updates1 (Some parent_idx) oid
                          | _, _ => Ok updates1
                          end ;;
              apply_all n' (S cid) fuel draws st mode pbuf has_global_lock direct updates2
          end
      end
  end.

(* ------------------------------------------------------------------ packed-refs part of prepare_inner *)

Inductive packed_mode := DeletionsOnly | DeletionsAndUpdates | DeletionsAndUpdatesRemoveLoose.
Definition log_mode_of (c : change) : logmode :=
  match c with Update l _ _ => l | Delete _ l => l end.

(* the `for edit in &updates` loop filling edits_for_packed_transaction *)
Fixpoint collect_packed (maybe : option nat) (us : list edit) (acc : list refedit) (needs : bool)
  : option nat * list refedit * bool :=
  match us with
  | [] => (maybe, acc, needs)
  | e :: r =>
      let u := upd e in
      if logmode_eqb (log_mode_of (re_change u)) LogOnly then collect_packed maybe r acc needs
      else
        match adjust_name (re_name u) with
        | None => collect_packed maybe r acc needs
        | Some n =>
            match maybe, re_change u with
            | Some num, Update _ _ (Obj _) =>
                collect_packed (Some (S num)) r (acc ++ [mkRefEdit n (re_change u) (re_deref u)]) needs
            | _, Update _ _ _ => collect_packed maybe r acc true
            | _, Delete _ _ => collect_packed maybe r (acc ++ [mkRefEdit n (re_change u) (re_deref u)]) needs
            end
        end
  end.

(* packed::Transaction: the buffer it was made from and its prepared edits *)
Record packed_txn := mkPtxn { pt_buffer : option (list (bytes * byte)); pt_edits : list refedit }.

Definition is_delete (c : change) : bool := match c with Delete _ _ => true | _ => false end.
(* packed::Transaction::prepare: drop deletions of refs that are not in the buffer (peeling is the
   object database's business: every object is a commit here) *)
Definition packed_prepare (buffer : option (list (bytes * byte))) (es : list refedit) : packed_txn :=
  mkPtxn buffer
    (filter (fun e => if is_delete (re_change e)
                      then match buffer with
                           | None => true
                           | Some b => match packed_lookup b (re_name e) with Some _ => true | None => false end
                           end
                      else true) es).

Record prepared := mkPrepared { p_updates : list edit; p_packed : option packed_txn }.

Definition packed_lock_name : bytes := bs "packed-refs".

(* the packed-refs decision of prepare_inner: which packed transaction, if any, is opened and prepared *)
Definition prepare_packed (fuel : nat) (draws : nat -> N) (st : store) (pmode : packed_mode)
           (packed_fail : fail_mode) (updates : list edit) : outcome (option packed_txn) err :=
  let maybe0 := match pmode with DeletionsOnly => None | _ => Some O end in
  let packed_is_file := match packed st with Some _ => true | None => false end in
  let packed_lock_is_file := mem packed_lock_name (held st) in
  if (match maybe0 with Some _ => true | None => false end) || packed_is_file || packed_lock_is_file
  then
    let '(maybe, edits_for_packed, needs) := collect_packed maybe0 updates [] false in
    if negb (match edits_for_packed with [] => true | _ => false end) || needs
    then
      transaction <-
        (if Nat.ltb 0 (match maybe with Some k => k | None => O end) || packed_lock_is_file
         then
           got <- acquire fuel draws st packed_fail packed_lock_name ;;
           if got then Ok (Some (packed st)) else Err EPackedTransactionAcquire
         else
           match packed st with
           | Some b =>
               got <- acquire fuel draws st packed_fail packed_lock_name ;;
               if got then Ok (Some (Some b)) else Err EPackedTransactionAcquire
           | None => Ok None
           end) ;;
      match transaction with
      | Some buffer => Ok (Some (packed_prepare buffer edits_for_packed))
      | None => Ok None
      end
    else Ok None
  else Ok None.

Definition prepare_inner (fuel : nat) (draws : nat -> N) (st : store) (pmode : packed_mode)
           (ref_fail packed_fail : fail_mode) (edits : list refedit) : outcome prepared err :=
  let updates0 := map (fun u => mkEdit u false None None) edits in
  updates <- pre_process fuel st updates0 ;;
  ptxn <- prepare_packed fuel draws st pmode packed_fail updates ;;
  let pbuf := match ptxn with Some t => pt_buffer t | None => None end in
  let has_global_lock := match ptxn with Some _ => true | None => false end in
  let direct := match pmode with DeletionsAndUpdatesRemoveLoose => true | _ => false end in
  updates' <- apply_all (length updates) 0 fuel draws st ref_fail pbuf has_global_lock direct updates ;;
  Ok (mkPrepared updates' ptxn).

(* ------------------------------------------------------------------ commit *)

Inductive commit_err := CPackedTransactionCommit | CLockCommit | CDeleteReference.

Fixpoint insert_sorted (e : refedit) (l : list refedit) : list refedit :=
  match l with
  | [] => [e]
  | x :: r => match bytes_cmp (re_name e) (re_name x) with
              | Lt => e :: l
              | _ => x :: insert_sorted e r
              end
  end.
Definition sort_edits (l : list refedit) : list refedit := fold_left (fun acc e => insert_sorted e acc) l [].

(* write_edit: the line an edit contributes, if any *)
Definition edit_line (e : refedit) : outcome (list (bytes * byte)) commit_err :=
  match re_change e with
  | Delete _ _ => Ok []
  | Update _ _ (Obj c) => Ok [(re_name e, c)]
  | Update _ _ (Sym _) => Panic                          (* unreachable!("BUG: packed refs cannot contain symbolic refs") *)
  end.

(* the merge `loop` of packed::Transaction::commit over the two peekable iterators; lines are
   accumulated in reverse *)
Fixpoint merge_loop (fuel : nat) (refs : list (bytes * byte)) (edits : list refedit)
         (acc : list (bytes * byte)) : outcome (list (bytes * byte)) commit_err :=
  match fuel with
  | O => OutOfFuel
  | S f =>
      match refs, edits with
      | [], [] => Ok (rev acc)
      | pref :: refs', [] => merge_loop f refs' [] (pref :: acc)
      | pref :: refs', e :: edits' =>
          match bytes_cmp (fst pref) (re_name e) with
          | Lt => merge_loop f refs' edits (pref :: acc)
          | Gt => l <- edit_line e ;; merge_loop f refs edits' (rev l ++ acc)
          | Eq => l <- edit_line e ;; merge_loop f refs' edits' (rev l ++ acc)
          end
      | [], e :: edits' => l <- edit_line e ;; merge_loop f [] edits' (rev l ++ acc)
      end
  end.

(* packed::Transaction::commit: the new content of packed-refs (None = file removed / absent) *)
Definition packed_commit (fuel : nat) (current : option (list (bytes * byte))) (t : packed_txn)
  : outcome (option (list (bytes * byte))) commit_err :=
  match pt_edits t with
  | [] => Ok current
  | _ :: _ =>
      let refs_sorted := match pt_buffer t with Some b => b | None => [] end in
      lines <- merge_loop fuel refs_sorted (sort_edits (pt_edits t)) [] ;;
      match lines with
      | [] => match current with
              | Some _ => Ok None                         (* std::fs::remove_file(packed-refs) *)
              | None => Err CPackedTransactionCommit      (* … which fails when there is no such file *)
              end
      | _ :: _ => Ok (Some lines)
      end
  end.

(* first loop of commit_inner: move updated refs into place *)
Fixpoint commit_updates (delete_loose_refs : bool) (us : list edit) (l : list (bytes * target))
  : outcome (list edit * list (bytes * target)) commit_err :=
  match us with
  | [] => Ok ([], l)
  | e :: r =>
      if re_deref (upd e) then Panic                      (* assert!(!change.update.deref) *)
      else
        match re_change (upd e) with
        | Update log _ new =>
            if delete_loose_refs && negb (is_sym new) && packable (name_of e)
            then '(r', l') <- commit_updates delete_loose_refs r l ;; Ok (e :: r', l')
            else
              let l1 := if logmode_eqb log AndRef && lock e then set_key (name_of e) new l else l in
              '(r', l') <- commit_updates delete_loose_refs r l1 ;;
              Ok (mkEdit (upd e) false (parent_index e) (leaf_prev e) :: r', l')
        | Delete _ _ =>
            '(r', l') <- commit_updates delete_loose_refs r l ;; Ok (e :: r', l')
        end
  end.
(* last loop: delete loose refs *)
Fixpoint commit_deletes (delete_loose_refs : bool) (us : list edit) (l : list (bytes * target))
  : list (bytes * target) :=
  match us with
  | [] => l
  | e :: r =>
      let take_lock_and_delete :=
        match re_change (upd e) with
        | Update log _ new => delete_loose_refs && logmode_eqb log AndRef && negb (is_sym new)
                              && packable (name_of e)
        | Delete _ log => logmode_eqb log AndRef
        end in
      commit_deletes delete_loose_refs r (if take_lock_and_delete then remove_key (name_of e) l else l)
  end.

Definition commit_inner (fuel : nat) (st : store) (pmode : packed_mode) (p : prepared)
  : outcome (list refedit * list (bytes * target) * option (list (bytes * byte))) commit_err :=
  let delete_loose_refs := match pmode with DeletionsAndUpdatesRemoveLoose => true | _ => false end in
  '(updates, l1) <- commit_updates delete_loose_refs (p_updates p) (loose st) ;;
  packed' <- match p_packed p with
             | Some t => packed_commit fuel (packed st) t
             | None => Ok (packed st)
             end ;;
  let l2 := commit_deletes delete_loose_refs updates l1 in
  Ok (map upd updates, l2, packed').

(* lock files on disk while the transaction is prepared: the other party's and ours *)
Definition locks_while_prepared (st : store) (p : prepared) : list bytes :=
  held st
  ++ map name_of (filter lock (p_updates p))
  ++ match p_packed p with Some _ => [packed_lock_name] | None => [] end.

(* fuel that is enough for every loop of prepare and commit (proved in Proofs.v) *)
Definition ms_of (m : fail_mode) : nat := match m with Immediately => O | Backoff ms => N.to_nat ms end.
Definition fuel_bound (st : store) (ref_fail packed_fail : fail_mode) (edits : list refedit) : nat :=
  6 * length edits + ms_of ref_fail + ms_of packed_fail
  + length (match packed st with Some b => b | None => [] end) + 8.
