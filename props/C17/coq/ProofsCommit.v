(* C17 — the whole transaction: prepare_inner and commit_inner return for every input. *)
From Coq Require Import List NArith Bool Arith Lia.
From GixV.Base Require Import Bytes Outcome.
From GixV.C17 Require Import Model ProofsLists ProofsBackoff ProofsSplits ProofsPrepare.
Import ListNotations.

Definition nosym (e : refedit) : Prop :=
  match re_change e with Update _ _ (Sym _) => False | _ => True end.

Lemma filter_length_le' {A} (f : A -> bool) : forall l, length (filter f l) <= length l.
Proof. induction l; cbn; auto. destruct (f a); cbn; lia. Qed.

Lemma collect_packed_spec : forall us maybe acc needs m' acc' needs',
  collect_packed maybe us acc needs = (m', acc', needs') ->
  Forall nosym acc -> Forall nosym acc' /\ length acc' <= length acc + length us.
Proof.
  induction us as [|e r IH]; intros maybe acc needs m' acc' needs' H Ha; cbn [collect_packed] in H.
  - injection H as <- <- <-. split; auto. cbn. lia.
  - cbn [length].
    destruct (logmode_eqb (log_mode_of (re_change (upd e))) LogOnly).
    { destruct (IH _ _ _ _ _ _ H Ha). split; auto. lia. }
    destruct (adjust_name (re_name (upd e))) as [n|].
    2:{ destruct (IH _ _ _ _ _ _ H Ha). split; auto. lia. }
    destruct maybe as [num|], (re_change (upd e)) as [l x [s|c]|x l] eqn:Ec;
      match type of H with
      | collect_packed _ _ (?a ++ [?x]) _ = _ =>
          assert (Hx : Forall nosym (a ++ [x]))
            by (apply Forall_app; split; [exact Ha|constructor; [unfold nosym; cbn [re_change]; rewrite ?Ec; exact I|constructor]]);
          destruct (IH _ _ _ _ _ _ H Hx) as [F L]; split; [exact F|rewrite app_length in L; cbn [length] in L; lia]
      | _ => destruct (IH _ _ _ _ _ _ H Ha) as [F L]; split; [exact F|lia]
      end.
Qed.

Record prepared_ok (st : store) (n0 : nat) (p : prepared) : Prop := mkPreparedOk {
  po_len : length (p_updates p) <= 5 * n0;
  po_deref : Forall noderef (p_updates p);
  po_packed : forall t, p_packed p = Some t ->
      pt_buffer t = packed st /\ Forall nosym (pt_edits t) /\ length (pt_edits t) <= 5 * n0 }.

Lemma prepare_packed_spec fuel draws st pmode pf us :
  ms_of pf + 2 <= fuel ->
  match prepare_packed fuel draws st pmode pf us with
  | Ok (Some t) => pt_buffer t = packed st /\ Forall nosym (pt_edits t) /\ length (pt_edits t) <= length us
  | Ok None => True
  | Err _ => True
  | Panic => False
  | OutOfFuel => False
  end.
Proof.
  intros Hf. unfold prepare_packed. rewrite !acquire_returns by exact Hf.
  destruct (collect_packed (match pmode with DeletionsOnly => None | _ => Some 0 end) us [] false)
    as [[maybe efp] needs] eqn:Ec.
  destruct (collect_packed_spec _ _ _ _ _ _ _ Ec (Forall_nil _)) as [Hn Hl]. cbn [length] in Hl.
  assert (Hfilter : forall buffer, Forall nosym (pt_edits (packed_prepare buffer efp))
                                   /\ length (pt_edits (packed_prepare buffer efp)) <= length us).
  { intros buffer. unfold packed_prepare. cbn [pt_edits]. split.
    - rewrite Forall_forall in *. intros x Hx. apply filter_In in Hx. apply Hn. tauto.
    - pose proof (filter_length_le' (fun e => if is_delete (re_change e)
                      then match buffer with
                           | None => true
                           | Some b => match packed_lookup b (re_name e) with Some _ => true | None => false end
                           end
                      else true) efp). lia. }
  destruct (_ || _ || _); [|exact I].
  destruct (negb _ || needs); [|exact I].
  destruct (Nat.ltb 0 _ || _).
  - cbn [obind]. destruct (negb (mem packed_lock_name (held st))); cbn [obind]; [|exact I].
    destruct (Hfilter (packed st)). repeat split; auto.
  - destruct (packed st) as [b|] eqn:Ep; cbn [obind]; [|exact I].
    destruct (negb (mem packed_lock_name (held st))); cbn [obind]; [|exact I].
    destruct (Hfilter (Some b)). repeat split; auto.
Qed.

Definition dn_of (edits : list refedit) : bool := existsb is_dn_u edits.
Lemma dn_of_ok edits : Forall (dn_ok (dn_of edits)) edits.
Proof.
  apply Forall_forall. intros u Hu Hd. unfold dn_of. apply existsb_exists. exists u. split; assumption.
Qed.

Lemma same_shape_noderef us us' : same_shape us us' -> Forall noderef us -> Forall noderef us'.
Proof.
  intros (_ & _ & Hd & _) H. unfold noderef in *.
  rewrite <- (Forall_map (fun e => re_deref (upd e)) (fun b => b = false)) in *. rewrite Hd. exact H.
Qed.
Lemma same_shape_length us us' : same_shape us us' -> length us' = length us.
Proof. intros (H & _). rewrite <- (map_length parent_index us'), H, map_length. reflexivity. Qed.

Theorem prepare_inner_spec fuel draws st pmode rf pf edits :
  fuel_bound st rf pf edits <= fuel ->
  match prepare_inner fuel draws st pmode rf pf edits with
  | Ok p => prepared_ok st (length edits) p
  | Err _ => True
  | Panic => dn_of edits = true
  | OutOfFuel => False
  end.
Proof.
  unfold fuel_bound. intros Hf. unfold prepare_inner.
  pose proof (pre_process_spec (dn_of edits) st fuel edits ltac:(lia) (dn_of_ok edits)) as S.
  fold (fresh edits).
  destruct (pre_process fuel st (fresh edits)) as [us| | |]; cbn [obind]; auto; try contradiction.
  destruct S as [R1 R2 R3 R4 R5].
  pose proof (prepare_packed_spec fuel draws st pmode pf us ltac:(lia)) as P.
  destruct (prepare_packed fuel draws st pmode pf us) as [ptxn| | |]; cbn [obind]; auto; try contradiction.
  match goal with |- context [apply_all ?n ?c ?f ?dr ?s ?m ?pb ?g ?d ?u] =>
    pose proof (apply_all_spec (dn_of edits) f dr s m pb g d n c u) as A end.
  cbn [Nat.add] in A. specialize (A eq_refl).
  assert (I0 : ainv (dn_of edits) 0 us).
  { constructor; auto.
    - cbn [skipn]. apply Forall_map. exact R3.
    - apply Forall_map. exact R4. }
  specialize (A I0 ltac:(lia) ltac:(lia)).
  match goal with |- context [apply_all ?n ?c ?f ?dr ?s ?m ?pb ?g ?d ?u] =>
    destruct (apply_all n c f dr s m pb g d u) as [us'| | |] end; cbn [obind]; auto.
  constructor; cbn [p_updates p_packed].
  - rewrite (same_shape_length _ _ A). exact R1.
  - eapply same_shape_noderef; eauto.
  - intros t Ht. subst ptxn. destruct P as (P1 & P2 & P3). repeat split; auto. lia.
Qed.

(* ---- commit ---- *)

Lemma insert_sorted_spec e : forall l, Forall nosym l -> nosym e ->
  Forall nosym (insert_sorted e l) /\ length (insert_sorted e l) = S (length l).
Proof.
  induction l as [|x r IH]; intros Hl He; cbn [insert_sorted].
  - split; [constructor; auto|reflexivity].
  - inversion Hl; subst. destruct (bytes_cmp (re_name e) (re_name x)).
    + destruct (IH H2 He). split; [constructor; auto|cbn [length]; lia].
    + split; [constructor; auto|reflexivity].
    + destruct (IH H2 He). split; [constructor; auto|cbn [length]; lia].
Qed.
Lemma sort_edits_spec l : Forall nosym l -> Forall nosym (sort_edits l) /\ length (sort_edits l) = length l.
Proof.
  unfold sort_edits.
  assert (G : forall l acc, Forall nosym l -> Forall nosym acc ->
            Forall nosym (fold_left (fun acc e => insert_sorted e acc) l acc)
            /\ length (fold_left (fun acc e => insert_sorted e acc) l acc) = length acc + length l).
  { clear l. induction l as [|e r IH]; intros acc Hl Ha; cbn [fold_left length].
    - split; auto.
    - inversion Hl; subst. destruct (insert_sorted_spec e acc Ha H1) as [F L].
      destruct (IH _ H2 F) as [F' L']. split; auto. lia. }
  intros H. destruct (G l [] H (Forall_nil _)). split; auto.
Qed.

Lemma edit_line_nosym e : nosym e -> exists l, edit_line e = Ok l.
Proof.
  unfold nosym, edit_line. destruct (re_change e) as [l x [s|c]|x l]; intros H; try contradiction; eexists; reflexivity.
Qed.

Lemma merge_loop_returns : forall fuel refs edits acc,
  Forall nosym edits -> length refs + length edits + 1 <= fuel ->
  exists l, merge_loop fuel refs edits acc = Ok l.
Proof.
  induction fuel as [|f IH]; intros refs edits acc Hn Hf; [lia|].
  cbn [merge_loop].
  destruct refs as [|pref refs'], edits as [|e edits']; cbn [length] in Hf.
  - eexists; reflexivity.
  - inversion Hn; subst. destruct (edit_line_nosym e H1) as [l ->]. cbn [obind]. apply IH; auto. cbn [length]. lia.
  - apply IH; auto. cbn [length]. lia.
  - inversion Hn; subst. destruct (bytes_cmp (fst pref) (re_name e)).
    + destruct (edit_line_nosym e H1) as [l ->]. cbn [obind]. apply IH; auto. lia.
    + apply IH; auto. cbn [length]. lia.
    + destruct (edit_line_nosym e H1) as [l ->]. cbn [obind]. apply IH; auto. cbn [length]. lia.
Qed.

Lemma commit_updates_returns d : forall us l,
  Forall noderef us -> exists us' l', commit_updates d us l = Ok (us', l') /\ length us' = length us.
Proof.
  induction us as [|e r IH]; intros l H; cbn [commit_updates].
  - do 2 eexists. split; reflexivity.
  - inversion H; subst. unfold noderef in H2. rewrite H2.
    destruct (re_change (upd e)) as [log x new|x log].
    + destruct (d && negb (is_sym new) && packable (name_of e)).
      * destruct (IH l H3) as [us' [l' [E L]]]. rewrite E. cbn [obind]. do 2 eexists. split; [reflexivity|cbn; lia].
      * destruct (IH (if logmode_eqb log AndRef && lock e then set_key (name_of e) new l else l) H3) as [us' [l' [E L]]].
        rewrite E. cbn [obind]. do 2 eexists. split; [reflexivity|cbn; lia].
    + destruct (IH l H3) as [us' [l' [E L]]]. rewrite E. cbn [obind]. do 2 eexists. split; [reflexivity|cbn; lia].
Qed.

Theorem commit_inner_returns fuel st pmode n0 p :
  prepared_ok st n0 p ->
  5 * n0 + length (match packed st with Some b => b | None => [] end) + 1 <= fuel ->
  returns (commit_inner fuel st pmode p).
Proof.
  intros [H1 H2 H3] Hf. unfold commit_inner.
  destruct (commit_updates_returns (match pmode with DeletionsAndUpdatesRemoveLoose => true | _ => false end)
              (p_updates p) (loose st) H2) as [us' [l' [E _]]].
  rewrite E. cbn [obind].
  destruct (p_packed p) as [t|] eqn:Et; [|cbn [obind]; exact I].
  destruct (H3 t eq_refl) as (B & N & L).
  unfold packed_commit.
  destruct (pt_edits t) as [|e0 r0] eqn:Ee; [cbn [obind]; exact I|].
  rewrite <- Ee in *.
  destruct (sort_edits_spec _ N) as [Ns Ls].
  destruct (merge_loop_returns fuel (match pt_buffer t with Some b => b | None => [] end) (sort_edits (pt_edits t)) [] Ns)
    as [lines ->].
  { rewrite Ls, B. lia. }
  cbn [obind]. destruct lines; [destruct (packed st)|]; cbn [obind]; exact I.
Qed.
