//! C17 — reference transactions terminate under lock contention.
//!
//! Case (fields are hex on the wire, shown decoded):
//!   txn <ref-fail-ms> <packed-fail-ms> <packed-mode 0|1|2> <loose> <packed> <locks> <edits> <commit 0|1>
//!     loose  : `name:target,...`        target = `@fullname` (symbolic) | one hex char c (object id c×40)
//!     packed : `` (no packed-refs file) | `=name:c,...` (file exists, sorted entries)
//!     locks  : `name,...`               `<name>.lock` is held by another party; `packed-refs` = packed-refs.lock
//!     edits  : `name:deref:K:expected:new:log,...`
//!              K = U|D, expected = A|E|N|M<target>|X<target>, new = target | `-`, log = R (AndReference) | L (Only)
//!   backoff <ms>     the deterministic back-off schedule `Exponential::default().until_no_remaining(ms)`
//!
//! Transcript of `txn`:
//!   P:ok <edits after prepare> L:<lock files while prepared> [C:ok|C:err <kind>] S:<loose>|<packed> K:<lock files afterwards>
//!   P:err <kind>[ <full_name>] S:<loose>|<packed> K:<lock files afterwards>
mod generate;

use gix_lock::acquire::Fail;
use gix_ref::{
    file,
    file::transaction::PackedRefs,
    transaction::{Change, LogChange, PreviousValue, RefEdit, RefLog},
    FullName, Target,
};
use gixv_common::{f_str, f_u64, main_with, Case, Harness, Verdict};
use std::path::{Path, PathBuf};
use std::sync::atomic::{AtomicU64, Ordering};
use std::time::Duration;

// ---------------------------------------------------------------- decoding of case text

fn s(b: &[u8]) -> String {
    String::from_utf8_lossy(b).into_owned()
}
fn split(b: &[u8], sep: u8) -> Vec<Vec<u8>> {
    if b.is_empty() {
        return vec![];
    }
    b.split(|c| *c == sep).map(|x| x.to_vec()).collect()
}
fn oid_of(c: u8) -> gix_hash::ObjectId {
    let hex: Vec<u8> = std::iter::repeat(c).take(40).collect();
    gix_hash::ObjectId::from_hex(&hex).expect("hex char")
}
fn is_hex_char(c: u8) -> bool {
    c.is_ascii_digit() || (b'a'..=b'f').contains(&c)
}
/// target text -> Target; None if not representable (then the case is skipped as malformed)
fn target_of(t: &[u8]) -> Option<Target> {
    if let Some(name) = t.strip_prefix(b"@") {
        Some(Target::Symbolic(FullName::try_from(s(name).as_str()).ok()?))
    } else if t.len() == 1 && is_hex_char(t[0]) {
        Some(Target::Object(oid_of(t[0])))
    } else {
        None
    }
}
fn target_text(t: &Target) -> String {
    match t {
        Target::Symbolic(n) => format!("@{}", s(n.as_bstr())),
        Target::Object(id) => oid_text(&id.to_hex().to_string()),
    }
}
fn oid_text(hex: &str) -> String {
    let b = hex.as_bytes();
    if b.len() == 40 && b.iter().all(|c| *c == b[0]) {
        (b[0] as char).to_string()
    } else {
        format!("?{hex}")
    }
}
fn expected_of(t: &[u8]) -> Option<PreviousValue> {
    Some(match t.first()? {
        b'A' if t.len() == 1 => PreviousValue::Any,
        b'E' if t.len() == 1 => PreviousValue::MustExist,
        b'N' if t.len() == 1 => PreviousValue::MustNotExist,
        b'M' => PreviousValue::MustExistAndMatch(target_of(&t[1..])?),
        b'X' => PreviousValue::ExistingMustMatch(target_of(&t[1..])?),
        _ => return None,
    })
}
fn expected_text(p: &PreviousValue) -> String {
    match p {
        PreviousValue::Any => "A".into(),
        PreviousValue::MustExist => "E".into(),
        PreviousValue::MustNotExist => "N".into(),
        PreviousValue::MustExistAndMatch(t) => format!("M{}", target_text(t)),
        PreviousValue::ExistingMustMatch(t) => format!("X{}", target_text(t)),
    }
}
fn log_of(t: &[u8]) -> Option<RefLog> {
    match t {
        b"R" => Some(RefLog::AndReference),
        b"L" => Some(RefLog::Only),
        _ => None,
    }
}
fn log_text(l: RefLog) -> &'static str {
    match l {
        RefLog::AndReference => "R",
        RefLog::Only => "L",
    }
}
fn edit_of(e: &[u8]) -> Option<RefEdit> {
    let p = split(e, b':');
    if p.len() != 6 {
        return None;
    }
    let name = FullName::try_from(s(&p[0]).as_str()).ok()?;
    let deref = match p[1].as_slice() {
        b"0" => false,
        b"1" => true,
        _ => return None,
    };
    let expected = expected_of(&p[3])?;
    let mode = log_of(&p[5])?;
    let change = match p[2].as_slice() {
        b"U" => Change::Update {
            log: LogChange { mode, force_create_reflog: false, message: "m".into() },
            expected,
            new: target_of(&p[4])?,
        },
        b"D" if p[4] == b"-" => Change::Delete { expected, log: mode },
        _ => return None,
    };
    Some(RefEdit { change, name, deref })
}
fn edit_text(e: &RefEdit) -> String {
    let (k, exp, new, log) = match &e.change {
        Change::Update { log, expected, new } => ("U", expected_text(expected), target_text(new), log_text(log.mode)),
        Change::Delete { expected, log } => ("D", expected_text(expected), "-".to_string(), log_text(*log)),
    };
    format!("{}:{}:{}:{}:{}:{}", s(e.name.as_bstr()), e.deref as u8, k, exp, new, log)
}
fn list_text(v: &[String]) -> String {
    if v.is_empty() {
        "-".into()
    } else {
        v.join(",")
    }
}

pub struct Txn {
    pub ref_fail: u64,
    pub packed_fail: u64,
    pub packed_mode: u64,
    pub loose: Vec<(Vec<u8>, Vec<u8>)>,
    pub packed: Option<Vec<(Vec<u8>, Vec<u8>)>>,
    pub locks: Vec<Vec<u8>>,
    pub edits: Vec<Vec<u8>>,
    pub commit: bool,
}
fn pairs(b: &[u8]) -> Option<Vec<(Vec<u8>, Vec<u8>)>> {
    split(b, b',')
        .into_iter()
        .map(|e| {
            let p = split(&e, b':');
            if p.len() == 2 {
                Some((p[0].clone(), p[1].clone()))
            } else {
                None
            }
        })
        .collect()
}
fn is_pseudo(n: &[u8]) -> bool {
    n.iter().all(|b| b.is_ascii_uppercase() || *b == b'_')
}
/// the names the model covers: all-caps pseudo refs, or `refs/…` over [A-Za-z0-9_/] without empty components
fn nice_name(n: &[u8]) -> bool {
    if n.is_empty() {
        return false;
    }
    if is_pseudo(n) {
        return true;
    }
    n.starts_with(b"refs/")
        && n.iter().all(|b| b.is_ascii_alphanumeric() || *b == b'_' || *b == b'/')
        && n.split(|b| *b == b'/').all(|c| !c.is_empty())
        // no `refs/X` or `refs/<cat>/X…` with an all-caps X: those are the short-name (DWIM) candidates of the
        // pseudo ref X in `find_one_with_verified_input` / `packed::Buffer::try_find`
        && !n.split(|b| *b == b'/').skip(1).take(2).any(is_pseudo)
}
fn nice_target(t: &[u8]) -> bool {
    match t.strip_prefix(b"@") {
        Some(n) => nice_name(n),
        None => t.len() == 1 && is_hex_char(t[0]),
    }
}
fn target_names(t: &[u8], out: &mut Vec<Vec<u8>>) {
    if let Some(n) = t.strip_prefix(b"@") {
        out.push(n.to_vec());
    }
}
pub fn parse_txn(c: &Case) -> Option<Txn> {
    let packed_f = f_str(c, 5);
    let t = Txn {
        ref_fail: f_u64(c, 1),
        packed_fail: f_u64(c, 2),
        packed_mode: match f_str(c, 3) {
            b"0" => 0,
            b"1" => 1,
            b"2" => 2,
            _ => return None,
        },
        loose: pairs(f_str(c, 4))?,
        packed: if packed_f.is_empty() { None } else { Some(pairs(packed_f.strip_prefix(b"=")?)?) },
        locks: split(f_str(c, 6), b','),
        edits: split(f_str(c, 7), b','),
        commit: f_str(c, 8) == b"1",
    };
    if t.ref_fail > 50 || t.packed_fail > 50 {
        return None;
    }
    let mut names: Vec<Vec<u8>> = Vec::new();
    for (n, v) in &t.loose {
        if !nice_name(n) || !nice_target(v) {
            return None;
        }
        names.push(n.clone());
        target_names(v, &mut names);
    }
    let loose_names: Vec<&Vec<u8>> = t.loose.iter().map(|(n, _)| n).collect();
    for (i, n) in loose_names.iter().enumerate() {
        if loose_names[..i].contains(n) {
            return None;
        }
    }
    if let Some(p) = &t.packed {
        for (n, v) in p {
            if !nice_name(n) || !n.starts_with(b"refs/") || v.len() != 1 || !is_hex_char(v[0]) {
                return None;
            }
            names.push(n.clone());
        }
        if !p.windows(2).all(|w| w[0].0 < w[1].0) {
            return None;
        }
    }
    for (i, l) in t.locks.iter().enumerate() {
        if !(l == b"packed-refs" || nice_name(l)) || t.locks[..i].contains(l) {
            return None;
        }
        if l != b"packed-refs" {
            names.push(l.clone());
        }
    }
    for e in &t.edits {
        let p = split(e, b':');
        if p.len() != 6 || !nice_name(&p[0]) {
            return None;
        }
        if !matches!(p[1].as_slice(), b"0" | b"1") || !matches!(p[5].as_slice(), b"R" | b"L") {
            return None;
        }
        let ex = &p[3];
        let ex_ok = matches!(ex.as_slice(), b"A" | b"E" | b"N")
            || ((ex.starts_with(b"M") || ex.starts_with(b"X")) && nice_target(&ex[1..]));
        if !ex_ok {
            return None;
        }
        match p[2].as_slice() {
            b"U" if nice_target(&p[4]) => {}
            b"D" if p[4] == b"-" => {}
            _ => return None,
        }
        names.push(p[0].clone());
        if ex.len() > 1 {
            target_names(&ex[1..], &mut names);
        }
        target_names(&p[4], &mut names);
    }
    for a in &names {
        let mut dir = a.clone();
        dir.push(b'/');
        if names.iter().any(|b| b.starts_with(&dir)) {
            return None;
        }
    }
    Some(t)
}

// ---------------------------------------------------------------- the store on disk

static COUNTER: AtomicU64 = AtomicU64::new(0);
struct TempDir(PathBuf);
impl TempDir {
    fn new() -> Self {
        let n = COUNTER.fetch_add(1, Ordering::Relaxed);
        // a memory-backed directory when there is one: the cases are thousands of tiny file operations and
        // the disk under the system temp dir is shared with many concurrent builds
        let shm = Path::new("/dev/shm");
        let base = if shm.is_dir() { shm.to_owned() } else { std::env::temp_dir() };
        let p = base.join(format!("gixv-c17-{}-{}", std::process::id(), n));
        let _ = std::fs::remove_dir_all(&p);
        std::fs::create_dir_all(p.join("refs")).expect("mkdir");
        TempDir(p)
    }
}
impl Drop for TempDir {
    fn drop(&mut self) {
        let _ = std::fs::remove_dir_all(&self.0);
    }
}
fn write_file(root: &Path, rel: &str, content: &[u8]) {
    let p = root.join(rel);
    if let Some(d) = p.parent() {
        std::fs::create_dir_all(d).expect("mkdir -p");
    }
    std::fs::write(p, content).expect("write");
}
fn content_of_target(t: &[u8]) -> Vec<u8> {
    if let Some(name) = t.strip_prefix(b"@") {
        [b"ref: ", name, b"\n"].concat()
    } else {
        let mut v: Vec<u8> = std::iter::repeat(t[0]).take(40).collect();
        v.push(b'\n');
        v
    }
}
fn build_store(root: &Path, t: &Txn) {
    for (name, target) in &t.loose {
        write_file(root, &s(name), &content_of_target(target));
    }
    if let Some(p) = &t.packed {
        let mut out = b"# pack-refs with: peeled fully-peeled sorted \n".to_vec();
        for (name, c) in p {
            out.extend(std::iter::repeat(c[0]).take(40));
            out.push(b' ');
            out.extend_from_slice(name);
            out.push(b'\n');
        }
        write_file(root, "packed-refs", &out);
    }
    for l in &t.locks {
        write_file(root, &format!("{}.lock", s(l)), b"");
    }
}
fn walk(root: &Path, dir: &Path, out: &mut Vec<PathBuf>) {
    if let Ok(rd) = std::fs::read_dir(dir) {
        for e in rd.flatten() {
            let p = e.path();
            if p.is_dir() {
                walk(root, &p, out);
            } else {
                out.push(p.strip_prefix(root).expect("prefix").to_owned());
            }
        }
    }
}
/// independent observation of the store: plain file reads, no gix code
fn observe(root: &Path) -> (Vec<String>, String, Vec<String>) {
    let (mut loose, packed, locks) = observe_raw(root);
    loose.sort_by(|a, b| a.0.as_bytes().cmp(b.0.as_bytes()));
    (loose.into_iter().map(|(n, t)| format!("{n}:{t}")).collect(), packed, locks)
}
fn observe_raw(root: &Path) -> (Vec<(String, String)>, String, Vec<String>) {
    let mut files = Vec::new();
    walk(root, root, &mut files);
    let mut loose = Vec::new();
    let mut locks = Vec::new();
    let mut packed = "~".to_string();
    for f in files {
        let rel = f.to_string_lossy().replace('\\', "/");
        if let Some(base) = rel.strip_suffix(".lock") {
            locks.push(base.to_string());
            continue;
        }
        let content = std::fs::read(root.join(&f)).unwrap_or_default();
        if rel == "packed-refs" {
            let mut entries = Vec::new();
            for line in content.split(|c| *c == b'\n') {
                if line.is_empty() || line[0] == b'#' || line[0] == b'^' {
                    continue;
                }
                let l = s(line);
                let (hex, name) = l.split_once(' ').unwrap_or((&l, "?"));
                entries.push(format!("{}:{}", name, oid_text(hex)));
            }
            packed = format!("={}", entries.join(","));
            continue;
        }
        if rel.starts_with("logs/") {
            continue;
        }
        let text = s(&content);
        let text = text.trim_end_matches('\n');
        let t = match text.strip_prefix("ref: ") {
            Some(n) => format!("@{n}"),
            None => oid_text(text),
        };
        loose.push((rel, t));
    }
    locks.sort_by(|a, b| a.as_bytes().cmp(b.as_bytes()));
    (loose, packed, locks)
}

struct AlwaysCommit;
impl gix_object::Find for AlwaysCommit {
    fn try_find<'a>(
        &self,
        _id: &gix_hash::oid,
        buffer: &'a mut Vec<u8>,
    ) -> Result<Option<gix_object::Data<'a>>, gix_object::find::Error> {
        buffer.clear();
        Ok(Some(gix_object::Data { kind: gix_object::Kind::Commit, data: &buffer[..] }))
    }
}

fn fail_of(ms: u64) -> Fail {
    if ms == 0 {
        Fail::Immediately
    } else {
        Fail::AfterDurationWithBackoff(Duration::from_millis(ms))
    }
}

fn prepare_err_text(e: &file::transaction::prepare::Error) -> String {
    use file::transaction::prepare::Error as E;
    match e {
        E::Packed(_) => "Packed".into(),
        E::PackedTransactionAcquire(_) => "PackedTransactionAcquire".into(),
        E::PackedTransactionPrepare(_) => "PackedTransactionPrepare".into(),
        E::PackedFind(_) => "PackedFind".into(),
        E::PreprocessingFailed(_) => "PreprocessingFailed".into(),
        E::LockAcquire { full_name, .. } => format!("LockAcquire {}", s(full_name)),
        E::Io(_) => "Io".into(),
        E::DeleteReferenceMustExist { .. } => "DeleteReferenceMustExist".into(),
        E::MustNotExist { .. } => "MustNotExist".into(),
        E::MustExist { .. } => "MustExist".into(),
        E::ReferenceOutOfDate { .. } => "ReferenceOutOfDate".into(),
        E::ReferenceDecode(_) => "ReferenceDecode".into(),
    }
}
fn commit_err_text(e: &file::transaction::commit::Error) -> String {
    use file::transaction::commit::Error as E;
    match e {
        E::PackedTransactionCommit(_) => "PackedTransactionCommit",
        E::PreprocessingFailed { .. } => "PreprocessingFailed",
        E::LockCommit { .. } => "LockCommit",
        E::DeleteReference { .. } => "DeleteReference",
        E::DeleteReflog { .. } => "DeleteReflog",
        E::CreateOrUpdateRefLog(_) => "CreateOrUpdateRefLog",
    }
    .into()
}

pub struct Observed {
    pub prepare: Result<Vec<String>, String>,
    pub locks_prepared: Vec<String>,
    pub commit: Option<Result<(), String>>,
    pub loose: Vec<String>,
    pub packed: String,
    pub locks_after: Vec<String>,
}

/// Cases that were started and never came back (the common harness abandons a worker thread that misses
/// the deadline; it keeps spinning). After `MAX_HUNG` of them the remaining transactions are not run any
/// more: the violation is established and every further hang would cost another deadline and another core.
static STARTED: AtomicU64 = AtomicU64::new(0);
static FINISHED: AtomicU64 = AtomicU64::new(0);
const MAX_HUNG: u64 = 4;
struct InFlight;
impl InFlight {
    fn enter() -> Option<InFlight> {
        if STARTED.load(Ordering::SeqCst) - FINISHED.load(Ordering::SeqCst) >= MAX_HUNG {
            return None;
        }
        STARTED.fetch_add(1, Ordering::SeqCst);
        Some(InFlight)
    }
}
impl Drop for InFlight {
    fn drop(&mut self) {
        FINISHED.fetch_add(1, Ordering::SeqCst); // also on unwind: a panic is not a hang
    }
}

/// Runs the transaction against the real code in a fresh directory. `None`: malformed case.
pub fn run_txn(t: &Txn) -> Option<Observed> {
    let edits: Vec<RefEdit> = t.edits.iter().map(|e| edit_of(e)).collect::<Option<_>>()?;
    let tmp = TempDir::new();
    let root = tmp.0.clone();
    build_store(&root, t);
    // file::Store is !Send: it is created here, inside the harness worker thread
    let store = file::Store::at(
        root.clone(),
        gix_ref::store::init::Options {
            write_reflog: gix_ref::store::WriteReflog::Disable,
            object_hash: gix_hash::Kind::Sha1,
            precompose_unicode: false,
            prohibit_windows_device_names: false,
        },
    );
    let packed_refs = match t.packed_mode {
        0 => PackedRefs::DeletionsOnly,
        1 => PackedRefs::DeletionsAndNonSymbolicUpdates(Box::new(AlwaysCommit)),
        2 => PackedRefs::DeletionsAndNonSymbolicUpdatesRemoveLooseSourceReference(Box::new(AlwaysCommit)),
        _ => return None,
    };
    let mut o = Observed {
        prepare: Err(String::new()),
        locks_prepared: vec![],
        commit: None,
        loose: vec![],
        packed: String::new(),
        locks_after: vec![],
    };
    match store
        .transaction()
        .packed_refs(packed_refs)
        .prepare(edits, fail_of(t.ref_fail), fail_of(t.packed_fail))
    {
        Err(e) => o.prepare = Err(prepare_err_text(&e)),
        Ok(txn) => {
            o.locks_prepared = observe(&root).2;
            if t.commit {
                match txn.commit(None) {
                    Ok(edits) => {
                        o.prepare = Ok(edits.iter().map(edit_text).collect());
                        o.commit = Some(Ok(()));
                    }
                    Err(e) => {
                        o.prepare = Ok(vec!["?".into()]);
                        o.commit = Some(Err(commit_err_text(&e)));
                    }
                }
            } else {
                o.prepare = Ok(txn.rollback().iter().map(edit_text).collect());
            }
        }
    }
    drop(store);
    let (loose, packed, locks) = observe(&root);
    o.loose = loose;
    o.packed = packed;
    o.locks_after = locks;
    Some(o)
}

fn transcript(o: &Observed) -> String {
    let mut out = String::new();
    match &o.prepare {
        Ok(edits) => {
            out.push_str(&format!("P:ok {} L:{}", list_text(edits), list_text(&o.locks_prepared)));
            match &o.commit {
                Some(Ok(())) => out.push_str(" C:ok"),
                Some(Err(e)) => {
                    out.push_str(&format!(" C:err {e} S:?"));
                    return out;
                }
                None => {}
            }
        }
        Err(e) => out.push_str(&format!("P:err {e}")),
    }
    out.push_str(&format!(" S:{}|{} K:{}", list_text(&o.loose), o.packed, list_text(&o.locks_after)));
    out
}

fn backoff_schedule(ms: u64) -> Vec<u64> {
    gix_utils::backoff::Exponential::default()
        .until_no_remaining(Duration::from_millis(ms))
        .map(|d| d.as_millis() as u64)
        .collect()
}

fn imp(c: &Case) -> String {
    match f_str(c, 0) {
        b"txn" => {
            let _in_flight = match InFlight::enter() {
                Some(g) => g,
                None => return "HANG-SKIPPED (earlier cases never returned)".into(),
            };
            match parse_txn(c).and_then(|t| run_txn(&t)) {
                Some(o) => transcript(&o),
                None => "malformed".into(),
            }
        }
        b"backoff" => {
            let ms = f_u64(c, 1);
            if ms > 100_000 {
                return "malformed".into();
            }
            let v: Vec<String> = backoff_schedule(ms).iter().map(|w| w.to_string()).collect();
            format!("sched {}", list_text(&v))
        }
        _ => "?".into(),
    }
}

// ---------------------------------------------------------------- the property itself

/// Every ref reachable from `name` by following symbolic loose refs (plain linear scan, bounded).
fn reachable(t: &Txn, name: &[u8]) -> Vec<Vec<u8>> {
    let mut out = vec![name.to_vec()];
    let mut cur = name.to_vec();
    for _ in 0..64 {
        match t.loose.iter().find(|(n, _)| *n == cur) {
            Some((_, target)) if target.starts_with(b"@") => {
                cur = target[1..].to_vec();
                if out.contains(&cur) {
                    break;
                }
                out.push(cur.clone());
            }
            _ => break,
        }
    }
    out
}

/// The property, evaluated on the implementation only: the call returned (the common harness turns a
/// missed deadline into FAIL hang and a panic into FAIL panic), nothing of ours stays locked, a failed
/// prepare changed nothing, and a reported lock failure is explained by a lock that really is held.
fn loose_before(t: &Txn) -> Vec<String> {
    let mut v: Vec<&(Vec<u8>, Vec<u8>)> = t.loose.iter().collect();
    v.sort_by(|a, b| a.0.cmp(&b.0));
    v.iter().map(|(n, v)| format!("{}:{}", s(n), s(v))).collect()
}

fn prop(c: &Case) -> Verdict {
    match f_str(c, 0) {
        b"txn" => {}
        b"backoff" => {
            // the schedule is finite, strictly positive, and stops right after exceeding the budget
            let ms = f_u64(c, 1);
            if ms > 100_000 {
                return Verdict::ok(false, "malformed");
            }
            let v = backoff_schedule(ms);
            let mut sum = 0u64;
            for (i, w) in v.iter().enumerate() {
                if *w == 0 {
                    return Verdict::fail("backoff-zero-wait", format!("wait {i} is zero"));
                }
                if sum > ms {
                    return Verdict::fail("backoff-overrun", format!("wait {i} after budget {ms} was exceeded"));
                }
                sum += w;
            }
            if sum <= ms {
                return Verdict::fail("backoff-short", format!("sum {sum} <= {ms}"));
            }
            return Verdict::ok(true, "backoff");
        }
        _ => return Verdict::ok(false, "unknown-op"),
    }
    let t = match parse_txn(c) {
        Some(t) => t,
        None => return Verdict::ok(false, "malformed"),
    };
    // `Change::Delete { expected: MustNotExist }` is documented as invalid input ("with the `MustNotExist`
    // variant being invalid") and answered with an explicit panic: outside the property's domain
    if t.edits.iter().any(|e| {
        let p = split(e, b':');
        p.len() == 6 && p[2] == b"D" && p[3] == b"N"
    }) {
        return Verdict::ok(false, "documented-invalid-delete");
    }
    let _in_flight = match InFlight::enter() {
        Some(g) => g,
        None => return Verdict::ok(false, "skipped-after-hangs"),
    };
    let started = std::time::Instant::now();
    let o = match run_txn(&t) {
        Some(o) => o,
        None => return Verdict::ok(false, "malformed"),
    };
    let elapsed = started.elapsed();
    let mut pre_locks: Vec<String> = t.locks.iter().map(|l| s(l)).collect();
    pre_locks.sort();
    pre_locks.dedup();
    if o.locks_after != pre_locks {
        return Verdict::fail("lock-leak", format!("locks before {:?}, after {:?}", pre_locks, o.locks_after));
    }
    let mut involved: Vec<Vec<u8>> = Vec::new();
    let mut roots: Vec<Vec<u8>> = Vec::new();
    for e in &t.edits {
        let p = split(e, b':');
        roots.push(p[0].clone());
        if p[1] == b"1" {
            involved.extend(reachable(&t, &p[0]));
        } else {
            involved.push(p[0].clone());
        }
    }
    let contended = involved.iter().any(|n| t.locks.contains(n)) || t.locks.iter().any(|l| l == b"packed-refs");
    // bounded time: the back-off budget is spent at most once per involved lock, plus slack for a loaded machine
    let budget = Duration::from_millis((t.ref_fail + t.packed_fail) * (involved.len() as u64 + 2)) + Duration::from_secs(10);
    if elapsed > budget {
        return Verdict::fail("slow", format!("{elapsed:?} > {budget:?}"));
    }
    match &o.prepare {
        Err(e) => {
            // a failed prepare leaves the store exactly as it was
            let want = loose_before(&t);
            if o.loose != want {
                return Verdict::fail("failed-prepare-changed-refs", format!("{:?} vs {:?}", o.loose, want));
            }
            if let Some(name) = e.strip_prefix("LockAcquire ") {
                if !involved.iter().any(|n| t.locks.contains(n)) {
                    return Verdict::fail("spurious-lock-failure", format!("{e} but no involved lock is held"));
                }
                if !roots.iter().any(|r| s(r) == name) {
                    return Verdict::fail("lock-failure-names-foreign-ref", format!("{e}: not the name of a given edit"));
                }
                return Verdict::ok(true, "lock-failure");
            }
            if e == "PackedTransactionAcquire" {
                if !t.locks.iter().any(|l| l == b"packed-refs") {
                    return Verdict::fail("spurious-lock-failure", "packed-refs.lock is not held".to_string());
                }
                return Verdict::ok(true, "packed-lock-failure");
            }
            // the split loop giving up after five rounds (cycles, long chains) or refusing duplicates is one of
            // the loops the property is about
            Verdict::ok(contended || e == "PreprocessingFailed", format!("err-{e}"))
        }
        Ok(_) => {
            // exclusion: whatever changed on disk was not locked by the other party
            let before = loose_before(&t);
            let name_of = |e: &String| e.split(':').next().unwrap_or("").to_string();
            for e in o.loose.iter().filter(|e| !before.contains(e)).chain(before.iter().filter(|e| !o.loose.contains(e))) {
                if pre_locks.contains(&name_of(e)) {
                    // not part of C17 (termination): with a packed-refs transaction open, per-ref locks are
                    // skipped for deletions (`has_global_lock`), so a ref can change under a foreign lock.
                    // Recorded as a class of its own for the evidence histogram; see NOTES.md.
                    return Verdict::ok(true, "note-changed-under-foreign-ref-lock");
                }
            }
            let packed_before = match &t.packed {
                None => "~".to_string(),
                Some(p) => format!("={}", p.iter().map(|(n, v)| format!("{}:{}", s(n), s(v))).collect::<Vec<_>>().join(",")),
            };
            if o.packed != packed_before && pre_locks.iter().any(|l| l == "packed-refs") {
                return Verdict::fail("changed-locked-packed-refs", format!("{} -> {}", packed_before, o.packed));
            }
            if o.commit.is_none() && (o.loose != before || o.packed != packed_before) {
                return Verdict::fail("rollback-changed-refs", format!("{:?} vs {:?}", o.loose, before));
            }
            let split_happened = o.prepare.as_ref().map_or(false, |e| e.len() > t.edits.len());
            match &o.commit {
                Some(Err(e)) => Verdict::ok(contended, format!("commit-err-{e}")),
                Some(Ok(())) => Verdict::ok(contended || t.edits.len() > 1 || split_happened, "committed"),
                None => Verdict::ok(contended || t.edits.len() > 1 || split_happened, "prepared"),
            }
        }
    }
}

fn main() {
    main_with(Harness {
        gen: generate::gen,
        imp,
        prop,
        git: None,
        deadline: Duration::from_secs(6),
    });
}
