//! Case generator: small ref stores (HEAD symbolic, a few branches, symbolic chains and cycles, optional
//! packed-refs), random held `*.lock` files, random transactions.
use gixv_common::{num, tag, Case, Rng};

pub const NAMES: &[&str] = &[
    "HEAD",
    "refs/heads/main",
    "refs/heads/a",
    "refs/heads/b",
    "refs/heads/s",
    "refs/heads/s2",
    "refs/heads/s3",
    "refs/heads/s4",
    "refs/heads/s5",
    "refs/heads/s6",
    "refs/tags/t",
    "refs/remotes/o/HEAD",
    "refs/remotes/o/main",
    "ORIG_HEAD",
];
const OIDS: &[&str] = &["1", "2", "3"];

pub fn txn(
    ref_fail: u64,
    packed_fail: u64,
    mode: u64,
    loose: &str,
    packed: &str,
    locks: &str,
    edits: &str,
    commit: bool,
) -> Case {
    vec![
        tag("txn"),
        num(ref_fail),
        num(packed_fail),
        num(mode),
        loose.as_bytes().to_vec(),
        packed.as_bytes().to_vec(),
        locks.as_bytes().to_vec(),
        edits.as_bytes().to_vec(),
        num(commit as u8),
    ]
}

fn boundary() -> Vec<Case> {
    let mut v = Vec::new();
    let head_main = "HEAD:@refs/heads/main,refs/heads/main:1";
    // the witness of the parent-chain walk: lock of the referent held, deref update through HEAD
    v.push(txn(0, 0, 0, head_main, "", "refs/heads/main", "HEAD:1:U:A:2:R", false));
    v.push(txn(0, 0, 0, head_main, "", "refs/heads/main", "HEAD:1:D:A:-:R", false));
    v.push(txn(5, 5, 0, head_main, "", "refs/heads/main", "HEAD:1:U:A:2:R", true));
    // two-level chain, lock on the leaf / on the middle / on the root
    let chain2 = "HEAD:@refs/heads/s,refs/heads/s:@refs/heads/main,refs/heads/main:1";
    for l in ["refs/heads/main", "refs/heads/s", "HEAD", ""] {
        v.push(txn(0, 0, 0, chain2, "", l, "HEAD:1:U:A:2:R", true));
        v.push(txn(0, 0, 0, chain2, "", l, "refs/heads/a:0:U:A:3:R,HEAD:1:U:A:2:R", true));
    }
    // chains of length 4, 5, 6 (the split loop gives up after five rounds), and cycles
    let c4 = "refs/heads/s:@refs/heads/s2,refs/heads/s2:@refs/heads/s3,refs/heads/s3:@refs/heads/s4,refs/heads/s4:@refs/heads/main,refs/heads/main:1";
    let c5 = "refs/heads/s:@refs/heads/s2,refs/heads/s2:@refs/heads/s3,refs/heads/s3:@refs/heads/s4,refs/heads/s4:@refs/heads/s5,refs/heads/s5:@refs/heads/main,refs/heads/main:1";
    let c6 = "refs/heads/s:@refs/heads/s2,refs/heads/s2:@refs/heads/s3,refs/heads/s3:@refs/heads/s4,refs/heads/s4:@refs/heads/s5,refs/heads/s5:@refs/heads/s6,refs/heads/s6:@refs/heads/main,refs/heads/main:1";
    for c in [c4, c5, c6] {
        for l in ["", "refs/heads/main", "refs/heads/s4", "refs/heads/s3"] {
            v.push(txn(0, 0, 0, c, "", l, "refs/heads/s:1:U:A:2:R", true));
        }
    }
    v.push(txn(0, 0, 0, "refs/heads/a:@refs/heads/b,refs/heads/b:@refs/heads/a", "", "", "refs/heads/a:1:U:A:2:R", true));
    v.push(txn(0, 0, 0, "refs/heads/a:@refs/heads/a", "", "refs/heads/a", "refs/heads/a:1:U:A:2:R", true));
    // direct edits, held lock, every expectation
    for e in ["A", "E", "N", "M1", "M2", "X1", "X2", "M@refs/heads/a"] {
        for l in ["", "refs/heads/main"] {
            v.push(txn(0, 0, 0, head_main, "", l, &format!("refs/heads/main:0:U:{e}:2:R"), true));
            v.push(txn(0, 0, 0, head_main, "", l, &format!("refs/heads/b:0:U:{e}:2:R"), true));
            if e != "N" {
                v.push(txn(0, 0, 0, head_main, "", l, &format!("refs/heads/main:0:D:{e}:-:R"), true));
                v.push(txn(0, 0, 0, head_main, "", l, &format!("refs/heads/b:0:D:{e}:-:R"), true));
            }
        }
    }
    // packed-refs present / locked
    let packed = "=refs/heads/a:2,refs/heads/main:3,refs/tags/t:1";
    for l in ["", "packed-refs", "refs/heads/a", "packed-refs,refs/heads/a"] {
        for m in [0u64, 1, 2] {
            v.push(txn(0, 0, m, head_main, packed, l, "refs/heads/a:0:D:A:-:R", true));
            v.push(txn(0, 0, m, head_main, packed, l, "refs/heads/a:0:U:M2:1:R", true));
            v.push(txn(0, 0, m, head_main, packed, l, "HEAD:1:U:A:2:R", true));
            v.push(txn(0, 0, m, head_main, "", l, "refs/heads/a:0:U:A:1:R", true));
            v.push(txn(0, 3, m, head_main, "=refs/tags/t:1", l, "refs/tags/t:0:D:A:-:R,refs/heads/b:0:U:N:@refs/heads/main:R", true));
        }
    }
    // duplicate names, no edits at all, log-only edits
    v.push(txn(0, 0, 0, head_main, "", "", "refs/heads/a:0:U:A:1:R,refs/heads/a:0:U:A:2:R", true));
    v.push(txn(0, 0, 0, head_main, "", "", "HEAD:1:U:A:2:R,refs/heads/main:0:U:A:3:R", true));
    v.push(txn(0, 0, 0, head_main, "", "HEAD", "", true));
    v.push(txn(0, 0, 0, head_main, packed, "refs/heads/main", "refs/heads/main:0:U:A:2:L", true));
    for ms in [0u64, 1, 2, 3, 4, 5, 9, 10, 16, 17, 25, 26, 100, 1000, 1001, 5000, 20000] {
        v.push(vec![tag("backoff"), num(ms)]);
    }
    v
}

fn target(rng: &mut Rng, sym_num: u64) -> String {
    if rng.chance(sym_num, 100) {
        format!("@{}", rng.pick(NAMES))
    } else {
        rng.pick(OIDS).to_string()
    }
}

fn random_txn(rng: &mut Rng, allow_delete_must_not_exist: bool) -> Case {
    // --- store
    let mut loose: Vec<(String, String)> = Vec::new();
    let flavour = rng.below(10);
    if rng.chance(85, 100) {
        loose.push(("HEAD".into(), if rng.chance(85, 100) { "@refs/heads/main".into() } else { target(rng, 50) }));
    }
    if flavour < 3 {
        // a symbolic chain s -> s2 -> ... -> main of random length
        let n = rng.range(1, 6) as usize;
        let chain = ["refs/heads/s", "refs/heads/s2", "refs/heads/s3", "refs/heads/s4", "refs/heads/s5", "refs/heads/s6"];
        for i in 0..n {
            let next = if i + 1 < n { chain[i + 1] } else { "refs/heads/main" };
            loose.push((chain[i].into(), format!("@{next}")));
        }
        if rng.chance(1, 2) {
            loose[0].1 = "@refs/heads/s".into();
        }
    }
    for name in &NAMES[1..] {
        if loose.iter().any(|(n, _)| n == name) {
            continue;
        }
        let p = if *name == "refs/heads/main" { 80 } else { 35 };
        if rng.chance(p, 100) {
            let sym = if name.ends_with("HEAD") { 70 } else { 12 };
            loose.push((name.to_string(), target(rng, sym)));
        }
    }
    let packed = if rng.chance(45, 100) {
        let mut v: Vec<String> = Vec::new();
        let mut names: Vec<&str> = NAMES.iter().copied().filter(|n| n.starts_with("refs/")).collect();
        names.sort();
        for n in names {
            if rng.chance(35, 100) {
                v.push(format!("{}:{}", n, rng.pick(OIDS)));
            }
        }
        format!("={}", v.join(","))
    } else {
        String::new()
    };
    // --- edits
    let n_edits = match rng.below(20) {
        0 => 0,
        1..=7 => 1,
        8..=13 => 2,
        14..=17 => 3,
        _ => 4,
    };
    let mut edits: Vec<String> = Vec::new();
    let mut used: Vec<&str> = Vec::new();
    for _ in 0..n_edits {
        let mut name = *rng.pick(NAMES);
        if rng.chance(35, 100) {
            name = "HEAD";
        }
        if used.contains(&name) && rng.chance(9, 10) {
            continue;
        }
        used.push(name);
        let deref = rng.chance(65, 100);
        let current = loose.iter().find(|(n, _)| n == name).map(|(_, t)| t.clone());
        let expected = match rng.below(16) {
            12..=15 => "A".to_string(),
            0..=4 => "A".to_string(),
            5 => "E".to_string(),
            6 => "N".to_string(),
            7 | 8 => format!("M{}", if rng.chance(2, 3) { current.clone().unwrap_or_else(|| "1".into()) } else { target(rng, 10) }),
            _ => format!("X{}", if rng.chance(2, 3) { current.clone().unwrap_or_else(|| "2".into()) } else { target(rng, 10) }),
        };
        let log = if rng.chance(88, 100) { "R" } else { "L" };
        if rng.chance(30, 100) {
            let expected = if expected == "N" && !allow_delete_must_not_exist { "A".to_string() } else { expected };
            edits.push(format!("{name}:{}:D:{expected}:-:{log}", deref as u8));
        } else {
            edits.push(format!("{name}:{}:U:{expected}:{}:{log}", deref as u8, target(rng, 15)));
        }
    }
    // --- locks held by the other party: mostly on refs the transaction touches
    let mut locks: Vec<String> = Vec::new();
    if rng.chance(90, 100) {
        for name in NAMES {
            let involved = used.contains(name) || loose.iter().any(|(_, t)| t.strip_prefix('@') == Some(*name));
            let p = if involved { 50 } else { 6 };
            if rng.chance(p, 100) {
                locks.push(name.to_string());
            }
        }
        if rng.chance(20, 100) {
            locks.push("packed-refs".into());
        }
    }
    let mode = match rng.below(10) {
        0..=5 => 0,
        6 | 7 => 1,
        _ => 2,
    };
    let ref_fail = if rng.chance(85, 100) { 0 } else { rng.range(1, 12) as u64 };
    let packed_fail = if rng.chance(85, 100) { 0 } else { rng.range(1, 12) as u64 };
    let loose_s: Vec<String> = loose.iter().map(|(n, t)| format!("{n}:{t}")).collect();
    txn(
        ref_fail,
        packed_fail,
        mode,
        &loose_s.join(","),
        &packed,
        &locks.join(","),
        &edits.join(","),
        rng.chance(65, 100),
    )
}

fn malformed(rng: &mut Rng) -> Case {
    let mut c = random_txn(rng, true);
    let i = rng.range(1, 8) as usize;
    match rng.below(3) {
        0 => {
            let n = c[i].len();
            if n > 0 {
                let at = rng.below(n as u64) as usize;
                c[i][at] = *rng.pick(b":,@=-x1U");
            }
        }
        1 => {
            let n = c[i].len();
            c[i].truncate(rng.below(n as u64 + 1) as usize);
        }
        _ => c[i] = rng.word(b":,@A1U0R-", 0, 8),
    }
    c
}

pub fn gen(rng: &mut Rng, n: usize) -> Vec<Case> {
    let mut v = boundary();
    v.truncate(n);
    while v.len() < n {
        let r = rng.below(100);
        let c = if r < 90 {
            random_txn(rng, false)
        } else if r < 93 {
            {
            let top = if rng.chance(1, 10) { 30000 } else { 400 };
            vec![tag("backoff"), num(rng.below(top))]
        }
        } else {
            malformed(rng)
        };
        v.push(c);
    }
    v
}
